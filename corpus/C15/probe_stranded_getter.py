"""Replay of the Lean witness `abandon_can_strand_getter` on the real generator_to_async_generator.
Threads are scheduled with a trace function (no source change): the first blocking q.get is held back
until the producer has found the queue full while putting `_Done`; the producer is held between
`except Full:` and `if quitting:`; meanwhile the consumer empties the queue, waits in a second q.get
job and is cancelled.  The producer then returns without `_Done`; the second q.get job stays blocked."""
import asyncio, sys, threading, time, inspect, traceback
sys.path.insert(0, "/repo/src")
from prompt_toolkit.eventloop import async_generator as ag

hold_get = threading.Event(); get_held = threading.Event(); gets = [0]
hold_prod = threading.Event(); prod_held = threading.Event()
src_lines, first = inspect.getsourcelines(ag.generator_to_async_generator)
target = max(first + i for i, l in enumerate(src_lines) if l.strip() == "if quitting:")
main_ident = threading.get_ident()

def tracer(frame, event, arg):
    name = frame.f_code.co_name
    if name == "get" and frame.f_code.co_filename.endswith("queue.py") and threading.get_ident() != main_ident:
        gets[0] += 1
        if gets[0] == 1:
            get_held.set(); hold_get.wait(20)
        return None
    if name != "runner":
        return None
    sys.stderr.write("producer thread traced\n")
    def local(frame, event, arg):
        if event == "line" and frame.f_lineno == target and not prod_held.is_set():
            prod_held.set(); hold_prod.wait(20)
        return local
    return local

def items():
    yield "item0"

async def wait_for(ev, what):
    for _ in range(3000):
        if ev.is_set():
            return
        await asyncio.sleep(0.01)
    raise SystemExit("timeout waiting for " + what)

async def main():
    threading.settrace(tracer)
    agen = ag.generator_to_async_generator(items, buffer_size=1)
    got = []
    async def consumer():
        async for x in agen:
            got.append(x)
    t = asyncio.ensure_future(consumer())
    await wait_for(get_held, "first q.get job")          # consumer waits in q.get job #1 (held back)
    await wait_for(prod_held, "producer at Full")         # item0 queued, put(_Done) -> Full (1 s) -> held
    hold_get.set()                                        # job #1 takes item0; consumer loops: Empty -> job #2
    for _ in range(300):
        await asyncio.sleep(0.01)
        if got and gets[0] >= 2:
            break
    print("received:", got, "q.get jobs started:", gets[0])
    t.cancel()                                            # CancelledError -> finally: quitting = True; await runner_f
    await asyncio.sleep(0.05)
    hold_prod.set()                                       # producer: `if quitting: return`  (no _Done)
    try:
        await t
    except asyncio.CancelledError:
        print("consumer task ended (cancelled); producer thread has returned")
    threading.settrace(None)
    await asyncio.sleep(0.3)
    n = 0
    for th in threading.enumerate():
        fr = sys._current_frames().get(th.ident)
        st = traceback.extract_stack(fr) if fr else []
        if any(f.name == "get" and f.filename.endswith("queue.py") for f in st):
            n += 1
            print("thread", th.name, "is still blocked in Queue.get")
    return n

n = asyncio.new_event_loop().run_until_complete(asyncio.wait_for(main(), 90))
print("stranded q.get threads:", n)
import os; os._exit(0)
