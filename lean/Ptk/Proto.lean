/-
  Line protocol shared by all drivers.
  One request per line: space separated tokens.  Integers are decimal
  (optionally negative); strings are `s:` followed by comma separated decimal
  code points (`s:` is the empty string).  One reply line per request.
-/
import Ptk.Py
namespace Ptk.Proto
open Ptk.Py

def decStr (tok : String) : Option Text :=
  if !tok.startsWith "s:" then none else
  let body := (tok.drop 2).toString
  if body.isEmpty then some [] else
  (body.splitOn ",").mapM fun p => p.toNat?.map Char.ofNat

def encStr (t : Text) : String :=
  "s:" ++ ",".intercalate (t.map fun c => toString c.toNat)

def decInt (tok : String) : Option Int := tok.toInt?
def decNat (tok : String) : Option Nat := tok.toNat?
def decBool (tok : String) : Option Bool :=
  if tok == "1" then some true else if tok == "0" then some false else none

def encInt (i : Int) : String := toString i
def encBool (b : Bool) : String := if b then "1" else "0"
def encOptInt : Option Int → String
  | none => "N"
  | some i => toString i
def decOptInt (tok : String) : Option (Option Int) :=
  if tok == "N" then some none else tok.toInt?.map some

def encList (f : α → String) (l : List α) : String :=
  toString l.length ++ (l.foldl (fun acc a => acc ++ " " ++ f a) "")

partial def loop (h : IO.FS.Stream) (out : IO.FS.Stream)
    (handle : List String → String) : IO Unit := do
  let line ← h.getLine
  if line.isEmpty then return ()
  let line := if line.endsWith "\n" then (line.dropEnd 1).toString else line
  out.putStrLn (handle (line.splitOn " "))
  loop h out handle

/-- Stateless driver main loop. -/
def run (handle : List String → String) : IO Unit := do
  let i ← IO.getStdin
  let o ← IO.getStdout
  loop i o handle
  o.flush

partial def loopS {σ : Type} (h : IO.FS.Stream) (out : IO.FS.Stream)
    (step : σ → List String → σ × String) (s : σ) : IO Unit := do
  let line ← h.getLine
  if line.isEmpty then return ()
  let line := if line.endsWith "\n" then (line.dropEnd 1).toString else line
  let (s', r) := step s (line.splitOn " ")
  out.putStrLn r
  loopS h out step s'

/-- Stateful driver main loop. -/
def runS {σ : Type} (step : σ → List String → σ × String) (init : σ) : IO Unit := do
  let i ← IO.getStdin
  let o ← IO.getStdout
  loopS i o step init
  o.flush

end Ptk.Proto
