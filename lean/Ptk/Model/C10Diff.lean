/-
  C10 — `_output_screen_diff` (renderer.py) and the emitters of `Vt100_Output` (output/vt100.py).

  `diff` produces the list of calls made on the output object (`Ev`); `vtSegs` turns them into
  the pieces a real `Vt100_Output` appends to its buffer, tagged with their origin.  The
  style → attrs → escape-code functions are parameters (C19's domain).
-/
import Ptk.Model.C10Copy
namespace Ptk.C10
open Ptk.Py

/-- calls on the output object -/
inductive Ev
  | cell (t : CText)       -- `write(char.char)` in `output_char`
  | cr                     -- `write("\r")`
  | nl (k : Nat)           -- `write("\r\n" * k)`
  | raw (t : CText)        -- `write_raw(zero_width_escapes_row[c])`
  | hideCursor | showCursor | resetAttrs
  | setAttrs (a : Nat)
  | fwd (n : Nat) | back (n : Nat) | up (n : Nat)
  | eraseDown | eraseEol | disableWrap | enableWrap
deriving DecidableEq, Repr

structure Screen where
  buf : Buf
  zwe : Zwe
  dflt : Cell
  height : Nat
  /-- `screen.get_cursor_position(app.layout.current_window)` as (x, y) -/
  cursor : Nat × Nat
  showCursor : Bool

/-- diff state: `current_pos` (x, y), `last_style`, the calls so far (newest first) -/
structure DS where
  x : Nat
  y : Nat
  last : Option Text
  evs : List Ev

def DS.emit (s : DS) (e : Ev) : DS := { s with evs := e :: s.evs }
def DS.setPos (s : DS) (x y : Nat) : DS := { s with x := x, y := y }
def DS.setLast (s : DS) (l : Option Text) : DS := { s with last := l }

/-- the closure `reset_attributes()` -/
def resetAttributes (s : DS) : DS := (s.emit .resetAttrs).setLast none

/-- the closure `move_cursor(new)`; `width` = `size.columns` -/
def moveCursor (width : Nat) (s : DS) (nx ny : Nat) : DS :=
  if ny > s.y then
    (((resetAttributes s).emit (.nl (ny - s.y))).emit (.fwd nx)).setPos nx ny
  else
    let s1 := if ny < s.y then s.emit (.up (s.y - ny)) else s
    let s2 :=
      if (s.x : Int) ≥ (width : Int) - 1 then (s1.emit .cr).emit (.fwd nx)
      else if nx < s.x then s1.emit (.back (s.x - nx))
      else if nx > s.x then s1.emit (.fwd (nx - s.x))
      else s1
    s2.setPos nx ny

/-- the closure `output_char(char)`; `not last_style` is true for `None` and for `""` -/
def outputChar (attrsOf : Text → Nat) (s : DS) (c : Cell) : DS :=
  if s.last = some c.style then s.emit (.cell c.char)
  else
    let a := attrsOf c.style
    let lastFalsy := match s.last with | none => true | some l => l.isEmpty
    let s1 := if lastFalsy || a != attrsOf (s.last.getD []) then s.emit (.setAttrs a) else s
    (s1.emit (.cell c.char)).setLast (some c.style)

/-- x coordinates that are keys of row `y` (duplicates are harmless) -/
def rowKeys (b : Buf) (y : Int) : List Int := (b.filter fun pc => pc.1.1 = y).map (·.1.2)

/-- `get_max_column_index(row)` -/
def maxColumnIndex (hasStyle : Text → Bool) (b : Buf) (d : Cell) (y : Int) : Int :=
  (rowKeys b y).foldl (fun acc x =>
    let c := bufGet b d (y, x)
    if c.char ≠ [32] || hasStyle c.style then (if acc.isNone then some x else some (max (acc.getD 0) x)) else acc)
    none |>.getD 0

structure DiffCfg where
  attrsOf : Text → Nat
  hasStyle : Text → Bool
  width : Nat
  height : Nat

/-- the body of `if new_char.char != old_char.char or new_char.style != old_char.style:` -/
def drawCell (cfg : DiffCfg) (scr : Screen) (y c : Nat) (nc : Cell) (cw : Nat) (s : DS) : DS :=
  let s := moveCursor cfg.width s c y
  let s := match zweFind? scr.zwe ((y : Int), (c : Int)) with
    | some t => s.emit (.raw t)
    | none => s
  let s := outputChar cfg.attrsOf s nc
  s.setPos (s.x + cw) s.y

/-- `while c <= new_max_line_len:` (fuel = number of remaining columns; every step advances by ≥ 1) -/
def colLoop (cfg : DiffCfg) (scr prev : Screen) (y : Nat) (newMax : Int) : Nat → Nat → DS → DS
  | 0, _, s => s
  | fuel + 1, c, s =>
    if (c : Int) ≤ newMax then
      let p : Pos := ((y : Int), (c : Int))
      let nc := bufGet scr.buf scr.dflt p
      let oc := bufGet prev.buf prev.dflt p
      let cw := if nc.width = 0 then 1 else nc.width
      let s := if nc.char ≠ oc.char || nc.style ≠ oc.style then drawCell cfg scr y c nc cw s else s
      colLoop cfg scr prev y newMax fuel (c + cw) s
    else s

def rowStep (cfg : DiffCfg) (scr prev : Screen) (s : DS) (y : Nat) : DS :=
  let w1 : Int := (cfg.width : Int) - 1
  let newMax := min w1 (maxColumnIndex cfg.hasStyle scr.buf scr.dflt y)
  let prevMax := min w1 (maxColumnIndex cfg.hasStyle prev.buf prev.dflt y)
  let s := colLoop cfg scr prev y newMax (newMax + 1).toNat 0 s
  if newMax < prevMax then
    (resetAttributes (moveCursor cfg.width s (newMax + 1).toNat y)).emit .eraseEol
  else s

/-- `Screen()` : default char `_CHAR_CACHE[" ", Transparent]` -/
def emptyScreen (d : Cell) : Screen :=
  { buf := [], zwe := [], dflt := d, height := 0, cursor := (0, 0), showCursor := true }

/-- everything before the row loop; returns the state and the screen to diff against -/
def diffHead (cfg : DiffCfg) (d0 : Cell) (prev : Option Screen) (s : DS)
    (isDone fullScreen : Bool) (prevWidth : Nat) : DS × Screen :=
  let s := s.emit .hideCursor
  let s := if prev.isNone then resetAttributes s else s
  let s := if prev.isNone || !fullScreen then s.emit .disableWrap else s
  if isDone || prev.isNone || prevWidth ≠ cfg.width then
    (((resetAttributes (moveCursor cfg.width s 0 0)).emit .eraseDown), emptyScreen d0)
  else (s, prev.getD (emptyScreen d0))

def diffRows (cfg : DiffCfg) (scr prevScr : Screen) (s : DS) : DS :=
  (List.range (min (max scr.height prevScr.height) cfg.height)).foldl (rowStep cfg scr prevScr) s

/-- everything after the row loop -/
def diffTail (cfg : DiffCfg) (scr prevScr : Screen) (s : DS) (isDone fullScreen : Bool) : DS :=
  let currentHeight := min scr.height cfg.height
  let s := if currentHeight > prevScr.height then moveCursor cfg.width s 0 (currentHeight - 1) else s
  let s :=
    if isDone then (moveCursor cfg.width s 0 currentHeight).emit .eraseDown
    else moveCursor cfg.width s scr.cursor.1 scr.cursor.2
  let s := if isDone || !fullScreen then s.emit .enableWrap else s
  let s := resetAttributes s
  if scr.showCursor then s.emit .showCursor else s

/-- `_output_screen_diff(...)`; `d0` is the default character of a fresh `Screen()`. -/
def diff (cfg : DiffCfg) (d0 : Cell) (scr : Screen) (prev : Option Screen) (x0 y0 : Nat)
    (last : Option Text) (isDone fullScreen : Bool) (prevWidth : Nat) : DS :=
  let hd := diffHead cfg d0 prev { x := x0, y := y0, last := last, evs := [] } isDone fullScreen prevWidth
  diffTail cfg scr hd.2 (diffRows cfg scr hd.2 hd.1) isDone fullScreen

/-! ### `Vt100_Output` -/

/-- the strings the emitter methods write (generated from a real `Vt100_Output`) -/
structure Emit where
  hide : CText
  show_ : CText
  reset : CText
  eraseDown : CText
  eraseEol : CText
  disableWrap : CText
  enableWrap : CText
  up1 : CText
  fwd1 : CText
  back1 : CText
  upPre : CText
  upSuf : CText
  fwdPre : CText
  fwdSuf : CText
  backPre : CText
  backSuf : CText

/-- `"%i" % n` for a non-negative int -/
def decimal (n : Nat) : CText := (Nat.toDigits 10 n).map Char.toNat

/-- `cursor_up/forward/backward(amount)`: 0 → nothing, 1 → short form, else prefix+amount+suffix -/
def amountSeq (one pre suf : CText) : Nat → CText
  | 0 => []
  | 1 => one
  | n => pre ++ decimal n ++ suf

def repeatCrLf : Nat → CText
  | 0 => []
  | k + 1 => CR :: LF :: repeatCrLf k

/-- `Vt100_Output._cursor_visible`: `none` = unknown -/
abbrev VtSt := Option Bool

/-- one call on a `Vt100_Output`: what is appended to the buffer (tagged) and the new state -/
def vtEv (E : Emit) (sgr : Nat → CText) (v : VtSt) : Ev → VtSt × Seg
  | .cell t => (v, (.content, safeWrite t))
  | .cr => (v, (.genw, safeWrite [CR]))
  | .nl k => (v, (.genw, safeWrite (repeatCrLf k)))
  | .raw t => (v, (.zwe, t))
  | .hideCursor => if v = some false then (v, (.gen, [])) else (some false, (.gen, E.hide))
  | .showCursor => if v = some true then (v, (.gen, [])) else (some true, (.gen, E.show_))
  | .resetAttrs => (v, (.gen, E.reset))
  | .setAttrs a => (v, (.gen, sgr a))
  | .fwd n => (v, (.gen, amountSeq E.fwd1 E.fwdPre E.fwdSuf n))
  | .back n => (v, (.gen, amountSeq E.back1 E.backPre E.backSuf n))
  | .up n => (v, (.gen, amountSeq E.up1 E.upPre E.upSuf n))
  | .eraseDown => (v, (.gen, E.eraseDown))
  | .eraseEol => (v, (.gen, E.eraseEol))
  | .disableWrap => (v, (.gen, E.disableWrap))
  | .enableWrap => (v, (.gen, E.enableWrap))

def vtSegs (E : Emit) (sgr : Nat → CText) : VtSt → List Ev → VtSt × List Seg
  | v, [] => (v, [])
  | v, e :: es =>
    let (v1, sg) := vtEv E sgr v e
    let (v2, rest) := vtSegs E sgr v1 es
    (v2, sg :: rest)

/-- the text a `Vt100_Output` sends to the terminal for one `_output_screen_diff` -/
def renderText (E : Emit) (sgr : Nat → CText) (v : VtSt) (s : DS) : CText :=
  segsText (vtSegs E sgr v s.evs.reverse).2

end Ptk.C10
