/-
  C06 — model of the screen differ of `prompt_toolkit.renderer`
  (src/prompt_toolkit/renderer.py `_output_screen_diff` with its nested
  `move_cursor`, `output_char`, `get_max_column_index`, the `is_done` /
  `full_screen` tail; `Renderer.render/erase/reset/clear` as far as they carry
  `_last_screen`, `_last_size`, `_cursor_pos` and the mode flags) producing the
  list of `Output` method calls, in call order.

  Conventions
  * a style string is an interned number; `0` is the empty string `""` (the only
    falsy style string), `1` is `"[transparent]"` (style of `Screen`'s default char).
    `rawOf : Nat → Attrs` models `_StyleStringToAttrsCache.__getitem__`
    (user style + style transformation: a parameter); the differ's decisions use these.
    What a terminal DISPLAYS for `set_attributes(attrs, color_depth)` is `enc depth attrs`
    (the escape-code encoder `_EscapeCodeCache[depth]` followed by the terminal's SGR
    interpretation: colours are dropped at 1 bit, quantised at 4/8 bit — a parameter);
    `Env.attrsOf style = enc depth (rawOf style)`.
  * a `Screen` row is the dense list of the cells at columns `0..`, missing
    dictionary keys being filled with the default char `(" ", "[transparent]")`.
    This is faithful as long as the default char is not counted by
    `get_max_column_index`, i.e. `rawOf 1` has no colour/underline/… (checked
    by the harness on every case).
  * `Cell.width` is `Char.width` (= `get_cwidth(char)`, runtime `wcwidth`): data.
  * `width - 1` is never formed on naturals: `min(width-1, m) + 1` is modelled as
    `min width (m+1)` (`= 0` for `width = 0`, where Python's loop bound is `-1`).
-/
import Ptk.Py
namespace Ptk.C06
open Ptk.Py

/-- `prompt_toolkit.styles.Attrs` (colours as strings, `""` = default). -/
structure Attrs where
  fg : Text
  bg : Text
  bold : Bool
  underline : Bool
  strike : Bool
  italic : Bool
  blink : Bool
  reverse : Bool
  hidden : Bool
deriving DecidableEq, Repr, Inhabited

/-- `DEFAULT_ATTRS` -/
def Attrs.dflt : Attrs := ⟨[], [], false, false, false, false, false, false, false⟩

/-- `_StyleStringHasStyleCache.__missing__` applied to the attrs of a style string -/
def Attrs.hasStyle (a : Attrs) : Bool :=
  !a.fg.isEmpty || !a.bg.isEmpty || a.underline || a.strike || a.blink || a.reverse

/-- `layout.screen.Char` -/
structure Cell where
  txt : Text
  style : Nat
  width : Nat
deriving DecidableEq, Repr, Inhabited

/-- `_CHAR_CACHE[" ", Transparent]` -/
def Cell.dflt : Cell := ⟨[' '], 1, 1⟩

structure Point where
  x : Nat
  y : Nat
deriving DecidableEq, Repr, Inhabited

/-- `layout.screen.Screen` as seen by the differ. -/
structure Screen where
  rows : List (List Cell)
  /-- `zero_width_escapes[y][x]` for the keys that are present -/
  zwe : List (Nat × Nat × Text)
  height : Nat
  /-- `get_cursor_position(app.layout.current_window)` -/
  cursor : Point
  showCursor : Bool
deriving Repr, Inhabited

/-- `Screen()` -/
def Screen.empty : Screen := ⟨[], [], 0, ⟨0, 0⟩, true⟩

def Screen.row (s : Screen) (y : Nat) : List Cell := s.rows.getD y []
def cellAt (r : List Cell) (x : Nat) : Cell := r.getD x Cell.dflt

/-- `c in zero_width_escapes_row` / the value -/
def zweAt : List (Nat × Nat × Text) → Nat → Nat → Option Text
  | [], _, _ => none
  | (y', x', t) :: rest, y, x => if y' = y ∧ x' = x then some t else zweAt rest y x

/-- the `Output` methods called by the renderer -/
inductive Cmd
  | write (t : Text)
  | writeRaw (t : Text)
  /-- `set_attributes(a, depth)`; `shown` is what the terminal then displays (`enc depth a`) -/
  | setAttrs (a : Attrs) (depth : Nat) (shown : Attrs)
  | resetAttrs
  | cursorUp (n : Nat)
  | cursorForward (n : Nat)
  | cursorBackward (n : Nat)
  | eraseDown
  | eraseEol
  | hideCursor
  | showCursor
  | disableAutowrap
  | enableAutowrap
  -- only `Renderer.render/reset/erase/clear`:
  | eraseScreen
  | cursorGoto (r c : Nat)
  | enterAlt
  | quitAlt
  | enableMouse
  | disableMouse
  | enablePaste
  | disablePaste
  | resetCkm
  | resetCursorShape
  | setCursorShape (k : Nat)
  | scrollToPrompt
  | flush
  /-- `ask_for_cpr()` (only `Renderer.request_absolute_cursor_position`) -/
  | askCpr
deriving DecidableEq, Repr

/-- `if c in zero_width_escapes_row: write_raw(zero_width_escapes_row[c])` -/
def zweCmds (zwe : List (Nat × Nat × Text)) (y x : Nat) : List Cmd :=
  match zweAt zwe y x with
  | some t => [Cmd.writeRaw t]
  | none => []

structure Env where
  /-- `size.columns`, `size.rows` -/
  w : Nat
  h : Nat
  fullScreen : Bool
  /-- `attrs_for_style_string[style]` under the style / style transformation with (interned) hash `key` -/
  rawAt : Nat → Nat → Attrs
  /-- the current style + transformation hash (interned) -/
  key : Nat
  /-- `color_depth` (1, 4, 8, 24) -/
  depth : Nat
  /-- what a terminal displays for `set_attributes(attrs, depth)` -/
  enc : Nat → Attrs → Attrs

/-- `attrs_for_style_string[style]` (current style) -/
def Env.rawOf (e : Env) (style : Nat) : Attrs := e.rawAt e.key style

/-- the attributes a cell of this style is displayed with at the current colour depth -/
def Env.attrsOf (e : Env) (style : Nat) : Attrs := e.enc e.depth (e.rawOf style)

def crlf : Text := ['\r', '\n']

/-- nested `move_cursor(new)`: the calls made and the new `last_style`
    (the new `current_pos` is `new`). -/
def moveCursor (w : Nat) (pos : Point) (last : Option Nat) (new : Point) : List Cmd × Option Nat :=
  if pos.y < new.y then
    ([.resetAttrs, .write (repeatText crlf (new.y - pos.y)), .cursorForward new.x], none)
  else
    ((if new.y < pos.y then [.cursorUp (pos.y - new.y)] else []) ++
      (if w ≤ pos.x + 1 then [.write ['\r'], .cursorForward new.x]            -- current_x >= width - 1
       else if new.x < pos.x then [.cursorBackward (pos.x - new.x)]
       else if pos.x < new.x then [.cursorForward (new.x - pos.x)]
       else []),
     last)

/-- `not last_style or new_attrs != attrs_for_style_string[last_style]` -/
def needAttrs (attrsOf : Nat → Attrs) (last : Option Nat) (na : Attrs) : Bool :=
  match last with
  | none => true
  | some s => s == 0 || na != attrsOf s

/-- nested `output_char(char)` -/
def outputChar (e : Env) (last : Option Nat) (c : Cell) : List Cmd × Option Nat :=
  if last = some c.style then ([.write c.txt], last)
  else
    ((if needAttrs e.rawOf last (e.rawOf c.style) then
        [.setAttrs (e.rawOf c.style) e.depth (e.attrsOf c.style)] else [])
        ++ [.write c.txt],
     some c.style)

/-- `cell.char != " " or style_string_has_style[cell.style]` -/
def Cell.counted (attrsOf : Nat → Attrs) (c : Cell) : Bool :=
  c.txt != [' '] || (attrsOf c.style).hasStyle

/-- length of the row after dropping the trailing cells that are not counted -/
def trimLen (p : Cell → Bool) : List Cell → Nat
  | [] => 0
  | c :: cs => if trimLen p cs = 0 then (if p c then 1 else 0) else trimLen p cs + 1

/-- nested `get_max_column_index(row)` (`max(…, default=0)`) -/
def maxCol (attrsOf : Nat → Attrs) (row : List Cell) : Nat :=
  trimLen (Cell.counted attrsOf) row - 1

/-- `min(width - 1, get_max_column_index(row)) + 1` -/
def lineLen (e : Env) (row : List Cell) : Nat := min e.w (maxCol e.rawOf row + 1)

structure Out where
  cmds : List Cmd
  pos : Point
  last : Option Nat
deriving Repr

/-- `while c <= new_max_line_len:` with `n = new_max_line_len + 1`; `fuel ≥ n - c` -/
def colLoop (e : Env) (s : Screen) (y : Nat) (newRow prevRow : List Cell) (n : Nat) :
    Nat → Nat → Point → Option Nat → Out
  | 0, _, pos, last => ⟨[], pos, last⟩
  | fuel + 1, c, pos, last =>
    if c < n then
      let nc := cellAt newRow c
      let oc := cellAt prevRow c
      let cw := if nc.width = 0 then 1 else nc.width
      if nc.txt ≠ oc.txt ∨ nc.style ≠ oc.style then
        let m := moveCursor e.w pos last ⟨c, y⟩
        let z := zweCmds s.zwe y c
        let o := outputChar e m.2 nc
        let r := colLoop e s y newRow prevRow n fuel (c + cw) ⟨c + cw, y⟩ o.2
        ⟨m.1 ++ (z ++ (o.1 ++ r.cmds)), r.pos, r.last⟩
      else colLoop e s y newRow prevRow n fuel (c + cw) pos last
    else ⟨[], pos, last⟩

/-- body of `for y in range(row_count)` -/
def rowStep (e : Env) (s prev : Screen) (y : Nat) (pos : Point) (last : Option Nat) : Out :=
  let n := lineLen e (s.row y)
  let pn := lineLen e (prev.row y)
  let r := colLoop e s y (s.row y) (prev.row y) n n 0 pos last
  if n < pn then          -- `previous_screen and new_max_line_len < previous_max_line_len`
    let m := moveCursor e.w r.pos r.last ⟨n, y⟩
    ⟨r.cmds ++ (m.1 ++ [.resetAttrs, .eraseEol]), ⟨n, y⟩, none⟩
  else r

def rowLoop (e : Env) (s prev : Screen) : Nat → Nat → Point → Option Nat → Out
  | 0, _, pos, last => ⟨[], pos, last⟩
  | k + 1, y, pos, last =>
    let a := rowStep e s prev y pos last
    let b := rowLoop e s prev k (y + 1) a.pos a.last
    ⟨a.cmds ++ b.cmds, b.pos, b.last⟩

/-- first part of `_output_screen_diff`: hide cursor, first-render reset, autowrap off,
    and the full-redraw preamble.  Returns the calls, the position/last style after them and the
    screen to diff against. -/
def preamble (e : Env) (pos : Point) (prev : Option Screen) (last : Option Nat) (isDone : Bool)
    (prevWidth : Nat) : Out × Screen :=
  let c1 : List Cmd := if prev.isNone then [.resetAttrs] else []
  let last1 := if prev.isNone then none else last
  let c2 : List Cmd := if prev.isNone || !e.fullScreen then [.disableAutowrap] else []
  if isDone || prev.isNone || prevWidth != e.w then
    let m := moveCursor e.w pos last1 ⟨0, 0⟩
    (⟨[.hideCursor] ++ (c1 ++ (c2 ++ (m.1 ++ [.resetAttrs, .eraseDown]))), ⟨0, 0⟩, none⟩, Screen.empty)
  else
    (⟨[.hideCursor] ++ (c1 ++ c2), pos, last1⟩, prev.getD Screen.empty)

/-- tail of `_output_screen_diff` after the row loop -/
def finish (e : Env) (s prev : Screen) (isDone : Bool) (pos : Point) (last : Option Nat) : Out :=
  let curH := min s.height e.h
  let m1 : List Cmd × Option Nat × Point :=
    if prev.height < curH then
      let m := moveCursor e.w pos last ⟨0, curH - 1⟩
      (m.1, m.2, ⟨0, curH - 1⟩)
    else ([], last, pos)
  let tgt : Point := if isDone then ⟨0, curH⟩ else s.cursor
  let m2 := moveCursor e.w m1.2.2 m1.2.1 tgt
  ⟨m1.1 ++ (m2.1 ++ ((if isDone then [.eraseDown] else []) ++
      ((if isDone || !e.fullScreen then [.enableAutowrap] else []) ++
        ([.resetAttrs] ++ (if s.showCursor then [.showCursor] else []))))),
   tgt, none⟩

/-- `_output_screen_diff(app, output, screen, current_pos, color_depth, previous_screen,
    last_style, is_done, full_screen, attrs_for_style_string, style_string_has_style, size,
    previous_width)`: the `Output` calls and the returned `(current_pos, last_style)`. -/
def diff (e : Env) (s : Screen) (pos : Point) (prev : Option Screen) (last : Option Nat)
    (isDone : Bool) (prevWidth : Nat) : Out :=
  let p := preamble e pos prev last isDone prevWidth
  let rowCount := min (max s.height p.2.height) e.h
  let r := rowLoop e s p.2 rowCount 0 p.1.pos p.1.last
  let f := finish e s p.2 isDone r.pos r.last
  ⟨p.1.cmds ++ (r.cmds ++ f.cmds), f.pos, f.last⟩

/-! ### `Renderer`: the state carried between renders -/

structure RState where
  /-- `_last_screen` -/
  lastScreen : Option Screen
  /-- `_last_size` as (rows, columns) -/
  lastSize : Option (Nat × Nat)
  /-- `_cursor_pos` -/
  pos : Point
  /-- `_last_style` -/
  lastStyle : Option Nat
  /-- `(_last_style_hash, _last_transformation_hash)` interned -/
  styleKey : Option Nat
  /-- `_last_color_depth` -/
  lastDepth : Option Nat
  /-- `_last_cursor_shape` -/
  shape : Option Nat
  inAlt : Bool
  mouse : Bool
  paste : Bool
  ckm : Bool
deriving Repr, Inhabited

/-- `Renderer.reset(_scroll, leave_alternate_screen)`
    (`_attrs_for_style`, the style hashes, `_last_color_depth` and `_cursor_key_mode_reset` survive a reset). -/
def RState.reset (r : RState) (scroll leaveAlt : Bool) : RState × List Cmd :=
  ({ r with pos := ⟨0, 0⟩, lastScreen := none, lastSize := none, lastStyle := none, shape := none,
            inAlt := if r.inAlt && leaveAlt then false else r.inAlt,
            mouse := false, paste := false },
   (if scroll then [Cmd.scrollToPrompt] else []) ++
   ((if r.inAlt && leaveAlt then [Cmd.quitAlt] else []) ++
   ((if r.mouse then [Cmd.disableMouse] else []) ++
   ((if r.paste then [Cmd.disablePaste] else []) ++
   [Cmd.resetCursorShape, Cmd.showCursor, Cmd.flush]))))

/-- state after `Renderer.__init__` (which calls `reset(_scroll=True)`) -/
def RState.init : RState × List Cmd :=
  RState.reset ⟨none, none, ⟨0, 0⟩, none, none, none, none, false, false, false, false⟩ true true

/-- the `previous_screen` argument of the differ: `_last_screen`, forgotten when the size changed
    (`self._last_size != size`) or the style / style transformation (`key`) or the colour depth
    (`app.color_depth != self._last_color_depth`) changed -/
def RState.prevFor (r : RState) (e : Env) (key : Nat) : Option Screen :=
  if r.styleKey != some key || r.lastDepth != some e.depth then none
  else (if r.lastSize != some (e.h, e.w) then none else r.lastScreen)

/-- `previous_width = self._last_size.columns if self._last_size else 0` -/
def RState.prevWidth (r : RState) : Nat :=
  match r.lastSize with
  | some (_, c) => c
  | none => 0

/-- the fields `Renderer.render` assigns after the differ returned `d` -/
def RState.rendered (r : RState) (e : Env) (s : Screen) (mouseWanted : Bool) (key shape : Nat)
    (d : Out) : RState :=
  { r with inAlt := r.inAlt || e.fullScreen, paste := true, ckm := true, mouse := mouseWanted,
           styleKey := some key, lastDepth := some e.depth, pos := d.pos, lastStyle := d.last, lastScreen := some s,
           lastSize := some (e.h, e.w), shape := some shape }

/-- `Renderer.render(app, layout, is_done)` where the layout produces screen `s`,
    `output.get_size()` is `(e.h, e.w)`, `mouseWanted = self.mouse_support()`, `key` the interned
    (style hash, transformation hash), `e.depth = app.color_depth`, `shape = app.cursor.get_cursor_shape(app)`
    (`0` = `_NEVER_CHANGE`, for which `Vt100_Output.set_cursor_shape` writes nothing). -/
def RState.render (r : RState) (e : Env) (s : Screen) (isDone mouseWanted : Bool) (key shape : Nat) :
    RState × List Cmd :=
  let c1 : List Cmd := if e.fullScreen && !r.inAlt then [.enterAlt] else []
  let c2 : List Cmd := if !r.paste then [.enablePaste] else []
  let c3 : List Cmd := if !r.ckm then [.resetCkm] else []
  let c4 : List Cmd :=
    if mouseWanted && !r.mouse then [.enableMouse]
    else if !mouseWanted && r.mouse then [.disableMouse] else []
  let d := diff e s r.pos (r.prevFor e key) r.lastStyle isDone r.prevWidth
  let c5 : List Cmd := if r.shape != some shape then [.setCursorShape shape] else []
  let r1 := r.rendered e s mouseWanted key shape d
  let cmds := c1 ++ (c2 ++ (c3 ++ (c4 ++ (d.cmds ++ (c5 ++ [Cmd.flush])))))
  if isDone then
    let r2 := r1.reset false true
    (r2.1, cmds ++ r2.2)
  else (r1, cmds)

/-- `Renderer.erase(leave_alternate_screen)` -/
def RState.erase (r : RState) (leaveAlt : Bool) : RState × List Cmd :=
  let r2 := r.reset false leaveAlt
  (r2.1, [Cmd.cursorBackward r.pos.x, .cursorUp r.pos.y, .eraseDown, .resetAttrs, .enableAutowrap,
          .flush] ++ r2.2)

/-- `Renderer.clear()` (with an output that does not answer CPR:
    `request_absolute_cursor_position` makes no `Output` call that writes) -/
def RState.clear (r : RState) : RState × List Cmd :=
  let r2 := r.erase true
  (r2.1, r2.2 ++ [Cmd.eraseScreen, .cursorGoto 0 0, .flush])

/-! ### VT100 terminal model

  The rows are numbered from the *origin* (the row on which the renderer started
  drawing: the cursor row at the first render, or the top of the (alternate) screen
  after `clear` / in full-screen mode); `h` is the number of rows from the origin to
  the bottom of the terminal, `top` the number of rows above the origin.
  What a conforming terminal does, as assumed here:
  * a printable character of width `k` is stored with the current SGR at the cursor
    (continuation cells hold the empty text) and the cursor advances by `k`; when
    that would leave the line the cursor stays on the last column (autowrap off) or
    the line wraps at once (autowrap on; never exercised by the renderer).
    Overwriting one half of a wide character blanks the other half (xterm).
  * CR, LF (scrolls one line when on the bottom row), BS; CUU/CUF/CUB clamp at the
    margins; ED 0 / EL 0 erase with the current background colour; SGR is absolute
    (`ESC[0;…m`); DECTCEM and DECAWM are flags.
  * ghost fields: `scrolled` counts scrolls, `oob` records a CUU/CUB that tried to
    leave the owned area through the top/left margin, `log` lists the cell positions
    written by printable characters (not by erasures).
-/

structure TCell where
  ch : Text
  attrs : Attrs
deriving DecidableEq, Repr, Inhabited

def TCell.blank : TCell := ⟨[' '], Attrs.dflt⟩

structure Term where
  w : Nat
  h : Nat
  top : Nat
  cells : Nat → Nat → TCell
  row : Nat
  col : Nat
  sgr : Attrs
  autowrap : Bool
  visible : Bool
  scrolled : Nat
  oob : Bool
  log : List (Nat × Nat)

/-- a cell erased while the SGR state is `a` (background colour erase) -/
def erased (a : Attrs) : TCell := ⟨[' '], { Attrs.dflt with bg := a.bg }⟩

def Term.setCell (t : Term) (y x : Nat) (c : TCell) : Term :=
  { t with cells := fun y' x' => if y' = y ∧ x' = x then c else t.cells y' x' }

/-- blank the other half of a wide character one half of which is at `(y, x)` and is about to be
    overwritten or erased from `x` on: a continuation cell loses its head at `x - 1` -/
def Term.fixLeft (t : Term) (y x : Nat) : Term :=
  if (t.cells y x).ch = [] ∧ 0 < x then t.setCell y (x - 1) ⟨[' '], (t.cells y (x - 1)).attrs⟩ else t

/-- … and a head at `x - 1` that is overwritten loses its continuation at `x` -/
def Term.fixRight (t : Term) (y x : Nat) : Term :=
  if x < t.w ∧ (t.cells y x).ch = [] then t.setCell y x ⟨[' '], (t.cells y x).attrs⟩ else t

def Term.lineFeed (t : Term) : Term :=
  if t.row + 1 < t.h then { t with row := t.row + 1 }
  else
    { t with cells := fun y x => if y + 1 < t.h then t.cells (y + 1) x else erased t.sgr,
             scrolled := t.scrolled + 1 }

/-- continuation cells of a character of width `k` whose head is at `(y, x)` -/
def Term.putCont (t : Term) (y x : Nat) : Nat → Term
  | 0 => t
  | k + 1 => ((t.putCont y x k).setCell y (x + k + 1) ⟨[], t.sgr⟩)

def logCells (y x : Nat) : Nat → List (Nat × Nat)
  | 0 => []
  | k + 1 => (y, x + k) :: logCells y x k

/-- a printable character `c` of width `k ≥ 1` -/
def Term.putGlyph (t : Term) (c : Char) (k : Nat) : Term :=
  if t.w < t.col + k then
    -- does not fit on the line
    if t.autowrap then
      let t1 := { t with col := 0 }.lineFeed
      if t1.w < k then { t1 with oob := true } else
      let t2 := ((t1.fixLeft t1.row 0).fixRight t1.row k)
      let t3 := (t2.setCell t2.row 0 ⟨[c], t2.sgr⟩).putCont t2.row 0 (k - 1)
      { t3 with col := min k (t3.w - 1), log := logCells t3.row 0 k ++ t3.log }
    else { t with oob := true }
  else
    let t2 := ((t.fixLeft t.row t.col).fixRight t.row (t.col + k))
    let t3 := (t2.setCell t2.row t2.col ⟨[c], t2.sgr⟩).putCont t2.row t2.col (k - 1)
    let t4 := { t3 with log := logCells t3.row t3.col k ++ t3.log }
    if t4.col + k < t4.w then { t4 with col := t4.col + k }
    else if t4.autowrap then { t4 with col := 0 }.lineFeed
    else { t4 with col := t4.w - 1 }

/-- one character of `Output.write(data)`; `cw` is the runtime `wcwidth` (0, 1 or 2).
    Zero-width characters are not represented in the cell grid. -/
def Term.putChar (cw : Char → Nat) (t : Term) (c : Char) : Term :=
  if c = '\r' then { t with col := 0 }
  else if c = '\n' then t.lineFeed
  else if c = '\x08' then { t with col := t.col - 1, oob := t.oob || decide (t.col < 1) }
  else if c.toNat < 32 ∨ c.toNat = 127 then t
  else if cw c = 0 then t
  else t.putGlyph c (cw c)

def Term.eraseFrom (t : Term) (down : Bool) : Term :=
  let t1 := t.fixLeft t.row t.col
  { t1 with cells := fun y x =>
      if (y = t1.row ∧ t1.col ≤ x) ∨ (down ∧ t1.row < y) then erased t1.sgr else t1.cells y x }

def execCmd (cw : Char → Nat) (t : Term) : Cmd → Term
  | .write s => s.foldl (Term.putChar cw) t
  | .writeRaw _ => t          -- zero-width escapes: assumed not to touch cells or cursor
  | .setAttrs _ _ shown => { t with sgr := shown }
  | .resetAttrs => { t with sgr := Attrs.dflt }
  | .cursorUp n => { t with row := t.row - n, oob := t.oob || decide (t.row < n) }
  | .cursorForward n => { t with col := min (t.col + n) (t.w - 1) }
  | .cursorBackward n => { t with col := t.col - n, oob := t.oob || decide (t.col < n) }
  | .eraseDown => t.eraseFrom true
  | .eraseEol => t.eraseFrom false
  | .hideCursor => { t with visible := false }
  | .showCursor => { t with visible := true }
  | .disableAutowrap => { t with autowrap := false }
  | .enableAutowrap => { t with autowrap := true }
  | .eraseScreen => { t with cells := fun _ _ => erased t.sgr }
  -- `ESC[r;cH`: absolute; the origin becomes the top of the terminal.  Rows above the old
  -- origin are not part of the model (they read as erased): only meaningful after `eraseScreen`.
  | .cursorGoto r c =>
    { t with h := t.top + t.h, top := 0, row := min (r - 1) (t.top + t.h - 1), col := min (c - 1) (t.w - 1),
             cells := fun y x => if t.top ≤ y then t.cells (y - t.top) x else erased t.sgr }
  | _ => t

def exec (cw : Char → Nat) (t : Term) (cs : List Cmd) : Term := cs.foldl (execCmd cw) t

/-- the terminal as the renderer finds it: cursor on column 0 of the origin row, `h` rows to the
    bottom, arbitrary contents `cells`, default modes -/
def Term.fresh (w h top : Nat) (cells : Nat → Nat → TCell) : Term :=
  ⟨w, h, top, cells, 0, 0, Attrs.dflt, true, true, 0, false, []⟩

/-- after a `done` render (`Renderer.reset`): the cursor row becomes the new origin -/
def Term.rebase (t : Term) : Term :=
  { t with top := t.top + t.row, h := t.h - t.row, row := 0,
           cells := fun y x => t.cells (y + t.row) x, log := [] }

end Ptk.C06
