/-
  C10 — the other writers that reach the terminal (outside `_output_screen_diff` and
  `print_formatted_text`):

    * every emitter method of `Vt100_Output` (output/vt100.py) as a call `Call` on an output object
      with its two state bits (`_cursor_visible`, `_cursor_shape_changed`): mode switches, cursor
      moves incl. `cursor_goto` / `cursor_down`, cursor shapes, `ask_for_cpr`, `bell`, titles → `vtCall`
    * `Vt100_Output.set_title` (as repaired by /repo f7226c7): every C0, DEL and C1 character is
      deleted from the title, which is then written RAW inside `ESC ] 2 ; … BEL`             → `setTitle`
    * `Renderer.reset` / `Renderer.erase` (renderer.py) as lists of emitter calls      → `rendererReset/Erase`
    * the dumb-terminal prompt `PromptSession._dumb_prompt` (shortcuts/prompt.py): the prompt
      message, the character before the cursor after every text change, and the final CR LF, all
      through the escaping writer                                                      → `dumbStep`
    * `StdoutProxy._write_and_flush` (patch_stdout.py): `enable_autowrap`, then `write_raw(text)` when
      the proxy was created with `raw=True`, else `write(text)`                          → `proxyWrite`
-/
import Ptk.Model.C10Bytes
import Ptk.Model.C10Grammar
namespace Ptk.C10
open Ptk.Py

/-- the strings of the remaining emitters (regenerated from a real `Vt100_Output`) -/
structure Emit2 where
  eraseScreen : CText
  enterAlt : CText
  quitAlt : CText
  enableMouse : CText
  disableMouse : CText
  enableBP : CText
  disableBP : CText
  resetCursorKeyMode : CText
  askCpr : CText
  bell : CText
  down1 : CText
  downPre : CText
  downSuf : CText
  gotoPre : CText
  gotoMid : CText
  gotoSuf : CText
  /-- `set_cursor_shape(shape)` per member of `CursorShape` (enum order) and whether it marks the shape as changed -/
  shapes : List CText
  shapeMarks : List Bool
  resetShape : CText
  titlePre : CText
  titleSuf : CText

/-- `Vt100_Output.set_title(title)`; `silent` = `self.term in ("linux", "eterm-color")` -/
def setTitle (G : Emit2) (silent : Bool) (title : CText) : CText :=
  if silent then []
  else G.titlePre ++ title.filter (fun c => !isControl c) ++ G.titleSuf   -- `c < " " or "\x7f" <= c <= "\x9f"`

/-- calls on the output object other than `write` / `write_raw` -/
inductive Call
  | eraseScreen | enterAlt | quitAlt | enableMouse | disableMouse | enableBP | disableBP
  | resetCursorKeyMode | askCpr | bell
  | goto (row col : Nat)
  | up (n : Nat) | down (n : Nat) | fwd (n : Nat) | back (n : Nat)
  | hideCursor | showCursor
  | setShape (i : Nat) | resetShape
  | eraseEol | eraseDown | resetAttrs | disableWrap | enableWrap
  | setTitle (title : CText) | clearTitle
deriving DecidableEq, Repr

/-- `_cursor_visible`, `_cursor_shape_changed`, and the constructor arguments that matter -/
structure VState where
  visible : Option Bool := none
  shapeChanged : Bool := false
  enableBell : Bool := true
  silentTitle : Bool := false

/-- one emitter call on a `Vt100_Output`: the new state and what is appended to `_buffer` -/
def vtCall (E : Emit) (G : Emit2) (s : VState) : Call → VState × CText
  | .eraseScreen => (s, G.eraseScreen)
  | .enterAlt => (s, G.enterAlt)
  | .quitAlt => (s, G.quitAlt)
  | .enableMouse => (s, G.enableMouse)
  | .disableMouse => (s, G.disableMouse)
  | .enableBP => (s, G.enableBP)
  | .disableBP => (s, G.disableBP)
  | .resetCursorKeyMode => (s, G.resetCursorKeyMode)
  | .askCpr => (s, G.askCpr)
  | .bell => (s, if s.enableBell then G.bell else [])
  | .goto r c => (s, G.gotoPre ++ decimal r ++ G.gotoMid ++ decimal c ++ G.gotoSuf)
  | .up n => (s, amountSeq E.up1 E.upPre E.upSuf n)
  | .down n => (s, amountSeq G.down1 G.downPre G.downSuf n)
  | .fwd n => (s, amountSeq E.fwd1 E.fwdPre E.fwdSuf n)
  | .back n => (s, amountSeq E.back1 E.backPre E.backSuf n)
  | .hideCursor => if s.visible = some false then (s, []) else ({ s with visible := some false }, E.hide)
  | .showCursor => if s.visible = some true then (s, []) else ({ s with visible := some true }, E.show_)
  | .setShape i =>
    ({ s with shapeChanged := s.shapeChanged || G.shapeMarks.getD i false }, G.shapes.getD i [])
  | .resetShape => if s.shapeChanged then ({ s with shapeChanged := false }, G.resetShape) else (s, [])
  | .eraseEol => (s, E.eraseEol)
  | .eraseDown => (s, E.eraseDown)
  | .resetAttrs => (s, E.reset)
  | .disableWrap => (s, E.disableWrap)
  | .enableWrap => (s, E.enableWrap)
  | .setTitle t => (s, setTitle G s.silentTitle t)
  | .clearTitle => (s, setTitle G s.silentTitle [])

def vtCalls (E : Emit) (G : Emit2) : VState → List Call → VState × CText
  | s, [] => (s, [])
  | s, c :: cs =>
    let r := vtCall E G s c
    let rest := vtCalls E G r.1 cs
    (rest.1, r.2 ++ rest.2)

/-! ### `Renderer.reset` / `Renderer.erase` -/

/-- `_in_alternate_screen`, `_mouse_support_enabled`, `_bracketed_paste_enabled` -/
structure RFlags where
  inAlt : Bool
  mouse : Bool
  bp : Bool
deriving DecidableEq, Repr

/-- `Renderer.reset(_scroll, leave_alternate_screen)` (`scroll_buffer_to_prompt` writes nothing on a
    `Vt100_Output`); followed by `output.flush()` -/
def rendererReset (f : RFlags) (leaveAlt : Bool) : List Call × RFlags :=
  ((if f.inAlt && leaveAlt then [Call.quitAlt] else []) ++
   (if f.mouse then [Call.disableMouse] else []) ++
   (if f.bp then [Call.disableBP] else []) ++ [Call.resetShape, Call.showCursor],
   { inAlt := f.inAlt && !leaveAlt, mouse := false, bp := false })

/-- `Renderer.erase(leave_alternate_screen)`; `(x, y)` = `_cursor_pos` -/
def rendererErase (f : RFlags) (x y : Nat) (leaveAlt : Bool) : List Call × RFlags :=
  let r := rendererReset f leaveAlt
  ([Call.back x, Call.up y, Call.eraseDown, Call.resetAttrs, Call.enableWrap] ++ r.1, r.2)

/-! ### the dumb-terminal prompt -/

/-- `fragment_list_to_text(fragments)`: marked fragments are left out -/
def fragListToText (frs : List Frag) : CText := (frs.filter fun f => !isZwe f.1).flatMap (·.2)

/-- the local `display(text)` of `_dumb_prompt` (since /repo 16862de): control characters in the
    notation of `Char.display_mappings`, newlines kept -/
def dumbDisplay (m : Table) (t : CText) : CText :=
  t.flatMap fun c => if c = LF then [c] else (lookup m [c]).getD [c]

inductive DumbEv
  | start (message : List Frag)            -- entering `_dumb_prompt`
  | changed (textBeforeCursor : CText)     -- `on_text_changed`
  | finish                                 -- leaving: `write("\r\n")`
deriving Repr

/-- `s[-1:]` -/
def lastChar (t : CText) : CText := t.drop (t.length - 1)

/-- what one event of the dumb prompt appends to the buffer of the output (each is followed by `flush()`) -/
def dumbStep (m : Table) : DumbEv → CText
  | .start msg => safeWrite (dumbDisplay m (fragListToText msg))
  | .changed tb => safeWrite (dumbDisplay m (lastChar tb))
  | .finish => safeWrite [CR, LF]

/-! ### `patch_stdout` -/

/-- `StdoutProxy._write_and_flush.write_and_flush` for a proxy created with `raw` -/
def proxyWrite (E : Emit) (raw : Bool) (text : CText) : List Seg :=
  [(.gen, E.enableWrap), if raw then (.zwe, rawWrite text) else (.content, safeWrite text)]

/-! ### `print_formatted_text` on a `PlainTextOutput` (stdout is not a terminal) -/

/-- one fragment: every emitter of `PlainTextOutput` that `print_formatted_text` calls
    (`reset_attributes`, `enable_autowrap`, `set_attributes`) is `pass`, `write` and `write_raw` both
    append the data unchanged -/
def printPlainFrag (f : Text × CText) : CText :=
  if isZwe f.1 then f.2 else replaceChar LF [CR, LF] (replaceChar CR [] f.2)

/-- `renderer.print_formatted_text(PlainTextOutput(stdout), fragments, …)`: what is handed to `flush_stdout` -/
def printPlain (frs : List (Text × CText)) : CText := frs.flatMap printPlainFrag

/-! ### `create_output()` (output/defaults.py), POSIX branch: which writer class gets the stream -/

inductive Writer
  | dummy   -- `DummyOutput()`: no stream at all
  | plain   -- `PlainTextOutput(stdout)`: `write` does NOT escape (meant for files and pipes)
  | vt100   -- `Vt100_Output.from_pty(stdout, …)`: `write` replaces ESC
deriving DecidableEq, Repr

/-- what `create_output` looks at.  A stream is `none` (the object is `None`) or `some isatty`. -/
structure COIn where
  /-- the `stdout` argument -/
  arg : Option Bool
  sysOut : Option Bool
  sysErr : Option Bool
  preferTty : Bool
  /-- `is_dumb_terminal($TERM)` — read by `create_output` only to pass `term` on, never to choose the class -/
  termDumb : Bool
deriving DecidableEq, Repr

/-- the stream `create_output` ends up with (`StdoutProxy` unwrapping aside) -/
def chosenStream (i : COIn) : Option Bool :=
  match i.arg with
  | some t => some t
  | none =>
    if i.preferTty then
      (if i.sysOut = some true then i.sysOut else if i.sysErr = some true then i.sysErr else i.sysOut)
    else i.sysOut

/-- `create_output(stdout, always_prefer_tty)` on a POSIX platform -/
def createOutput (i : COIn) : Writer :=
  match chosenStream i with
  | none => .dummy
  | some tty => if !tty then .plain else .vt100

end Ptk.C10
