/-
  C07 — model of the undo / redo machinery of prompt_toolkit.

  Anchors (src/prompt_toolkit):
    buffer.py            Buffer._undo_stack / _redo_stack, save_to_undo_stack, undo, redo, reset
    key_binding/key_processor.py   KeyProcessor._call_handler  (is_repeat, handler.save_before)
    key_binding/bindings/basic.py  if_no_repeat                 (rule "save unless repeat")
    key_binding/bindings/emacs.py, vi.py, named_commands.py   the undo bindings and the handlers of
                                   the fully modelled key sets (`EKey`, `VKey` below)
    (key_binding/key_bindings.py   KeyBindings.add must hand an explicit save_before on to the Binding:
                                   /repo commit 3961882; before it the rules above were dead code)

  Conventions.
  * A snapshot is the pair (text, cursor_position) = `Buf`.
  * The Python lists `_undo_stack` / `_redo_stack` are used as stacks with
    `append` / `pop()` at the END.  Here the HEAD of the Lean list is the top
    of the stack (the driver prints the lists reversed, i.e. in Python order).
  * The body of a key handler is a parameter (`Act.edit f` for an arbitrary
    `f : Buf → Buf`); `save_before` of a binding is a parameter
    `rule : Bool → Bool` (its value as a function of `event.is_repeat`):
      always        = fun _ => true          (the default `lambda e: True`)
      if_no_repeat  = fun rep => !rep        (basic.py)
      never         = fun _ => false         (undo bindings, CPR)
  * Handler identity (`handler == self._previous_handler`, object identity of
    the `Binding`) is a natural number.
  * `Document(text, pos)` asserts `pos <= len(text)`; every snapshot the real
    Buffer takes satisfies it (theorem `snapshots_valid` in Props), so `undo` /
    `redo` restore the pair as it is.
-/
import Ptk.Py
namespace Ptk.C07
open Ptk.Py

structure Buf where
  text : Text
  cur : Nat
deriving Repr, DecidableEq

/-- the undo-relevant state of one `Buffer` -/
structure St where
  buf : Buf
  undo : List Buf   -- head = top = `_undo_stack[-1]`
  redo : List Buf   -- head = top = `_redo_stack[-1]`
deriving Repr, DecidableEq

/-- `Buffer.reset(document)` : both stacks are emptied. -/
def reset (doc : Buf) : St := { buf := doc, undo := [], redo := [] }

/-- `Buffer.save_to_undo_stack(clear_redo_stack)`:
    same text as the top entry → only the cursor of the top entry is updated. -/
def saveToUndo (clear : Bool) (s : St) : St :=
  let u := match s.undo with
    | top :: rest =>
      if top.text = s.buf.text then { text := top.text, cur := s.buf.cur } :: rest
      else s.buf :: top :: rest
    | [] => [s.buf]
  { buf := s.buf, undo := u, redo := if clear then [] else s.redo }

/-- the `while self._undo_stack:` loop of `Buffer.undo`: pop until an entry whose
    text differs from the current text is found; `none` = stack exhausted. -/
def undoLoop (b : Buf) : List Buf → Option (Buf × List Buf)
  | [] => none
  | t :: rest => if t.text ≠ b.text then some (t, rest) else undoLoop b rest

/-- `Buffer.undo()` -/
def undo (s : St) : St :=
  match undoLoop s.buf s.undo with
  | some (t, rest) => { buf := t, undo := rest, redo := s.buf :: s.redo }
  | none => { buf := s.buf, undo := [], redo := s.redo }

/-- `Buffer.redo()` -/
def redo (s : St) : St :=
  match s.redo with
  | [] => s
  | r :: rest => { buf := r, undo := (saveToUndo false s).undo, redo := rest }

/-! ### a few concrete edits (used by the API-level correspondence; the theorems
    quantify over arbitrary `Buf → Buf`) -/

/-- `Buffer.insert_text(data)` -/
def insertText (data : Text) (b : Buf) : Buf :=
  { text := b.text.take b.cur ++ data ++ b.text.drop b.cur, cur := b.cur + data.length }

/-- `Buffer.delete_before_cursor(count)` -/
def deleteBefore (count : Nat) (b : Buf) : Buf :=
  let n := min count b.cur
  { text := b.text.take (b.cur - n) ++ b.text.drop b.cur, cur := b.cur - n }

/-- `Buffer.delete(count)` -/
def delete (count : Nat) (b : Buf) : Buf :=
  { text := b.text.take b.cur ++ b.text.drop (b.cur + count), cur := b.cur }

/-- `Buffer.cursor_position = v` (clamped) -/
def setCursor (v : Int) (b : Buf) : Buf :=
  { text := b.text, cur := min v.toNat b.text.length }

/-- `Buffer.text = t` (cursor clamped) -/
def setText (t : Text) (b : Buf) : Buf :=
  { text := t, cur := min b.cur t.length }

/-- `KeyProcessor._fix_vi_cursor_position` when `vi_navigation_mode()` holds: a cursor at the end
    of a non-empty line (`current_char in ("\n", "")`, `len(current_line) > 0`) moves one to the left. -/
def viFix (b : Buf) : Buf :=
  let atEol := match b.text[b.cur]? with
    | none => true
    | some c => c == '\n'
  let lineEmpty := b.cur == 0 || b.text[b.cur - 1]? == some '\n'
  if atEol && !lineEmpty then { text := b.text, cur := b.cur - 1 } else b

/-! ### API level -/

/-- one call on the Buffer API -/
inductive Act
  | edit (f : Buf → Buf)
  | undo
  | redo
  | save (clear : Bool)
  | reset (doc : Buf)

def act (s : St) : Act → St
  | .edit f => { s with buf := f s.buf }
  | .undo => undo s
  | .redo => redo s
  | .save c => saveToUndo c s
  | .reset d => reset d

/-! ### key processor level -/

structure KSt where
  st : St
  prev : Option Nat     -- `KeyProcessor._previous_handler`
deriving Repr, DecidableEq

/-- a fresh session: `Buffer.reset(document)`, `KeyProcessor.reset()` -/
def kInit (doc : Buf) : KSt := { st := reset doc, prev := none }

/-- `KeyProcessor._call_handler(handler, …)` for the handler with identity `h`,
    `save_before = rule ∘ is_repeat`, and body `body`. -/
def callHandler (h : Nat) (rule : Bool → Bool) (body : List Act) (k : KSt) : KSt :=
  let isRepeat := decide (k.prev = some h)
  let s1 := if rule isRepeat then saveToUndo true k.st else k.st
  { st := body.foldl act s1, prev := some h }

/-- `KeyProcessor.reset()` -/
def kpReset (k : KSt) : KSt := { k with prev := none }

/-- `KeyProcessor._process_cpr_response`: a cursor position report (`ESC [ row ; col R`, key
    `Keys.CPRResponse`) that arrives at any key boundary is answered by calling its handler
    directly (`is_repeat=False`, the handler only talks to the renderer): no `save_before`, no
    `_call_handler`, `_previous_handler` / `_previous_key_sequence` / `arg` are left alone.
    For the undo machinery it is the identity. -/
def cprResponse (k : KSt) : KSt := k

/-! ### the shipped emacs bindings, fully modelled (a small key set)

    basic.py / emacs.py / named_commands.py:
      Keys.Any  -> self-insert            save_before = if_no_repeat
      backspace -> backward-delete-char   save_before = if_no_repeat
      delete    -> delete-char            save_before = if_no_repeat
      left / right / home / end / c-k     default save_before (always)
      c-_ , c-x c-u -> undo               save_before = never
    plus a harness binding that calls `Buffer.redo()` (never saves; the library has no redo key).
    No numeric argument (`event.arg = 1`). -/

/-- `len(document.current_line_before_cursor)` -/
def lineBeforeLen (b : Buf) : Nat := ((b.text.take b.cur).reverse.takeWhile (· ≠ '\n')).length
/-- `len(document.current_line_after_cursor)` -/
def lineAfterLen (b : Buf) : Nat := ((b.text.drop b.cur).takeWhile (· ≠ '\n')).length

inductive EKey
  | char (c : Char) | backspace | delete | left | right | home | eol | killLine
  | undo | undoXU | redo
deriving Repr, DecidableEq

/-- identity of the `Binding` that handles the key -/
def EKey.hid : EKey → Nat
  | .char _ => 0 | .backspace => 1 | .delete => 2 | .left => 3 | .right => 4 | .home => 5
  | .eol => 6 | .killLine => 7 | .undo => 8 | .undoXU => 9 | .redo => 10

/-- `save_before` of that binding as a function of `is_repeat` -/
def EKey.rule : EKey → Bool → Bool
  | .char _, rep => !rep | .backspace, rep => !rep | .delete, rep => !rep
  | .left, _ => true | .right, _ => true | .home, _ => true | .eol, _ => true | .killLine, _ => true
  | .undo, _ => false | .undoXU, _ => false | .redo, _ => false

def killLine (b : Buf) : Buf :=
  if b.text[b.cur]? = some '\n' then delete 1 b else delete (lineAfterLen b) b

def EKey.acts : EKey → List Act
  | .char c => [.edit (insertText [c])]
  | .backspace => [.edit (deleteBefore 1)]
  | .delete => [.edit (Ptk.C07.delete 1)]
  | .left => [.edit fun b => setCursor ((b.cur : Int) - min (lineBeforeLen b) 1) b]
  | .right => [.edit fun b => setCursor ((b.cur : Int) + min (lineAfterLen b) 1) b]
  | .home => [.edit fun b => setCursor ((b.cur : Int) - lineBeforeLen b) b]
  | .eol => [.edit fun b => setCursor ((b.cur : Int) + lineAfterLen b) b]
  | .killLine => [.edit Ptk.C07.killLine]
  | .undo => [.undo]
  | .undoXU => [.undo]
  | .redo => [.redo]

/-- one key press in emacs mode -/
def ekey (k : KSt) (key : EKey) : KSt := callHandler key.hid key.rule key.acts k

/-! ### the shipped Vi bindings, fully modelled (a small key set)

    vi.py: `escape` (_back_to_navigation), `i`, `a`, `x`, `u` in navigation mode (default
    save_before, except `u`: never); in insert mode the printable keys go to the SAME self-insert
    binding of basic.py as in emacs mode (if_no_repeat).  `_fix_vi_cursor_position` runs after every
    handler and acts when the editor is (now) in navigation mode.  No counts. -/

inductive VKey
  | i | a | x | u | escape | redo
deriving Repr, DecidableEq

/-- the character the key inserts in insert mode -/
def VKey.letter : VKey → Char
  | .i => 'i' | .a => 'a' | .x => 'x' | .u => 'u' | _ => ' '

structure VSt where
  k : KSt
  ins : Bool        -- vi_state.input_mode == INSERT (otherwise NAVIGATION)
deriving Repr, DecidableEq

/-- a fresh Vi session starts in insert mode -/
def vInit (doc : Buf) : VSt := { k := kInit doc, ins := true }

def leftInLine (b : Buf) : Buf := setCursor ((b.cur : Int) - min (lineBeforeLen b) 1) b
def rightInLine (b : Buf) : Buf := setCursor ((b.cur : Int) + min (lineAfterLen b) 1) b
def viX (b : Buf) : Buf := delete (min 1 (lineAfterLen b)) b

/-- one key press in Vi mode -/
def vkey (v : VSt) (key : VKey) : VSt :=
  if v.ins then
    match key with
    | .escape => { k := callHandler 20 (fun _ => true) [.edit leftInLine, .edit viFix] v.k, ins := false }
    | .redo => { k := callHandler 10 (fun _ => false) [.redo] v.k, ins := true }
    | key => { k := callHandler 0 (fun rep => !rep) [.edit (insertText [key.letter])] v.k, ins := true }
  else
    match key with
    | .i => { k := callHandler 21 (fun _ => true) [] v.k, ins := true }
    | .a => { k := callHandler 22 (fun _ => true) [.edit rightInLine] v.k, ins := true }
    | .x => { k := callHandler 23 (fun _ => true) [.edit viX, .edit viFix] v.k, ins := false }
    | .u => { k := callHandler 24 (fun _ => false) [.undo, .edit viFix] v.k, ins := false }
    | .escape => { k := callHandler 20 (fun _ => true) [.edit viFix] v.k, ins := false }
    | .redo => { k := callHandler 10 (fun _ => false) [.redo, .edit viFix] v.k, ins := false }

end Ptk.C07
