/-
  C07 — model of the undo / redo machinery of prompt_toolkit.

  Anchors (src/prompt_toolkit):
    buffer.py            Buffer._undo_stack / _redo_stack, save_to_undo_stack, undo, redo, reset
                         (undo / redo also on a read-only buffer: `undoRO` / `redoRO`)
    key_binding/key_processor.py   KeyProcessor._call_handler  (is_repeat, handler.save_before on
                                   app.current_buffer, EditReadOnlyBuffer caught, other exceptions propagate),
                                   KeyProcessor.reset / process_keys' `except` branch, _process_cpr_response,
                                   _fix_vi_cursor_position, KeyPressEvent.arg / append_to_arg_count
    key_binding/bindings/basic.py  if_no_repeat                 (rule "save unless repeat")
    key_binding/bindings/emacs.py, vi.py, named_commands.py   the undo bindings and the handlers of
                                   the fully modelled key sets (`EKey`, `VKey` below)
    (key_binding/key_bindings.py   KeyBindings.add must hand an explicit save_before on to the Binding:
                                   /repo commit 3961882; before it the rules above were dead code)
  Generated (harness/gen_c07.py -> Ptk/Gen/C07.lean, rewritten from the current tree on every run):
    the table of all key bindings with their save_before bits, `keyRows` (the rows the key sets below look
    up), the functions that touch the stacks, and the probed flag `roChecksFirst`.
  Several buffers / focus: Ptk/Model/C07Multi.lean.

  Conventions.
  * A snapshot is the pair (text, cursor_position) = `Buf`.
  * The Python lists `_undo_stack` / `_redo_stack` are used as stacks with
    `append` / `pop()` at the END.  Here the HEAD of the Lean list is the top
    of the stack (the driver prints the lists reversed, i.e. in Python order).
  * The body of a key handler is a parameter (`Act.edit f` for an arbitrary
    `f : Buf → Buf`); `save_before` of a binding is a parameter
    `rule : Bool → Bool` (its value as a function of `event.is_repeat`):
      always        = fun _ => true          (the default `lambda e: True`)
      if_no_repeat  = fun rep => !rep        (basic.py)
      never         = fun _ => false         (undo bindings, CPR)
  * Handler identity (`handler == self._previous_handler`, object identity of
    the `Binding`) is a natural number.
  * `Document(text, pos)` asserts `pos <= len(text)`; every snapshot the real
    Buffer takes satisfies it (theorem `snapshots_valid` in Props), so `undo` /
    `redo` restore the pair as it is.
-/
import Ptk.Py
import Ptk.Gen.C07
namespace Ptk.C07
open Ptk.Py

structure Buf where
  text : Text
  cur : Nat
deriving Repr, DecidableEq

/-- the undo-relevant state of one `Buffer` -/
structure St where
  buf : Buf
  undo : List Buf   -- head = top = `_undo_stack[-1]`
  redo : List Buf   -- head = top = `_redo_stack[-1]`
deriving Repr, DecidableEq

/-- `Buffer.reset(document)` : both stacks are emptied. -/
def reset (doc : Buf) : St := { buf := doc, undo := [], redo := [] }

/-- `Buffer.save_to_undo_stack(clear_redo_stack)`:
    same text as the top entry → only the cursor of the top entry is updated. -/
def saveToUndo (clear : Bool) (s : St) : St :=
  let u := match s.undo with
    | top :: rest =>
      if top.text = s.buf.text then { text := top.text, cur := s.buf.cur } :: rest
      else s.buf :: top :: rest
    | [] => [s.buf]
  { buf := s.buf, undo := u, redo := if clear then [] else s.redo }

/-- the `while self._undo_stack:` loop of `Buffer.undo`: pop until an entry whose
    text differs from the current text is found; `none` = stack exhausted. -/
def undoLoop (b : Buf) : List Buf → Option (Buf × List Buf)
  | [] => none
  | t :: rest => if t.text ≠ b.text then some (t, rest) else undoLoop b rest

/-- `Buffer.undo()` -/
def undo (s : St) : St :=
  match undoLoop s.buf s.undo with
  | some (t, rest) => { buf := t, undo := rest, redo := s.buf :: s.redo }
  | none => { buf := s.buf, undo := [], redo := s.redo }

/-- `Buffer.redo()` -/
def redo (s : St) : St :=
  match s.redo with
  | [] => s
  | r :: rest => { buf := r, undo := (saveToUndo false s).undo, redo := rest }

/-- `Buffer.undo()` on a READ-ONLY buffer (`read_only()` is true).
    As shipped (`checksFirst = false`): the `while` loop pops as on a writable buffer; when it finds an
    entry with another text it first pushes the current state on the redo stack and only then
    `self.document = …` raises `EditReadOnlyBuffer` — the text stays, the popped entries are gone.
    With proposed_fixes/C07-readonly-undo-keeps-history.diff (`checksFirst = true`) the read-only check
    comes first and nothing is touched.  The flag is probed from the running code (Gen.C07.roChecksFirst). -/
def undoRO (checksFirst : Bool) (s : St) : St :=
  if checksFirst then s else
  match undoLoop s.buf s.undo with
  | some (_, rest) => { buf := s.buf, undo := rest, redo := s.buf :: s.redo }
  | none => { buf := s.buf, undo := [], redo := s.redo }

/-- `Buffer.redo()` on a READ-ONLY buffer: as shipped, `save_to_undo_stack(clear_redo_stack=False)` and the
    pop of the redo entry happen before `self.document = …` raises. -/
def redoRO (checksFirst : Bool) (s : St) : St :=
  if checksFirst then s else
  match s.redo with
  | [] => s
  | _ :: rest => { buf := s.buf, undo := (saveToUndo false s).undo, redo := rest }

/-! ### a few concrete edits (used by the API-level correspondence; the theorems
    quantify over arbitrary `Buf → Buf`) -/

/-- `Buffer.insert_text(data)` -/
def insertText (data : Text) (b : Buf) : Buf :=
  { text := b.text.take b.cur ++ data ++ b.text.drop b.cur, cur := b.cur + data.length }

/-- `Buffer.delete_before_cursor(count)` -/
def deleteBefore (count : Nat) (b : Buf) : Buf :=
  let n := min count b.cur
  { text := b.text.take (b.cur - n) ++ b.text.drop b.cur, cur := b.cur - n }

/-- `Buffer.delete(count)` -/
def delete (count : Nat) (b : Buf) : Buf :=
  { text := b.text.take b.cur ++ b.text.drop (b.cur + count), cur := b.cur }

/-- `Buffer.cursor_position = v` (clamped) -/
def setCursor (v : Int) (b : Buf) : Buf :=
  { text := b.text, cur := min v.toNat b.text.length }

/-- `Buffer.text = t` (cursor clamped) -/
def setText (t : Text) (b : Buf) : Buf :=
  { text := t, cur := min b.cur t.length }

/-- `KeyProcessor._fix_vi_cursor_position` when `vi_navigation_mode()` holds: a cursor at the end
    of a non-empty line (`current_char in ("\n", "")`, `len(current_line) > 0`) moves one to the left. -/
def viFix (b : Buf) : Buf :=
  let atEol := match b.text[b.cur]? with
    | none => true
    | some c => c == '\n'
  let lineEmpty := b.cur == 0 || b.text[b.cur - 1]? == some '\n'
  if atEol && !lineEmpty then { text := b.text, cur := b.cur - 1 } else b

/-! ### API level -/

/-- one call on the Buffer API -/
inductive Act
  | edit (f : Buf → Buf)
  | undo
  | redo
  | save (clear : Bool)
  | reset (doc : Buf)
  | undoRO (checksFirst : Bool)
  | redoRO (checksFirst : Bool)

def act (s : St) : Act → St
  | .edit f => { s with buf := f s.buf }
  | .undo => undo s
  | .redo => redo s
  | .save c => saveToUndo c s
  | .reset d => reset d
  | .undoRO fx => undoRO fx s
  | .redoRO fx => redoRO fx s

/-! ### key processor level -/

structure KSt where
  st : St
  prev : Option Nat     -- `KeyProcessor._previous_handler`
deriving Repr, DecidableEq

/-- a fresh session: `Buffer.reset(document)`, `KeyProcessor.reset()` -/
def kInit (doc : Buf) : KSt := { st := reset doc, prev := none }

/-- `KeyProcessor._call_handler(handler, …)` for the handler with identity `h`,
    `save_before = rule ∘ is_repeat`, and body `body`. -/
def callHandler (h : Nat) (rule : Bool → Bool) (body : List Act) (k : KSt) : KSt :=
  let isRepeat := decide (k.prev = some h)
  let s1 := if rule isRepeat then saveToUndo true k.st else k.st
  { st := body.foldl act s1, prev := some h }

/-- how a handler call ends:
    `ok`        the handler returned;
    `readOnly`  it raised `EditReadOnlyBuffer`: caught inside `_call_handler` (bell), `_fix_vi_cursor_position`
                is skipped, everything after the `try` runs as usual (`_previous_handler = handler`);
    `raised`    any other exception: it leaves `_call_handler` before `_previous_handler` is assigned and
                `process_keys` answers with `self.reset()` (`_previous_handler = None`, argument and key
                buffer dropped), `self.empty_queue()`, re-raise. -/
inductive Outcome
  | ok | readOnly | raised
deriving Repr, DecidableEq

/-- `_previous_handler` after a call of handler `h` that ended with outcome `o` -/
def prevAfter (o : Outcome) (h : Nat) : Option Nat :=
  match o with
  | .raised => none
  | _ => some h

/-- `_call_handler` with its three ways out; `body` = the Buffer calls made before the handler ended
    (the `save_before` snapshot is taken before the handler runs, so it is kept in all three cases). -/
def callHandlerO (o : Outcome) (h : Nat) (rule : Bool → Bool) (body : List Act) (k : KSt) : KSt :=
  let isRepeat := decide (k.prev = some h)
  let s1 := if rule isRepeat then saveToUndo true k.st else k.st
  { st := body.foldl act s1, prev := prevAfter o h }

/-- `KeyProcessor.reset()` -/
def kpReset (k : KSt) : KSt := { k with prev := none }

/-- a change of text / cursor made outside `_call_handler` (an asynchronous completion that arrives
    between two keys, application code): no snapshot, stacks and `_previous_handler` untouched. -/
def extEdit (f : Buf → Buf) (k : KSt) : KSt := { k with st := { k.st with buf := f k.st.buf } }

/-- a new prompt on the same objects: `Buffer.reset(doc)` and `Application.reset()` (which calls
    `KeyProcessor.reset()`). -/
def restart (doc : Buf) (k : KSt) : KSt := kpReset { k with st := reset doc }

/-- `KeyProcessor._process_cpr_response`: a cursor position report (`ESC [ row ; col R`, key
    `Keys.CPRResponse`) that arrives at any key boundary is answered by calling its handler
    directly (`is_repeat=False`, the handler only talks to the renderer): no `save_before`, no
    `_call_handler`, `_previous_handler` / `_previous_key_sequence` / `arg` are left alone.
    For the undo machinery it is the identity. -/
def cprResponse (k : KSt) : KSt := k

/-! ### the `save_before` bits of the shipped bindings: READ from the regenerated table

    `Gen.C07.table` (harness/gen_c07.py) lists every binding a PromptSession can dispatch with its
    `save_before` evaluated for is_repeat = false / true on the real `Binding` object.  The fully
    modelled key sets below take their rules from it by (handler, keys); nothing about
    `if_no_repeat` / `save_before=False` is hard-coded in the model. -/

def rowRule (r : Gen.C07.Row) : Bool → Bool := fun rep => if rep then r.r1 else r.r0

/-- the rule of the binding `(handler name, keys)`; the default of `KeyBindings.add` when it is not listed.
    (Looked up in `Gen.C07.keyRows`, the copy of the rows of the modelled bindings: string comparisons are
    slow in the kernel; `gen_keyRows_ok` re-checks that every entry is the row of `Gen.C07.table` at its index.) -/
@[irreducible] def ruleOf (name keys : String) : Bool → Bool :=
  match Gen.C07.keyRows.find? (fun p => p.2.name == name && p.2.keys == keys) with
  | some p => rowRule p.2
  | none => fun _ => true

/-! ### the shipped emacs bindings, fully modelled (a key set)

    basic.py / emacs.py / named_commands.py (rule = what the table says today):
      Keys.Any  -> self-insert            if_no_repeat
      backspace -> backward-delete-char   if_no_repeat
      delete    -> delete-char            if_no_repeat   (C-Delete is kill-word in emacs mode)
      left / right / home / end / c-a / c-e / c-b / c-f / c-k / c-u     default (always)
      c-_ , c-x c-u -> undo               never
    plus a harness binding that calls `Buffer.redo()` (never saves; the library has no redo key).
    No numeric argument (`event.arg = 1`). -/

/-- `len(document.current_line_before_cursor)` -/
def lineBeforeLen (b : Buf) : Nat := ((b.text.take b.cur).reverse.takeWhile (· ≠ '\n')).length
/-- `len(document.current_line_after_cursor)` -/
def lineAfterLen (b : Buf) : Nat := ((b.text.drop b.cur).takeWhile (· ≠ '\n')).length

inductive EKey
  | char (c : Char) | backspace | delete | left | right | home | eol | killLine
  | undo | undoXU | redo
  | ctrlA | ctrlE | ctrlB | ctrlF | ctrlU
deriving Repr, DecidableEq

/-- identity of the `Binding` that handles the key -/
def EKey.hid : EKey → Nat
  | .char _ => 0 | .backspace => 1 | .delete => 2 | .left => 3 | .right => 4 | .home => 5
  | .eol => 6 | .killLine => 7 | .undo => 8 | .undoXU => 9 | .redo => 10
  | .ctrlA => 11 | .ctrlE => 12 | .ctrlB => 13 | .ctrlF => 14 | .ctrlU => 16

/-- (handler, keys) of that binding in the generated table; the harness redo binding is not a shipped one -/
def EKey.row : EKey → Option (String × String)
  | .char _ => some ("named_commands.self_insert", "<any>")
  | .backspace => some ("named_commands.backward_delete_char", "c-h")
  | .delete => some ("named_commands.delete_char", "delete")
  | .left => some ("named_commands.backward_char", "left")
  | .right => some ("named_commands.forward_char", "right")
  | .home => some ("named_commands.beginning_of_line", "home")
  | .eol => some ("named_commands.end_of_line", "end")
  | .killLine => some ("named_commands.kill_line", "c-k")
  | .undo => some ("named_commands.undo", "c-_")
  | .undoXU => some ("named_commands.undo", "c-x+c-u")
  | .redo => none
  | .ctrlA => some ("named_commands.beginning_of_line", "c-a")
  | .ctrlE => some ("named_commands.end_of_line", "c-e")
  | .ctrlB => some ("named_commands.backward_char", "c-b")
  | .ctrlF => some ("named_commands.forward_char", "c-f")
  | .ctrlU => some ("named_commands.unix_line_discard", "c-u")

/-- `save_before` of that binding as a function of `is_repeat` -/
def EKey.rule (key : EKey) : Bool → Bool :=
  match key.row with
  | some (n, k) => ruleOf n k
  | none => fun _ => false

def killLine (b : Buf) : Buf :=
  if b.text[b.cur]? = some '\n' then delete 1 b else delete (lineAfterLen b) b

def leftInLine (b : Buf) : Buf := setCursor ((b.cur : Int) - min (lineBeforeLen b) 1) b
def rightInLine (b : Buf) : Buf := setCursor ((b.cur : Int) + min (lineAfterLen b) 1) b
def toBol (b : Buf) : Buf := setCursor ((b.cur : Int) - lineBeforeLen b) b
def toEol (b : Buf) : Buf := setCursor ((b.cur : Int) + lineAfterLen b) b

/-- `unix-line-discard`: at column 0 (not at the start of the text) the newline before the cursor goes,
    otherwise everything between the start of the line and the cursor -/
def lineDiscard (b : Buf) : Buf :=
  if lineBeforeLen b = 0 ∧ 0 < b.cur then deleteBefore 1 b else deleteBefore (lineBeforeLen b) b

/-- what the handler does to (text, cursor) -/
def EKey.edit : EKey → Buf → Buf
  | .char c => insertText [c]
  | .backspace => deleteBefore 1
  | .delete => Ptk.C07.delete 1
  | .left => leftInLine
  | .ctrlB => leftInLine
  | .right => rightInLine
  | .ctrlF => rightInLine
  | .home => toBol
  | .ctrlA => toBol
  | .eol => toEol
  | .ctrlE => toEol
  | .killLine => Ptk.C07.killLine
  | .ctrlU => lineDiscard
  | _ => id

def EKey.acts : EKey → List Act
  | .undo => [.undo]
  | .undoXU => [.undo]
  | .redo => [.redo]
  | key => [.edit key.edit]

/-- one key press in emacs mode -/
def ekey (k : KSt) (key : EKey) : KSt := callHandler key.hid key.rule key.acts k

/-! ### the shipped Vi bindings, fully modelled (a key set)

    vi.py: `escape` (_back_to_navigation), `i`, `a`, `A`, `x`, `X`, `u`, the count digits `2`, `3` in
    navigation mode (rules from the table: default, except `u`: never); in insert mode the printable
    keys go to the SAME self-insert binding of basic.py as in emacs mode (if_no_repeat).
    `_fix_vi_cursor_position` runs after every handler and acts when the editor is (now) in navigation
    mode.  Counts: `KeyProcessor.arg` is a digit string, cleared at the start of every `_call_handler`;
    `event.arg` = its value, or 1 when it is absent or ≥ 1000000. -/

inductive VKey
  | i | a | x | u | escape | redo | bigA | bigX | d2 | d3
deriving Repr, DecidableEq

/-- the character the key inserts in insert mode -/
def VKey.letter : VKey → Char
  | .i => 'i' | .a => 'a' | .x => 'x' | .u => 'u' | .bigA => 'A' | .bigX => 'X' | .d2 => '2' | .d3 => '3'
  | _ => ' '

structure VSt where
  k : KSt
  ins : Bool        -- vi_state.input_mode == INSERT (otherwise NAVIGATION)
  arg : Option Nat  -- KeyProcessor.arg (a string of the digits 2 / 3 here, read as a number)
deriving Repr, DecidableEq

/-- a fresh Vi session starts in insert mode -/
def vInit (doc : Buf) : VSt := { k := kInit doc, ins := true, arg := none }

/-- `KeyPressEvent.arg` -/
def argVal : Option Nat → Nat
  | none => 1
  | some n => if n ≥ 1000000 then 1 else n

def viX (n : Nat) (b : Buf) : Buf := delete (min n (lineAfterLen b)) b
def viBigX (n : Nat) (b : Buf) : Buf := deleteBefore (min n (lineBeforeLen b)) b

def vRuleOf (fn keys : String) : Bool → Bool := ruleOf ("vi.load_vi_bindings." ++ fn) keys

/-- one key press in Vi mode -/
def vkey (v : VSt) (key : VKey) : VSt :=
  let n := argVal v.arg
  if v.ins then
    match key with
    | .escape => { k := callHandler 20 (vRuleOf "_back_to_navigation" "escape") [.edit leftInLine, .edit viFix] v.k,
                   ins := false, arg := none }
    | .redo => { k := callHandler 10 (fun _ => false) [.redo] v.k, ins := true, arg := none }
    | key => { k := callHandler 0 (ruleOf "named_commands.self_insert" "<any>") [.edit (insertText [key.letter])] v.k,
               ins := true, arg := none }
  else
    match key with
    | .i => { k := callHandler 21 (vRuleOf "_i" "i") [] v.k, ins := true, arg := none }
    | .a => { k := callHandler 22 (vRuleOf "_a" "a") [.edit rightInLine] v.k, ins := true, arg := none }
    | .bigA => { k := callHandler 25 (vRuleOf "_A" "A") [.edit toEol] v.k, ins := true, arg := none }
    | .x => { k := callHandler 23 (vRuleOf "_delete" "x") [.edit (viX n), .edit viFix] v.k, ins := false, arg := none }
    | .bigX => { k := callHandler 26 (vRuleOf "_delete_before_cursor" "X") [.edit (viBigX n), .edit viFix] v.k,
                 ins := false, arg := none }
    | .u => { k := callHandler 24 (vRuleOf "_undo" "u") (List.replicate n .undo ++ [.edit viFix]) v.k,
              ins := false, arg := none }
    | .escape => { k := callHandler 20 (vRuleOf "_back_to_navigation" "escape") [.edit viFix] v.k, ins := false, arg := none }
    | .redo => { k := callHandler 10 (fun _ => false) [.redo, .edit viFix] v.k, ins := false, arg := none }
    | .d2 => { k := callHandler 27 (vRuleOf "_arg" "2") [.edit viFix] v.k, ins := false,
               arg := some ((v.arg.getD 0) * 10 + 2) }
    | .d3 => { k := callHandler 28 (vRuleOf "_arg" "3") [.edit viFix] v.k, ins := false,
               arg := some ((v.arg.getD 0) * 10 + 3) }

end Ptk.C07
