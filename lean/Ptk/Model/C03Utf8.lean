/-
  C03 — model of the read path below the parser:
    `PosixStdinReader.read`  (src/prompt_toolkit/input/posix_utils.py)  =  `os.read` + the
      incremental UTF-8 decoder with `errors="surrogateescape"`,
    `Vt100Input.read_keys` / `flush_keys`  (src/prompt_toolkit/input/vt100.py).

  The decoder itself is CPython runtime (`codecs.getincrementaldecoder("utf-8")`, i.e.
  `BufferedIncrementalDecoder.decode` around `_codecs.utf_8_decode(data, errors, final=False)`);
  it is modelled here so that chunk independence can be stated for BYTE reads, and the model is
  compared with the real decoder on every run (exhaustive short byte strings + random).

  Bytes and code points are `Nat`.  An undecodable byte `b` becomes the lone surrogate
  `0xDC00 + b` (surrogateescape).  `step` decodes one unit from the front of the pending bytes or
  answers `none` = "valid so far, need more input":
    * the decision uses exactly the bytes CPython's `utf8_decode` looks at (an invalid second byte
      is reported as soon as it is seen, e.g. `E0 80`), and
    * `ED A0..BF` at the very end of the data is held back (CPython: "truncated surrogate", kept
      for a possible `surrogatepass`); with a third byte it is an error like everywhere else.
-/
import Ptk.Model.C03
namespace Ptk.C03.Utf8
open Ptk.Py

abbrev Bytes := List Nat

/-- `(b & 0xC0) == 0x80` -/
def isCont (b : Nat) : Bool := 0x80 ≤ b && b ≤ 0xBF

/-- surrogateescape -/
def esc (b : Nat) : Nat := 0xDC00 + b

def cp2 (b0 b1 : Nat) : Nat := (b0 - 0xC0) * 64 + (b1 - 0x80)
def cp3 (b0 b1 b2 : Nat) : Nat := (b0 - 0xE0) * 4096 + (b1 - 0x80) * 64 + (b2 - 0x80)
def cp4 (b0 b1 b2 b3 : Nat) : Nat :=
  (b0 - 0xF0) * 262144 + (b1 - 0x80) * 4096 + (b2 - 0x80) * 64 + (b3 - 0x80)

/-- second byte not acceptable after the lead byte of a 3-byte sequence (overlong / surrogate) -/
def bad3 (b0 b1 : Nat) : Bool := !isCont b1 || (if b1 < 0xA0 then b0 == 0xE0 else b0 == 0xED)
/-- second byte not acceptable after the lead byte of a 4-byte sequence (overlong / > U+10FFFF) -/
def bad4 (b0 b1 : Nat) : Bool := !isCont b1 || (if b1 < 0x90 then b0 == 0xF0 else b0 == 0xF4)

/-- `ED A0..BF`: the first two bytes of an encoded surrogate -/
def surrogateHead (b0 b1 : Nat) : Bool := b0 == 0xED && 0xA0 ≤ b1 && b1 ≤ 0xBF

/-- lead byte `C2..DF` followed by `t` -/
def step2 (b0 : Nat) (t : Bytes) : Option (List Nat × Bytes) :=
  match t with
  | [] => none
  | b1 :: t1 => if isCont b1 then some ([cp2 b0 b1], t1) else some ([esc b0], t)

/-- lead byte `E0..EF` followed by `t` -/
def step3 (b0 : Nat) (t : Bytes) : Option (List Nat × Bytes) :=
  match t with
  | [] => none
  | b1 :: t1 =>
    if bad3 b0 b1 then
      if surrogateHead b0 b1 && t1.isEmpty then none else some ([esc b0], t)
    else
      match t1 with
      | [] => none
      | b2 :: t2 => if isCont b2 then some ([cp3 b0 b1 b2], t2) else some ([esc b0, esc b1], t1)

/-- lead byte `F0..F4` followed by `t` -/
def step4 (b0 : Nat) (t : Bytes) : Option (List Nat × Bytes) :=
  match t with
  | [] => none
  | b1 :: t1 =>
    if bad4 b0 b1 then some ([esc b0], t)
    else
      match t1 with
      | [] => none
      | b2 :: t2 =>
        if !isCont b2 then some ([esc b0, esc b1], t1)
        else
          match t2 with
          | [] => none
          | b3 :: t3 =>
            if isCont b3 then some ([cp4 b0 b1 b2 b3], t3) else some ([esc b0, esc b1, esc b2], t2)

/-- one decoding step on the pending bytes: `none` = incomplete, wait for more -/
def step : Bytes → Option (List Nat × Bytes)
  | [] => none
  | b0 :: t =>
    if b0 < 0x80 then some ([b0], t)
    else if b0 < 0xC2 then some ([esc b0], t)
    else if b0 < 0xE0 then step2 b0 t
    else if b0 < 0xF0 then step3 b0 t
    else if b0 < 0xF5 then step4 b0 t
    else some ([esc b0], t)

/-- decode as far as possible: (code points, bytes kept for the next call) -/
def scanFuel : Nat → Bytes → List Nat × Bytes
  | 0, bs => ([], bs)
  | n + 1, bs =>
    match step bs with
    | none => ([], bs)
    | some (o, r) => let (o', r') := scanFuel n r; (o ++ o', r')

/-- `_codecs.utf_8_decode(data, "surrogateescape", final=False)` as (text, data[consumed:]);
    every step consumes a byte, so `data.length` steps suffice -/
def scan (bs : Bytes) : List Nat × Bytes := scanFuel bs.length bs

/-- `BufferedIncrementalDecoder.decode(input)` : state = `self.buffer` -/
def decode (buf chunk : Bytes) : List Nat × Bytes := scan (buf ++ chunk)

/-- `Vt100Input` = stdin reader (decoder buffer) + parser -/
structure InSt where
  dec : Bytes
  p : St
deriving Repr

def InSt.init : InSt := { dec := [], p := St.init }

/-- `Vt100Input.read_keys()` when `os.read` delivers `chunk` (non-empty):
    `data = stdin_reader.read(); vt100_parser.feed(data)`.
    (Code points that are lone surrogates have no `Char`; streams containing undecodable bytes are
    compared at the decoder level only.) -/
def readKeys (cfg : Cfg) (st : InSt) (chunk : Bytes) : InSt :=
  let (cps, buf) := decode st.dec chunk
  { dec := buf, p := feed cfg st.p (cps.map Char.ofNat) }

/-- `Vt100Input.flush_keys()` -/
def flushKeys (cfg : Cfg) (st : InSt) : InSt := { st with p := flush cfg st.p }

/-- a schedule step at the file-descriptor level: one `os.read` delivering some bytes, or the
    flush timeout -/
inductive BOp where
  | read (chunk : Bytes)
  | flush
deriving Repr

def bstep (cfg : Cfg) (st : InSt) : BOp → InSt
  | .read c => readKeys cfg st c
  | .flush => flushKeys cfg st

def brun (cfg : Cfg) (st : InSt) (ops : List BOp) : InSt := ops.foldl (bstep cfg) st

end Ptk.C03.Utf8
