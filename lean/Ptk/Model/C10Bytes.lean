/-
  C10 — the byte level: from the text an output object has buffered to the BYTES that reach
  the terminal, and how a terminal of that encoding reads them back.

    * `Vt100_Output.write / write_raw / flush`, `PlainTextOutput.write / write_raw / flush`
      (output/vt100.py, output/plain_text.py): the `_buffer` list and its joining    → `outStep`
    * `flush_stdout(stdout, data)` (output/flush_stdout.py): binary path
      `stdout.buffer.write(data.encode(stdout.encoding or "utf-8", "replace"))` when the stream has
      both `encoding` and `buffer`, otherwise `stdout.write(data)`                      → `flushStdout`
      (the stream's own `errors` attribute is NOT consulted: the model has no such field; the
      correspondence varies it on the real stream)
    * `str.encode(enc, "replace")` for the stateless ASCII-compatible codecs: UTF-8 (written out)
      and single-byte code pages (tables regenerated from the running interpreter)     → `encodeReplace`
    * the terminal's side: a streaming UTF-8 decoder that reports every byte that is not part of a
      well-formed sequence (`Item.bad`), and the per-byte decoding of a code page    → `Codec.dec`

  Not modelled: the `OSError` handling of `flush_stdout` (EINTR / errno 0 are swallowed, the data of
  that flush may then be written partially — nothing is ADDED), `_blocking_io`, stateful codecs
  (UTF-16/32 with BOM, UTF-7, ISO-2022) and codecs that are not ASCII supersets (EBCDIC).
-/
import Ptk.Model.C10Diff
namespace Ptk.C10
open Ptk.Py

scoped notation "Bytes" => List Nat

/-- what a terminal makes of a byte stream -/
inductive Item
  | cp (c : Nat)    -- a decoded character (code point)
  | bad (b : Nat)   -- a byte that is not part of a well-formed sequence / undefined in the code page
deriving DecidableEq, Repr

structure Codec where
  /-- strict encoding of ONE code point (`none`: the codec raises `UnicodeEncodeError` for it) -/
  enc : CP → Option Bytes
  /-- how a terminal that uses this encoding reads a byte stream -/
  dec : Bytes → List Item

/-- one character of `str.encode(encoding, "replace")`: an unencodable character becomes `?` -/
def encRepl (C : Codec) (c : CP) : Bytes :=
  match C.enc c with
  | some bs => bs
  | none => (C.enc QM).getD [QM]

/-- `data.encode(encoding, "replace")` -/
def encodeReplace (C : Codec) (t : CText) : Bytes := t.flatMap (encRepl C)

/-- the character a terminal sees for `c` after `encode(…, "replace")` -/
def repl (C : Codec) (c : CP) : CP := if (C.enc c).isSome then c else QM

/-! ### UTF-8 -/

/-- CPython's strict UTF-8 encoder for one code point: lone surrogates (and numbers that are not
    code points) are not encodable -/
def utf8Enc (c : CP) : Option Bytes :=
  if c < 0x80 then some [c]
  else if c < 0x800 then some [0xC0 + c / 64, 0x80 + c % 64]
  else if c < 0x10000 then
    (if 0xD800 ≤ c ∧ c ≤ 0xDFFF then none
     else some [0xE0 + c / 4096, 0x80 + c / 64 % 64, 0x80 + c % 64])
  else if c < 0x110000 then
    some [0xF0 + c / 262144, 0x80 + c / 4096 % 64, 0x80 + c / 64 % 64, 0x80 + c % 64]
  else none

/-- state of a streaming UTF-8 decoder -/
inductive USt
  | ground
  /-- inside a multi-byte sequence: `need` continuation bytes still to come, `acc` the value so far,
      `lo` the smallest value this length may encode (overlong forms are ill-formed), `pend` the
      bytes consumed so far -/
  | cont (need acc lo : Nat) (pend : Bytes)
deriving DecidableEq, Repr

def isCont (b : Nat) : Bool := 0x80 ≤ b && b ≤ 0xBF

def badAll (bs : Bytes) : List Item := bs.map Item.bad

/-- a byte seen in the ground state -/
def utf8Ground (b : Nat) : USt × List Item :=
  if b < 0x80 then (.ground, [.cp b])
  else if 0xC2 ≤ b && b ≤ 0xDF then (.cont 1 (b - 0xC0) 0x80 [b], [])
  else if 0xE0 ≤ b && b ≤ 0xEF then (.cont 2 (b - 0xE0) 0x800 [b], [])
  else if 0xF0 ≤ b && b ≤ 0xF4 then (.cont 3 (b - 0xF0) 0x10000 [b], [])
  else (.ground, [.bad b])

/-- is `v` a value a well-formed sequence with lower bound `lo` may carry? -/
def scalarOk (lo v : Nat) : Bool := lo ≤ v && v < 0x110000 && !(0xD800 ≤ v && v ≤ 0xDFFF)

def utf8Step : USt → Nat → USt × List Item
  | .ground, b => utf8Ground b
  | .cont need acc lo pend, b =>
    if isCont b then
      let acc' := acc * 64 + (b - 0x80)
      if need ≤ 1 then
        (.ground, if scalarOk lo acc' then [.cp acc'] else badAll (pend ++ [b]))
      else (.cont (need - 1) acc' lo (pend ++ [b]), [])
    else
      -- the sequence is broken off: its bytes are ill-formed, `b` starts afresh
      let r := utf8Ground b
      (r.1, badAll pend ++ r.2)

def utf8Run : USt → Bytes → List Item
  | .ground, [] => []
  | .cont _ _ _ pend, [] => badAll pend
  | st, b :: bs => (utf8Step st b).2 ++ utf8Run (utf8Step st b).1 bs

/-- a UTF-8 terminal reading a byte stream -/
def utf8Dec (bs : Bytes) : List Item := utf8Run .ground bs

def utf8 : Codec := { enc := utf8Enc, dec := utf8Dec }

/-! ### single-byte code pages (tables regenerated from the running interpreter) -/

/-- encode table lookup; the table is sorted by code point, so the scan stops early -/
def cmFind : List (Nat × Nat) → Nat → Option Nat
  | [], _ => none
  | (k, b) :: rest, c => if c < k then none else if c = k then some b else cmFind rest c

def cmEnc (tbl : List (Nat × Nat)) (c : CP) : Option Bytes := (cmFind tbl c).map fun b => [b]

/-- a terminal in this code page: every byte is a character of its own (`none` = undefined) -/
def cmDec (dt : List (Option Nat)) (bs : Bytes) : List Item :=
  bs.map fun b => match dt[b]? with
    | some (some c) => .cp c
    | _ => .bad b

def charmap (tbl : List (Nat × Nat)) (dt : List (Option Nat)) : Codec :=
  { enc := cmEnc tbl, dec := cmDec dt }

/-- decidable side conditions on a code page: what it encodes decodes back to the same character,
    and it is an ASCII superset -/
def charmapOk (tbl : List (Nat × Nat)) (dt : List (Option Nat)) : Bool :=
  (tbl.all fun kb => dt[kb.2]? == some (some kb.1)) &&
  (List.range 0x80).all fun c => cmFind tbl c == some c

/-! ### `flush_stdout` -/

/-- the stream object handed to `flush_stdout`, as far as the function looks at it -/
structure Stream where
  /-- `hasattr(stdout, "encoding")` -/
  hasEncoding : Bool
  /-- `hasattr(stdout, "buffer")` -/
  hasBuffer : Bool
  /-- `stdout.encoding`: `none` = `None` or `""` (falsy), `some C` = the codec of that name -/
  encoding : Option Codec

/-- what the stream object receives -/
inductive Wire
  | bytes (bs : Bytes)   -- `stdout.buffer.write(<bytes>)`
  | text (t : CText)     -- `stdout.write(<str>)`: the stream encodes by itself

/-- `flush_stdout(stdout, data)` (the write; `stdout.flush()` follows in both branches) -/
def flushStdout (s : Stream) (data : CText) : Wire :=
  if s.hasEncoding && s.hasBuffer then
    .bytes (encodeReplace (s.encoding.getD utf8) data)
  else .text data

/-! ### the `_buffer` of `Vt100_Output` / `PlainTextOutput` -/

inductive OutOp
  | write (d : CText)
  | writeRaw (d : CText)
  | flush
deriving DecidableEq, Repr

/-- one call on an output object: the new `_buffer` (oldest piece first) and, for a `flush()` that
    finds a non-empty buffer, the `data` handed to `flush_stdout`.  `vt` = `Vt100_Output` (`write`
    replaces ESC); `PlainTextOutput.write` appends the data unchanged. -/
def outStep (vt : Bool) (buf : List CText) : OutOp → List CText × Option CText
  | .write d => (buf ++ [if vt then safeWrite d else d], none)
  | .writeRaw d => (buf ++ [d], none)
  | .flush => if buf.isEmpty then (buf, none) else ([], some buf.flatten)

/-- a sequence of calls: final `_buffer` and the `data` of every `flush_stdout` call, in order -/
def outRun (vt : Bool) : List CText → List OutOp → List CText × List CText
  | buf, [] => (buf, [])
  | buf, op :: ops =>
    let r := outStep vt buf op
    let rest := outRun vt r.1 ops
    (rest.1, (match r.2 with | some d => [d] | none => []) ++ rest.2)

/-- everything written so far, in call order (what the pieces add up to) -/
def written (vt : Bool) : List OutOp → CText
  | [] => []
  | .write d :: ops => (if vt then safeWrite d else d) ++ written vt ops
  | .writeRaw d :: ops => d ++ written vt ops
  | .flush :: ops => written vt ops

/-- the bytes a binary stream receives for a list of `flush_stdout` calls -/
def wireBytes (C : Codec) (chunks : List CText) : Bytes := chunks.flatMap (encodeReplace C)

end Ptk.C10
