/-
  C17 (sixth layer) — the life cycle of the input's reader callback on the event loop, and what the
  renderer remembers about cursor-position requests from one prompt to the next.

  Code followed (as it is now):
    * input/vt100.py `_attached_input` (entered by `Application.run_async` through
      `self.input.attach(read_from_input_in_context)`): `previous = _current_callbacks.get((loop, fd))`,
      `loop.add_reader(fd, callback_wrapper)` (replaces whatever reader the loop had for this fd),
      `_current_callbacks[loop, fd] = callback`; at the end of the `with` block — which is AFTER
      `store_typeahead` — `loop.remove_reader(fd)` unconditionally, then the previous callback is
      registered again if there was one, else the `_current_callbacks` entry is deleted;
    * application.py `read_from_input`: the guard `if not self._is_running and not
      self.renderer.waiting_for_cpr: return` belongs to the APPLICATION whose callback it is; the
      exit path waits for CPR answers only `if self.output.responds_to_cpr`;
    * renderer.py: `cpr_support` is NOT_SUPPORTED for an output that does not answer, but
      `report_absolute_cursor_row` sets it to SUPPORTED as soon as a CPR response is seen on the
      input; from then on `request_absolute_cursor_position` sends a request at every start
      (`_waiting_for_cpr_futures.append`), and since nobody waits for (or answers) them they are still
      there after the run: the renderer — one per `PromptSession` — keeps them for the next prompt;
    * one `PromptSession` = one `Application` = one `KeyProcessor`: a callback of a FINISHED run that
      still got past its guard would feed what it reads to that key processor, whose `reset()` at the
      next start throws it away.

  State on top of `Ptk.Model.C17.St`: which run's callback the loop has registered for the fd, the
  `_current_callbacks` entry, the `previous` remembered by the context manager, the renderer's
  memory (`seen`, `rw`), and a ledger `lost` of keys a stale callback has eaten.  The event `turn n`
  is the event loop polling the fd and calling the reader it has registered (if any).
-/
import Ptk.Model.C17
namespace Ptk.C17.Attach
open Ptk.C17

structure St where
  l1 : C17.St
  runs : Nat                 -- number of runs started so far (the id of the current / last run)
  reader : Option Nat        -- the loop's reader for the fd: the `read_from_input` of run #n
  cb : Option Nat            -- `_current_callbacks[loop, fd]`
  prev : Option Nat          -- the local `previous` of the `_attached_input` that is open
  seen : Bool                -- `renderer.cpr_support == SUPPORTED`: a CPR response has been reported
  rw : Nat                   -- `len(renderer._waiting_for_cpr_futures)` between two runs
  lost : List Key            -- keys read by the callback of a finished run
deriving DecidableEq, Repr

def St.init (responds : Bool) : St :=
  { l1 := C17.St.init responds, runs := 0, reader := none, cb := none, prev := none,
    seen := false, rw := 0, lost := [] }

inductive Ev where
  | write (c : List Key)
  | start
  | turn (n : Nat)           -- the loop polls the fd: the registered reader (if any) is called; ≤ n keys
  | finish
  | endWait
deriving DecidableEq, Repr

/-- entering `_attached_input` for run `r` -/
def attach (s : St) (r : Nat) : St :=
  -- previous = _current_callbacks.get((loop, fd)); loop.add_reader(fd, wrapper); _current_callbacks[…] = callback
  { s with prev := s.cb, reader := some r, cb := some r }

/-- leaving `_attached_input` -/
def detach (s : St) : St :=
  -- loop.remove_reader(fd); if previous: loop.add_reader(fd, previous); _current_callbacks[…] = previous
  -- else: del _current_callbacks[loop, fd]
  { s with reader := s.prev, cb := s.prev, prev := none }

/-- the end of the exit path of the current run: what the renderer keeps, then the `with` block ends -/
def leaveBook (s : St) (old : C17.St) (l1' : C17.St) : St :=
  detach { s with
    l1 := l1'
    -- an output that answers was waited for (answers popped, or the timeout erased the requests)
    rw := if old.responds then 0 else old.kp.waiting
    seen := s.seen || decide (0 < old.kp.cprs) }

def step (s : St) : Ev → St
  | .write c => { s with l1 := C17.step s.l1 (.write c) }
  | .start =>
    if s.l1.running || s.l1.exiting then s
    else
      let t := C17.step s.l1 .start           -- reset(), type-ahead fed and processed
      -- `_request_absolute_cursor_position`: `if not input_queue and not is_done`, and the renderer
      -- asks when the output answers or a CPR response has been seen before
      let seen' := s.seen || decide (0 < t.kp.cprs)
      let ask := (s.l1.responds || seen') && t.kp.queue.isEmpty && t.kp.done.isNone
      attach { s with
        l1 := { t with kp := { t.kp with waiting := s.rw - t.kp.cprs + (if ask then 1 else 0) } }
        runs := s.runs + 1
        rw := 0 } (s.runs + 1)
  | .turn n =>
    match s.reader with
    | none => s                                  -- no reader registered: the bytes stay in the pipe
    | some r =>
      if s.l1.running || s.l1.exiting then
        -- (the reader of the running application — `no_stale_reader`: r = s.runs)
        { s with l1 := C17.step s.l1 (.read n) }
      else if r = s.runs ∧ 0 < s.rw then
        -- the callback of the FINISHED run passes its guard (`renderer.waiting_for_cpr`): it reads,
        -- feeds the dead key processor; `reset()` of the next run discards it
        { s with l1 := { s.l1 with pipe := s.l1.pipe.drop n }
                 lost := s.lost ++ dropCpr (s.l1.pipe.take n)
                 rw := s.rw - countCpr (s.l1.pipe.take n) }
      else s
  | .finish =>
    let t := C17.step s.l1 .finish
    if (s.l1.running || s.l1.exiting) && !t.running && !t.exiting then leaveBook s s.l1 t
    else { s with l1 := t }
  | .endWait =>
    let t := C17.step s.l1 .endWait
    if (s.l1.running || s.l1.exiting) && !t.running && !t.exiting then leaveBook s s.l1 t
    else { s with l1 := t }

def run (s : St) : List Ev → St
  | [] => s
  | e :: es => run (step s e) es

def written : List Ev → List Key
  | [] => []
  | .write c :: es => c ++ written es
  | _ :: es => written es

/-! ### the variant of seeded/C17-j: `loop.remove_reader(fd)` only `if previous` -/
def detachBad (s : St) : St :=
  match s.prev with
  | some p => { s with reader := some p, cb := some p, prev := none }
  | none => { s with cb := none, prev := none }       -- the reader stays registered

def stepBad (s : St) : Ev → St
  | .finish =>
    let t := C17.step s.l1 .finish
    if (s.l1.running || s.l1.exiting) && !t.running && !t.exiting then
      detachBad { s with l1 := t, rw := if s.l1.responds then 0 else s.l1.kp.waiting,
                         seen := s.seen || decide (0 < s.l1.kp.cprs) }
    else { s with l1 := t }
  | e => step s e

def runBad (s : St) : List Ev → St
  | [] => s
  | e :: es => runBad (stepBad s e) es

end Ptk.C17.Attach
