/-
  C16 — raw keys.  Which handler a physical key runs is not hard-coded: `rawStep` looks the key up
  in a BINDING TABLE (regenerated on every run from the real key bindings of the current tree by
  harness/gen_c16.py -> `Ptk.Gen.C16.bindTable`) under the state bits the bindings' filters look at
  (`is_searching`, `control_is_searchable`, `is_read_only`, `search_buffer_is_empty`, editing mode),
  and only the map  handler name -> model key  is written by hand (`handlerKey`).
  A key whose handler is not a search handler is outside the model (state unchanged).
-/
import Ptk.Model.C16
namespace Ptk.C16
open Ptk.Py

/-- (Vi mode?, state bits, key name, handler qualname) -/
abbrev BindTable := List (Bool × Nat × String × String)

/-- searching=1 searchable=2 read-only=4 field-empty=8; while the search field has the focus the
    focused buffer is the field's (never read-only) -/
def stateBits (ro : Bool) (s : Sess) : Nat :=
  if s.searching then 1 + 2 + (if s.field.isEmpty then 8 else 0)
  else 2 + (if ro then 4 else 0)

def lookup (tbl : BindTable) (vi : Bool) (bits : Nat) (key : String) : Option String :=
  match tbl.find? (fun r => r.1 == vi && r.2.1 == bits && r.2.2.1 == key) with
  | some r => some r.2.2.2
  | none => none

/-- a key press: a named key or a character, with `event.arg` (1 when no argument was typed) -/
structure RawKey where
  name : String            -- "c-r", "enter", … or "ch:<code point>"
  ch : Char := 'a'         -- the character (when `name` is "ch:…")
  arg : Int := 1
deriving Repr, DecidableEq

def charKeyName (c : Char) : String := "ch:" ++ toString c.toNat

/-- handler qualname -> the model key it is translated to -/
def handlerKey (h : String) (k : RawKey) : Option XKey :=
  if h == "start_reverse_incremental_search" then some (.base (.start .bwd))
  else if h == "start_forward_incremental_search" then some (.base (.start .fwd))
  else if h == "reverse_incremental_search" then some (.base (.incr .bwd))
  else if h == "forward_incremental_search" then some (.base (.incr .fwd))
  else if h == "accept_search" then some (.base .accept)
  else if h == "abort_search" then some (.base .abort)
  else if h == "self_insert" then some (.base (.type k.ch))
  else if h == "backward_delete_char" then some (.base .backspace)
  -- Buffer.auto_up / auto_down (emacs C-p / C-n, vi Up / Down in insert mode)
  else if h == "load_emacs_bindings.<locals>._prev" then some (.base .histPrev)
  else if h == "load_emacs_bindings.<locals>._next" then some (.base .histNext)
  else if h == "load_basic_bindings.<locals>._go_up" then some (.base .histPrev)
  else if h == "load_basic_bindings.<locals>._go_down" then some (.base .histNext)
  else if h == "load_vi_bindings.<locals>._search_next2" then some (.base (.next k.arg.toNat))
  else if h == "load_vi_bindings.<locals>._search_previous2" then some (.base (.prev k.arg.toNat))
  else if h == "load_vi_bindings.<locals>._next_occurrence" then some (.star k.arg.toNat)
  else if h == "load_vi_bindings.<locals>._prev_occurrence" then some (.hash k.arg.toNat)
  else if h == "load_emacs_search_bindings.<locals>._jump_next" then some (.jumpNext k.arg)
  else if h == "load_emacs_search_bindings.<locals>._jump_prev" then some (.jumpPrev k.arg)
  else none

/-- the model key a raw key is dispatched to in state `s` -/
def dispatch (tbl : BindTable) (vi ro : Bool) (s : Sess) (k : RawKey) : Option XKey :=
  match lookup tbl vi (stateBits ro s) k.name with
  | none => none
  | some h => handlerKey h k

def rawStep (tbl : BindTable) (eq : Char → Char → Bool) (isSp : Char → Bool) (vi ro : Bool) (s : Sess)
    (k : RawKey) : Sess :=
  match dispatch tbl vi ro s k with
  | none => s
  | some x => stepX eq isSp vi ro s x

def rawRun (tbl : BindTable) (eq : Char → Char → Bool) (isSp : Char → Bool) (vi ro : Bool) (s : Sess) :
    List RawKey → Sess
  | [] => s
  | k :: ks => rawRun tbl eq isSp vi ro (rawStep tbl eq isSp vi ro s k) ks

end Ptk.C16
