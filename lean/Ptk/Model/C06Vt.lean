/-
  C06 — `Vt100_Output` (src/prompt_toolkit/output/vt100.py) as an encoder from `Output` calls to the text it
  writes: `write`, `write_raw`, `set_attributes` (`_EscapeCodeCache.__missing__`, `_colors_to_code`,
  `_color_name_to_rgb`, `_get_closest_ansi_color`, `_16ColorCache`, `_256ColorCache.__missing__`),
  `reset_attributes`, `cursor_goto`, `cursor_up/down/forward/backward` (amount 0 / 1 / n), `erase_screen`,
  `erase_end_of_line`, `erase_down`, `hide_cursor` / `show_cursor` (with `_cursor_visible`),
  `enable/disable_autowrap`, the mode switches, `set_cursor_shape` / `reset_cursor_shape`
  (with `_cursor_shape_changed`), `ask_for_cpr` — and a byte-level VT100 interpreter for that command set.

  The fixed escape sequences and the colour tables come from `Ptk.Gen.C06` (regenerated from /repo on every run).

  Colour strings are ANSI colour names or strings of hex digits (what `styles.parse_color` produces); for any
  other string `int(color, 16)` is not modelled (Python also accepts signs, `0x`, `_`, blanks).
-/
import Ptk.Model.C06
import Ptk.Gen.C06Vt
namespace Ptk.C06
open Ptk.Py

def ESC : Char := Char.ofNat 27

/-! ### numbers -/

def digitChar (d : Nat) : Char := Char.ofNat (48 + d)

def digitsAux : Nat → Nat → Text
  | 0, _ => []
  | f + 1, n => if n < 10 then [digitChar n] else digitsAux f (n / 10) ++ [digitChar (n % 10)]

/-- `"%i" % n` / `str(n)` for a natural number (`n + 1` is more fuel than needed) -/
def digits (n : Nat) : Text := digitsAux (n + 1) n

def isDigit (c : Char) : Bool := 48 ≤ c.toNat && c.toNat ≤ 57

/-- decimal value of a string of digits (`""` ↦ 0; a non-digit counts as 0: never produced by the encoder) -/
def parseNat (t : Text) : Nat := t.foldl (fun acc c => acc * 10 + (c.toNat - 48)) 0

/-! ### colours (`_EscapeCodeCache._colors_to_code`) -/

def lookupT2 {α : Type} : List (Text × α) → Text → Option α
  | [], _ => none
  | (k, v) :: rest, s => if k = s then some v else lookupT2 rest s

def hexVal (c : Char) : Option Nat :=
  if 48 ≤ c.toNat ∧ c.toNat ≤ 57 then some (c.toNat - 48)
  else if 97 ≤ c.toNat ∧ c.toNat ≤ 102 then some (c.toNat - 87)
  else if 65 ≤ c.toNat ∧ c.toNat ≤ 70 then some (c.toNat - 55)
  else none

/-- `int(color, 16)` for a non-empty string of hex digits -/
def parseHex : Text → Option Nat
  | [] => none
  | cs => cs.foldl (fun acc c => match acc, hexVal c with
      | some a, some v => some (a * 16 + v)
      | _, _ => none) (some 0)

/-- `_color_name_to_rgb` -/
def colorToRgb (color : Text) : Option (Nat × Nat × Nat) :=
  match parseHex color with
  | some rgb => some ((rgb / 65536) % 256, (rgb / 256) % 256, rgb % 256)
  | none => none

def absDiff (a b : Nat) : Nat := if a ≤ b then b - a else a - b

def dist2 (r g b r2 g2 b2 : Nat) : Nat :=
  absDiff r r2 * absDiff r r2 + absDiff g g2 * absDiff g g2 + absDiff b b2 * absDiff b b2

def kwDefault : Text := "ansidefault".toList
def grayish : List Text :=
  ["ansilightgray".toList, "ansidarkgray".toList, "ansiwhite".toList, "ansiblack".toList]

/-- the loop of `_get_closest_ansi_color` over `ANSI_COLORS_TO_RGB.items()` (strict `<`: first minimum) -/
def closestLoop (r g b : Nat) (exclude : List Text) :
    List (Text × (Nat × Nat × Nat)) → Text → Nat → Text
  | [], m, _ => m
  | (name, (r2, g2, b2)) :: rest, m, d =>
    if name ≠ kwDefault ∧ ¬ exclude.contains name then
      if dist2 r g b r2 g2 b2 < d then closestLoop r g b exclude rest name (dist2 r g b r2 g2 b2)
      else closestLoop r g b exclude rest m d
    else closestLoop r g b exclude rest m d

/-- `_get_closest_ansi_color(r, g, b, exclude)` -/
def closestAnsi (r g b : Nat) (exclude : List Text) : Text :=
  let saturation := absDiff r g + absDiff g b + absDiff b r
  let ex := if 30 < saturation then exclude ++ grayish else exclude
  closestLoop r g b ex Gen.C06.ansiRgb kwDefault (257 * 257 * 3)

/-- the loop of `_256ColorCache.__missing__` (indices ≥ 16 only, strict `<`) -/
def closest256Loop (r g b : Nat) : List (Nat × Nat × Nat) → Nat → Nat → Nat → Nat
  | [], _, m, _ => m
  | (r2, g2, b2) :: rest, i, m, d =>
    if 16 ≤ i ∧ dist2 r g b r2 g2 b2 < d then closest256Loop r g b rest (i + 1) i (dist2 r g b r2 g2 b2)
    else closest256Loop r g b rest (i + 1) m d

def closest256 (r g b : Nat) : Nat := closest256Loop r g b Gen.C06.palette 0 0 (257 * 257 * 3)

/-- nested `get(color, bg)` of `_colors_to_code`; returns the codes and the new `fg_ansi` -/
def colorGet (depth : Nat) (fgColor bgColor : Text) (fgAnsiName : Text) (color : Text) (bg : Bool) :
    List Nat × Text :=
  let table := if bg then Gen.C06.bgAnsi else Gen.C06.fgAnsi
  if color = [] ∨ depth = 1 then ([], fgAnsiName)
  else match lookupT2 table color with
    | some code => ([code], fgAnsiName)
    | none =>
      match colorToRgb color with
      | none => ([], fgAnsiName)
      | some (r, g, b) =>
        if depth = 4 then
          if bg then
            let exclude := if fgColor ≠ bgColor then [fgAnsiName] else []
            let name := closestAnsi r g b exclude
            ([(lookupT2 Gen.C06.bgAnsi name).getD 0], fgAnsiName)
          else
            let name := closestAnsi r g b []
            ([(lookupT2 Gen.C06.fgAnsi name).getD 0], name)
        else if depth = 24 then ([(if bg then 48 else 38), 2, r, g, b], fgAnsiName)
        else ([(if bg then 48 else 38), 5, closest256 r g b], fgAnsiName)

/-- `_colors_to_code(fg_color, bg_color)` as numbers -/
def colorsToCode (depth : Nat) (fg bg : Text) : List Nat :=
  let f := colorGet depth fg bg [] fg false
  let b := colorGet depth fg bg f.2 bg true
  f.1 ++ b.1

/-- the numeric parameters after the leading `0` of the escape code of `attrs` at `depth`
    (`_EscapeCodeCache.__missing__`: colours, then 1 3 5 4 7 8 9) -/
def sgrParams (depth : Nat) (a : Attrs) : List Nat :=
  colorsToCode depth a.fg a.bg ++
  ((if a.bold then [1] else []) ++ ((if a.italic then [3] else []) ++ ((if a.blink then [5] else []) ++
  ((if a.underline then [4] else []) ++ ((if a.reverse then [7] else []) ++ ((if a.hidden then [8] else []) ++
  (if a.strike then [9] else [])))))))

def joinSemi : List Text → Text
  | [] => []
  | [t] => t
  | t :: rest => t ++ (';' :: joinSemi rest)

/-- `_EscapeCodeCache[depth][attrs]` -/
def escapeCode (depth : Nat) (a : Attrs) : Text :=
  [ESC, '['] ++ (joinSemi ((0 :: sgrParams depth a).map digits) ++ ['m'])

/-! ### the output object -/

/-- `Vt100_Output._cursor_visible`, `_cursor_shape_changed` -/
structure VtSt where
  cursorVisible : Option Bool
  shapeChanged : Bool
deriving DecidableEq, Repr, Inhabited

/-- `Vt100_Output.__init__` -/
def VtSt.init : VtSt := ⟨none, false⟩

/-- `"\x1b[%i<final>" % amount` with the 0 / 1 cases of `cursor_up/down/forward/backward` -/
def moveCode (amount : Nat) (final : Char) (one : Text) : Text :=
  if amount = 0 then [] else if amount = 1 then one else [ESC, '['] ++ (digits amount ++ [final])

/-- what one `Output` call appends to `Vt100_Output._buffer`, and the output's state afterwards -/
def vtEmit (st : VtSt) : Cmd → VtSt × Text
  | .write t => (st, t.map fun c => if c = ESC then '?' else c)
  | .writeRaw t => (st, t)
  | .setAttrs a depth _ => (st, escapeCode depth a)
  | .resetAttrs => (st, Gen.C06.resetAttributes)
  | .cursorUp n => (st, moveCode n 'A' [ESC, '[', 'A'])
  | .cursorForward n => (st, moveCode n 'C' [ESC, '[', 'C'])
  | .cursorBackward n => (st, moveCode n 'D' ['\x08'])
  | .eraseDown => (st, Gen.C06.eraseDown)
  | .eraseEol => (st, Gen.C06.eraseEndOfLine)
  | .hideCursor =>
    if st.cursorVisible = some false then (st, []) else ({ st with cursorVisible := some false }, Gen.C06.hideCursor)
  | .showCursor =>
    if st.cursorVisible = some true then (st, []) else ({ st with cursorVisible := some true }, Gen.C06.showCursor)
  | .disableAutowrap => (st, Gen.C06.disableAutowrap)
  | .enableAutowrap => (st, Gen.C06.enableAutowrap)
  | .eraseScreen => (st, Gen.C06.eraseScreen)
  | .cursorGoto r c => (st, [ESC, '['] ++ (digits r ++ (';' :: (digits c ++ ['H']))))
  | .enterAlt => (st, Gen.C06.enterAlternateScreen)
  | .quitAlt => (st, Gen.C06.quitAlternateScreen)
  | .enableMouse => (st, Gen.C06.enableMouseSupport)
  | .disableMouse => (st, Gen.C06.disableMouseSupport)
  | .enablePaste => (st, Gen.C06.enableBracketedPaste)
  | .disablePaste => (st, Gen.C06.disableBracketedPaste)
  | .resetCkm => (st, Gen.C06.resetCursorKeyMode)
  | .resetCursorShape =>
    if st.shapeChanged then ({ st with shapeChanged := false }, Gen.C06.resetCursorShapeChanged) else (st, [])
  | .setCursorShape k =>
    if k = 0 then (st, []) else ({ st with shapeChanged := true }, Gen.C06.shapeCodes.getD k [])
  | .scrollToPrompt => (st, Gen.C06.scrollBufferToPrompt)
  | .flush => (st, [])
  | .askCpr => (st, Gen.C06.askForCpr)

/-- a list of calls -/
def vtEmitAll : VtSt → List Cmd → VtSt × Text
  | st, [] => (st, [])
  | st, c :: cs =>
    let a := vtEmit st c
    let b := vtEmitAll a.1 cs
    (b.1, a.2 ++ b.2)

/-! ### the module-level memo tables `_16_fg_colors` / `_16_bg_colors` (`_16ColorCache`)

  `get_code(value, exclude)` memoises `_get(value, exclude)` under the key `(value, tuple(exclude))`; the tables are
  module globals: they survive every `Vt100_Output` and every `Renderer` of the process. -/

/-- `_16ColorCache._cache`: `(rgb, exclude) ↦ (code, name)` -/
abbrev Memo16 := List ((Nat × Nat × Nat) × List Text × (Nat × Text))

structure ColorMemo where
  fg : Memo16
  bg : Memo16
deriving Repr, Inhabited

def ColorMemo.empty : ColorMemo := ⟨[], []⟩

def memoLookup : Memo16 → (Nat × Nat × Nat) → List Text → Option (Nat × Text)
  | [], _, _ => none
  | (k, ex, v) :: rest, rgb, exclude => if k = rgb ∧ ex = exclude then some v else memoLookup rest rgb exclude

/-- `_16ColorCache._get(value, exclude)` for the foreground (`bg = false`) / background table -/
def get16 (bg : Bool) (rgb : Nat × Nat × Nat) (exclude : List Text) : Nat × Text :=
  let name := closestAnsi rgb.1 rgb.2.1 rgb.2.2 exclude
  ((lookupT2 (if bg then Gen.C06.bgAnsi else Gen.C06.fgAnsi) name).getD 0, name)

/-- `_16ColorCache.get_code(value, exclude)` -/
def getCode16 (bg : Bool) (m : Memo16) (rgb : Nat × Nat × Nat) (exclude : List Text) : (Nat × Text) × Memo16 :=
  match memoLookup m rgb exclude with
  | some v => (v, m)
  | none => (get16 bg rgb exclude, (rgb, exclude, get16 bg rgb exclude) :: m)

/-- nested `get(color, bg)` of `_colors_to_code`, going through the memo tables at 4-bit depth -/
def colorGetM (cm : ColorMemo) (depth : Nat) (fgColor bgColor : Text) (fgAnsiName : Text) (color : Text) (bg : Bool) :
    List Nat × Text × ColorMemo :=
  let table := if bg then Gen.C06.bgAnsi else Gen.C06.fgAnsi
  if color = [] ∨ depth = 1 then ([], fgAnsiName, cm)
  else match lookupT2 table color with
    | some code => ([code], fgAnsiName, cm)
    | none =>
      match colorToRgb color with
      | none => ([], fgAnsiName, cm)
      | some (r, g, b) =>
        if depth = 4 then
          if bg then
            let exclude := if fgColor ≠ bgColor then [fgAnsiName] else []
            let q := getCode16 true cm.bg (r, g, b) exclude
            ([q.1.1], fgAnsiName, { cm with bg := q.2 })
          else
            let q := getCode16 false cm.fg (r, g, b) []
            ([q.1.1], q.1.2, { cm with fg := q.2 })
        else if depth = 24 then ([(if bg then 48 else 38), 2, r, g, b], fgAnsiName, cm)
        else ([(if bg then 48 else 38), 5, closest256 r g b], fgAnsiName, cm)

def colorsToCodeM (cm : ColorMemo) (depth : Nat) (fg bg : Text) : List Nat × ColorMemo :=
  let f := colorGetM cm depth fg bg [] fg false
  let b := colorGetM f.2.2 depth fg bg f.2.1 bg true
  (f.1 ++ b.1, b.2.2)

/-- `_EscapeCodeCache[depth][attrs]` computed through the memo tables -/
def escapeCodeM (cm : ColorMemo) (depth : Nat) (a : Attrs) : Text × ColorMemo :=
  let c := colorsToCodeM cm depth a.fg a.bg
  ([ESC, '['] ++ (joinSemi ((0 :: (c.1 ++
    ((if a.bold then [1] else []) ++ ((if a.italic then [3] else []) ++ ((if a.blink then [5] else []) ++
    ((if a.underline then [4] else []) ++ ((if a.reverse then [7] else []) ++ ((if a.hidden then [8] else []) ++
    (if a.strike then [9] else []))))))))).map digits) ++ ['m']), c.2)

/-- one `Output` call of a `Vt100_Output` in a process whose memo tables are `cm` -/
def vtEmitM (st : VtSt) (cm : ColorMemo) (c : Cmd) : VtSt × ColorMemo × Text :=
  match c with
  | .setAttrs a depth _ => (st, (escapeCodeM cm depth a).2, (escapeCodeM cm depth a).1)
  | c => ((vtEmit st c).1, cm, (vtEmit st c).2)

def vtEmitAllM : VtSt → ColorMemo → List Cmd → VtSt × ColorMemo × Text
  | st, cm, [] => (st, cm, [])
  | st, cm, c :: cs =>
    let a := vtEmitM st cm c
    let b := vtEmitAllM a.1 a.2.1 cs
    (b.1, b.2.1, a.2.2 ++ b.2.2)

/-! ### byte-level interpreter

  A VT100 / xterm terminal reading characters: C0 controls CR LF BS, `ESC [ <private>? <params> <final>`
  (CUU CUD CUF CUB CUP ED EL SGR DECSET/DECRST 7 and 25; everything else is parsed and ignored),
  `ESC ] … BEL|ST` (ignored), other two-character escapes (ignored), printable characters.
  The cell grid, the cursor and the modes are those of `Term`; the SGR state is kept in parsed form. -/

/-- the SGR state: colour selections as their parameter lists (`[]` default, `[31]`, `[38,5,n]`, `[38,2,r,g,b]`) -/
structure Sgr where
  fg : List Nat
  bg : List Nat
  bold : Bool
  underline : Bool
  strike : Bool
  italic : Bool
  blink : Bool
  reverse : Bool
  hidden : Bool
deriving DecidableEq, Repr, Inhabited

def Sgr.dflt : Sgr := ⟨[], [], false, false, false, false, false, false, false⟩

/-- the attributes a cell is stored with: colours as the text of their parameters -/
def Sgr.toAttrs (s : Sgr) : Attrs :=
  ⟨joinSemi (s.fg.map digits), joinSemi (s.bg.map digits), s.bold, s.underline, s.strike, s.italic, s.blink,
   s.reverse, s.hidden⟩

def isFgCode (v : Nat) : Bool := (30 ≤ v && v ≤ 37) || (90 ≤ v && v ≤ 97)
def isBgCode (v : Nat) : Bool := (40 ≤ v && v ≤ 47) || (100 ≤ v && v ≤ 107)

/-- SGR parameters applied from the left -/
def applySgr : List Nat → Sgr → Sgr
  | [], s => s
  | 38 :: 5 :: n :: rest, s => applySgr rest { s with fg := [38, 5, n] }
  | 38 :: 2 :: r :: g :: b :: rest, s => applySgr rest { s with fg := [38, 2, r, g, b] }
  | 48 :: 5 :: n :: rest, s => applySgr rest { s with bg := [48, 5, n] }
  | 48 :: 2 :: r :: g :: b :: rest, s => applySgr rest { s with bg := [48, 2, r, g, b] }
  | v :: rest, s =>
    if v = 0 then applySgr rest Sgr.dflt
    else if v = 1 then applySgr rest { s with bold := true }
    else if v = 3 then applySgr rest { s with italic := true }
    else if v = 4 then applySgr rest { s with underline := true }
    else if v = 5 then applySgr rest { s with blink := true }
    else if v = 7 then applySgr rest { s with reverse := true }
    else if v = 8 then applySgr rest { s with hidden := true }
    else if v = 9 then applySgr rest { s with strike := true }
    else if isFgCode v then applySgr rest { s with fg := [v] }
    else if isBgCode v then applySgr rest { s with bg := [v] }
    else if v = 39 then applySgr rest { s with fg := [] }
    else if v = 49 then applySgr rest { s with bg := [] }
    else applySgr rest s

/-- what a terminal displays after `set_attributes(attrs, depth)`: the `enc` of the differ model -/
def vtEnc (depth : Nat) (a : Attrs) : Attrs := (applySgr (0 :: sgrParams depth a) Sgr.dflt).toAttrs

inductive PState
  | ground
  | esc
  /-- inside `ESC [`: the private marker and the parameter characters read so far -/
  | csi (priv : Option Char) (params : Text)
  | osc
  | oscEsc
deriving DecidableEq, Repr, Inhabited

structure BTerm where
  t : Term
  sgr : Sgr
  ps : PState

/-- parameter text → numbers (`;`-separated, an empty parameter is 0) -/
def splitSemi : Text → Text → List Text
  | [], cur => [cur]
  | c :: rest, cur => if c = ';' then cur :: splitSemi rest [] else splitSemi rest (cur ++ [c])

def csiParams (params : Text) : List Nat := (splitSemi (params.filter (· != ' ')) []).map parseNat

/-- first parameter with default 1 (CUU, CUD, CUF, CUB) -/
def param1 (ps : List Nat) : Nat :=
  match ps with
  | [] => 1
  | p :: _ => if p = 0 then 1 else p

def decset (final : Char) (t : Term) : List Nat → Term
  | [] => t
  | q :: rest =>
    let t1 := if q = 7 then { t with autowrap := (final == 'h') }
              else if q = 25 then { t with visible := (final == 'h') } else t
    decset final t1 rest

/-- a complete control sequence `ESC [ priv params final` -/
def dispatch (cw : Char → Nat) (b : BTerm) (priv : Option Char) (params : Text) (final : Char) : BTerm :=
  let ps := csiParams params
  match priv with
  | some p =>
    if p = '?' ∧ (final = 'h' ∨ final = 'l') then { b with t := decset final b.t ps, ps := .ground }
    else { b with ps := .ground }
  | none =>
    if params.contains ' ' then { b with ps := .ground }     -- e.g. DECSCUSR `ESC [ n SP q`
    else if final = 'A' then { b with t := execCmd cw b.t (.cursorUp (param1 ps)), ps := .ground }
    else if final = 'B' then
      { b with t := { b.t with row := min (b.t.row + param1 ps) (b.t.h - 1) }, ps := .ground }
    else if final = 'C' then { b with t := execCmd cw b.t (.cursorForward (param1 ps)), ps := .ground }
    else if final = 'D' then { b with t := execCmd cw b.t (.cursorBackward (param1 ps)), ps := .ground }
    else if final = 'H' then
      { b with t := execCmd cw b.t (.cursorGoto (ps.getD 0 0) (ps.getD 1 0)), ps := .ground }
    else if final = 'J' then
      (if ps.getD 0 0 = 0 then { b with t := execCmd cw b.t .eraseDown, ps := .ground }
       else if ps.getD 0 0 = 2 then { b with t := execCmd cw b.t .eraseScreen, ps := .ground }
       else { b with ps := .ground })
    else if final = 'K' then
      (if ps.getD 0 0 = 0 then { b with t := execCmd cw b.t .eraseEol, ps := .ground }
       else { b with ps := .ground })
    else if final = 'm' then
      { b with sgr := applySgr ps b.sgr, t := { b.t with sgr := (applySgr ps b.sgr).toAttrs }, ps := .ground }
    else { b with ps := .ground }

def isParamChar (c : Char) : Bool := isDigit c || c = ';' || c = ' '

/-- one character -/
def bstep (cw : Char → Nat) (b : BTerm) (c : Char) : BTerm :=
  match b.ps with
  | .ground => if c = ESC then { b with ps := .esc } else { b with t := Term.putChar cw b.t c }
  | .esc =>
    if c = '[' then { b with ps := .csi none [] }
    else if c = ']' then { b with ps := .osc }
    else { b with ps := .ground }
  | .csi priv params =>
    if isParamChar c then { b with ps := .csi priv (params ++ [c]) }
    else if (c = '?' ∨ c = '>') ∧ params = [] ∧ priv = none then { b with ps := .csi (some c) [] }
    else dispatch cw b priv params c
  | .osc =>
    if c = '\x07' then { b with ps := .ground }
    else if c = ESC then { b with ps := .oscEsc } else b
  | .oscEsc => if c = '\\' then { b with ps := .ground } else { b with ps := .osc }

/-- the terminal after reading `data` -/
def interp (cw : Char → Nat) (b : BTerm) (data : Text) : BTerm := data.foldl (bstep cw) b

end Ptk.C06
