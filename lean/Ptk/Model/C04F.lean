/-
  C04 (part 1) — model of the filter algebra of `prompt_toolkit.filters.base`
  (src/prompt_toolkit/filters/base.py, filters/utils.py).

  Python filters are objects with identity: `_remove_duplicates` and the memo
  dictionaries `_and_cache` / `_or_cache` / `_invert_result` compare with the
  default `__eq__`/`__hash__`, i.e. by identity.  Every filter object therefore
  carries an `id` (allocation counter of the `Heap`); `Always`/`Never` are only
  ever recognised with `isinstance`, so they carry none.

  `Condition(func)` is modelled as `cond id v`: `func` reads the switchable
  condition variable `v` of the environment `ρ`.
-/
import Ptk.Py
namespace Ptk.C04

inductive F where
  | always
  | never
  | cond (id : Nat) (v : Nat)
  | andL (id : Nat) (fs : List F)
  | orL (id : Nat) (fs : List F)
  | inv (id : Nat) (f : F)
deriving Repr, Inhabited

mutual
/-- `f()` under the condition values `ρ` -/
def F.eval (ρ : Nat → Bool) : F → Bool
  | .always => true
  | .never => false
  | .cond _ v => ρ v
  | .andL _ fs => evalAll ρ fs     -- all(f() for f in self.filters)
  | .orL _ fs => evalAny ρ fs      -- any(f() for f in self.filters)
  | .inv _ f => !(f.eval ρ)
def evalAll (ρ : Nat → Bool) : List F → Bool
  | [] => true
  | f :: fs => f.eval ρ && evalAll ρ fs
def evalAny (ρ : Nat → Bool) : List F → Bool
  | [] => false
  | f :: fs => f.eval ρ || evalAny ρ fs
end

/-- object identity; `Always`/`Never` get the reserved ids 0 and 1 (never compared by the code) -/
def F.id : F → Nat
  | .always => 0
  | .never => 1
  | .cond i _ => i
  | .andL i _ => i
  | .orL i _ => i
  | .inv i _ => i

/-- Python `a == b` / `a is b` on filter objects -/
def F.same (a b : F) : Bool := a.id == b.id

/-- allocation counter, the memo dictionaries of all filter objects, and the list of all
    objects allocated so far (`objs` is bookkeeping for the invariant; the code never reads it) -/
structure Heap where
  next : Nat := 2
  andC : List ((Nat × Nat) × F) := []   -- (id self, id other) ↦ self._and_cache[other]
  orC : List ((Nat × Nat) × F) := []    -- (id self, id other) ↦ self._or_cache[other]
  invC : List (Nat × F) := []           -- id self ↦ self._invert_result
  objs : List F := []
deriving Repr, Inhabited

/-- `_remove_duplicates` : `for f in filters: if f not in result: result.append(f)` -/
def removeDupAux (acc : List F) : List F → List F
  | [] => acc
  | f :: fs => if acc.any (fun g => g.same f) then removeDupAux acc fs
               else removeDupAux (acc ++ [f]) fs
def removeDup (l : List F) : List F := removeDupAux [] l

/-- `_AndList.create`, first loop: nested `_AndList`s are spliced in -/
def flattenAnd : List F → List F
  | [] => []
  | .andL _ l :: fs => l ++ flattenAnd fs
  | f :: fs => f :: flattenAnd fs

def flattenOr : List F → List F
  | [] => []
  | .orL _ l :: fs => l ++ flattenOr fs
  | f :: fs => f :: flattenOr fs

/-- `_AndList.create(filters)` -/
def createAnd (h : Heap) (fs : List F) : Heap × F :=
  match removeDup (flattenAnd fs) with
  | [x] => (h, x)
  | d => ({ h with next := h.next + 1, objs := .andL h.next d :: h.objs }, .andL h.next d)

/-- `_OrList.create(filters)` -/
def createOr (h : Heap) (fs : List F) : Heap × F :=
  match removeDup (flattenOr fs) with
  | [x] => (h, x)
  | d => ({ h with next := h.next + 1, objs := .orL h.next d :: h.objs }, .orL h.next d)

def lookup2 : List ((Nat × Nat) × F) → Nat → Nat → Option F
  | [], _, _ => none
  | ((i', j'), r) :: rest, i, j => if i' == i && j' == j then some r else lookup2 rest i j

def lookup1 : List (Nat × F) → Nat → Option F
  | [], _ => none
  | (i', r) :: rest, i => if i' == i then some r else lookup1 rest i

/-- `a & b` : `Always.__and__`, `Never.__and__`, `Filter.__and__` -/
def fAnd (h : Heap) (a b : F) : Heap × F :=
  match a with
  | .always => (h, b)
  | .never => (h, a)
  | _ =>
    match b with
    | .always => (h, a)
    | .never => (h, b)
    | _ =>
      match lookup2 h.andC a.id b.id with
      | some r => (h, r)
      | none =>
        let (h', r) := createAnd h [a, b]
        ({ h' with andC := ((a.id, b.id), r) :: h'.andC }, r)

/-- `a | b` : `Always.__or__`, `Never.__or__`, `Filter.__or__` -/
def fOr (h : Heap) (a b : F) : Heap × F :=
  match a with
  | .always => (h, a)
  | .never => (h, b)
  | _ =>
    match b with
    | .always => (h, b)
    | .never => (h, a)
    | _ =>
      match lookup2 h.orC a.id b.id with
      | some r => (h, r)
      | none =>
        let (h', r) := createOr h [a, b]
        ({ h' with orC := ((a.id, b.id), r) :: h'.orC }, r)

/-- `~a` : `Always.__invert__`, `Never.__invert__`, `Filter.__invert__` -/
def fInv (h : Heap) (a : F) : Heap × F :=
  match a with
  | .always => (h, .never)
  | .never => (h, .always)
  | _ =>
    match lookup1 h.invC a.id with
    | some r => (h, r)
    | none =>
      let r := F.inv h.next a
      ({ h with next := h.next + 1, invC := (a.id, r) :: h.invC, objs := r :: h.objs }, r)

/-- `Condition(func)` with `func` reading condition variable `v` -/
def mkCond (h : Heap) (v : Nat) : Heap × F :=
  ({ h with next := h.next + 1, objs := .cond h.next v :: h.objs }, .cond h.next v)

/-- `to_filter(bool)` -/
def toFilter (b : Bool) : F := if b then .always else .never

/-- a `FilterOrBool` argument -/
inductive Raw where
  | b (v : Bool)
  | f (x : F)
deriving Repr, Inhabited

/-- `to_filter(raw)` -/
def Raw.toF : Raw → F
  | .b v => toFilter v
  | .f x => x

/-- `isinstance(raw, Never)` (a plain `False` is *not* an instance) -/
def Raw.isNever : Raw → Bool
  | .f .never => true
  | _ => false

end Ptk.C04
