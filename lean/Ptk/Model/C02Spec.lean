/-
  C02 — declarative SPECIFICATION of the word / WORD motion queries of
  `prompt_toolkit.document.Document` (core Lean only: the driver prints these values next to the
  model's, and `Ptk.Props.C02Words` proves  model = specification).

  A *word* is a maximal run of characters of one non-blank class `cl` (`cls sp WORD` of the model:
  word characters / other non-blanks; with WORD: non-blanks).  `isStartB cl T p`: index `p` starts
  such a run; `isEndB cl T p`: `p` is the exclusive end of such a run.  Each motion is "the
  `count`-th offset, counted away from the cursor, whose target starts / ends a run".
-/
import Ptk.Model.C02
namespace Ptk.C02
open Ptk.Py

/-- class of the character at index `j` (`none` past the end) -/
def clsAt (cl : Char → Nat) (T : Text) (j : Nat) : Option Nat := T[j]?.map cl

/-- index `p` holds a character of a non-blank class and the character before it (if any) has
    another class -/
def isStartB (cl : Char → Nat) (T : Text) (p : Nat) : Bool :=
  match clsAt cl T p with
  | none => false
  | some k => k != 0 && (p == 0 || clsAt cl T (p - 1) != some k)

/-- `p ≥ 1`, the character before index `p` has a non-blank class and the character at `p` (if any)
    has another class -/
def isEndB (cl : Char → Nat) (T : Text) (p : Nat) : Bool :=
  decide (1 ≤ p) &&
  match clsAt cl T (p - 1) with
  | none => false
  | some k => k != 0 && clsAt cl T p != some k

/-- `find_next_word_beginning` (count ≥ 1): offsets `q ≥ 1` with a word start at `cursor + q` -/
def specNextWordBeginning (cl : Char → Nat) (T : Text) (c : Nat) (count : Int) : Option Int :=
  (nth ((List.range (T.length - c)).filter (fun q => decide (1 ≤ q) && isStartB cl T (c + q))) count).map
    fun (q : Nat) => (q : Int)

/-- `find_next_word_ending`: offsets `q ≥ 1` (`≥ 2` without `include_current_position`) with a word
    end (exclusive) at `cursor + q` -/
def specNextWordEnding (cl : Char → Nat) (T : Text) (c : Nat) (incl : Bool) (count : Int) : Option Int :=
  (nth ((List.range (T.length - c + 1)).filter
      (fun q => decide ((if incl then 1 else 2) ≤ q) && isEndB cl T (c + q))) count).map
    fun (q : Nat) => (q : Int)

/-- `find_previous_word_beginning` / `find_start_of_previous_word`: offsets `-q`, `q ≥ 1`, with a
    word start at `cursor - q` -/
def specPrevWordBeginning (cl : Char → Nat) (T : Text) (c : Nat) (count : Int) : Option Int :=
  (nth ((List.range (c + 1)).filter (fun q => decide (1 ≤ q) && isStartB cl T (c - q))) count).map
    fun (q : Nat) => -(q : Int)

/-- `find_previous_word_ending` (count ≥ 1, a character under the cursor): offsets `-q`, `q ≥ 0`,
    with a word end (exclusive) at `cursor - q` -/
def specPrevWordEnding (cl : Char → Nat) (T : Text) (c : Nat) (count : Int) : Option Int :=
  (nth ((List.range c).filter (fun q => isEndB cl T (c - q))) count).map fun (q : Nat) => -(q : Int)

end Ptk.C02
