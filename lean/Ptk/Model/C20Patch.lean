/-
  C20 (fourth part) — the `patch_stdout()` context manager around `StdoutProxy`:

      with StdoutProxy(raw=raw) as proxy:
          original_stdout = sys.stdout; sys.stdout = proxy        # (same for sys.stderr)
          try:     yield
          finally: sys.stdout = original_stdout                   # 1. restore
      # StdoutProxy.__exit__ -> close():  put(_Done()); join()    # 2. close

  State: the proxy (the no-application part of `Ptk.Model.C20`: line buffer, flush queue, flush thread, what the
  session's Output received), the binding of `sys.stdout` (`bound` = it is the proxy), what the original stream
  received, and where the thread that runs the `with` block is.

    write t d / flush t   a thread calls `sys.stdout.write(d)` / `sys.stdout.flush()`: through whatever `sys.stdout`
                          is bound to at that moment (look-up and call are one step)
    fl                    next section of the flush thread (`Ptk.C20.flStep`)
    leave                 the main thread leaves the block: restore `sys.stdout`, then `close()` puts the sentinel
                          and waits in `join()`
    joined                the flush thread has returned: `join()` and with it `patch_stdout()` return

  `closeFirst` is a switch: `false` is the code; `true` is the swapped teardown order (proxy closed while
  `sys.stdout` is still the proxy, restored only after `join()` returned), used only to show that the order is
  what makes the property hold (seeded regression C20-j).
-/
import Ptk.Model.C20
namespace Ptk.C20Patch
open Ptk.Py Ptk.C20

/-- where the thread that runs `with patch_stdout():` is -/
inductive Pc where
  | inside    -- in the body of the block
  | joining   -- in `StdoutProxy.close()`: sentinel queued, waiting in `join()`
  | done      -- `patch_stdout()` has returned
deriving Repr, DecidableEq

structure St where
  closeFirst : Bool := false
  /-- the proxy; no application is involved here -/
  p : C20.St := {}
  /-- `sys.stdout is proxy` -/
  bound : Bool := true
  /-- what the original `sys.stdout` received -/
  orig : Text := []
  pc : Pc := .inside
  /-- ghost: every write call, in the order in which the calls were made -/
  calls : List (Nat × Text) := []
  /-- ghost: the write calls that went to the proxy / to the original stream -/
  viaProxy : List (Nat × Text) := []
  viaOrig : List (Nat × Text) := []
deriving Repr, DecidableEq

inductive Op where
  | write (t : Nat) (d : Text)
  | flush (t : Nat)
  | fl
  | leave
  | joined
deriving Repr, DecidableEq

def step (s : St) : Op → St
  | .write t d =>
    if s.bound then
      { s with p := doWrite s.p d, calls := s.calls ++ [(t, d)], viaProxy := s.viaProxy ++ [(t, d)] }
    else
      { s with orig := s.orig ++ d, calls := s.calls ++ [(t, d)], viaOrig := s.viaOrig ++ [(t, d)] }
  | .flush _ => if s.bound then { s with p := doFlush s.p } else s
  | .fl => { s with p := flStep s.p }
  | .leave =>
    match s.pc with
    | .inside =>
      -- `finally: sys.stdout = original_stdout`, then `close()`: `self._flush_queue.put(_Done())`
      { s with bound := if s.closeFirst then s.bound else false,
               p := { s.p with queue := s.p.queue ++ [.done] }, pc := .joining }
    | _ => s
  | .joined =>
    match s.pc with
    | .joining => if s.p.fl = .exited then { s with pc := .done, bound := false } else s
    | _ => s

def runOps (s : St) : List Op → St
  | [] => s
  | o :: os => runOps (step s o) os

def init (raw : Bool) : St := { p := C20.init raw }

def textsOf (l : List (Nat × Text)) : Text := (l.map (·.2)).flatten

/-- what the flush thread does by itself when nobody holds it: it takes what is queued and goes on to write it
    (driver macro; the emission itself is a step of its own, `emitHeld`) -/
def grab : Nat → C20.St → C20.St
  | 0, p => p
  | n + 1, p =>
    match p.fl with
    | .idle => if p.queue.isEmpty then p else grab n (flStep p)
    | .batch _ _ => grab n (flStep p)
    | _ => p

end Ptk.C20Patch
