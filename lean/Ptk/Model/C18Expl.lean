/-
  C18 — `_ExplodedList` (src/prompt_toolkit/layout/utils.py), `to_formatted_text(auto_convert=…)`
  (formatted_text/base.py) and `PygmentsTokens` (formatted_text/pygments.py).

  `_ExplodedList` is a `list` subclass whose `append`, `extend`, `__setitem__` explode what is
  stored; `insert` raises NotImplementedError; everything else (`+=`, `*=`, `sort`, `pop`, …) is
  `list`'s.  The model follows the three overridden methods line by line, `list.__setitem__` with a
  slice of step 1 and `list.__iadd__` (which does NOT call the overridden `extend`) as CPython
  defines them; extended slices (step other than 1) are not modelled.
-/
import Ptk.Model.C18
namespace Ptk.C18
open Ptk.Py

/-- an iterable handed to a mutator: a plain list of fragments, or the `_ExplodedList` itself
    (`explode_text_fragments` returns an `_ExplodedList` unchanged) -/
inductive ElArg
  | plain (fs : Frags)
  | self
deriving Repr, DecidableEq

/-- `explode_text_fragments(value)` as the mutators of the list `l` call it -/
def elExplodeArg (l : Frags) : ElArg → Frags
  | .plain fs => explode fs
  | .self => l

/-- `list.__setitem__(slice(a, b), x)` (step 1): bounds wrap once and clamp; an empty or reversed
    range inserts at its start -/
def setSlice (l : Frags) (a b : Option Int) (x : Frags) : Frags :=
  let n := l.length
  let lo := match a with
    | none => 0
    | some i => normIdx n i
  let hi := match b with
    | none => n
    | some i => normIdx n i
  l.take lo ++ x ++ l.drop (max lo hi)

inductive ElOp
  | append (f : Frag)                           -- `l.append(f)`
  | extend (x : ElArg)                          -- `l.extend(x)`
  | insert (i : Int) (f : Frag)                 -- `l.insert(i, f)`: NotImplementedError
  | setItem (i : Int) (f : Frag)                -- `l[i] = f`        (a tuple)
  | setItemList (i : Int) (x : ElArg)           -- `l[i] = x`        (an iterable at an int index)
  | setSlice (a b : Option Int) (x : ElArg)     -- `l[a:b] = x`
  | setSliceItem (a b : Option Int) (f : Frag)  -- `l[a:b] = f`      (a tuple: wrapped in a list)
  | iadd (x : Frags)                            -- `l += x`          (`list.__iadd__`, not overridden)
  | explodeSelf                                 -- `explode_text_fragments(l)` (returns `l`)
deriving Repr, DecidableEq

/-- one operation on an `_ExplodedList`; the flag says NotImplementedError was raised -/
def elStep (l : Frags) : ElOp → Frags × Bool
  | .append f => (l ++ explode [f], false)                       -- `self.extend([item])`
  | .extend x => (l ++ elExplodeArg l x, false)                  -- `super().extend(explode(lst))`
  | .insert _ _ => (l, true)
  | .setItem i f =>                                              -- `index = slice(i, i + 1)`
    (setSlice l (some i) (some (i + 1)) (explode [f]), false)
  | .setItemList i x => (setSlice l (some i) (some (i + 1)) (elExplodeArg l x), false)
  | .setSlice a b x => (setSlice l a b (elExplodeArg l x), false)
  | .setSliceItem a b f => (setSlice l a b (explode [f]), false)
  | .iadd x => (l ++ x, false)
  | .explodeSelf => (l, false)

def elRun : Frags → List ElOp → Frags × List Bool
  | l, [] => (l, [])
  | l, op :: ops =>
    ((elRun (elStep l op).1 ops).1, (elStep l op).2 :: (elRun (elStep l op).1 ops).2)

/-- `explode_text_fragments(fs)` followed by a sequence of operations on the result -/
def elSession (fs : Frags) (ops : List ElOp) : Frags × List Bool := elRun (explode fs) ops

/-! ### `to_formatted_text(value, style, auto_convert)` -/

/-- the values of `AnyFT` plus objects that are not formatted text (`s` = `f"{value}"`); callables
    may return any of these -/
inductive AnyV
  | ft (v : AnyFT)
  | other (s : Text)
  | call (v : AnyV)
deriving Repr

/-- `to_formatted_text(value, style, auto_convert)`; `none` = ValueError.  As in the code, the
    recursive call for a callable passes `style` but NOT `auto_convert`. -/
def toFormattedTextAC : AnyV → Text → Bool → Option Frags
  | .call v, style, _ => toFormattedTextAC v style false
  | .ft v, style, _ => some (toFormattedText v style)
  | .other s, style, ac =>
    if ac then some (toFormattedText (.str s) style) else none

/-! ### `PygmentsTokens` -/

def asciiLower (t : Text) : Text := t.map Char.toLower

/-- `pygments_token_to_classname(token)` for a token given as its tuple of (ASCII) names -/
def pygmentsClassname (token : List Text) : Text :=
  asciiLower (join ['.'] ("pygments".toList :: token))

/-- `PygmentsTokens(token_list).__pt_formatted_text__()` -/
def pygmentsTokens (toks : List (List Text × Text)) : Frags :=
  toks.map fun p => { style := "class:".toList ++ pygmentsClassname p.1, text := p.2 }

end Ptk.C18
