/-
  C10 — `Window._copy_body` (layout/containers.py): copying fragment lines into the screen.

  Modelled: the nested `copy_line` (fragments loop, `[ZeroWidthEscape]` handling, per-character
  `_CHAR_CACHE[c, style]`, line wrapping with the early `return x, y`, the `x >= 0 and y >= 0 and
  x < width` store condition, erasing the neighbours of a wide character with `_CHAR_CACHE["", ""]`,
  the zero-width merge into the previous cell(s), line prefixes incl. the continuation prefix
  after a wrap, horizontal scrolling, alignment) and the outer `copy()` loop (vertical_scroll,
  vertical_scroll_2).  Not modelled: cursor/menu positions, cursor line/column highlighting.

  The screen buffer is an association list, newest entry first; a missing key reads as the
  screen's default character (defaultdict).
-/
import Ptk.Model.C10
namespace Ptk.C10
open Ptk.Py

/-- absolute screen position `(y, x)` -/
abbrev Pos := Int × Int
abbrev Buf := List (Pos × Cell)
abbrev Zwe := List (Pos × CText)
/-- `(style, text)` -/
abbrev Frag := Text × CText

def bufFind? : Buf → Pos → Option Cell
  | [], _ => none
  | (q, c) :: rest, p => if q = p then some c else bufFind? rest p

/-- `data_buffer[y][x]` (defaultdict: a missing key reads as the default character) -/
def bufGet (b : Buf) (d : Cell) (p : Pos) : Cell := (bufFind? b p).getD d

def bufSet (b : Buf) (p : Pos) (c : Cell) : Buf := (p, c) :: b

def zweFind? : Zwe → Pos → Option CText
  | [], _ => none
  | (q, t) :: rest, p => if q = p then some t else zweFind? rest p

/-- `zero_width_escapes[y][x] += text` (defaultdict(str)) -/
def zweAppend (z : Zwe) (p : Pos) (t : CText) : Zwe := (p, (zweFind? z p).getD [] ++ t) :: z

structure CopyCfg where
  m : Table
  wc : CP → Int
  /-- `str.isprintable` per character (fast path of `get_display_width`) -/
  printable : CP → Bool
  dflt : Cell
  /-- `write_position.xpos + move_x`, `write_position.ypos` -/
  xpos : Int
  ypos : Int
  /-- the `width` argument and `write_position.height` -/
  width : Int
  height : Int
  wrap : Bool
  hscroll : Nat
  /-- `align`: 0 = LEFT, 1 = CENTER, 2 = RIGHT -/
  align : Nat
  /-- `to_formatted_text(get_line_prefix(lineno, wrap_count))`, `none` = no `get_line_prefix` -/
  pre : Option (Nat → Nat → List Frag)

structure CopySt where
  x : Int
  y : Int
  buf : Buf
  zwe : Zwe

/-- `_CHAR_CACHE["", ""]` -/
def emptyCell (cfg : CopyCfg) : Cell := mkCell cfg.m cfg.wc [] []

/-- `for i in range(1, char_width): new_buffer_row[x + xpos + i] = empty_char` -/
def eraseNeighbours (cfg : CopyCfg) (b : Buf) (y x : Int) : Nat → Buf
  | 0 => b
  | i + 1 =>
    let b' := eraseNeighbours cfg b y x i
    if i = 0 then b' else bufSet b' (y, x + i) (emptyCell cfg)

/-- one round of the merge loop `for pw in [2, 1]` (x, y local; `c` is the RAW character) -/
def mergeInto (cfg : CopyCfg) (b : Buf) (x y : Int) (c : CP) (pw : Nat) : Buf :=
  let p : Pos := (y + cfg.ypos, x + cfg.xpos - pw)
  let prev := bufGet b cfg.dflt p
  if x - pw ≥ 0 && prev.width == pw then
    bufSet b p (mkCell cfg.m cfg.wc (prev.char ++ [c]) prev.style)
  else b

/-- the store part of the character loop body (after the wrap check) -/
def storeChar (cfg : CopyCfg) (st : CopySt) (cell : Cell) (c : CP) : CopySt :=
  if st.x ≥ 0 && st.y ≥ 0 && st.x < cfg.width then
    let p : Pos := (st.y + cfg.ypos, st.x + cfg.xpos)
    let b := bufSet st.buf p cell
    let b :=
      if cell.width > 1 then eraseNeighbours cfg b p.1 p.2 cell.width
      else if cell.width = 0 then mergeInto cfg (mergeInto cfg b st.x st.y c 2) st.x st.y c 1
      else b
    { st with buf := b }
  else st

/-- outcome of one character: new state, "wrapped", "return x, y" -/
structure CharRes where
  st : CopySt
  wrapped : Bool
  stop : Bool

/-- body of `for c in text:`; `onWrap` draws the continuation prefix (identity when there is none) -/
def putChar (cfg : CopyCfg) (onWrap : CopySt → CopySt) (st : CopySt) (style : Text) (c : CP) : CharRes :=
  let cell := mkCell cfg.m cfg.wc [c] style
  let w : Int := cell.width
  if cfg.wrap && st.x + w > cfg.width then
    let st1 := onWrap { st with y := st.y + 1, x := 0 }
    if st1.y ≥ cfg.height then { st := st1, wrapped := true, stop := true }
    else
      let st2 := storeChar cfg st1 cell c
      { st := { st2 with x := st2.x + w }, wrapped := true, stop := false }
  else
    let st2 := storeChar cfg st cell c
    { st := { st2 with x := st2.x + w }, wrapped := false, stop := false }

/-! #### `copy_line(..., is_input=False)`: no prefix, no horizontal scroll -/

def plainText (cfg : CopyCfg) (style : Text) : CopySt → CText → CopySt × Bool
  | st, [] => (st, false)
  | st, c :: cs =>
    let r := putChar cfg id st style c
    if r.stop then (r.st, true) else plainText cfg style r.st cs

def plainFrags (cfg : CopyCfg) : CopySt → List Frag → CopySt × Bool
  | st, [] => (st, false)
  | st, (style, text) :: rest =>
    if isZwe style then
      plainFrags cfg { st with zwe := zweAppend st.zwe (st.y + cfg.ypos, st.x + cfg.xpos) text } rest
    else
      let (st', stop) := plainText cfg style st text
      if stop then (st', true) else plainFrags cfg st' rest

/-- `fragment_list_width(line)`: raw character widths, marked fragments excluded -/
def fragsWidth (wc : CP → Int) : List Frag → Nat
  | [] => 0
  | (style, text) :: rest => (if isZwe style then 0 else cwidth wc text) + fragsWidth wc rest

/-- "Align this line": the shift of `x` for CENTER / RIGHT alignment -/
def alignShift (cfg : CopyCfg) (x : Int) (line : List Frag) : Int :=
  let lw : Int := fragsWidth cfg.wc line
  if cfg.align = 1 then (if lw < cfg.width then x + (cfg.width - lw) / 2 else x)
  else if cfg.align = 2 then (if lw < cfg.width then x + (cfg.width - lw) else x)
  else x

/-- drawing a prefix: the nested call's own early return does not propagate -/
def drawPrefix (cfg : CopyCfg) (lineno wrapCount : Nat) (st : CopySt) : CopySt :=
  match cfg.pre with
  | none => st
  | some f =>
    let frs := f lineno wrapCount
    (plainFrags cfg { st with x := alignShift cfg st.x frs } frs).1

/-! #### `copy_line(..., is_input=True)` -/

structure InSt where
  st : CopySt
  wrapCount : Nat

def inputText (cfg : CopyCfg) (lineno : Nat) (style : Text) : InSt → CText → InSt × Bool
  | s, [] => (s, false)
  | s, c :: cs =>
    let r := putChar cfg (drawPrefix cfg lineno (s.wrapCount + 1)) s.st style c
    let s' : InSt := { st := r.st, wrapCount := if r.wrapped then s.wrapCount + 1 else s.wrapCount }
    if r.stop then (s', true) else inputText cfg lineno style s' cs

def inputFrags (cfg : CopyCfg) (lineno : Nat) : InSt → List Frag → InSt × Bool
  | s, [] => (s, false)
  | s, (style, text) :: rest =>
    if isZwe style then
      let st := s.st
      inputFrags cfg lineno
        { s with st := { st with zwe := zweAppend st.zwe (st.y + cfg.ypos, st.x + cfg.xpos) text } } rest
    else
      let (s', stop) := inputText cfg lineno style s text
      if stop then (s', true) else inputFrags cfg lineno s' rest

/-- `explode_text_fragments` -/
def explode : List Frag → List Frag
  | [] => []
  | (style, text) :: rest => text.map (fun c => (style, [c])) ++ explode rest

/-- `while h_scroll > 0 and line: h_scroll -= get_display_width(line[0][1]); del line[:1]`
    (`dw` = the width function; since 9db5f12 the DISPLAY width: a mapped control counts as drawn) -/
def hscrollDrop (dw : CText → Nat) : Int → List Frag → Int × List Frag
  | h, [] => (h, [])
  | h, f :: rest => if h > 0 then hscrollDrop dw (h - dw f.2) rest else (h, f :: rest)

def copyLineInput (cfg : CopyCfg) (lineno : Nat) (st : CopySt) (line : List Frag) : CopySt :=
  let st := drawPrefix cfg lineno 0 st
  let (st, line) :=
    if cfg.hscroll > 0 then
      let (h, l) := hscrollDrop (displayWidth cfg.m cfg.wc cfg.printable) cfg.hscroll (explode line)
      ({ st with x := st.x - h }, l)
    else (st, line)
  let st := { st with x := alignShift cfg st.x line }
  (inputFrags cfg lineno { st := st, wrapCount := 0 } line).1.st

/-- `copy()`: `while y < write_position.height and lineno < line_count` -/
def copyLines (cfg : CopyCfg) : Nat → CopySt → List (List Frag) → CopySt
  | _, st, [] => st
  | lineno, st, line :: rest =>
    if st.y < cfg.height then
      let st' := copyLineInput cfg lineno { st with x := 0 } line
      copyLines cfg (lineno + 1) { st' with y := st'.y + 1 } rest
    else st

/-- `_copy_body(ui_content, new_screen, write_position, move_x, width, vertical_scroll, ...)` -/
def copyBody (cfg : CopyCfg) (buf : Buf) (zwe : Zwe) (lines : List (List Frag))
    (vscroll vscroll2 : Nat) : CopySt :=
  copyLines cfg vscroll { x := 0, y := -(vscroll2 : Int), buf := buf, zwe := zwe } (lines.drop vscroll)

end Ptk.C10
