/-
  C12 — one split object used for several divide / render calls while the size requirements of
  its children change in between (dynamic `width=lambda: …`, edited `split.children`).

  The only state a split keeps between calls is `_children_cache`, a `SimpleCache(maxsize=1)`
  keyed on `tuple(self.children)` (object identity) holding the `_all_children` list, i.e. the
  positions of fillers and padding windows — and through them the alignment and the padding
  object that were current when the entry was created.  The dimensions of the children (and of
  the padding windows) are asked again on every call.  `_divide_*` keeps nothing.
-/
import Ptk.Model.C12
import Ptk.Model.C12Steps
namespace Ptk.C12

/-- one call: the current attributes of the split, the identities of the current children, their
    CURRENT dimensions, the available size -/
structure Call where
  ids : List Nat
  al : Align
  pad : Dim
  dims : List Dim
  avail : Nat
  done : Bool
  /-- the split's `padding` is a CALLABLE: the padding windows `Window(height=self.padding)` kept
      in the cache evaluate it again on every call (`to_dimension` of a callable calls it), so
      `pad` — its current value — applies even when the cached `_all_children` list is used -/
  padCall : Bool
deriving Repr

/-- `_children_cache`: key (children identities) and the alignment / padding frozen in the value -/
abbrev Cache := Option (List Nat × Align × Dim)

/-- `self._children_cache.get(tuple(self.children), get)` -/
def lookup (c : Cache) (call : Call) : Align × Dim :=
  match c with
  | some (key, al, pad) =>
    if key = call.ids then (al, if call.padCall then call.pad else pad) else (call.al, call.pad)
  | none => (call.al, call.pad)

/-- one `_divide_heights` (`horizontal`) / `_divide_widths` call on the shared object -/
def callSplit (fuel : Nat) (horizontal : Bool) (filler : Dim) (c : Cache) (call : Call) :
    Cache × Outcome :=
  -- `HSplit._divide_heights` starts with `if not self.children: return []`: `_all_children` (and
  -- with it the cache) is not touched; `VSplit._divide_widths` reads `_all_children` first
  if horizontal && call.dims.isEmpty then (c, .ok [])
  else
    let ap := lookup c call
    (some (call.ids, ap.1, ap.2),
     if horizontal then divideH fuel ap.1 filler ap.2 call.dims call.avail call.done
     else divideV fuel ap.1 filler ap.2 call.dims call.avail)

/-- a whole session on one object -/
def runSession (fuel : Nat) (horizontal : Bool) (filler : Dim) : Cache → List Call → List Outcome
  | _, [] => []
  | c, call :: rest =>
    let r := callSplit fuel horizontal filler c call
    r.2 :: runSession fuel horizontal filler r.1 rest

/-- what a fresh split with the current attributes and the current child dimensions answers -/
def fresh (fuel : Nat) (horizontal : Bool) (filler : Dim) (call : Call) : Outcome :=
  if horizontal then divideH fuel call.al filler call.pad call.dims call.avail call.done
  else divideV fuel call.al filler call.pad call.dims call.avail

/-- one call, run with the fuel that `Ptk.Props.C12Fuel.divide_terminates_bound` proves sufficient
    for the `_all_children` list this call really divides (cached alignment / padding) -/
def callSplitB (horizontal : Bool) (filler : Dim) (c : Cache) (call : Call) : Cache × Outcome :=
  let ap := lookup c call
  callSplit (fuelBound (allChildren ap.1 filler ap.2 call.dims) call.avail) horizontal filler c call

/-- a whole session, every call with its own proved fuel (what the driver runs) -/
def runSessionB (horizontal : Bool) (filler : Dim) : Cache → List Call → List Outcome
  | _, [] => []
  | c, call :: rest =>
    let r := callSplitB horizontal filler c call
    r.2 :: runSessionB horizontal filler r.1 rest

end Ptk.C12
