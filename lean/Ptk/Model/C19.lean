/-
  C19 — model of the style cascade of `prompt_toolkit.styles.style`
  (src/prompt_toolkit/styles/style.py): `parse_color`, `_parse_style_str`,
  `_expand_classname`, `Style.__init__`, `Style.get_attrs_for_style_str` (with the
  `combos` construction as written), `_merge_attrs`, `merge_styles` / `_MergedStyle`.

  Runtime parameters: `sp` = `str.isspace` (what `str.split()` splits on), `rsp` = regex `\s`.
  `str.lower()` is modelled for ASCII letters only (other characters unchanged).
  Python sets of class names are lists compared with `setEq`.
-/
import Ptk.Model.C19Types
namespace Ptk.C19
open Ptk.Py

/-! ### str helpers -/

def lowerChar (c : Char) : Char :=
  if 65 ≤ c.toNat ∧ c.toNat ≤ 90 then Char.ofNat (c.toNat + 32) else c

/-- `str.lower()` (ASCII) -/
def lower (t : Text) : Text := t.map lowerChar

def headIsSpaceOrEnd (sp : Char → Bool) : Text → Bool
  | [] => true
  | d :: _ => sp d

/-- `str.split()` : maximal runs of non-whitespace characters. -/
def splitWs (sp : Char → Bool) : Text → List Text
  | [] => []
  | c :: cs =>
    if sp c then splitWs sp cs
    else if headIsSpaceOrEnd sp cs then [c] :: splitWs sp cs
    else match splitWs sp cs with
      | w :: ws => (c :: w) :: ws
      | [] => [[c]]   -- unreachable

def startsWith (p t : Text) : Bool := t.take p.length == p
def endsWith (p t : Text) : Bool := t.drop (t.length - p.length) == p && p.length ≤ t.length

/-! ### parse_color -/

/-- `c in string.hexdigits` -/
def isHexDigit (c : Char) : Bool :=
  (48 ≤ c.toNat && c.toNat ≤ 57) || (97 ≤ c.toNat && c.toNat ≤ 102) || (65 ≤ c.toNat && c.toNat ≤ 70)

/-- `parse_color(text)`; `none` = `ValueError("Wrong color format")`. -/
def parseColor (T : Tables) (text : Text) : Option Text :=
  if T.ansiNames.contains text then some text else
  match lookup text T.aliases with
  | some v => some v
  | none =>
  match lookup (lower text) T.named with
  | some v => some v
  | none =>
    if text.take 1 == ['#'] then
      let col := text.drop 1
      if T.ansiNames.contains col then some col else
      match lookup col T.aliases with
      | some v => some v
      | none =>
        -- (`T.hexValidated`: the digits are checked, else any 6 / 3 characters are accepted)
        if T.hexValidated && !col.all isHexDigit then none
        else if col.length == 6 then some col
        else match col with
          | [a, b, c] => some [a, a, b, b, c, c]
          | _ => none
    else if text == [] || text == "default".toList then some text
    else none

/-! ### _parse_style_str -/

/-- one iteration of the `for part in style_str.split()` loop of `_parse_style_str` -/
def parsePart (T : Tables) (attrs : Attrs) (part : Text) : Option Attrs :=
  if part == "noinherit".toList then some attrs
  else if part == "bold".toList then some { attrs with bold := some true }
  else if part == "nobold".toList then some { attrs with bold := some false }
  else if part == "italic".toList then some { attrs with italic := some true }
  else if part == "noitalic".toList then some { attrs with italic := some false }
  else if part == "underline".toList then some { attrs with underline := some true }
  else if part == "nounderline".toList then some { attrs with underline := some false }
  else if part == "strike".toList then some { attrs with strike := some true }
  else if part == "nostrike".toList then some { attrs with strike := some false }
  else if part == "blink".toList then some { attrs with blink := some true }
  else if part == "noblink".toList then some { attrs with blink := some false }
  else if part == "reverse".toList then some { attrs with reverse := some true }
  else if part == "noreverse".toList then some { attrs with reverse := some false }
  else if part == "hidden".toList then some { attrs with hidden := some true }
  else if part == "nohidden".toList then some { attrs with hidden := some false }
  else if part == "roman".toList || part == "sans".toList || part == "mono".toList then some attrs
  else if startsWith "border:".toList part then some attrs
  else if startsWith ['['] part && endsWith [']'] part then some attrs
  else if startsWith "bg:".toList part then
    (parseColor T (part.drop 3)).map fun c => { attrs with bgcolor := some c }
  else if startsWith "fg:".toList part then
    (parseColor T (part.drop 3)).map fun c => { attrs with color := some c }
  else (parseColor T part).map fun c => { attrs with color := some c }

def parseParts (T : Tables) : Attrs → List Text → Option Attrs
  | a, [] => some a
  | a, p :: ps => match parsePart T a p with
    | some a' => parseParts T a' ps
    | none => none

/-- `_parse_style_str(style_str)`; `none` = ValueError. -/
def parseStyleStr (T : Tables) (sp : Char → Bool) (s : Text) : Option Attrs :=
  let init := if (findSub? "noinherit".toList s).isSome then T.defaultAttrs else T.emptyAttrs
  parseParts T init (splitWs sp s)

/-! ### _expand_classname -/

def prefixesFrom (parts : List Text) : Nat → Nat → List Text
  | _, 0 => []
  | i, n + 1 => lower (join ['.'] (parts.take i)) :: prefixesFrom parts (i + 1) n

/-- `_expand_classname('a.b.c') = ['a', 'a.b', 'a.b.c']` -/
def expandClassname (name : Text) : List Text :=
  let parts := splitOn '.' name
  prefixesFrom parts 1 parts.length

/-! ### Style -/

inductive Err where
  | assertion   -- AssertionError (CLASS_NAMES_RE)
  | value       -- ValueError (parse_color)
deriving DecidableEq, Repr

/-- one entry of `Style.class_names_and_attrs` -/
structure Rule where
  names : List Text      -- frozenset of class names
  attrs : Attrs
deriving Repr, DecidableEq

/-- `CLASS_NAMES_RE = ^[a-z0-9.\s_-]*$` -/
def classNamesOk (rsp : Char → Bool) (s : Text) : Bool :=
  s.all fun c =>
    (97 ≤ c.toNat && c.toNat ≤ 122) || (48 ≤ c.toNat && c.toNat ≤ 57) ||
    c == '.' || c == '_' || c == '-' || rsp c

def compileRule (T : Tables) (sp rsp : Char → Bool) (r : Text × Text) : Except Err Rule :=
  if !classNamesOk rsp r.1 then .error .assertion else
  match parseStyleStr T sp r.2 with
  | some a => .ok { names := splitWs sp (lower r.1), attrs := a }
  | none => .error .value

/-- `Style.__init__(style_rules)` -/
def compile (T : Tables) (sp rsp : Char → Bool) : List (Text × Text) → Except Err (List Rule)
  | [] => .ok []
  | r :: rs => match compileRule T sp rsp r with
    | .error e => .error e
    | .ok x => match compile T sp rsp rs with
      | .error e => .error e
      | .ok xs => .ok (x :: xs)

/-- equality of two Python (frozen)sets given as lists -/
def setEq (a b : List Text) : Bool := a.all (b.contains ·) && b.all (a.contains ·)

def allSublists : List α → List (List α)
  | [] => [[]]
  | x :: xs => allSublists xs ++ (allSublists xs).map (x :: ·)

/-- the `combos` set built in `get_attrs_for_style_str` for `new_name` -/
def combos (seen : List Text) (new : Text) : List (List Text) :=
  [new] :: ((allSublists seen).filter (fun c => !c.isEmpty)).map (· ++ [new])

structure CascadeSt where
  seen : List Text         -- `class_names`
  acc : List Attrs         -- `list_of_attrs`
deriving Repr

/-- body of `for new_name in new_class_names` -/
def applyClass (rules : List Rule) (st : CascadeSt) (new : Text) : CascadeSt :=
  let cs := combos st.seen new
  { seen := if st.seen.contains new then st.seen else st.seen ++ [new],
    acc := st.acc ++ ((rules.filter fun r => cs.any (setEq r.names)).map (·.attrs)) }

/-- class names named by one `class:...` part, in application order -/
def classPartNames (part : Text) : List Text :=
  ((splitOn ',' (lower (part.drop 6))).map expandClassname).flatten

/-- one iteration of `for part in style_str.split()` -/
def cascadePart (T : Tables) (sp : Char → Bool) (rules : List Rule) (st : CascadeSt) (part : Text) :
    Option CascadeSt :=
  if startsWith "class:".toList part then
    some ((classPartNames part).foldl (applyClass rules) st)
  else
    (parseStyleStr T sp part).map fun a => { st with acc := st.acc ++ [a] }

def cascadeParts (T : Tables) (sp : Char → Bool) (rules : List Rule) : CascadeSt → List Text → Option CascadeSt
  | st, [] => some st
  | st, p :: ps => match cascadePart T sp rules st p with
    | some st' => cascadeParts T sp rules st' ps
    | none => none

/-- `_or(*values)`: first not-None value starting at the end; `none` = ValueError -/
def pyOr (vals : List (Option α)) : Option α := vals.reverse.findSome? id

/-- `_merge_attrs(list_of_attrs)` -/
def mergeAttrs (l : List Attrs) : Attrs :=
  { color := pyOr (some [] :: l.map (·.color)),
    bgcolor := pyOr (some [] :: l.map (·.bgcolor)),
    bold := pyOr (some false :: l.map (·.bold)),
    underline := pyOr (some false :: l.map (·.underline)),
    strike := pyOr (some false :: l.map (·.strike)),
    italic := pyOr (some false :: l.map (·.italic)),
    blink := pyOr (some false :: l.map (·.blink)),
    reverse := pyOr (some false :: l.map (·.reverse)),
    hidden := pyOr (some false :: l.map (·.hidden)) }

/-- the `list_of_attrs` built by `get_attrs_for_style_str`; `none` = ValueError (inline part) -/
def listOfAttrs (T : Tables) (sp : Char → Bool) (rules : List Rule) (styleStr : Text) (dflt : Attrs) :
    Option (List Attrs) :=
  let init : CascadeSt :=
    { seen := [], acc := dflt :: ((rules.filter fun r => r.names.isEmpty).map (·.attrs)) }
  (cascadeParts T sp rules init (splitWs sp styleStr)).map (·.acc)

/-- `Style.get_attrs_for_style_str(style_str, default)` -/
def getAttrs (T : Tables) (sp : Char → Bool) (rules : List Rule) (styleStr : Text) (dflt : Attrs) :
    Option Attrs :=
  (listOfAttrs T sp rules styleStr dflt).map mergeAttrs

/-- `merge_styles(styles)._merged_style.class_names_and_attrs` : `None` entries are dropped,
    `style_rules` are concatenated and a new `Style` is built from them. -/
def mergedRules (T : Tables) (sp rsp : Char → Bool) (sheets : List (Option (List (Text × Text)))) :
    Except Err (List Rule) :=
  compile T sp rsp (sheets.filterMap id).flatten

/-- full query as the harness performs it: build every `Style` (first error wins), merge, ask. -/
def query (T : Tables) (sp rsp : Char → Bool) (sheets : List (Option (List (Text × Text))))
    (styleStr : Text) (dflt : Attrs) : Except Err Attrs :=
  let rec build : List (Option (List (Text × Text))) → Except Err Unit
    | [] => .ok ()
    | none :: r => build r
    | some s :: r => match compile T sp rsp s with
      | .error e => .error e
      | .ok _ => build r
  match build sheets with
  | .error e => .error e
  | .ok _ =>
    match mergedRules T sp rsp sheets with
    | .error e => .error e
    | .ok rules => match getAttrs T sp rules styleStr dflt with
      | some a => .ok a
      | none => .error .value

end Ptk.C19
