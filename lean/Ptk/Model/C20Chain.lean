/-
  C20 (second part) — model of `prompt_toolkit.application.run_in_terminal.in_terminal`
  and of the chain `Application._running_in_terminal_f` that serialises sections which stay
  open across `await`s (`run_in_terminal(..., in_executor=True)`, `async with in_terminal():`,
  the exception handler of the application).

  One section = one `async with in_terminal():` block.  Its atomic segments (code between two
  suspension points of the coroutine) are

    enter    `app = get_app_or_none()`; not running -> body starts at once, no chain (bypass);
             else `previous = app._running_in_terminal_f; app._running_in_terminal_f = new`;
             previous missing or done -> `erase`, `_running_in_terminal = True`, body starts;
             otherwise the coroutine suspends in `await previous`
    resume   (after `await previous`)  `erase`, `_running_in_terminal = True`, body starts
    leave    `_running_in_terminal = False; renderer.reset(); app._redraw(); new.set_result(None)`

  A *sync* section (`run_in_terminal(func)` with `in_executor=False`, what `StdoutProxy` uses) has a
  body without suspension point: body and `leave` belong to the segment that started the body.

  `stop` = the application terminates (`_redraw(render_as_done=True)`, `_is_running = False`);
  `start` = a new `run_async` of the same application object (possible only after the previous
  `run_async` returned, and that waits for the last section of the chain).

  In the real event loop `resume` happens by itself once the previous future is done; in the model it
  is a separate step that may be delayed arbitrarily (over-approximation).  The driver uses
  `leaveC`/`enterC` = step + `cascade` (all enabled resumes, in chain order) like the loop does.
-/
import Ptk.Py
namespace Ptk.C20Chain
open Ptk.Py

inductive Status where
  | waiting   -- suspended in `await previous_run_in_terminal_f`
  | body      -- between `erase` and the `finally:` of `in_terminal`
  | done      -- `new_run_in_terminal_f.set_result(None)` executed
deriving Repr, DecidableEq

structure Sec where
  id : Nat
  sync : Bool
  st : Status
deriving Repr, DecidableEq

inductive Ev where
  | draw            -- Renderer.render
  | erase           -- Renderer.erase
  | doneDraw        -- render(is_done) at the end of the application
  /-- the body of section `k` starts / ends; `chain` = the section went through the chain (ghost flag:
      a section that started while no application was running is not serialised) -/
  | bodyBegin (k : Nat) (chain : Bool)
  | bodyEnd (k : Nat) (chain : Bool)
deriving Repr, DecidableEq

structure St where
  /-- `app._is_running` -/
  appOn : Bool := false
  /-- `app.is_done` while `_is_running` is still True (exit requested, `run_async` not yet resumed) -/
  exiting : Bool := false
  /-- `app._running_in_terminal` -/
  rit : Bool := false
  /-- the chain: every section that registered in `_running_in_terminal_f`, oldest first -/
  chain : List Sec := []
  /-- ids of sections that started while no application was running and are still in their body -/
  bypass : List Nat := []
  /-- number of sections created so far (next id) -/
  next : Nat := 0
  log : List Ev := []
deriving Repr, DecidableEq

inductive Op where
  /-- a new section (id = `next`) runs its first segment -/
  | enter (sync : Bool)
  /-- the suspended section `k` continues after `await previous` -/
  | resume (k : Nat)
  /-- the body of section `k` finishes -/
  | leave (k : Nat)
  | stop
  | start
  /-- `Application.invalidate()` + the `_redraw()` it schedules -/
  | inval
  /-- `Application.exit()` sets the future's result; `run_async` resumes at `stop` -/
  | exitReq
deriving Repr, DecidableEq

/-- the future stored in `app._running_in_terminal_f` is missing or done -/
def lastDone : List Sec → Bool
  | [] => true
  | [s] => s.st == .done
  | _ :: ss => lastDone ss

/-- every section of the chain is done -/
def allDone (c : List Sec) : Bool := c.all fun s => s.st == .done

/-- the `finally:` part of `in_terminal` -/
def exitEvents (appOn : Bool) (k : Nat) : List Ev :=
  .bodyEnd k true :: (if appOn then [.draw] else [])

/-- `erase` ... body start (... `leave` for a sync section) of section `x` -/
def beginBody (s : St) (x : Sec) : St × Status :=
  if x.sync then
    ({ s with rit := false, log := s.log ++ [.erase, .bodyBegin x.id true] ++ exitEvents s.appOn x.id }, .done)
  else
    ({ s with rit := true, log := s.log ++ [.erase, .bodyBegin x.id true] }, .body)

/-- is section `k` the first section of the chain that is not done, and is it waiting? -/
def canResume : List Sec → Nat → Bool
  | [], _ => false
  | x :: xs, k =>
    if x.st == .done then canResume xs k
    else x.id == k && x.st == .waiting

def setStatus (c : List Sec) (k : Nat) (st : Status) : List Sec :=
  c.map fun x => if x.id == k then { x with st := st } else x

def find? (c : List Sec) (k : Nat) : Option Sec := c.find? fun x => x.id == k

def step (s : St) : Op → St
  | .enter sync =>
    let k := s.next
    if ¬ s.appOn then
      -- `app is None or not app._is_running`: plain `yield`
      if sync then { s with next := k + 1, log := s.log ++ [.bodyBegin k false, .bodyEnd k false] }
      else { s with next := k + 1, bypass := s.bypass ++ [k], log := s.log ++ [.bodyBegin k false] }
    else if lastDone s.chain then
      let x : Sec := { id := k, sync := sync, st := .waiting }
      let (s', st) := beginBody s x
      { s' with next := k + 1, chain := s.chain ++ [{ x with st := st }] }
    else
      { s with next := k + 1, chain := s.chain ++ [{ id := k, sync := sync, st := .waiting }] }
  | .resume k =>
    if canResume s.chain k then
      match find? s.chain k with
      | some x =>
        let (s', st) := beginBody s x
        { s' with chain := setStatus s.chain k st }
      | none => s
    else s
  | .leave k =>
    if s.bypass.contains k then
      { s with bypass := s.bypass.filter (· != k), log := s.log ++ [.bodyEnd k false] }
    else
      match find? s.chain k with
      | some x =>
        if x.st == .body then
          { s with rit := false, chain := setStatus s.chain k .done,
                   log := s.log ++ exitEvents s.appOn k }
        else s
      | none => s
  | .stop =>
    if s.appOn then
      -- `_redraw(render_as_done=True)` draws only `if self._is_running and not self._running_in_terminal`
      { s with appOn := false, exiting := false, log := s.log ++ (if s.rit then [] else [.doneDraw]) }
    else s
  | .start =>
    -- the previous `run_async` has returned: it awaited the last future of the chain
    if ¬ s.appOn ∧ allDone s.chain then { s with appOn := true, log := s.log ++ [.draw] } else s
  | .exitReq => if s.appOn then { s with exiting := true } else s
  | .inval =>
    -- `_redraw`: "Only draw when no sub application was started": `_is_running and not _running_in_terminal`
    if s.appOn ∧ ¬ s.rit then { s with log := s.log ++ [.draw] } else s

def runOps (s : St) : List Op → St
  | [] => s
  | o :: os => runOps (step s o) os

/-- the first section that is not done, if it is waiting -/
def nextWaiting : List Sec → Option Nat
  | [] => none
  | x :: xs => if x.st == .done then nextWaiting xs else if x.st == .waiting then some x.id else none

/-- what the event loop does by itself: resume every section whose predecessor is done -/
def cascade : Nat → St → St
  | 0, s => s
  | n + 1, s =>
    match nextWaiting s.chain with
    | some k => cascade n (step s (.resume k))
    | none => s

/-! driver glue -/

def encEv : Ev → String
  | .draw => "D"
  | .erase => "E"
  | .doneDraw => "X"
  | .bodyBegin k _ => s!"B{k}"
  | .bodyEnd k _ => s!"b{k}"

def encStatus : Status → String
  | .waiting => "w"
  | .body => "b"
  | .done => "d"

def reply (old new : St) : String :=
  let evs := new.log.drop old.log.length
  " ".intercalate (evs.map encEv) ++ s!" | app={if new.appOn then 1 else 0} exit={if new.exiting then 1 else 0} rit={if new.rit then 1 else 0} chain={"".intercalate (new.chain.map fun x => encStatus x.st)}"

def stepLine (s : St) : List String → Option (St × String)
  | ["cinit"] => let n : St := {}; some (n, reply n n)
  | ["center", y] =>
    let s' := cascade (s.chain.length + 1) (step s (.enter (y == "1")))
    some (s', reply s s')
  | ["cstep", k] =>
    match k.toNat? with
    | some k =>
      let s' := cascade (s.chain.length + 1) (step s (.leave k))
      some (s', reply s s')
    | none => none
  | ["cstop"] => let s' := step s .stop; some (s', reply s s')
  | ["cstart"] => let s' := step s .start; some (s', reply s s')
  | ["cinval"] => let s' := step s .inval; some (s', reply s s')
  | ["cexit"] => let s' := step s .exitReq; some (s', reply s s')
  | _ => none

end Ptk.C20Chain
