/-
  C19 — model of the style OBJECTS of src/prompt_toolkit/styles/base.py and styles/style.py:
  `Style`, `DummyStyle`, `DynamicStyle`, `_MergedStyle` (with its `SimpleCache(maxsize=1)` of the
  merged `Style`), their `style_rules`, `get_attrs_for_style_str` and `invalidation_hash`, and the
  way `Application._create_merged_style` (application/application.py) stacks them.

  A value of `SObj` is a SNAPSHOT of an object graph: what every `DynamicStyle.get_style()` returns
  at this moment is part of the snapshot (`dynNone` = it returns None, `dyn o` = it returns `o`).
  `sheet id rules`: a `Style` object; `id` stands for `id(self.class_names_and_attrs)` (the harness
  renames the real addresses to the index of the Style object).
-/
import Ptk.Model.C19Merge
namespace Ptk.C19
open Ptk.Py

inductive SObj where
  | sheet (id : Nat) (rules : List RawRule)   -- `Style(rules)`
  | dummy                                     -- `DummyStyle()`
  | dynNone                                   -- `DynamicStyle(f)`, `f()` is None
  | dyn (cur : SObj)                          -- `DynamicStyle(f)`, `f()` is `cur`
  | merged (parts : List SObj)                -- `_MergedStyle(parts)`
deriving Repr

/-- `merge_styles(styles)`: `None` entries are dropped -/
def mergeStyles (l : List (Option SObj)) : SObj := .merged (l.filterMap id)

/-- the values `invalidation_hash()` can take: `id(...)`, the constant `1`, tuples of hashes -/
inductive H where
  | id (n : Nat)
  | one
  | tup (l : List H)
deriving Repr

mutual
/-- `.style_rules` -/
def rulesOf : SObj → List RawRule
  | .sheet _ r => r
  | .dummy => []
  | .dynNone => []                            -- `(None or self._dummy).style_rules`
  | .dyn o => rulesOf o
  | .merged ps => rulesOfList ps              -- `for s in self.styles: style_rules.extend(s.style_rules)`
def rulesOfList : List SObj → List RawRule
  | [] => []
  | p :: ps => rulesOf p ++ rulesOfList ps
end

mutual
/-- `.invalidation_hash()` -/
def hashOf : SObj → H
  | .sheet i _ => .id i                       -- `id(self.class_names_and_attrs)`
  | .dummy => .one                            -- `return 1`
  | .dynNone => .one
  | .dyn o => hashOf o
  | .merged ps => .tup (hashOfList ps)        -- `tuple(s.invalidation_hash() for s in self.styles)`
def hashOfList : List SObj → List H
  | [] => []
  | p :: ps => hashOf p :: hashOfList ps
end

mutual
def H.beq : H → H → Bool
  | .id a, .id b => a == b
  | .one, .one => true
  | .tup a, .tup b => H.beqList a b
  | _, _ => false
def H.beqList : List H → List H → Bool
  | [], [] => true
  | x :: xs, y :: ys => H.beq x y && H.beqList xs ys
  | _, _ => false
end

/-- `Style(rules).get_attrs_for_style_str(s, d)` with the constructor's errors -/
def cascade (T : Tables) (sp rsp : Char → Bool) (rules : List RawRule) (s : Text) (d : Attrs) :
    Except Err Attrs :=
  match compile T sp rsp rules with
  | .error e => .error e
  | .ok rs => match getAttrs T sp rs s d with
    | some a => .ok a
    | none => .error .value

/-- `obj.get_attrs_for_style_str(s, d)` without looking at any cache (a `_MergedStyle` builds
    `Style(self.style_rules)`; `DummyStyle` returns the default untouched, whatever `s` says) -/
def queryObj (T : Tables) (sp rsp : Char → Bool) : SObj → Text → Attrs → Except Err Attrs
  | .sheet _ r, s, d => cascade T sp rsp r s d
  | .dummy, _, d => .ok d
  | .dynNone, _, d => .ok d
  | .dyn o, s, d => queryObj T sp rsp o s d
  | .merged ps, s, d => cascade T sp rsp (rulesOfList ps) s d

/-- the `SimpleCache(maxsize=1)` of a `_MergedStyle`: at most one `(invalidation_hash, Style)` -/
structure MCache where
  entry : Option (H × List Rule) := none

def runRules (T : Tables) (sp : Char → Bool) (rules : List Rule) (s : Text) (d : Attrs) : Except Err Attrs :=
  match getAttrs T sp rules s d with
  | some a => .ok a
  | none => .error .value

/-- the getter of the cache: `Style(self.style_rules)`, stored under the hash (if `Style(...)` raises
    inside the getter nothing is stored) -/
def mergedMiss (T : Tables) (sp rsp : Char → Bool) (c : MCache) (ps : List SObj) (s : Text) (d : Attrs) :
    MCache × Except Err Attrs :=
  match compile T sp rsp (rulesOfList ps) with
  | .error e => (c, .error e)
  | .ok rules => ({ entry := some (H.tup (hashOfList ps), rules) }, runRules T sp rules s d)

/-- `_MergedStyle.get_attrs_for_style_str`: `self._style.get(self.invalidation_hash(), get)` then the
    cascade on the cached `Style`.  `ps` is the snapshot of `self.styles` at the time of the call. -/
def mergedQueryCached (T : Tables) (sp rsp : Char → Bool) (c : MCache) (ps : List SObj) (s : Text) (d : Attrs) :
    MCache × Except Err Attrs :=
  match c.entry with
  | some (k, rules) =>
    if H.beq k (H.tup (hashOfList ps)) then (c, runRules T sp rules s d) else mergedMiss T sp rsp c ps s d
  | none => mergedMiss T sp rsp c ps s d

/-- `Application._create_merged_style`:
    `merge_styles([default_ui_style(), conditional_pygments_style, DynamicStyle(lambda: self.style)])`
    with `default_ui_style() = merge_styles([Style(PROMPT_TOOLKIT_STYLE), Style(COLORS_STYLE), Style(WIDGETS_STYLE)])`
    and the conditional pygments style a `DynamicStyle` returning the default pygments `Style` or a
    `DummyStyle`.  `ui` / `pyg` are the rule lists regenerated from styles/defaults.py; sheet ids
    0.. are the ui sheets, then the pygments sheet. -/
def enumSheets (i : Nat) : List (List RawRule) → List SObj
  | [] => []
  | r :: rs => .sheet i r :: enumSheets (i + 1) rs

/-- the rules of `app.style` (None: no user style) -/
def optRules : Option SObj → List RawRule
  | some u => rulesOf u
  | none => []

def appStyle (ui : List (List RawRule)) (pyg : List RawRule) (includePyg : Bool) (user : Option SObj) : SObj :=
  .merged [ .merged (enumSheets 0 ui),
            .dyn (if includePyg then .sheet ui.length pyg else .dummy),
            match user with | some u => .dyn u | none => .dynNone ]

end Ptk.C19
