/-
  C17 (second layer) — the key processor WITH its key buffer and an abstract, state dependent
  binding registry, under the same type-ahead machinery as `Ptk.Model.C17`.

  Code followed (as it is now, i.e. after
  "fix: keys left in the key buffer when a handler exits the application become typeahead" and
  with proposed_fixes/C17-cpr-inside-key-sequence.diff: CPR responses bypass the key buffer):
    * key_binding/key_processor.py  `KeyProcessor._process` (the generator: append the key or
      note `_Flush`, `_get_matches`, `_is_prefix_of_longer_match`, eager matches, exact match →
      handler, no match → retry loop "longest prefix first, else drop one key", and at the top
      of a retry: `if buffer and get_app().is_done: input_queue.extendleft(reversed(buffer))`),
      `process_keys` (is_done gate, `_Flush` and CPR bookkeeping), `_start_timeout`'s
      `flush_keys` (`feed(_Flush); process_keys()` only when the key buffer is not empty),
      `empty_queue`, `reset` (drops key buffer and queue);
    * application.py `run_async` as in `Ptk.Model.C17`.

  The binding registry is a parameter: `exact`, `longer` and `handler` may depend on an abstract
  state `σ` (buffer text, selection, editing mode, …) that the handlers update; `longer` is
  `_is_prefix_of_longer_match` after the eager adjustment, `exact`/`handler` describe
  `matches[-1]` after the eager adjustment.  A handler either returns (`stay`) or calls
  `app.exit(...)` (`exit`).  Handlers that feed keys (c-j) are in the first layer only.
-/
import Ptk.Model.C17
namespace Ptk.C17.Buf
open Ptk.C17

inductive Eff where
  | stay
  | exit
deriving DecidableEq, Repr

/-- what a handler call produces: the new handler-visible state, whether it called `app.exit`, and
    the numeric argument it left in `key_processor.arg` (`event.append_to_arg_count`; `none` = the
    handler did not touch it) -/
structure HOut (σ : Type) where
  ed : σ
  eff : Eff
  arg : Option Nat

structure Tbl (σ : Type) where
  exact : σ → List Key → Bool
  longer : σ → List Key → Bool
  /-- `handler state event.arg key_sequence` (`event._arg`: `none` = no argument typed) -/
  handler : σ → Option Nat → List Key → HOut σ
  /-- `Application.reset()` / `_pre_run`: what a new prompt starts from -/
  reset : σ → σ

/-- an element of `input_queue`: a key press or the `_Flush` marker -/
abbrev QK := Option Key

def QK.isCpr : QK → Bool
  | some k => k.isCpr
  | none => false

/-- one entry of the dispatch trace -/
inductive Disp where
  | call (ks : List Key) (exited : Bool)   -- `_call_handler(matches[-1], key_sequence=ks)`; did it call `app.exit`
  | drop (k : Key)           -- `del buffer[:1]`: no binding at all for this key
deriving DecidableEq, Repr

def Disp.keys : Disp → List Key
  | .call ks _ => ks
  | .drop k => [k]

structure KP (σ : Type) where
  queue : List QK             -- KeyProcessor.input_queue
  buffer : List Key           -- KeyProcessor.key_buffer
  done : Bool                 -- app.is_done
  crashed : Bool              -- `app.exit()` raised "Return value already set"
  trace : List Disp           -- everything dispatched to this application, in order
  ed : σ
  arg : Option Nat            -- KeyProcessor.arg (the digits typed with escape-digit so far)
  prev : List Key             -- KeyProcessor._previous_key_sequence (→ `is_repeat`)

/-- the key processor after `reset()`, with the given queue -/
def KP.fresh (q : List QK) (ed : σ) : KP σ := ⟨q, [], false, false, [], ed, none, []⟩

variable {σ : Type}

/-- `_call_handler` with the handler's effect on the application -/
def callHandler (T : Tbl σ) (p : KP σ) (ks : List Key) : KP σ :=
  -- arg = self.arg; self.arg = None; event = KeyPressEvent(arg=arg, key_sequence=ks, …)
  let o := T.handler p.ed p.arg ks
  -- … self._previous_key_sequence = key_sequence
  let p' := { p with ed := o.ed, arg := o.arg, prev := ks,
                     trace := p.trace ++ [.call ks (o.eff == .exit)] }
  match o.eff with
  | .stay => p'
  | .exit => if p.done then { p' with crashed := true } else { p' with done := true }

/-- `for i in range(len(buffer), 0, -1): if _get_matches(buffer[:i])`: the largest such i -/
def longestMatch (T : Tbl σ) (ed : σ) (buf : List Key) : Nat → Option Nat
  | 0 => none
  | i + 1 => if T.exact ed (buf.take (i + 1)) then some (i + 1) else longestMatch T ed buf i

/-- the `no match found` branch: call the handler of the longest matching prefix of the key
    buffer, or drop the first key when no prefix has a binding -/
def retryStep (T : Tbl σ) (p : KP σ) : KP σ :=
  match longestMatch T p.ed p.buffer p.buffer.length with
  | some i => { callHandler T p (p.buffer.take i) with buffer := p.buffer.drop i }
  | none =>
    match p.buffer with
    | [] => p
    | k :: rest => { p with buffer := rest, trace := p.trace ++ [.drop k] }

/-- `is_prefix_of_longer_match` as `_process` uses it: forced to False by a flush -/
def isPrefix (T : Tbl σ) (flush : Bool) (p : KP σ) : Bool :=
  if flush then false else T.longer p.ed p.buffer

/-- The body of the `while True` loop of `_process` from the point where a key was appended
    (`flush = false`) or `_Flush` was received (`flush = true`) until the next `yield`.
    `none` = out of fuel (never happens, see `Props.C17Buf.dispatch_total`). -/
def dispatchFuel (T : Tbl σ) : Nat → Bool → KP σ → Option (KP σ)
  | 0, _, _ => none
  | fuel + 1, flush, p =>
    if p.buffer.isEmpty then some p else
    let ex := T.exact p.ed p.buffer
    let pre := isPrefix T flush p
    if !pre && ex then
      some { callHandler T p p.buffer with buffer := [] }
    else if !pre && !ex then
      -- retry = True
      let p' := retryStep T p
      -- top of the loop with retry set
      if !p'.buffer.isEmpty && p'.done then
        some { p' with queue := p'.buffer.map some ++ p'.queue, buffer := [] }
      else dispatchFuel T fuel false p'
    else some p

def dispatch (T : Tbl σ) (flush : Bool) (p : KP σ) : KP σ :=
  (dispatchFuel T (p.buffer.length + 1) flush p).getD p

/-- `_process_coroutine.send(key_press)` -/
def send (T : Tbl σ) (p : KP σ) : QK → KP σ
  | none => dispatch T true p
  | some k => dispatch T false { p with buffer := p.buffer ++ [k] }

def hasCprQ : List QK → Bool
  | [] => false
  | k :: q => k.isCpr || hasCprQ q

def removeFirstCprQ : List QK → List QK
  | [] => []
  | k :: q => if k.isCpr then q else k :: removeFirstCprQ q

def dropCprQ : List QK → List QK
  | [] => []
  | k :: q => if k.isCpr then dropCprQ q else k :: dropCprQ q

def notEmpty (p : KP σ) : Bool :=
  if p.done then hasCprQ p.queue else !p.queue.isEmpty

/-- `_process_cpr_response`: a CPR response is dispatched to its binding directly; it does not
    go through the key buffer -/
def processCpr (T : Tbl σ) (p : KP σ) : KP σ :=
  if T.exact p.ed [.cpr] then
    -- matches[-1].call(KeyPressEvent(arg=None, key_sequence=[cpr], previous_key_sequence=…,
    -- is_repeat=False)): `self.arg`, `_previous_key_sequence`, macros are not touched
    let o := T.handler p.ed none [.cpr]
    let p' := { p with ed := o.ed, arg := (match o.arg with | some a => some a | none => p.arg),
                       trace := p.trace ++ [.call [.cpr] (o.eff == .exit)] }
    match o.eff with
    | .stay => p'
    | .exit => if p.done then { p' with crashed := true } else { p' with done := true }
  else p

/-- `if is_cpr: self._process_cpr_response(key_press) else: self._process_coroutine.send(key_press)` -/
def deliver (T : Tbl σ) (p : KP σ) (k : QK) : KP σ :=
  if k.isCpr then processCpr T p else send T p k

def procStep (T : Tbl σ) (p : KP σ) : Option (KP σ) :=
  if notEmpty p then
    if p.done then some (processCpr T { p with queue := removeFirstCprQ p.queue })
    else
      match p.queue with
      | [] => none
      | k :: q => some (deliver T { p with queue := q } k)
  else none

def iter (T : Tbl σ) : Nat → KP σ → KP σ
  | 0, p => p
  | n + 1, p =>
    match procStep T p with
    | none => p
    | some p' => iter T n p'

/-- `process_keys()`; every iteration removes one element from the queue, and keys are only pushed
    back at the moment the result is set (after which only CPR responses are taken), so
    `length + 1` iterations suffice (`Props.C17Buf.processKeys_stable`). -/
def processKeys (T : Tbl σ) (p : KP σ) : KP σ := iter T (p.queue.length + 1) p

structure St (σ : Type) where
  pipe : List Key
  typeahead : List QK
  kp : KP σ
  running : Bool
  results : List (List Disp × σ)  -- dispatch trace and final handler state of the finished applications

def St.init (ed : σ) : St σ :=
  { pipe := [], typeahead := [], kp := KP.fresh [] ed, running := false, results := [] }

inductive Ev where
  | write (c : List Key)
  | start
  | read (n : Nat)
  | timeout                   -- the `timeoutlen` timer of `_start_timeout` fires
  | finish
deriving DecidableEq, Repr

def step (T : Tbl σ) (s : St σ) : Ev → St σ
  | .write c => { s with pipe := s.pipe ++ c }
  | .start =>
    if s.running then s else
    { s with
      typeahead := []
      running := true
      -- reset(): fresh key buffer and queue; then the type-ahead is fed and processed
      kp := processKeys T (KP.fresh s.typeahead (T.reset s.kp.ed)) }
  | .read n =>
    if !s.running then s else
    { s with
      pipe := s.pipe.drop n
      kp := processKeys T { s.kp with queue := s.kp.queue ++ (s.pipe.take n).map some } }
  | .timeout =>
    -- `wait()`: `if len(self.key_buffer) > 0: flush_keys()`; the task is cancelled with the app
    if !s.running || s.kp.buffer.isEmpty then s else
    { s with kp := processKeys T { s.kp with queue := s.kp.queue ++ [none] } }
  | .finish =>
    if s.running && s.kp.done then
      { s with
        running := false
        results := s.results ++ [(s.kp.trace, s.kp.ed)]
        typeahead := s.typeahead ++ dropCprQ s.kp.queue
        -- the key buffer object survives until the next reset()
        kp := { s.kp with queue := [], done := false, trace := [] } }
    else s

def run (T : Tbl σ) (s : St σ) : List Ev → St σ
  | [] => s
  | e :: es => run T (step T s e) es

def written : List Ev → List Key
  | [] => []
  | .write c :: es => c ++ written es
  | _ :: es => written es

/-! ### concrete registry used by the correspondence: the part of the default emacs bindings of a
    single-line `PromptSession` that the generated scripts can reach -/
namespace Emacs
open Ptk.C17.Ed

structure S where
  e : E
  sel : Bool                 -- `buffer.selection_state is not None`
  inv : Bool                 -- `buffer.validation_state == INVALID`: the validator has rejected THIS text
deriving DecidableEq, Repr

def kEsc := base + 12        -- escape
def kCtrlX := base + 13      -- c-x
def kCtrlAt := base + 14     -- c-@ / c-space: start-selection

/-- keys whose only bindings are filtered by `insert_mode` (inactive while a selection exists) -/
def insertOnly (k : Nat) : Bool :=
  k < base || k == kBackspace || k == kDelete || k == kCtrlK || k == kCtrlU || k == kCtrlD

def known1 (k : Nat) : Bool :=
  k < base || (base ≤ k && k ≤ base + 15)     -- (c-x alone: the `_ignore` binding of basic.py)

def isDigit (k : Nat) : Bool := 48 ≤ k && k ≤ 57

/-- the validator of the session (`Validator.from_callable`), by number:
    0 = none; 1 = the text must not be empty (error at position 0);
    2 = the text must not contain `x` (`move_cursor_to_end=True`: error at the end) -/
def valid (v : Nat) (t : List Char) : Bool :=
  if v = 1 then !t.isEmpty else if v = 2 then !t.contains 'x' else true

/-- `ValidationError.cursor_position` of that validator -/
def errorPos (v : Nat) (t : List Char) : Nat := if v = 2 then t.length else 0

def exact (s : S) : List Key → Bool
  | [.accept] => true
  | [.abort] => true
  | [.cpr] => true
  -- c-d: `app.exit(exception=EOFError)` when the buffer is empty (shortcuts/prompt.py), else delete-char
  | [.other k] => known1 k && (!(s.sel && insertOnly k) || (k == kCtrlD && s.e.text.isEmpty))
  | [.other a, .accept] => a == kEsc && !s.sel          -- escape enter: accept-line (insert_mode)
  | [.other a, .other b] => (a == kCtrlX && b == kCtrlX) || (a == kEsc && isDigit b)  -- c-x c-x, escape digit
  | _ => false

def longer (s : S) : List Key → Bool
  | [.other k] => k == kEsc || k == kCtrlX
  | [.abort] => s.sel                                   -- c-c > / c-c < (has_selection)
  | _ => false

/-- `event.arg`: the repetition count of a command -/
def count (a : Option Nat) : Nat :=
  match a with
  | none => 1
  | some n => if n ≥ 1000000 then 1 else n

/-- `event.append_to_arg_count(data)` for a digit -/
def appendArg (a : Option Nat) (k : Nat) : Option Nat :=
  match a with
  | none => some (k - 48)
  | some n => some (n * 10 + (k - 48))

def rep (e : E) (k : Nat) : Nat → E
  | 0 => e
  | n + 1 => rep (Ed.key e k) k n

/-- the named commands of the scripts with their repetition count -/
def keyN (e : E) (k : Nat) (n : Nat) : E :=
  if k < base ∨ k = kBackspace ∨ k = kDelete ∨ k = kLeft ∨ k = kRight ∨ k = kCtrlB ∨ k = kCtrlF ∨ k = kCtrlD then
    rep e k n
  else Ed.key e k

/-- `Buffer.validate_and_handle()` → `validate(set_cursor=True)`: a cached verdict for the unchanged
    text is reused (`validation_state != UNKNOWN`; cursor movements do not reset it, text changes
    do); otherwise the validator is called: accepted → `app.exit(result=text)`; rejected → the
    cursor goes to the error position, the verdict is cached, the application goes on.
    (Sessions of the cases use `validate_while_typing=False`: with the default, an asynchronous
    validation may or may not have cached the verdict before Enter is processed.) -/
def acceptLine (v : Nat) (s : S) : HOut S :=
  if s.inv then ⟨s, .stay, none⟩
  else if valid v s.e.text then ⟨s, .exit, none⟩
  else ⟨{ s with e := { s.e with cur := min (errorPos v s.e.text) s.e.text.length }, inv := true }, .stay, none⟩

def handlerCore (v : Nat) (s : S) (a : Option Nat) : List Key → HOut S
  | [.accept] => acceptLine v s
  | [.abort] => ⟨s, .exit, none⟩
  | [.other _, .accept] => acceptLine v s
  | [.other x, .other y] =>
    if x == kCtrlX then
      ⟨{ s with e := { s.e with cur := if s.e.cur = s.e.text.length then 0 else s.e.text.length } }, .stay, none⟩
    else if x == kEsc && isDigit y then ⟨s, .stay, appendArg a y⟩      -- escape digit
    else ⟨s, .stay, none⟩
  | [.other k] =>
    if k == kCtrlAt then ⟨{ s with sel := !s.e.text.isEmpty }, .stay, none⟩   -- `if buff.text: start_selection`
    else if k == kEsc then ⟨s, .stay, none⟩
    else if k == kCtrlD && s.e.text.isEmpty then ⟨s, .exit, none⟩  -- `app.exit(exception=EOFError)`
    else if isDigit k && a.isSome then ⟨s, .stay, appendArg a k⟩    -- digit while an argument is typed
    else ⟨{ s with e := keyN s.e k (count a) }, .stay, none⟩
  | _ => ⟨s, .stay, none⟩

/-- `Buffer._text_changed`: a handler that changed the text forgets the cached verdict -/
def handlerV (v : Nat) (s : S) (a : Option Nat) (ks : List Key) : HOut S :=
  let o := handlerCore v s a ks
  { o with ed := { o.ed with inv := o.ed.inv && (o.ed.e.text == s.e.text) } }

def handler : S → Option Nat → List Key → HOut S := handlerV 0

/-- the registry of a session with validator number `v` -/
def tblV (v : Nat) : Tbl S :=
  { exact := exact, longer := longer, handler := handlerV v, reset := fun _ => ⟨⟨[], 0⟩, false, false⟩ }

def tbl : Tbl S := tblV 0

end Emacs

end Ptk.C17.Buf
