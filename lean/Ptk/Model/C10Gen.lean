/-
  C10 — the model's parameters instantiated with the tables regenerated from /repo
  (shared by the driver and by the `gen_*` theorems).
-/
import Ptk.Gen.C10Display
import Ptk.Model.C10Diff
namespace Ptk.C10
open Ptk.Py

def genTable : Table := Gen.C10.displayMappings
def genWc : Char → Int := Gen.C10.wcwidth

/-- `_CHAR_CACHE[" ", Transparent]`, the default character of a fresh `Screen()` -/
def genD0 : Cell := mkCell genTable genWc [' '] "[transparent]".toList

/-- the emitter strings of the real `Vt100_Output` -/
def genEmit : Emit := {
  hide := Gen.C10.hideCursor, show_ := Gen.C10.showCursor, reset := Gen.C10.resetAttrs,
  eraseDown := Gen.C10.eraseDown, eraseEol := Gen.C10.eraseEol,
  disableWrap := Gen.C10.disableAutowrap, enableWrap := Gen.C10.enableAutowrap,
  up1 := Gen.C10.cursorUp1, fwd1 := Gen.C10.cursorFwd1, back1 := Gen.C10.cursorBack1,
  upPre := Gen.C10.cursorUpPre, upSuf := Gen.C10.cursorUpSuf,
  fwdPre := Gen.C10.cursorFwdPre, fwdSuf := Gen.C10.cursorFwdSuf,
  backPre := Gen.C10.cursorBackPre, backSuf := Gen.C10.cursorBackSuf }

end Ptk.C10
