/-
  C10 — the model's parameters instantiated with the tables regenerated from /repo
  (shared by the driver and by the `gen_*` theorems).
-/
import Ptk.Gen.C10Display
import Ptk.Model.C10Diff
import Ptk.Model.C10Out
namespace Ptk.C10
open Ptk.Py

def genTable : Table := Gen.C10.displayMappings
def genWc : CP → Int := Gen.C10.wcwidth

/-- `_CHAR_CACHE[" ", Transparent]`, the default character of a fresh `Screen()` -/
def genD0 : Cell := mkCell genTable genWc [32] "[transparent]".toList

/-- the emitter strings of the real `Vt100_Output` -/
def genEmit : Emit := {
  hide := Gen.C10.hideCursor, show_ := Gen.C10.showCursor, reset := Gen.C10.resetAttrs,
  eraseDown := Gen.C10.eraseDown, eraseEol := Gen.C10.eraseEol,
  disableWrap := Gen.C10.disableAutowrap, enableWrap := Gen.C10.enableAutowrap,
  up1 := Gen.C10.cursorUp1, fwd1 := Gen.C10.cursorFwd1, back1 := Gen.C10.cursorBack1,
  upPre := Gen.C10.cursorUpPre, upSuf := Gen.C10.cursorUpSuf,
  fwdPre := Gen.C10.cursorFwdPre, fwdSuf := Gen.C10.cursorFwdSuf,
  backPre := Gen.C10.cursorBackPre, backSuf := Gen.C10.cursorBackSuf }

/-- the strings of the other emitters of the real `Vt100_Output` -/
def genEmit2 : Emit2 := {
  eraseScreen := Gen.C10.eraseScreen, enterAlt := Gen.C10.enterAltScreen, quitAlt := Gen.C10.quitAltScreen,
  enableMouse := Gen.C10.enableMouse, disableMouse := Gen.C10.disableMouse,
  enableBP := Gen.C10.enableBracketedPaste, disableBP := Gen.C10.disableBracketedPaste,
  resetCursorKeyMode := Gen.C10.resetCursorKeyMode, askCpr := Gen.C10.askCpr, bell := Gen.C10.bell,
  down1 := Gen.C10.cursorDown1, downPre := Gen.C10.cursorDownPre, downSuf := Gen.C10.cursorDownSuf,
  gotoPre := Gen.C10.gotoPre, gotoMid := Gen.C10.gotoMid, gotoSuf := Gen.C10.gotoSuf,
  shapes := Gen.C10.cursorShapes, shapeMarks := Gen.C10.cursorShapeMarks, resetShape := Gen.C10.resetCursorShape,
  titlePre := Gen.C10.titlePre, titleSuf := Gen.C10.titleSuf }

end Ptk.C10
