/-
  C15 — the thread hand-off of `generator_to_async_generator`
  (src/prompt_toolkit/eventloop/async_generator.py), used by `ThreadedCompleter`:

      quitting = False
      q = Queue(maxsize=buffer_size)
      def runner():                                   -- producer thread
          try:
              for item in get_iterable():             -- PPc.next k  (user code)
                  if quitting: return                 -- PPc.got k
                  while True:
                      try: q.put(item, timeout=1)     -- PPc.put k
                      except Full:
                          if quitting: return         -- PPc.full k
                          continue
                      else: break
          finally:
              while True:
                  try: q.put(_Done(), timeout=1)      -- PPc.fin k
                  except Full:
                      if quitting: return             -- PPc.finFull k
                      continue
                  else: break
      runner_f = run_in_executor_with_context(runner) -- PPc.new
      try:
          while True:
              try: item = q.get_nowait()                          -- popNow
              except Empty: item = await loop.run_in_executor(None, q.get)   -- submitGet / take / deliver
              if isinstance(item, _Done): break
              else: yield item
      finally:
          quitting = True                             -- quit
          await runner_f                              -- enabled when pc = exit

  Every micro-step below touches the shared state (the queue, the `quitting` cell) exactly
  once, so that an execution with real thread parallelism is an interleaving of micro-steps
  (assumed: `queue.Queue` is linearizable, a read/write of the closure cell is atomic).
  A `q.put(.., timeout=1)` on a full queue is modelled by its outcome `Full` (the second has
  passed); a blocking `q.get` in the executor thread is enabled only on a non-empty queue.

  Items are identified by their index in the iterable (`QItem.item j`); the consumer maps the
  index back to the value.
-/
import Ptk.Py
namespace Ptk.C15

inductive QItem
  | item (j : Nat)
  | done
deriving DecidableEq, Repr

/-- program counter of the producer thread (`runner`); `k` = number of items put so far -/
inductive PPc
  /-- submitted to the executor, the thread has not started yet -/
  | new
  /-- inside `next()` of the user's iterable (user code), asking for item `k` -/
  | next (k : Nat)
  /-- holds item `k`, about to read `quitting` -/
  | got (k : Nat)
  /-- about to call `q.put(item k, timeout=1)` -/
  | put (k : Nat)
  /-- `q.put` raised `Full`, about to read `quitting` -/
  | full (k : Nat)
  /-- in the `finally`: about to call `q.put(_Done(), timeout=1)` -/
  | fin (k : Nat)
  /-- `q.put(_Done())` raised `Full`, about to read `quitting` -/
  | finFull (k : Nat)
  /-- `runner` returned (`runner_f` resolves); `d` = the `_Done` marker was put -/
  | exit (k : Nat) (d : Bool)
deriving DecidableEq, Repr

/-- hand-off state -/
structure HS where
  /-- number of items the iterable yields -/
  n : Nat
  /-- `buffer_size` -/
  cap : Nat
  q : List QItem
  quitting : Bool
  pc : PPc
  /-- a blocking `q.get` job is running in the executor and has not returned yet -/
  getter : Bool
  /-- the `q.get` job returned this element, the event loop has not delivered it yet -/
  inbox : Option QItem
  /-- everything the consumer received so far, in order -/
  got : List QItem
deriving DecidableEq, Repr

def HS.init (n cap : Nat) : HS :=
  { n := n, cap := cap, q := [], quitting := false, pc := .new, getter := false, inbox := none,
    got := [] }

/-- one step of the producer thread -/
def prodStep (h : HS) : HS :=
  match h.pc with
  | .new => { h with pc := .next 0 }
  | .next k => if k < h.n then { h with pc := .got k } else { h with pc := .fin k }
  | .got k => if h.quitting then { h with pc := .fin k } else { h with pc := .put k }
  | .put k =>
    if h.q.length < h.cap then { h with q := h.q ++ [.item k], pc := .next (k + 1) }
    else { h with pc := .full k }
  | .full k => if h.quitting then { h with pc := .fin k } else { h with pc := .put k }
  | .fin k =>
    if h.q.length < h.cap then { h with q := h.q ++ [.done], pc := .exit k true }
    else { h with pc := .finFull k }
  | .finFull k => if h.quitting then { h with pc := .exit k false } else { h with pc := .fin k }
  | .exit _ _ => h

/-- `q.get_nowait()` by the consumer itself -/
def popNow (h : HS) : Option (QItem × HS) :=
  match h.q with
  | x :: r => some (x, { h with q := r, got := h.got ++ [x] })
  | [] => none

/-- `Empty` → `loop.run_in_executor(None, q.get)` -/
def submitGet (h : HS) : HS := { h with getter := true }

/-- the blocking `q.get` in the executor thread returns -/
def take (h : HS) : HS :=
  if h.getter then
    match h.q with
    | x :: r => { h with q := r, getter := false, inbox := some x }
    | [] => h
  else h

/-- the event loop resumes the consumer with the result of the `q.get` job -/
def deliver (h : HS) : Option (QItem × HS) :=
  match h.inbox with
  | some x => some (x, { h with inbox := none, got := h.got ++ [x] })
  | none => none

/-- `finally: quitting = True` -/
def quit (h : HS) : HS := { h with quitting := true }

def PPc.isExit : PPc → Bool
  | .exit _ _ => true
  | _ => false

/-- the consumer received the `_Done` marker -/
def HS.ended (h : HS) : Bool := h.got.contains .done

/-- labels of the stand-alone hand-off system (consumer protocol: it reads the queue only
    while it has not quit and has not seen `_Done`; `quit` = `aclose()` at a `yield` or the
    `break` after `_Done`; `abandon` = `CancelledError` at the await of the `q.get` job, which
    leaves that job running) -/
inductive HAct
  | prod | pop | submit | take | deliver | quit | abandon
deriving DecidableEq, Repr

def hstep (h : HS) : HAct → HS
  | .prod => prodStep h
  | .pop =>
    if h.quitting || h.getter || h.inbox.isSome || h.ended then h
    else match popNow h with
      | some (_, h') => h'
      | none => h
  | .submit =>
    if h.quitting || h.getter || h.inbox.isSome || h.ended || !h.q.isEmpty then h else submitGet h
  | .take => take h
  | .deliver =>
    if h.quitting then h
    else match deliver h with
      | some (_, h') => h'
      | none => h
  | .quit => if h.getter || h.inbox.isSome then h else quit h
  | .abandon => quit h

def hrun (h : HS) (as : List HAct) : HS := as.foldl hstep h

end Ptk.C15
