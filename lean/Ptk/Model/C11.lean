/-
  C11 — model of "render a focused text window":

    layout/processors.py  TabsProcessor, BeforeInput, AfterInput, PasswordProcessor, _MergedProcessor
    layout/controls.py    BufferControl.create_content (trailing blank, cursor translation),
                          UIContent.get_height_for_line
    layout/containers.py  Window._scroll_when_linewrapping, _scroll_without_linewrapping (+ do_scroll),
                          Window._copy_body (copy_line / copy / cursor_pos_to_screen_pos)
    layout/margins.py     NumberedMargin.get_width

  Runtime character classes are parameters (`Widths`): `rw c` = `utils.get_cwidth(c)` of the raw
  character, `disp c` = the string a screen cell shows for it (`Char.display_mappings`).
  The width of a cell is `get_cwidth` of the displayed string.

  The model follows the code as it is NOW (after `fix: wrapped cursor line taller than the window
  must scroll to the row of the cursor cell`, i.e. `slice_stop = cursor.x + 1`).
-/
import Ptk.Py
namespace Ptk.C11
open Ptk.Py

/-- `10**8`, the "infinite" height -/
def BIG : Nat := 100000000

structure Widths where
  rw : Char → Nat
  disp : Char → Text
  /-- the scroll code measures a character as it is drawn (`get_display_width`, proposed fix
      C11-control-char-width) instead of with `get_cwidth`; probed from the current tree -/
  dm : Bool := false
  /-- `get_height_for_line` wraps lines whose cells are not all one column wide character by
      character (proposed fix C11-wide-wrap-height); probed from the current tree -/
  exact : Bool := false

/-- `get_cwidth(s)` : sum over the characters -/
def textWidth (W : Widths) : Text → Nat
  | [] => 0
  | c :: cs => W.rw c + textWidth W cs

/-- `Char(c).width` -/
def cellW (W : Widths) (c : Char) : Nat := textWidth W (W.disp c)

/-- width of one character as the scroll code measures it -/
def measure (W : Widths) (c : Char) : Nat := if W.dm then cellW W c else W.rw c

/-- width of a text as the scroll code measures it (`get_cwidth` / `get_display_width`) -/
def measWidth (W : Widths) : Text → Nat
  | [] => 0
  | c :: cs => measure W c + measWidth W cs

/-! ## processors -/

inductive Proc where
  | tabs (ts : Nat) (c1 c2 : Char)
  | before (t : Text)
  /-- BeforeInput whose text is a fragment list with `[ZeroWidthEscape]` fragments: `(zw, text)` with
      `zw` = "the style string CONTAINS the marker" (also `'class:prompt [ZeroWidthEscape]'`, which
      `to_formatted_text(.., style=..)` produces) -/
  | beforeF (fr : List (Bool × Text))
  | after (t : Text)
  | password (c : Char)
  /-- ShowLeadingWhiteSpaceProcessor(get_char = c) -/
  | leading (c : Char)
  /-- ShowTrailingWhiteSpaceProcessor(get_char = c), applied to the single fragment of the lexer -/
  | trailing (c : Char)
  /-- a processor that only restyles: DummyProcessor, HighlightMatchingBracketProcessor, and
      HighlightSearch / HighlightSelection / DisplayMultipleCursors without search text / selection -/
  | ident
  /-- ConditionalProcessor(p, filter) with `filter() = b` ; DynamicProcessor(lambda: p if b else None) -/
  | cond (b : Bool) (p : Proc)
  /-- a nested `merge_processors([...])` (`_MergedProcessor`) -/
  | group (ps : List Proc)

/-- `c == " "` -/
def isSp (c : Char) : Bool := c = ' '

/-- number of cells a tab at display position `pos` expands to -/
def tabCount (ts pos : Nat) : Nat :=
  let c := ts - pos % ts
  if c = 0 then ts else c

/-- `position_mappings[i]` for the characters of the line, starting at display position `pos` -/
def tabsPM (ts : Nat) : Text → Nat → List Nat
  | [], _ => []
  | c :: cs, pos => pos :: tabsPM ts cs (if c = '\t' then pos + tabCount ts pos else pos + 1)

/-- final `pos` -/
def tabsEnd (ts : Nat) : Text → Nat → Nat
  | [], pos => pos
  | c :: cs, pos => tabsEnd ts cs (if c = '\t' then pos + tabCount ts pos else pos + 1)

/-- the expanded text -/
def tabsOut (ts : Nat) (c1 c2 : Char) : Text → Nat → Text
  | [], _ => []
  | c :: cs, pos =>
    if c = '\t' then
      c1 :: (List.replicate (tabCount ts pos - 1) c2 ++ tabsOut ts c1 c2 cs (pos + tabCount ts pos))
    else c :: tabsOut ts c1 c2 cs (pos + 1)

/-- the complete `position_mappings` dict as a list indexed by the key `0 .. len+1` -/
def tabsMap (ts : Nat) (line : Text) : List Nat :=
  tabsPM ts line 0 ++ [tabsEnd ts line 0, tabsEnd ts line 0 + 1]

/-- index of the first occurrence -/
def idxOf? (v : Nat) : List Nat → Option Nat
  | [] => none
  | x :: xs => if x = v then some 0 else (idxOf? v xs).map (· + 1)

/-- `display_to_source` loop: `while display_pos >= 0: try reversed[display_pos] except: display_pos -= 1` -/
def d2sLoop (pm : List Nat) : Nat → Nat
  | 0 => (idxOf? 0 pm).getD 0
  | d + 1 => match idxOf? (d + 1) pm with
    | some k => k
    | none => d2sLoop pm d

def tabsD2S (pm : List Nat) (j : Int) : Int :=
  if j < 0 then 0 else (d2sLoop pm j.toNat : Nat)

/-- result of `apply_transformation` : fragments text and the two position maps
    (`s2d = none` models the `KeyError` of the dict lookup) -/
structure Trans where
  frags : Text
  s2d : Nat → Option Nat
  d2s : Int → Int

/-- `fragment_list_len` : `sum(len(item[1]) for item in fragments if ZeroWidthEscape not in item[0])` -/
def fragLen : List (Bool × Text) → Nat
  | [] => 0
  | (zw, t) :: rest => (if zw then 0 else t.length) + fragLen rest

/-- the characters of a fragment list that reach the screen: `copy_line` skips a fragment whose style
    contains the marker (`continue`: no cell, no column), `fragment_list_to_text` / `fragment_list_width`
    leave it out -/
def fragVisible : List (Bool × Text) → Text
  | [] => []
  | (zw, t) :: rest => (if zw then [] else t) ++ fragVisible rest

/-- a processor that returns `Transformation(fragments)` : default identity maps -/
def idTrans (t : Text) : Trans := { frags := t, s2d := some, d2s := id }

/-- ShowLeadingWhiteSpaceProcessor: `for i in range(len(fragments)): if fragments[i][1] == " ": fragments[i] = t else: break` -/
def leadingOut (c : Char) (t : Text) : Text :=
  (t.takeWhile isSp).map (fun _ => c) ++ t.dropWhile isSp

/-- ShowTrailingWhiteSpaceProcessor: the same walking backwards -/
def trailingOut (c : Char) (t : Text) : Text :=
  (leadingOut c t.reverse).reverse

mutual
/-- `Processor.apply_transformation` for each modelled processor -/
def applyProc (lineno lineCount : Nat) : Proc → Text → Trans
  | .tabs ts c1 c2, t =>
    let pm := tabsMap ts t
    { frags := tabsOut ts c1 c2 t 0, s2d := fun i => pm[i]?, d2s := tabsD2S pm }
  | .before b, t =>
    if lineno = 0 then
      { frags := b ++ t, s2d := fun i => some (i + b.length), d2s := fun j => j - b.length }
    else idTrans t
  | .beforeF fr, t =>
    if lineno = 0 then
      { frags := fragVisible fr ++ t, s2d := fun i => some (i + fragLen fr), d2s := fun j => j - fragLen fr }
    else idTrans t
  | .after a, t =>
    if lineno + 1 = lineCount then idTrans (t ++ a) else idTrans t
  | .password c, t => idTrans (t.map fun _ => c)
  | .leading c, t => idTrans (leadingOut c t)
  | .trailing c, t => idTrans (trailingOut c t)
  | .ident, t => idTrans t
  | .cond b p, t => if b then applyProc lineno lineCount p t else idTrans t
  | .group ps, t => merged lineno lineCount ps t

/-- `_MergedProcessor.apply_transformation` : processors applied in order, `source_to_display`
    composed in order, `display_to_source` composed in reverse order.  (`merge_processors([])` is a
    DummyProcessor, `merge_processors([p])` is `p` itself: the same function.) -/
def merged (lineno lineCount : Nat) : List Proc → Text → Trans
  | [], t => idTrans t
  | p :: ps, t =>
    let a := applyProc lineno lineCount p t
    let r := merged lineno lineCount ps a.frags
    { frags := r.frags, s2d := fun i => (a.s2d i).bind r.s2d, d2s := fun j => a.d2s (r.d2s j) }
end

/-! ## document → UIContent -/

/-- `Document.cursor_position_row`, `cursor_position_col` -/
def rowOf (text : Text) (cur : Nat) : Nat := ((text.take cur).filter (· == '\n')).length
def colOf (text : Text) (cur : Nat) : Nat :=
  ((text.take cur).reverse.takeWhile (· != '\n')).length

/-- `UIContent.get_line(i)` for every line: processed fragments plus the trailing blank -/
def contentLines (procs : List Proc) (text : Text) : List Text :=
  let ls := splitOn '\n' text
  ls.zipIdx.map fun (l, i) => (merged i ls.length procs l).frags ++ [' ']

/-- `translate_rowcol(row, col).x` -/
def cursorX (procs : List Proc) (text : Text) (cur : Nat) : Option Nat :=
  let ls := splitOn '\n' text
  let row := rowOf text cur
  (merged row ls.length procs (ls.getD row [])).s2d (colOf text cur)

/-! ## UIContent.get_height_for_line -/

/-- the slow path `while text_width > width` ; `pw k` = width of `get_line_prefix(lineno, k)`.
    `fuel` bounds the number of iterations (each one lowers `text_width`). -/
def heightLoop (pw : Nat → Nat) (width : Nat) : Nat → Nat → Nat → Nat
  | 0, _, h => h
  | fuel + 1, tw, h =>
    if tw > width then
      if pw h ≥ width then BIG
      else heightLoop pw width fuel (tw - width + pw h) (h + 1)
    else h

/-- `_wrapped_height` (proposed fix): wrap the cells exactly like `copy_line` does -/
def wrappedHeight (pw : Nat → Nat) (width : Nat) : List Nat → Nat → Nat → Nat
  | [], _, h => h
  | cw :: rest, x, h =>
    if x + cw > width then
      if pw h ≥ width then BIG else wrappedHeight pw width rest (pw h + cw) (h + 1)
    else wrappedHeight pw width rest (x + cw) h

/-- `get_height_for_line(lineno, width, get_line_prefix, slice_stop)` for the text `line` of that
    line; `pfx = some pw` when the window has a `get_line_prefix`. -/
def heightForLine (W : Widths) (line : Text) (width : Nat) (pfx : Option (Nat → Nat))
    (stop : Option Nat) : Nat :=
  if width = 0 then BIG else
  let l := match stop with | none => line | some s => line.take s
  let tw := measWidth W l
  if W.exact ∧ (l.map (measure W)).any (· != 1) then
    let pw := match pfx with | some pw => pw | none => fun _ => 0
    wrappedHeight pw width (l.map (measure W)) (pw 0) 1
  else
  match pfx with
  | some pw => heightLoop pw width (tw + pw 0) (tw + pw 0) 1
  | none =>
    let q := tw / width
    let q := if tw % width ≠ 0 then q + 1 else q
    max 1 q

/-! ## scrolling -/

structure Scroll where
  vs : Int
  hs : Int
  vs2 : Int
deriving Repr, DecidableEq

/-- the loop shared by `get_min_vertical_scroll`, `get_max_vertical_scroll`, `get_topmost_visible`:
    walk upwards from line `k-1`, adding line heights; return the last line for which the sum
    stayed `≤ limit` (`prev` if even the first one exceeds it).  (`get_min_vertical_scroll` ends
    with `return 0`, which is the value of `prev_lineno` there since its range always reaches 0.) -/
def scanUp (lh : Nat → Nat) (limit : Int) : Nat → Nat → Int → Int
  | 0, _, prev => prev
  | k + 1, used, prev =>
    if ((used + lh k : Nat) : Int) > limit then prev else scanUp lh limit k (used + lh k) k

/-- `Window._scroll_when_linewrapping` for `width > 0`.  `lh` = `get_line_height`, `tbh` =
    `text_before_height` (height of the cursor line cut after the cursor cell). -/
def scrollWrap (lh : Nat → Nat) (tbh : Nat) (lineCount cy : Nat) (height top bottom : Int)
    (beyond : Bool) (s : Scroll) : Scroll :=
  if (lh cy : Int) > height - top then
    let v2 := min (min ((tbh : Int) - 1) ((lh cy : Int) - height)) s.vs2
    let v2 := max (max 0 ((tbh : Int) - height)) v2
    { vs := cy, hs := 0, vs2 := v2 }
  else
    let topmost := scanUp lh height lineCount 0 ((lineCount : Int) - 1)
    let minVs := scanUp lh (height - bottom) (cy + 1) 0 cy
    let maxVs := scanUp lh top cy 0 cy
    let v := max s.vs (min topmost minVs)
    let v := min v maxVs
    let v := if !beyond then min v topmost else v
    { vs := v, hs := 0, vs2 := 0 }

/-- `do_scroll` ; `int(min(a, window_size / 2, c))` is `min a (tdiv window_size 2) c`
    (truncation is monotone and the identity on integers; see `Props.C11.trunc_min_half`). -/
def doScroll (beyond : Bool) (cur soStart soEnd cp ws cs : Int) : Int :=
  let s := min (min soStart (Int.tdiv ws 2)) cp
  let e := min (min soEnd (Int.tdiv ws 2)) (cs - 1 - cp)
  let cur := if cur < 0 then 0 else cur
  let cur := if !beyond && cur > cs - ws then max 0 (cs - ws) else cur
  let cur := if cur > cp - s then max 0 (cp - s) else cur
  let cur := if cur < cp + 1 - ws + e then cp + 1 - ws + e else cur
  cur

/-- `Window._scroll_without_linewrapping` (no `get_vertical_scroll` / `get_horizontal_scroll`).
    `line` = text of the cursor line, `cx` = cursor column, `p0` = width of the cursor line's prefix. -/
def scrollNoWrap (W : Widths) (line : Text) (lineCount cy cx : Nat) (width height : Int)
    (top bottom left right : Int) (p0 : Nat) (beyond : Bool) (s : Scroll) : Scroll :=
  let v := doScroll beyond s.vs top bottom cy height lineCount
  let h := doScroll beyond s.hs left right (measWidth W (line.take cx)) (width - p0)
            (max (measWidth W line : Int) (s.hs + width))
  { vs := v, hs := h, vs2 := 0 }

/-! ## Window._copy_body -/

structure Env where
  W : Widths
  width : Int
  height : Int
  wrap : Bool
  xpos : Int
  ypos : Int
  /-- `get_line_prefix(lineno, wrap_count)` as plain text -/
  pfx : Option (Nat → Nat → Text)

/-- local variables of `copy_line` plus the dictionaries / screen it writes (newest entry first) -/
structure CS where
  x : Int
  y : Int
  col : Nat
  wc : Nat
  /-- `visible_line_to_row_col[y][1]` -/
  rowCol : Int
  vl : List (Int × Nat × Int)
  rc : List ((Nat × Nat) × (Int × Int))
  cells : List ((Int × Int) × Text)
  /-- `return x, y` from inside the loops -/
  ret : Bool

/-- `new_buffer[y][x].char` : last write, default blank -/
def cellAt (cells : List ((Int × Int) × Text)) (p : Int × Int) : Text :=
  match cells.find? (fun e => e.1 == p) with
  | some e => e.2
  | none => [' ']

/-- merge a zero width character into the previous cell (`for pw in [2, 1]`) -/
def mergeZero (W : Widths) (cells : List ((Int × Int) × Text)) (y x xr : Int) (c : Char) (pw : Int) :
    List ((Int × Int) × Text) :=
  if xr - pw ≥ 0 ∧ (textWidth W (cellAt cells (y, x - pw)) : Int) = pw then
    ((y, x - pw), cellAt cells (y, x - pw) ++ [c]) :: cells
  else cells

/-- `for i in range(1, char_width): new_buffer_row[x + xpos + i] = empty_char` -/
def eraseRight (cells : List ((Int × Int) × Text)) (y x : Int) : Nat → Nat → List ((Int × Int) × Text)
  | 0, _ => cells
  | n + 1, i => eraseRight (((y, x + i), []) :: cells) y x n (i + 1)

/-- the part of the inner loop after the wrap test: "Set character in screen and shift x" -/
def putChar (e : Env) (isInput : Bool) (lineno skipped : Nat) (st : CS) (c : Char) : CS :=
  let w := cellW e.W c
  let st :=
    if 0 ≤ st.x ∧ 0 ≤ st.y ∧ st.x < e.width then
      let Y := st.y + e.ypos
      let X := st.x + e.xpos
      let cells := ((Y, X), e.W.disp c) :: st.cells
      let cells :=
        if w > 1 then eraseRight cells Y X (w - 1) 1
        else if w = 0 then mergeZero e.W (mergeZero e.W cells Y X st.x c 2) Y X st.x c 1
        else cells
      { st with cells := cells,
                rc := if isInput then ((lineno, st.col + skipped), (Y, X)) :: st.rc else st.rc }
    else st
  { st with col := st.col + 1, x := st.x + w }

/-- "Wrap when the line width is exceeded": new `visible_line_to_row_col` entry, next row -/
def wrapSt (lineno : Nat) (st : CS) : CS :=
  { st with vl := (st.y + 1, lineno, st.rowCol + st.x) :: st.vl,
            rowCol := st.rowCol + st.x, y := st.y + 1, wc := st.wc + 1, x := 0 }

/-- one iteration of `for c in text` ; `onWrap` inserts the continuation prefix -/
def step (e : Env) (isInput : Bool) (lineno skipped : Nat) (onWrap : CS → CS) (st : CS) (c : Char) : CS :=
  if st.ret then st else
  if e.wrap ∧ st.x + cellW e.W c > e.width then
    let st' := onWrap (wrapSt lineno st)
    if st'.y ≥ e.height then { st' with ret := true }   -- `return x, y`
    else putChar e isInput lineno skipped st' c
  else putChar e isInput lineno skipped st c

/-- `copy_line(prompt, lineno, x, y, is_input=False)` ; own `col`, `wrap_count`, own return -/
def copyPlain (e : Env) (lineno : Nat) (st : CS) (t : Text) : CS :=
  let r := t.foldl (step e false lineno 0 id) { st with col := 0, wc := 0, ret := false }
  { r with col := st.col, wc := st.wc, ret := false }

/-- "Insert line prefix" for the current `wrap_count` -/
def prefixHook (e : Env) (lineno : Nat) (st : CS) : CS :=
  match e.pfx with
  | none => st
  | some f => copyPlain e lineno st (f lineno st.wc)

/-- `while h_scroll > 0 and line: h_scroll -= get_cwidth(line[0]); skipped += 1; del line[:1]` -/
def skipLoop (W : Widths) : Int → Text → Nat → Int × Text × Nat
  | h, [], k => (h, [], k)
  | h, c :: cs, k => if h > 0 then skipLoop W (h - measure W c) cs (k + 1) else (h, c :: cs, k)

/-- the horizontal-scroll part of `copy_line`: (remaining `h_scroll`, remaining line, `skipped`) -/
def hskip (W : Widths) (hs : Int) (line : Text) : Int × Text × Nat :=
  if hs ≠ 0 then skipLoop W hs line 0 else (0, line, 0)

/-- fresh local variables of a `copy_line` call -/
def lineInit (st : CS) : CS := { st with wc := 0, col := 0, ret := false }

/-- `x -= h_scroll` -/
def shiftX (st : CS) (h : Int) : CS := { st with x := st.x - h }

/-- `copy_line(line, lineno, 0, y, is_input=True)` ; `st.x = 0` on entry -/
def copyLine (e : Env) (hs : Int) (lineno : Nat) (line : Text) (st : CS) : CS :=
  let sk := hskip e.W hs line
  sk.2.1.foldl (step e true lineno sk.2.2 (prefixHook e lineno))
    (shiftX (prefixHook e lineno (lineInit st)) sk.1)

/-- `visible_line_to_row_col[y] = (lineno, horizontal_scroll); x = 0` -/
def lineStart (hs : Int) (lineno : Nat) (st : CS) : CS :=
  { st with vl := (st.y, lineno, hs) :: st.vl, rowCol := hs, x := 0 }

/-- `y += 1` after a line (an early `return x, y` of `copy_line` ends with the call) -/
def lineEnd (st : CS) : CS := { st with y := st.y + 1, ret := false }

/-- `copy()` : `while y < height and lineno < line_count` over the lines from `vertical_scroll` on -/
def copyLines (e : Env) (hs : Int) : List Text → Nat → CS → CS
  | [], _, st => st
  | l :: ls, lineno, st =>
    if st.y < e.height then
      copyLines e hs ls (lineno + 1) (lineEnd (copyLine e hs lineno l (lineStart hs lineno st)))
    else st

def initCS (vs2 : Int) : CS :=
  { x := 0, y := -vs2, col := 0, wc := 0, rowCol := 0, vl := [], rc := [], cells := [], ret := false }

/-- the body copy for a scroll state -/
def copyBody (e : Env) (lines : List Text) (s : Scroll) : CS :=
  copyLines e s.hs (lines.drop s.vs.toNat) s.vs.toNat (initCS s.vs2)

/-- `cursor_pos_to_screen_pos(row, col)` as `(y, x)` ; fallback `(0, 0)` -/
def cursorScreen (st : CS) (row col : Nat) : Int × Int :=
  match st.rc.find? (fun e => e.1 == (row, col)) with
  | some e => e.2
  | none => (0, 0)

def cursorFound (st : CS) (row col : Nat) : Bool :=
  (st.rc.find? (fun e => e.1 == (row, col))).isSome

/-! ## the whole render -/

/-- `NumberedMargin.get_width` -/
def numberedMarginWidth (lineCount : Nat) : Nat := max 3 ((toString lineCount).length + 1)

/-- a window margin as far as `_write_to_screen_at_index` needs it for its width bookkeeping -/
inductive Margin where
  /-- NumberedMargin -/
  | numbered
  /-- ScrollbarMargin: `get_width` = 1 -/
  | scrollbar
  /-- PromptMargin(get_prompt = t): `get_cwidth(text)` -/
  | prompt (t : Text)
  /-- ConditionalMargin(m, filter) with `filter() = b`: width of `m` or 0 -/
  | cond (b : Bool) (m : Margin)

structure Cfg where
  xpos : Int
  ypos : Int
  top : Nat
  bottom : Nat
  left : Nat
  right : Nat
  beyond : Bool
  /-- a NumberedMargin as the first left margin (its rows are modelled, see `marginCells`) -/
  margin : Bool
  /-- `get_line_prefix` : (line 0, other lines, continuation rows) -/
  pfx : Option (Text × Text × Text)
  procs : List Proc
  /-- further `left_margins` (after the numbered one) and the `right_margins`: only their widths matter here -/
  lefts : List Margin := []
  rights : List Margin := []

def Cfg.prefixFn (c : Cfg) : Option (Nat → Nat → Text) :=
  c.pfx.map fun (a, b, k) => fun lineno wcnt => if wcnt > 0 then k else if lineno = 0 then a else b

structure Rendered where
  scroll : Scroll
  cy : Nat
  cx : Nat
  width : Int
  xoff : Int
  st : CS

/-- widths of `get_line_prefix(l, k)` as the scroll code measures them -/
def prefixWidths (W : Widths) (pf : Option (Nat → Nat → Text)) (l : Nat) : Option (Nat → Nat) :=
  pf.map fun f => fun k => textWidth W (f l k)

/-- `fragment_list_width(get_line_prefix(cursor line, 0))`, 0 without a prefix function -/
def prefix0Width (W : Widths) (pf : Option (Nat → Nat → Text)) (cy : Nat) : Nat :=
  match pf with
  | some f => textWidth W (f cy 0)
  | none => 0

/-- `Window._scroll` : the new scroll state for content `lines` with the cursor at `(cy, cx)` -/
def scrollFor (W : Widths) (c : Cfg) (lines : List Text) (width : Int) (height : Nat) (wrap : Bool)
    (cy cx : Nat) (s : Scroll) : Scroll :=
  let pf := c.prefixFn
  let line := lines.getD cy []
  if wrap then
    if width ≤ 0 then { vs := cy, hs := 0, vs2 := 0 }
    else
      let lh := fun l => heightForLine W (lines.getD l []) width.toNat (prefixWidths W pf l) none
      let tbh := heightForLine W line width.toNat (prefixWidths W pf cy) (some (cx + 1))
      scrollWrap lh tbh lines.length cy height c.top c.bottom c.beyond s
  else
    let p0 := prefix0Width W pf cy
    scrollNoWrap W line lines.length cy cx width height c.top c.bottom c.left c.right p0 c.beyond s

/-- the arguments `_copy_body` gets -/
def envFor (W : Widths) (c : Cfg) (width : Int) (height : Nat) (wrap : Bool) (mw : Nat) : Env :=
  { W := W, width := width, height := height, wrap := wrap,
    xpos := c.xpos + mw, ypos := c.ypos, pfx := c.prefixFn }

/-- `Margin.get_width` -/
def marginWidth (W : Widths) (lineCount : Nat) : Margin → Nat
  | .numbered => numberedMarginWidth lineCount
  | .scrollbar => 1
  | .prompt t => textWidth W t
  | .cond b m => if b then marginWidth W lineCount m else 0

/-- `left_margin_widths = [self._get_margin_width(m) for m in self.left_margins]` -/
def Cfg.leftWidths (c : Cfg) (W : Widths) (lineCount : Nat) : List Nat :=
  (if c.margin then [numberedMarginWidth lineCount] else []) ++ c.lefts.map (marginWidth W lineCount)

/-- `right_margin_widths` -/
def Cfg.rightWidths (c : Cfg) (W : Widths) (lineCount : Nat) : List Nat :=
  c.rights.map (marginWidth W lineCount)

/-- `sum(left_margin_widths)` : where the body starts (`move_x`, `x_offset`) -/
def Cfg.leftWidth (c : Cfg) (W : Widths) (lineCount : Nat) : Nat := (c.leftWidths W lineCount).sum

/-- `sum(right_margin_widths)` -/
def Cfg.rightWidth (c : Cfg) (W : Widths) (lineCount : Nat) : Nat := (c.rightWidths W lineCount).sum

/-- `total_margin_width = sum(left_margin_widths + right_margin_widths)` -/
def Cfg.totalMarginWidth (c : Cfg) (W : Widths) (lineCount : Nat) : Nat :=
  (c.leftWidths W lineCount ++ c.rightWidths W lineCount).sum

/-- `write_position.width - total_margin_width` : the width of the window body -/
def Cfg.bodyWidth (c : Cfg) (W : Widths) (totalWidth lineCount : Nat) : Int :=
  (totalWidth : Int) - c.totalMarginWidth W lineCount

/-- `Window._write_to_screen_at_index` for a focused `BufferControl` window: margin widths, content,
    scroll, copy — with the width bookkeeping as the code has it: `create_content`, `_scroll` (hence
    `get_height_for_line`) and `_copy_body` each get `write_position.width - total_margin_width`, the body
    starts `sum(left_margin_widths)` columns into the window.  `none` = the processors' position map raised. -/
def render (W : Widths) (c : Cfg) (totalWidth height : Nat) (wrap : Bool) (text : Text) (cur : Nat)
    (s : Scroll) : Option Rendered :=
  let lines := contentLines c.procs text
  let moveX : Nat := c.leftWidth W lines.length
  -- `self._scroll(ui_content, write_position.width - total_margin_width, write_position.height)`
  let scrollWidth : Int := c.bodyWidth W totalWidth lines.length
  -- `self._copy_body(ui_content, screen, write_position, sum(left_margin_widths), write_position.width - total_margin_width, ...)`
  let copyWidth : Int := c.bodyWidth W totalWidth lines.length
  let cy := rowOf text cur
  match cursorX c.procs text cur with
  | none => none
  | some cx =>
    let s' := scrollFor W c lines scrollWidth height wrap cy cx s
    some { scroll := s', cy := cy, cx := cx, width := copyWidth, xoff := c.xpos + moveX,
           st := copyBody (envFor W c copyWidth height wrap moveX) lines s' }

/-! ## `get_vertical_scroll` / `get_horizontal_scroll` callbacks -/

/-- `_scroll_without_linewrapping`: "When a preferred scroll is given, take that first into account":
    the callbacks overwrite `vertical_scroll` / `horizontal_scroll` BEFORE `do_scroll` runs; the
    wrapping scroll code never calls them -/
def applyCallbacks (wrap : Bool) (cbV cbH : Option Int) (s : Scroll) : Scroll :=
  if wrap then s else { s with vs := cbV.getD s.vs, hs := cbH.getD s.hs }

/-- a render of a window that has `get_vertical_scroll` / `get_horizontal_scroll` callbacks -/
def renderCb (W : Widths) (c : Cfg) (totalWidth height : Nat) (wrap : Bool) (text : Text) (cur : Nat)
    (cbV cbH : Option Int) (s : Scroll) : Option Rendered :=
  render W c totalWidth height wrap text cur (applyCallbacks wrap cbV cbH s)

/-! ## mouse: the handler `_write_to_screen_at_index` installs, `BufferControl.mouse_handler` -/

/-- `yx_to_rowcol = {v: k for k, v in rowcol_to_yx.items()}` ; `yx_to_rowcol[y, x]` : the key that was
    inserted LAST with that screen position (`rc` is newest first) -/
def yxLookup (st : CS) (p : Int × Int) : Option (Nat × Nat) :=
  (st.rc.find? (fun e => e.2 == p)).map (·.1)

/-- `while x >= 0: try: row, col = yx_to_rowcol[y, x] except KeyError: x -= 1` ; nobreak: `(0, 0)` -/
def clickLoop (st : CS) (y : Int) : Nat → Nat × Nat
  | 0 => (yxLookup st (y, 0)).getD (0, 0)
  | x + 1 => match yxLookup st (y, ((x + 1 : Nat) : Int)) with
    | some rc => rc
    | none => clickLoop st y x

/-- the `(row, col)` the window's mouse handler passes on for a mouse event at absolute `(y, x)` ;
    `max_y = write_position.ypos + len(visible_line_to_row_col) - 1` -/
def windowClick (st : CS) (ypos : Int) (y x : Int) : Nat × Nat :=
  let y := min (ypos + (st.vl.length : Int) - 1) y
  if x < 0 then (0, 0) else clickLoop st y x.toNat

/-- `Document.translate_row_col_to_index(row, col)` (`row ≥ 0`) -/
def rowColToIndex (text : Text) (row : Nat) (col : Int) : Nat :=
  let ls := splitOn '\n' text
  let row' := if row < ls.length then row else ls.length - 1
  let start : Nat := ((ls.take row').map fun (l : Text) => l.length + 1).sum
  let line := ls.getD row' []
  let r : Int := (start : Int) + max 0 (min col (line.length : Int))
  (max 0 (min r (text.length : Int))).toNat

/-- `BufferControl.mouse_handler`, MOUSE_DOWN on the focused control: the new cursor index -/
def bufferClick (procs : List Proc) (text : Text) (row col : Nat) : Nat :=
  let ls := splitOn '\n' text
  rowColToIndex text row ((merged row ls.length procs (ls.getD row [])).d2s (col : Int))

/-- `mouse_handlers.set_mouse_handler_for_range(x_min, x_max, ...)` : the columns `[x_min, x_max)` the
    handler is installed for: `x_min = xpos + sum(left_margin_widths)`,
    `x_max = xpos + width - sum(right_margin_widths)` (since fix ca5ef2e; before it `- total_margin_width`,
    `fixed = false`, which cut the body short by the left margins) -/
def mouseXRange (fixed : Bool) (xpos : Int) (totalWidth lw rw : Nat) : Int × Int :=
  (xpos + lw, xpos + totalWidth - (if fixed then (rw : Int) else ((lw + rw : Nat) : Int)))

/-! ## NumberedMargin.create_margin (not relative, no tildes) as `_copy_margin` draws it -/

def insertSorted (a : Nat) : List Nat → List Nat
  | [] => [a]
  | b :: bs => if a ≤ b then a :: b :: bs else b :: insertSorted a bs

/-- `sorted(...)` -/
def isort : List Nat → List Nat
  | [] => []
  | a :: as => insertSorted a (isort as)

/-- `WindowRenderInfo.displayed_lines` : `sorted(row for row, col in visible_line_to_row_col.values())` -/
def displayedLines (st : CS) : List Nat := isort (st.vl.reverse.map fun e => e.2.1)

/-- `("%i " % (lineno + 1)).rjust(width)` -/
def numberText (width lineno : Nat) : Text :=
  let t := (toString (lineno + 1)).toList ++ [' ']
  List.replicate (width - t.length) ' ' ++ t

/-- the text `NumberedMargin.create_margin` produces for margin row `k` (`last_lineno` starts as None) -/
def marginLine (width : Nat) (dl : List Nat) (k : Nat) : Text :=
  match dl[k]? with
  | none => []
  | some n => if k = 0 ∨ dl[k - 1]? ≠ some n then numberText width n else []

/-- what the `width` cells of margin row `k` show after `_copy_margin` (untouched cells are blank) -/
def marginCells (width : Nat) (dl : List Nat) (k : Nat) : Text :=
  let t := marginLine width dl k
  t ++ List.replicate (width - t.length) ' '

end Ptk.C11
