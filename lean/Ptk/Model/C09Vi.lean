/-
  C09, Vi side — model of the register-filling and pasting commands of
  `key_binding/bindings/vi.py` in navigation / selection mode:

    x  X  s  D  C  dd  yy(Y)  p  P  "rp  "rP,
    visual (v / V / C-v) followed by  x,  y,  d,  "ry,  "rd

  together with `Document.selection_ranges`, `Document.cut_selection`, `TextObject.cut` (for the
  text objects built from a selection) and `KeyProcessor._fix_vi_cursor_position`.

  The unnamed register is the application clipboard (the kill ring of `Model/C09.lean`);
  named registers are `ViState.named_registers`.
-/
import Ptk.Model.C09
namespace Ptk.C09
open Ptk.Py

/-! ### selections -/

/-- start index of row `l`: `Document._line_start_indexes[l]` -/
def rowStart (lines : List Text) (l : Nat) : Nat := lenSum (lines.take l) + l

/-- `text.find("\n", i)` : index of the first newline at or after `i` -/
def findNlFrom (t : Text) (i : Nat) : Option Nat :=
  let rest := t.drop i
  let k := (rest.takeWhile notNl).length
  if k < rest.length then some (i + k) else none

/-- end (exclusive) of the range of a LINES selection whose upper end is `hi`:
    `to = text.find("\n", to)` if that is `>= 0`, else `len(text) - 1` (an `int`: `-1` on the empty
    text); `to += 1` in Vi mode.  The value is only used as a slice bound / printed, so it is clamped
    to `0` when negative (Emacs mode on the empty text; `selectionRangesI` in `Model/C09Ext.lean`
    keeps the sign for the correspondence). -/
def linesEndI (t : Text) (hi : Nat) (vi : Bool) : Int :=
  let to : Int := match findNlFrom t hi with
    | some k => (k : Int)
    | none => (t.length : Int) - 1
  if vi then to + 1 else to

def linesEnd (t : Text) (hi : Nat) (vi : Bool) : Nat := (linesEndI t hi vi).toNat

/-- `Document.selection_ranges()` for cursor `cur`, `selection.original_cursor_position = orig`
    (`vi` = `vi_mode()`: the upper bound is included) -/
def selectionRanges (t : Text) (cur orig : Nat) (ty : SelType) (vi : Bool) : List (Nat × Nat) :=
  let from_ := min cur orig
  let to := max cur orig
  match ty with
  | .block =>
    let lines := splitOn '\n' t
    let bf : Buf := { text := t, cur := from_ }
    let bt : Buf := { text := t, cur := to }
    let c1 := min (col bf) (col bt)
    let c2 := max (col bf) (col bt) + (if vi then 1 else 0)
    (List.range' (row bf) (row bt + 1 - row bf)).filterMap fun l =>
      let len := (lines.getD l []).length
      if c1 ≤ len then
        some (min (rowStart lines l + c1) t.length, min (rowStart lines l + min len c2) t.length)
      else none
  | .lines =>
    let from_ := from_ - col { text := t, cur := from_ }
    [(from_, linesEnd t to vi)]
  | .chars => [(from_, if vi then to + 1 else to)]

/-- the loop of `Document.cut_selection`: (remaining parts, cut parts, new cursor, last_to) -/
def cutLoop (t : Text) : List (Nat × Nat) → (Text × List Text × Nat × Nat) → (Text × List Text × Nat × Nat)
  | [], acc => acc
  | (from_, to) :: rest, (rem, cuts, nc, lastTo) =>
    let nc := if lastTo = 0 then from_ else nc
    cutLoop t rest (rem ++ (t.take from_).drop lastTo, cuts ++ [(t.take to).drop from_], nc, to)

/-- `Document.cut_selection()` with a selection: the remaining document and the clipboard data -/
def cutSelection (t : Text) (cur orig : Nat) (ty : SelType) (vi : Bool) : Buf × Clip :=
  let (rem, cuts, nc, lastTo) := cutLoop t (selectionRanges t cur orig ty vi) ([], [], cur, 0)
  let rem := rem ++ t.drop lastTo
  let cutText := join ['\n'] cuts
  -- LINES: drop the newline that terminates the last selected line (there is none when the
  -- selection reaches the end of the text)
  let cutText :=
    if ty = .lines ∧ cutText.getLast? = some '\n' ∧ (findNlFrom t (max cur orig)).isSome then cutText.dropLast
    else cutText
  ({ text := rem, cur := nc }, { text := cutText, ty := ty })

/-- `TextObject(orig - cursor, type=…).cut(buffer)` for the text object that
    `_operator_in_selection` builds from a selection (INCLUSIVE / LINEWISE / BLOCK). -/
def textObjectCut (b : Buf) (orig : Nat) (ty : SelType) : Buf × Clip :=
  let lo := min orig b.cur
  let hi := max orig b.cur
  match ty with
  | .chars =>
    -- INCLUSIVE: operator_range = (lo, hi + 1); `to -= 1`
    cutSelection b.text hi lo .chars true
  | .block =>
    -- BLOCK (from a visual block selection): like INCLUSIVE, operator_range = (lo, hi + 1); `to -= 1`
    cutSelection b.text hi lo .block true
  | .lines =>
    let from_ := lo - col { text := b.text, cur := lo }
    let to := hi + (lineAfter { text := b.text, cur := hi }).length
    cutSelection b.text to from_ .lines true

/-- operators remember the cut text unless it is empty; deleted / yanked LINES are always
    remembered (also one empty line) -/
def storable (d : Clip) : Bool := d.text ≠ [] || d.ty = .lines

/-! ### Vi state and commands -/

structure VSt where
  buf : Buf
  ring : Ring
  /-- `ViState.named_registers` (most recent binding first) -/
  regs : List (Char × Clip)
deriving Repr, DecidableEq

def regGet (regs : List (Char × Clip)) (c : Char) : Option Clip :=
  (regs.find? fun p => p.1 = c).map (·.2)

def regSet (regs : List (Char × Clip)) (c : Char) (d : Clip) : List (Char × Clip) :=
  (c, d) :: regs.filter fun p => p.1 ≠ c

/-- `c in vi_register_names` -/
def isRegName (c : Char) : Bool := Gen.C09.viRegisterNames.toList.contains c

/-- `KeyProcessor._fix_vi_cursor_position` (navigation mode) -/
def fixNav (b : Buf) : Buf :=
  if (b.text[b.cur]? = none ∨ b.text[b.cur]? = some '\n') ∧ 0 < (lineBefore b ++ lineAfter b).length then
    { b with cur := b.cur - 1 }
  else b

/-- Escape in insert mode: `cursor_position += get_cursor_left_position()`, then navigation mode -/
def escInsert (b : Buf) : Buf := fixNav { b with cur := b.cur - min (col b) 1 }

/-- count typed before a Vi command: `event.arg` (`none` = 1; a million or more = 1) -/
def viCount : Option Nat → Nat
  | none => 1
  | some n => if n ≥ 1000000 then 1 else n

inductive VisAct
  | x | y | d
deriving Repr, DecidableEq

inductive VCmd
  | x | X | s | D | C | dd | yy | p | P
  | regP (c : Char) (before : Bool)
  /-- harness: `buffer.cursor_position = n` -/
  | goto (n : Nat)
  /-- harness: cursor := a, `v`/`V`/`C-v`, cursor := b, then the action (with `"r` prefix) -/
  | vis (ty : SelType) (a b : Nat) (act : VisAct) (reg : Option Char)
deriving Repr, DecidableEq

def vstep (max : Nat) (s : VSt) (count : Option Nat) (cmd : VCmd) : VSt :=
  let n := viCount count
  -- the digits of a count are key bindings of their own: `_fix_vi_cursor_position` runs after them
  let b := if count.isSome then fixNav s.buf else s.buf
  match cmd with
  | .x =>
    let k := min n (lineAfter b).length
    if k ≠ 0 then
      let r := delete b k
      { s with buf := fixNav r.1, ring := setText max s.ring r.2 }
    else { s with buf := fixNav b }
  | .X =>
    let k := min n (lineBefore b).length
    if k ≠ 0 then
      let r := deleteBefore b k
      { s with buf := fixNav r.1, ring := setText max s.ring r.2 }
    else { s with buf := fixNav b }
  | .s =>
    let r := delete b n
    { s with buf := escInsert r.1, ring := setText max s.ring r.2 }
  | .D =>
    let r := delete b (lineAfter b).length
    { s with buf := fixNav r.1, ring := setText max s.ring r.2 }
  | .C =>
    let r := delete b (lineAfter b).length
    { s with buf := escInsert r.1, ring := setText max s.ring r.2 }
  | .dd =>
    let lines := splitOn '\n' b.text
    let r := row b
    let before := join ['\n'] (lines.take r)
    let deleted := join ['\n'] ((lines.drop r).take n)
    let after := join ['\n'] (lines.drop (r + n))
    -- lines left both above and below (an empty line is a line too)
    let before := if lines.take r ≠ [] ∧ lines.drop (r + n) ≠ [] then before ++ ['\n'] else before
    let nb : Buf := { text := before ++ after
                      cur := before.length + (after.length - (lstripChar ' ' after).length) }
    { s with buf := fixNav nb, ring := setData max s.ring { text := deleted, ty := .lines } }
  | .yy =>
    let lines := splitOn '\n' b.text
    { s with buf := fixNav b
             ring := setData max s.ring { text := join ['\n'] ((lines.drop (row b)).take n), ty := .lines } }
  | .p => { s with buf := fixNav (pasteBuf b (getData s.ring) .viAfter n) }
  | .P => { s with buf := fixNav (pasteBuf b (getData s.ring) .viBefore n) }
  | .regP c before =>
    if isRegName c then
      match regGet s.regs c with
      | some d => { s with buf := fixNav (pasteBuf b d (if before then .viBefore else .viAfter) n) }
      | none => { s with buf := fixNav b }
    else { s with buf := fixNav b }
  | .goto k => { s with buf := setCursor b k }
  | .vis ty a c act reg =>
    let b1 := setCursor b a
    let b2 := setCursor b1 c
    match act with
    | .x =>
      let r := cutSelection b.text b2.cur b1.cur ty true
      { s with buf := fixNav r.1, ring := setData max s.ring r.2 }
    | .y =>
      let r := textObjectCut b2 b1.cur ty
      match reg with
      | none => { s with buf := fixNav b2, ring := if storable r.2 then setData max s.ring r.2 else s.ring }
      | some c =>
        { s with buf := fixNav b2
                 regs := if isRegName c ∧ storable r.2 then regSet s.regs c r.2 else s.regs }
    | .d =>
      let r := textObjectCut b2 b1.cur ty
      match reg with
      | none => { s with buf := fixNav r.1, ring := if storable r.2 then setData max s.ring r.2 else s.ring }
      | some c =>
        -- after proposed_fixes/C08-unknown-register-delete.diff (probed: `Gen.C09.unknownRegDeleteFixed`)
        -- a delete with a register name outside `vi_register_names` does nothing
        if Gen.C09.unknownRegDeleteFixed = true ∧ isRegName c = false then { s with buf := fixNav b2 }
        else
        { s with buf := fixNav r.1
                 regs := if storable r.2 ∧ isRegName c then regSet s.regs c r.2 else s.regs }

def vrun (max : Nat) (s : VSt) (ops : List (Option Nat × VCmd)) : VSt :=
  ops.foldl (fun s op => vstep max s op.1 op.2) s

end Ptk.C09
