/-
  C10 — a tokenizer for the terminal output stream (ECMA-48 control functions): splits the
  stream into printable runs and control tokens and returns the control tokens.  It mirrors
  the oracle's Python `tokenize` (correspondence-checked on real output streams), and is what
  "control sequence in the output stream" means in the theorems.
-/
import Ptk.Model.C10
namespace Ptk.C10
open Ptk.Py

inductive TS
  | ground
  | esc        -- after ESC
  | escInter   -- ESC + intermediates 0x20–0x2F
  | csiParam   -- ESC [ / 0x9B + parameter bytes 0x30–0x3F
  | csiInter   -- ... + intermediate bytes 0x20–0x2F
  | str        -- OSC / DCS / SOS / PM / APC body
  | strEsc     -- ESC inside a string body
deriving DecidableEq, Repr

structure TK where
  st : TS
  /-- characters of the token in progress, newest first -/
  cur : CText
  /-- completed control tokens, newest first -/
  out : List CText
deriving DecidableEq, Repr

def isParam (c : CP) : Bool := 0x30 ≤ c && c ≤ 0x3f
def isInter (c : CP) : Bool := 0x20 ≤ c && c ≤ 0x2f
def isFinal (c : CP) : Bool := 0x40 ≤ c && c ≤ 0x7e
/-- `[` -/
def LBRACK : CP := 0x5b
/-- `\` -/
def BSLASH : CP := 0x5c
/-- OSC `]`, DCS `P`, SOS `X`, PM `^`, APC `_` -/
def isStrIntro (c : CP) : Bool := c = 0x5d || c = 0x50 || c = 0x58 || c = 0x5e || c = 0x5f
def CSI8 : CP := 0x9b
def ST8 : CP := 0x9c
def BEL : CP := 7

/-- a character seen in the ground state -/
def groundStep (out : List CText) (c : CP) : TK :=
  if c = ESC then ⟨.esc, [c], out⟩
  else if c = CSI8 then ⟨.csiParam, [c], out⟩
  else if isControl c then ⟨.ground, [], [c] :: out⟩
  else ⟨.ground, [], out⟩

def finishTok (cur : CText) (out : List CText) : List CText := cur.reverse :: out

def tkStep (k : TK) (c : CP) : TK :=
  match k.st with
  | .ground => groundStep k.out c
  | .esc =>
    if c = LBRACK then ⟨.csiParam, c :: k.cur, k.out⟩
    else if isStrIntro c then ⟨.str, c :: k.cur, k.out⟩
    else if isInter c then ⟨.escInter, c :: k.cur, k.out⟩
    else ⟨.ground, [], finishTok (c :: k.cur) k.out⟩
  | .escInter =>
    if isInter c then ⟨.escInter, c :: k.cur, k.out⟩
    else ⟨.ground, [], finishTok (c :: k.cur) k.out⟩
  | .csiParam =>
    if isParam c then ⟨.csiParam, c :: k.cur, k.out⟩
    else if isInter c then ⟨.csiInter, c :: k.cur, k.out⟩
    else if isFinal c then ⟨.ground, [], finishTok (c :: k.cur) k.out⟩
    else groundStep (finishTok k.cur k.out) c
  | .csiInter =>
    if isInter c then ⟨.csiInter, c :: k.cur, k.out⟩
    else if isFinal c then ⟨.ground, [], finishTok (c :: k.cur) k.out⟩
    else groundStep (finishTok k.cur k.out) c
  | .str =>
    if c = BEL || c = ST8 then ⟨.ground, [], finishTok (c :: k.cur) k.out⟩
    else if c = ESC then ⟨.strEsc, c :: k.cur, k.out⟩
    else ⟨.str, c :: k.cur, k.out⟩
  | .strEsc =>
    if c = BSLASH then ⟨.ground, [], finishTok (c :: k.cur) k.out⟩
    else if c = BEL || c = ST8 then ⟨.ground, [], finishTok (c :: k.cur) k.out⟩
    else if c = ESC then ⟨.strEsc, c :: k.cur, k.out⟩
    else ⟨.str, c :: k.cur, k.out⟩

def tkRun (k : TK) (t : CText) : TK := t.foldl tkStep k

def tk0 : TK := ⟨.ground, [], []⟩

/-- the control tokens of a stream, in order (an unterminated sequence at the end counts) -/
def ctrlTokens (t : CText) : List CText :=
  let k := tkRun tk0 t
  (if k.st = .ground then k.out else finishTok k.cur k.out).reverse

/-- `t` consists of whole control tokens and printable text: the tokenizer is back in the ground
    state after it, so nothing that follows can be absorbed into (or complete) a sequence of `t` -/
def complete (t : CText) : Bool := (tkRun tk0 t).st == .ground

end Ptk.C10
