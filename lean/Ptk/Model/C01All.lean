/-
  C01 — the complete operation alphabet of the check (Buffer edit API + readline named commands +
  reshape_text), the buffer with its history working lines (`_working_lines`, `working_index`,
  `go_to_history`, `history_backward/forward`, `reset`) and the two caches behind `Buffer.document`:

    * `Buffer._document_cache`  = `FastDictCache(Document, size=10)` keyed on
      (text, cursor_position, selection_state), modelled as state (`DCache`);
    * `document._text_to_document_cache` : text -> `_DocumentCache(lines, line_indexes)`, a weak
      dictionary whose values are shared between all Documents of equal text, modelled as a heap of
      cells + the dictionary + the live Documents holding a cell (`CState`).
-/
import Ptk.Model.C01Cmd
import Ptk.Model.C01Reshape
namespace Ptk.C01
open Ptk.Py

/-- runtime tables and regenerated constants the operations depend on -/
structure Env where
  isSpace : Char → Bool            -- str.isspace
  reSpace : Char → Bool            -- regex \s
  isBreak : Char → Bool            -- str.splitlines break characters
  f : Text → Text                  -- user callback of transform_* / case function of M-u M-l M-c
  hsBefore : List Char             -- delete-horizontal-space strip sets
  hsAfter : List Char
  commentPrefix : Text
  commentArg : Int
  killWordNegFixed : Bool
  reshapeDefaultWidth : Nat

/-- every operation of the check: a Buffer method (`base`) or a named command / function -/
inductive Op2
  | base (o : Op)
  | killWord (arg : Int)
  | rubout (arg : Int) (WORD : Bool)
  | killLine (arg : Int)
  | lineDiscard
  | delHSpace
  | quotedInsert (data : Text)
  | insertComment (arg : Int)
  | reshape (fromRow toRow : Int) (textWidth : Nat)
  | roText (t : Text)                              -- `text = t` on a READ-ONLY buffer
  | roSetDoc (bypass : Bool) (t : Text) (c : Int)  -- `set_document(Document(t, c), bypass)` on a read-only buffer

def step2 (e : Env) (b : Buf) : Op2 → Buf × Text
  | .base o => step e.isSpace e.isBreak e.f b o
  | .killWord a => killWord e.killWordNegFixed e.reSpace b a
  | .rubout a w => rubout e.reSpace b a w
  | .killLine a => killLine b a
  | .lineDiscard => unixLineDiscard b
  | .delHSpace => deleteHorizontalSpace e.hsBefore e.hsAfter b
  | .quotedInsert d => (quotedInsert b d, [])
  | .insertComment a => (insertComment e.isBreak e.commentPrefix e.commentArg b a, [])
  | .reshape x y w => (reshapeText e.isBreak e.reSpace e.isSpace e.reshapeDefaultWidth b x y w, [])
  | .roText t => let r := setTextRO true b t; (r.1, if r.2 then ['R'] else [])
  | .roSetDoc bp t c => let r := setDocumentRO true bp b t c; (r.1, if r.2 then ['R'] else [])

def run2 (e : Env) (b : Buf) (ops : List Op2) : Buf :=
  ops.foldl (fun b op => (step2 e b op).1) b

/-! ### `Buffer._document_cache` (FastDictCache) as state -/

/-- a cached `Document`: what it says about itself -/
structure Doc where
  text : Text
  cur : Nat
deriving Repr, DecidableEq

/-- cache key: (text, cursor_position) (selection_state is `None` throughout this model) -/
abbrev DKey := Text × Nat

/-- `Document(*key)` -/
def mkDoc (k : DKey) : Doc := { text := k.1, cur := k.2 }

/-- dict + `_keys` deque of a FastDictCache, oldest first (they always hold the same keys) -/
abbrev DCache := List (DKey × Doc)

def dlookup (c : DCache) (k : DKey) : Option Doc := (List.find? (fun p => p.1 == k) c).map (·.2)

/-- `cache[key]`: a hit returns the stored object; `__missing__` first drops the oldest key when
    `len(self) > size`, then stores `get_value(*key)` -/
def dget (size : Nat) (c : DCache) (k : DKey) : DCache × Doc :=
  match dlookup c k with
  | some d => (c, d)
  | none =>
    let c1 := if c.length > size then c.drop 1 else c
    (c1 ++ [(k, mkDoc k)], mkDoc k)

/-! ### the buffer with working lines -/

structure HBuf where
  work : List Text       -- `_working_lines`
  idx : Nat              -- `working_index`
  cur : Nat              -- `cursor_position`
  dcache : DCache        -- `_document_cache`
deriving Repr

/-- `Buffer.text` (`none` = IndexError) -/
def HBuf.text? (h : HBuf) : Option Text := h.work[h.idx]?
def HBuf.text (h : HBuf) : Text := h.work[h.idx]?.getD []

/-- the (text, cursor) pair the edit API works on -/
def HBuf.buf (h : HBuf) : Buf := { text := h.text, cur := h.cur }

/-- `Buffer.document` getter: `self._document_cache[self.text, self.cursor_position, None]` -/
def HBuf.document (size : Nat) (h : HBuf) : HBuf × Doc :=
  let r := dget size h.dcache (h.text, h.cur)
  ({ h with dcache := r.1 }, r.2)

/-- an edit of the current (text, cursor): `_set_text` stores into `_working_lines[working_index]` -/
def HBuf.edit (h : HBuf) (b : Buf) : HBuf :=
  { h with work := h.work.set h.idx b.text, cur := b.cur }

/-- `working_index = value`: on a change the cursor is reset to 0 -/
def HBuf.setIndex (h : HBuf) (v : Nat) : HBuf :=
  if h.idx ≠ v then { h with idx := v, cur := 0 } else h

/-- `Buffer.cursor_position = v` -/
def HBuf.setCur (h : HBuf) (v : Int) : HBuf := { h with cur := min v.toNat h.text.length }

/-- `Buffer.go_to_history(index)` -/
def HBuf.goToHistory (h : HBuf) (i : Nat) : HBuf :=
  if i < h.work.length then
    let h1 := h.setIndex i
    h1.setCur h1.text.length
  else h

/-- the loop of `history_backward`: `for i in range(working_index - 1, -1, -1)` with every entry
    matching (no history search): returns the final index and count -/
def backLoop : Nat → Nat → Int → Nat × Int
  | 0, idx, count => (idx, count)                 -- range exhausted
  | i + 1, _, count =>                            -- visit entry i
    let count := count - 1
    if count = 0 then (i, count) else backLoop i i count

/-- `Buffer.history_backward(count)` (enable_history_search off: every entry matches) -/
def HBuf.historyBackward (h : HBuf) (count : Int) : HBuf :=
  if h.idx = 0 then h                              -- empty range: found_something = False
  else
    let r := backLoop h.idx h.idx count
    let h1 := h.setIndex r.1
    h1.setCur h1.text.length

/-- the loop of `history_forward`: `for i in range(working_index + 1, len(working_lines))`;
    `fuel` = number of entries left to visit -/
def fwdLoop : Nat → Nat → Int → Nat
  | 0, idx, _ => idx
  | fuel + 1, idx, count =>
    let count := count - 1
    if count = 0 then idx + 1 else fwdLoop fuel (idx + 1) count

/-- `Buffer.history_forward(count)`; the cursor goes to the end of the first line -/
def HBuf.historyForward (h : HBuf) (count : Int) : HBuf :=
  if h.idx + 1 < h.work.length then
    let i := fwdLoop (h.work.length - (h.idx + 1)) h.idx count
    let h1 := h.setIndex i
    let h2 := h1.setCur 0
    h2.setCur ((h2.cur : Int) + (lineAfter h2.buf).length)
  else h

/-- `Buffer.reset(document)`: one working line, index 0 (the document cache object is kept) -/
def HBuf.reset (h : HBuf) (t : Text) (c : Nat) : HBuf :=
  { h with work := [t], idx := 0, cur := c }

/-- operations on the buffer with history -/
inductive HOp
  | edit (o : Op2)
  | goTo (i : Nat)
  | back (count : Int)
  | fwd (count : Int)
  | reset (t : Text) (c : Nat)
  | getDocument

def hstep (e : Env) (size : Nat) (h : HBuf) : HOp → HBuf
  | .edit o => h.edit (step2 e h.buf o).1
  | .goTo i => h.goToHistory i
  | .back n => h.historyBackward n
  | .fwd n => h.historyForward n
  | .reset t c => h.reset t (min c t.length)
  | .getDocument => (h.document size).1

def hrun (e : Env) (size : Nat) (h : HBuf) (ops : List HOp) : HBuf :=
  ops.foldl (hstep e size) h

/-! ### `_text_to_document_cache`: line tables shared between Documents of equal text -/

/-- `Document._line_start_indexes` computed from the lines: cumulative `len(line) + 1`, last dropped -/
def lineStartsGo : List Text → Nat → List Nat
  | [], _ => []
  | l :: ls, pos => pos :: lineStartsGo ls (pos + l.length + 1)

def lineStarts (lines : List Text) : List Nat := lineStartsGo lines 0

/-- a `_DocumentCache` object; `owner` is ghost state: the text it was created for -/
structure Cell where
  owner : Text
  lines : Option (List Text)
  idx : Option (List Nat)
deriving Repr, DecidableEq

/-- a live `Document`: its text, cursor and the address of its `_cache` object -/
structure DocRef where
  text : Text
  cur : Nat
  addr : Nat
deriving Repr, DecidableEq

structure CState where
  heap : List Cell                 -- every `_DocumentCache` ever allocated (address = index)
  tmap : List (Text × Nat)         -- `_text_to_document_cache`: text -> address
  docs : List DocRef               -- the live Documents
deriving Repr

def tlookup (m : List (Text × Nat)) (t : Text) : Option Nat := (m.find? (·.1 == t)).map (·.2)

/-- `Document.__init__`: `self._cache = _text_to_document_cache[text]`, or a new `_DocumentCache()`
    that is stored under `text` -/
def CState.newDoc (s : CState) (t : Text) (c : Nat) : CState :=
  match tlookup s.tmap t with
  | some a => { s with docs := s.docs ++ [{ text := t, cur := c, addr := a }] }
  | none =>
    { heap := s.heap ++ [{ owner := t, lines := none, idx := none }],
      tmap := (t, s.heap.length) :: s.tmap,
      docs := s.docs ++ [{ text := t, cur := c, addr := s.heap.length }] }

/-- `Document.lines` read through the live document number `i`: fills `self._cache.lines` from
    THIS document's text when empty; returns the state and the list read -/
def CState.getLines (s : CState) (i : Nat) : CState × List Text :=
  match s.docs[i]? with
  | none => (s, [])
  | some d =>
    match s.heap[d.addr]? with
    | none => (s, [])
    | some cell =>
      match cell.lines with
      | some ls => (s, ls)
      | none =>
        let ls := splitOn '\n' d.text
        ({ s with heap := s.heap.set d.addr { cell with lines := some ls } }, ls)

/-- `Document._line_start_indexes` read through live document `i` (reads `.lines` first) -/
def CState.getIndexes (s : CState) (i : Nat) : CState × List Nat :=
  let r := s.getLines i
  let s1 := r.1
  match s1.docs[i]? with
  | none => (s1, [])
  | some d =>
    match s1.heap[d.addr]? with
    | none => (s1, [])
    | some cell =>
      match cell.idx with
      | some ix => (s1, ix)
      | none =>
        let ix := lineStarts r.2
        ({ s1 with heap := s1.heap.set d.addr { cell with idx := some ix } }, ix)

/-- the weak dictionary may lose any entries at any time (`keep` = the ones that survive) -/
def CState.gc (s : CState) (keep : Text → Bool) : CState :=
  { s with tmap := s.tmap.filter fun p => keep p.1 }

/-- document `i` dies; CPython then drops exactly the dictionary entries whose cell no live
    document holds any more -/
def CState.dropDoc (s : CState) (i : Nat) : CState :=
  let docs := s.docs.eraseIdx i
  { s with docs := docs, tmap := s.tmap.filter fun p => docs.any fun d => d.addr == p.2 }

inductive COp
  | new (t : Text) (c : Nat)
  | lines (i : Nat)
  | indexes (i : Nat)
  | gc (keep : Text → Bool)
  | drop (i : Nat)

def cstep (s : CState) : COp → CState
  | .new t c => s.newDoc t c
  | .lines i => (s.getLines i).1
  | .indexes i => (s.getIndexes i).1
  | .gc k => s.gc k
  | .drop i => s.dropDoc i

def crun (s : CState) (ops : List COp) : CState := ops.foldl cstep s

end Ptk.C01
