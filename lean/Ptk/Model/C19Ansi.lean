/-
  C19 — model of the SGR decoder used as the inverse of the encoder:
  src/prompt_toolkit/formatted_text/ansi.py `ANSI._parse_corot`,
  `ANSI._select_graphic_rendition`, `ANSI._create_style_string`.
  (Own model; independent of the C18 files.)
-/
import Ptk.Model.C19Color
namespace Ptk.C19
open Ptk.Py

/-- the style attributes of an `ANSI` instance -/
structure Sgr where
  color : Option Text := none
  bgcolor : Option Text := none
  bold : Bool := false
  underline : Bool := false
  strike : Bool := false
  italic : Bool := false
  blink : Bool := false
  reverse : Bool := false
  hidden : Bool := false
deriving DecidableEq, Repr

def hexDigitChar (d : Nat) : Char := if d < 10 then Char.ofNat (48 + d) else Char.ofNat (87 + d)

def toHexFuel : Nat → Nat → Text
  | 0, n => [hexDigitChar n]
  | f + 1, n => if n < 16 then [hexDigitChar n] else toHexFuel f (n / 16) ++ [hexDigitChar (n % 16)]

/-- `f"{n:02x}"` -/
def hex02 (n : Nat) : Text :=
  let t := toHexFuel n n
  if t.length < 2 then '0' :: t else t

/-- `ANSI._select_graphic_rendition`, the `while attrs: attr = attrs.pop()` loop over the
    reversed list, i.e. consuming the parameters from the front. -/
def sgrLoop (T : Tables) : Sgr → List Nat → Sgr
  | st, [] => st
  | st, attr :: rest =>
    match lookup attr T.decFg with
    | some nm => sgrLoop T { st with color := some nm } rest
    | none =>
    match lookup attr T.decBg with
    | some nm => sgrLoop T { st with bgcolor := some nm } rest
    | none =>
    if attr == 1 then sgrLoop T { st with bold := true } rest
    else if attr == 3 then sgrLoop T { st with italic := true } rest
    else if attr == 4 then sgrLoop T { st with underline := true } rest
    else if attr == 5 then sgrLoop T { st with blink := true } rest
    else if attr == 6 then sgrLoop T { st with blink := true } rest
    else if attr == 7 then sgrLoop T { st with reverse := true } rest
    else if attr == 8 then sgrLoop T { st with hidden := true } rest
    else if attr == 9 then sgrLoop T { st with strike := true } rest
    else if attr == 22 then sgrLoop T { st with bold := false } rest
    else if attr == 23 then sgrLoop T { st with italic := false } rest
    else if attr == 24 then sgrLoop T { st with underline := false } rest
    else if attr == 25 then sgrLoop T { st with blink := false } rest
    else if attr == 27 then sgrLoop T { st with reverse := false } rest
    else if attr == 28 then sgrLoop T { st with hidden := false } rest
    else if attr == 29 then sgrLoop T { st with strike := false } rest
    else if attr == 0 then sgrLoop T {} rest
    else if (attr == 38 || attr == 48) && rest.length > 1 then
      match rest with
      | [] => st    -- unreachable
      | n :: rest2 =>
        if n == 5 && rest2.length ≥ 1 then
          match rest2 with
          | [] => st  -- unreachable
          | m :: rest3 =>
            if attr == 38 then sgrLoop T { st with color := lookup m T.dec256 } rest3
            else sgrLoop T { st with bgcolor := lookup m T.dec256 } rest3
        else if n == 2 && rest2.length ≥ 3 then
          match rest2 with
          | r :: g :: b :: rest5 =>
            let cs := '#' :: (hex02 r ++ hex02 g ++ hex02 b)
            if attr == 38 then sgrLoop T { st with color := some cs } rest5
            else sgrLoop T { st with bgcolor := some cs } rest5
          | _ => st   -- unreachable
        else sgrLoop T st rest2
    else sgrLoop T st rest

/-- `_select_graphic_rendition(attrs)` -/
def selectGraphicRendition (T : Tables) (st : Sgr) (attrs : List Nat) : Sgr :=
  if attrs.isEmpty then sgrLoop T st [0] else sgrLoop T st attrs

def nonEmpty (o : Option Text) : Option Text :=
  match o with
  | some [] => none
  | x => x

/-- `_create_style_string()` -/
def styleString (s : Sgr) : Text :=
  let parts : List Text :=
    (match nonEmpty s.color with | some c => [c] | none => []) ++
    (match nonEmpty s.bgcolor with | some c => ["bg:".toList ++ c] | none => []) ++
    (if s.bold then ["bold".toList] else []) ++
    (if s.underline then ["underline".toList] else []) ++
    (if s.strike then ["strike".toList] else []) ++
    (if s.italic then ["italic".toList] else []) ++
    (if s.blink then ["blink".toList] else []) ++
    (if s.reverse then ["reverse".toList] else []) ++
    (if s.hidden then ["hidden".toList] else [])
  join [' '] parts

/-! ### the parser coroutine as a state machine -/

inductive Mode where
  | ground                                   -- waiting at the top `c = yield`
  | zw (escaped : Text)                      -- inside \001 ... \002
  | zwEnd                                    -- after \002: `c = yield; break`
  | esc                                      -- after ESC: `square_bracket = yield`
  | csi (current : Text) (params : List Nat) -- inside the CSI parameter loop
deriving Repr, DecidableEq

structure PSt where
  mode : Mode := .ground
  sgr : Sgr := {}
  style : Text := []
  out : List (Text × Text) := []
deriving Repr

def isAsciiDigit (c : Char) : Bool := 48 ≤ c.toNat && c.toNat ≤ 57

/-- `int(current or 0)` for ASCII digits -/
def parseDec (t : Text) : Nat := t.foldl (fun acc c => acc * 10 + (c.toNat - 48)) 0

/-- from "Check for CSI" on: ESC, 8-bit CSI or a literal character -/
def checkCsi (p : PSt) (c : Char) : PSt :=
  if c == Char.ofNat 27 then { p with mode := .esc }
  else if c == Char.ofNat 155 then { p with mode := .csi [] [] }
  else { p with mode := .ground, out := p.out ++ [(p.style, [c])] }

def pstep (T : Tables) (p : PSt) (c : Char) : PSt :=
  match p.mode with
  | .ground => if c == Char.ofNat 1 then { p with mode := .zw [] } else checkCsi p c
  | .zw e =>
    if c == Char.ofNat 2 then
      { p with mode := .zwEnd, out := p.out ++ [("[ZeroWidthEscape]".toList, e)] }
    else { p with mode := .zw (e ++ [c]) }
  | .zwEnd => checkCsi p c
  | .esc => if c == '[' then { p with mode := .csi [] [] } else { p with mode := .ground }
  | .csi cur params =>
    if isAsciiDigit c then { p with mode := .csi (cur ++ [c]) params }
    else
      let params' := params ++ [min (parseDec cur) 9999]
      if c == ';' then { p with mode := .csi [] params' }
      else if c == 'm' then
        let s := selectGraphicRendition T p.sgr params'
        { p with mode := .ground, sgr := s, style := styleString s }
      else if c == 'C' then
        { p with mode := .ground,
                 out := p.out ++ List.replicate (params'.headD 0) (p.style, [' ']) }
      else { p with mode := .ground }

/-- `ANSI(value).__pt_formatted_text__()` -/
def ansiFragments (T : Tables) (value : Text) : List (Text × Text) :=
  (value.foldl (pstep T) {}).out

end Ptk.C19
