/-
  C05 — the MODE SKELETON of the line editor: the projection of the editor state to the mode bits
  the key bindings are filtered on, and the way every key moves it.

  What is modelled, following the code as it is (src/prompt_toolkit):

  (a) filters/app.py — the mode filters, as functions of the skeleton: `vi_navigation_mode`,
      `vi_insert_mode`, `vi_insert_multiple_mode`, `vi_replace_mode`, `vi_replace_single_mode`,
      `vi_selection_mode`, `vi_waiting_for_text_object_mode`, `vi_digraph_mode`, `vi_recording_macro`,
      `emacs_insert_mode`, `has_selection`, `shift_selection_mode`, `has_arg`, `is_read_only`,
      `is_searching`, …; every other filter atom of the binding table (`is_multiline`,
      `has_text_before_cursor`, …) is DATA: its value is an input of the step function;
  (b) key_binding/key_processor.py — `KeyProcessor._process` (key buffer, exact / longer / eager
      matches, the retry loop, `_Flush`), `process_keys` (input queue), `_call_handler`
      (`arg = None`, handler, `_leave_vi_temp_navigation_mode`), over a TABLE of bindings
      (keys, filter, eager, handler) that is regenerated from the running code on every check
      (Ptk/Gen/C05Bindings.lean); key_binding/key_bindings.py `get_bindings_for_keys` /
      `get_bindings_starting_with_keys`;
  (c) for every handler of that table its CLASS: the writes it performs on the skeleton
      (key_binding/bindings/vi.py, emacs.py, basic.py, search.py, named_commands.py, search.py,
      shortcuts/prompt.py), in the order the code performs them; what a handler does that depends
      on the text (did the text change, did the edit raise EditReadOnlyBuffer, …) is an input
      (`HData`), theorems quantify over it.

  Core Lean only.
-/
import Ptk.Model.C05
namespace Ptk.C05
namespace Skel

/-! ### keys, filters, bindings -/

/-- A key: Unicode code point of a one-character key, or `namedBase + i` for the i-th named key of
    the generated key list (`Keys.Escape`, `Keys.ControlA`, `Keys.Any`, …). -/
abbrev Key := Nat

/-- A key press as it sits in the key buffer: the key and the class of its `data`
    (0: `data` is not a Vi register name, 1: `data in vi_register_names` and non-empty, 2: `data == ""`). -/
structure KeyP where
  key : Key
  dc : Nat
deriving DecidableEq, Repr

/-- `Filter` expression (filters/base.py: `_AndList`, `_OrList`, `_Invert`, `Condition`, `Always`, `Never`);
    `atom i` is the i-th `Condition` of the generated atom list. -/
inductive F
  | tt | ff
  | atom (i : Nat)
  | not (f : F)
  | and (a b : F)
  | or (a b : F)
deriving DecidableEq, Repr

/-- `Binding` (key_binding/key_bindings.py): keys, `filter`, `eager`, the handler (index in the
    generated handler list). -/
structure Binding where
  keys : List Key
  filter : F
  eager : F
  handler : Nat
deriving DecidableEq, Repr

/-- how a filter atom is evaluated -/
inductive Atom
  | env                       -- data: the value is an input
  | viMode | emacsMode
  | viNavigationMode | viInsertMode | viInsertMultipleMode | viReplaceMode | viReplaceSingleMode
  | viSelectionMode | viWaitingForTextObjectMode | viDigraphMode | viRecordingMacro
  | digraphSymbol1Given | inBlockSelection
  | emacsInsertMode | hasSelection | shiftSelectionMode
  | hasArg | isArgMinus
  | isReadOnly | isSearching | controlIsSearchable | hasFocusDefault | isReturnable
  | inQuotedInsert
  | bufferHasFocus            -- `layout.buffer_has_focus`: in a PromptSession the focus is always on a BufferControl
deriving DecidableEq, Repr

/-- `SelectionType` -/
inductive SelType
  | characters | lines | block
deriving DecidableEq, Repr

/-- `SelectionState` as far as filters look at it: `type` and `shift_mode` -/
structure SelS where
  typ : SelType
  shift : Bool
deriving DecidableEq, Repr

/-- The mode skeleton. -/
structure Sk where
  vi : Bool                   -- `app.editing_mode == EditingMode.VI` (no binding changes it)
  ro : Bool                   -- `read_only()` of the default buffer
  mode : InputMode            -- `vi_state.input_mode`
  tempNav : Bool              -- `vi_state.temporary_navigation_mode`
  op : Option Bool            -- `vi_state.operator_func`: none, or some (will it end with `input_mode = INSERT`:
                              --   a change operator `c` / `"xc` with an existing register x)
  opArg : Bool                -- `vi_state.operator_arg is not None`
  dgWait : Bool               -- `vi_state.waiting_for_digraph`
  dg1 : Bool                  -- `vi_state.digraph_symbol1 is not None`
  sel0 : Option SelS          -- `selection_state` of the default buffer
  sel1 : Option SelS          -- `selection_state` of the search buffer
  searching : Bool            -- `layout.is_searching` (the search buffer has the focus)
  quoted : Bool               -- `app.quoted_insert`
  recording : Option Bool     -- `vi_state.recording_register`: none / some (is the name non-empty)
  emacsRec : Bool             -- `emacs_state.is_recording`
  arg : Option Bool           -- `key_processor.arg`: none / some (is it exactly "-")
  keyBuf : List KeyP          -- `key_processor.key_buffer`
  queue : List KeyP           -- `key_processor.input_queue`
  done : Bool                 -- `app.is_done`
deriving DecidableEq, Repr

/-- the selection of `app.current_buffer` -/
def Sk.curSel (s : Sk) : Option SelS := if s.searching then s.sel1 else s.sel0
def Sk.setCurSel (s : Sk) (v : Option SelS) : Sk :=
  if s.searching then { s with sel1 := v } else { s with sel0 := v }
/-- `app.current_buffer.read_only()` (the search buffer is never read-only) -/
def Sk.curRo (s : Sk) : Bool := if s.searching then false else s.ro

/-! ### filters/app.py -/

/-- the common guard of the Vi input-mode filters -/
def viGuard (s : Sk) : Bool := !s.vi || s.op.isSome || s.dgWait || s.curSel.isSome

/-- `vi_navigation_mode` -/
def viNavigationMode (s : Sk) : Bool :=
  if viGuard s then false else s.mode == .navigation || s.tempNav || s.curRo

/-- `vi_insert_mode` / `vi_insert_multiple_mode` / `vi_replace_mode` / `vi_replace_single_mode` -/
def viInputMode (m : InputMode) (s : Sk) : Bool :=
  if viGuard s || s.tempNav || s.curRo then false else s.mode == m

/-- `emacs_insert_mode` -/
def emacsInsertMode (s : Sk) : Bool :=
  if s.vi || s.curSel.isSome || s.curRo then false else true

def evalAtomSk (s : Sk) : Atom → Bool
  | .env => false
  | .viMode => s.vi
  | .emacsMode => !s.vi
  | .viNavigationMode => viNavigationMode s
  | .viInsertMode => viInputMode .insert s
  | .viInsertMultipleMode => viInputMode .insertMultiple s
  | .viReplaceMode => viInputMode .replace s
  | .viReplaceSingleMode => viInputMode .replaceSingle s
  | .viSelectionMode => s.vi && s.curSel.isSome
  | .viWaitingForTextObjectMode => s.vi && s.op.isSome
  | .viDigraphMode => s.vi && s.dgWait
  | .viRecordingMacro => s.vi && s.recording.isSome
  | .digraphSymbol1Given => s.dg1
  | .inBlockSelection => match s.curSel with | some x => x.typ == .block | none => false
  | .emacsInsertMode => emacsInsertMode s
  | .hasSelection => s.curSel.isSome
  | .shiftSelectionMode => match s.curSel with | some x => x.shift | none => false
  | .hasArg => s.arg.isSome
  | .isArgMinus => s.arg == some true
  | .isReadOnly => s.curRo
  | .isSearching => s.searching
  | .controlIsSearchable => !s.searching
  | .hasFocusDefault => !s.searching
  | .isReturnable => !s.searching
  | .inQuotedInsert => s.quoted
  | .bufferHasFocus => true

/-- the environment of one dispatch: the value of every atom of the atom list (only the values of
    the `.env` atoms are used) -/
abbrev Env := List Bool

/-! ### handler classes -/

/-- What a handler writes to the skeleton. -/
inductive HClass
  | plain                           -- nothing (motions, edits: a text change clears the selection, see `HData.tc0`)
  | backToNav                       -- vi.py `_back_to_navigation`
  | setMode (m : InputMode)         -- `vi_state.input_mode = m`
  | editThenMode (m : InputMode)    -- a buffer edit (may raise EditReadOnlyBuffer), then `input_mode = m`
  | blockInsert                     -- `insert_in_block_selection`: INSERT_MULTIPLE, `exit_selection()`
  | startSel (t : SelType)          -- `start_selection(t)`
  | toggleSel (t : SelType)         -- `_visual2` / `_visual_line2` / `_visual_block2`
  | visualAutoWord                  -- `_visual_auto_word`
  | cutSel                          -- `cut_selection()` (+ more edits)
  | copySel                         -- `copy_selection()`
  | exitSel                         -- `exit_selection()`
  | opNav (change withReg : Bool)   -- `_operator_in_navigation` (is it `c`; does it name a register: `"xc`)
  | opSel (change withReg : Bool)   -- `_operator_in_selection`
  | applyOp                         -- `_apply_operator_to_text_object`
  | moveSel                         -- `_move_in_selection_mode`
  | digraphStart | digraph1 | digraph2
  | quickNormal                     -- `_quick_normal_mode` (C-o)
  | startMacro | stopMacro
  | argDigit | metaDash | dash
  | quotedInsert | quotedText
  | startSearch | stopSearch | acceptSearch
  | feedEnter                       -- basic.py `_newline2`: feeds Enter to the front of the input queue
  | emacsStartSel                   -- emacs.py `_start_selection` (C-space)
  | shiftStart | shiftExtend | shiftCancel
  | emacsRecStart | emacsRecEnd
  | feedsKeys                       -- macro execution / external editor: the keys it feeds arrive as further input
  | unknown                         -- a handler that is not in the hand-written table
deriving DecidableEq, Repr

/-- What one handler call did that the skeleton cannot know (observed on the real run; theorems
    quantify over it). -/
structure HData where
  tc0 : Bool            -- `_text_changed()` / `reset()` ran on the default buffer (clears its selection)
  tc1 : Bool            -- … on the search buffer
  roRaised : Bool       -- the handler raised EditReadOnlyBuffer
  anchorWritten : Bool  -- a text object with both ends wrote `selection_state.original_cursor_position`
  done : Bool           -- the handler finished the application (`app.exit(...)`)
  moved : Bool          -- the cursor of the current buffer differs from before the call
  atAnchor : Bool       -- the cursor after the call equals the selection anchor before the call
  textEmpty : Bool      -- the text of the current buffer was empty before the call
deriving DecidableEq, Repr

def HData.none : HData :=
  { tc0 := false, tc1 := false, roRaised := false, anchorWritten := false, done := false, moved := false,
    atAnchor := false, textEmpty := false }

/-- `ViState.input_mode = m` (vi_state.py; NAVIGATION clears operator and digraph state) -/
def setMode (s : Sk) (m : InputMode) : Sk :=
  if m = .navigation then
    { s with dgWait := false, dg1 := false, op := none, opArg := false, mode := m }
  else { s with mode := m }

/-- `search.stop_search()`: focus the searched buffer again, reset the search buffer, NAVIGATION -/
def stopSearch (s : Sk) : Sk :=
  if s.searching then setMode { s with searching := false, sel1 := none } .navigation else s

/-- the table a model run works with -/
structure Tbl where
  bindings : List Binding
  atoms : List Atom           -- how the i-th atom is evaluated
  classes : List HClass       -- the class of the i-th handler
  anyKey : Key                -- `Keys.Any`
  enterKey : Key              -- `Keys.ControlM`

/-- `event.key_sequence[1].data in vi_register_names` for the delete / change operators with a register
    (after fix 46db376 they do nothing for a register that does not exist) -/
def regOk (keys : List KeyP) : Bool :=
  match keys[1]? with
  | some k => k.dc != 0
  | none => true

/-- the effect of one handler call on the skeleton (`handler.call(event)`), `argOld` = `event._arg`,
    `keys` = `event.key_sequence` -/
def effect (c : HClass) (keys : List KeyP) (argOld : Option Bool) (hd : HData) (enter : Key) (s : Sk) : Sk :=
  match c with
  | .plain => s
  | .unknown => s
  | .feedsKeys => s
  | .backToNav =>
    -- (cursor left in INSERT / REPLACE); `vi_state.input_mode = NAVIGATION`; `if selection_state: exit_selection()`
    (setMode s .navigation).setCurSel none
  | .setMode m => setMode s m
  | .editThenMode m => if hd.roRaised then s else setMode s m
  | .blockInsert =>
    -- cursor, `multiple_cursor_positions`; `input_mode = INSERT_MULTIPLE`; `exit_selection()`
    (setMode s .insertMultiple).setCurSel none
  | .startSel t => s.setCurSel (some ⟨t, false⟩)
  | .toggleSel t =>
    match s.curSel with
    | some x => if x.typ != t then s.setCurSel (some { x with typ := t }) else s.setCurSel none
    | none => s
  | .visualAutoWord =>
    match s.curSel with
    | some x => if x.typ == .lines then s.setCurSel (some { x with typ := .characters }) else s
    | none => s
  | .cutSel => if hd.roRaised then s else s.setCurSel none
  | .copySel => s.setCurSel none
  | .exitSel => s.setCurSel none
  | .opNav ch wr => { s with op := some (ch && (!wr || regOk keys)), opArg := argOld.isSome }
  | .opSel ch wr =>
    match s.curSel with
    | some _ =>
      -- `operator_func(event, text_object)` (the change operator ends with `input_mode = INSERT`; `"xc` / `"xd`
      -- with a register name that does not exist return at once); `buff.selection_state = None`
      if !wr || regOk keys then
        (if hd.roRaised then s else (if ch then setMode s .insert else s).setCurSel none)
      else s.setCurSel none
    | none => s
  | .applyOp =>
    -- text object; `operator_func(event, text_obj)`; `operator_func = None; operator_arg = None`
    if hd.roRaised then s
    else
      let s1 := if s.op == some true then setMode s .insert else s
      { s1 with op := none, opArg := false }
  | .moveSel =>
    match s.curSel with
    | some x => if hd.anchorWritten then s.setCurSel (some { x with typ := .characters }) else s
    | none => s
  | .digraphStart => { s with dgWait := true }
  | .digraph1 => { s with dg1 := true }
  | .digraph2 => { s with dgWait := false, dg1 := false }
  | .quickNormal => { s with tempNav := true }
  | .startMacro =>
    -- `c = event.key_sequence[1].data; if c in vi_register_names: recording_register = c`
    match keys[1]? with
    | some k => if k.dc == 1 then { s with recording := some true }
                else if k.dc == 2 then { s with recording := some false } else s
    | none => s
  | .stopMacro =>
    -- `if vi_state.recording_register:` (a non-empty name) store and stop
    if s.recording == some true then { s with recording := none } else s
  | .argDigit => { s with arg := some false }
  | .metaDash => if argOld.isNone then { s with arg := some true } else s
  | .dash => { s with arg := some true }
  | .quotedInsert => { s with quoted := true }
  | .quotedText => if hd.roRaised then s else { s with quoted := false }
  | .startSearch =>
    -- `search.start_search`: only from a control that has a search buffer control
    if s.searching then s else setMode { s with searching := true } .insert
  | .stopSearch => stopSearch s
  | .acceptSearch => stopSearch s
  | .feedEnter => { s with queue := ⟨enter, 0⟩ :: s.queue }
  | .emacsStartSel => if hd.textEmpty then s else s.setCurSel (some ⟨.characters, false⟩)
  | .shiftStart =>
    -- `if buff.text: start_selection; enter_shift_mode; unshift_move; if cursor == original: exit_selection`
    if hd.textEmpty then s
    else if hd.moved then s.setCurSel (some ⟨.characters, true⟩) else s.setCurSel none
  | .shiftExtend =>
    -- `unshift_move; if selection_state is not None: if cursor == anchor: exit_selection()`
    match s.curSel with
    | some _ => if hd.atAnchor then s.setCurSel none else s
    | none => s
  | .shiftCancel =>
    -- `exit_selection(); key_processor.feed(event.key_sequence[0], first=True)`
    match keys[0]? with
    | some k => { s.setCurSel none with queue := k :: s.queue }
    | none => s.setCurSel none
  | .emacsRecStart => { s with emacsRec := true }
  | .emacsRecEnd => { s with emacsRec := false }

/-- the handlers of this class may change a text or a working index (`_text_changed()`), or call
    `reset()`; the others only move the cursor / write mode bits, so `HData.tc0/tc1` are ignored for them -/
def HClass.editsText : HClass → Bool
  | .plain | .editThenMode _ | .cutSel | .opSel _ _ | .applyOp | .digraph2 | .quotedText | .acceptSearch
  | .shiftStart | .shiftExtend | .feedsKeys | .unknown => true
  | _ => false

/-- the handlers of this class may finish the application (`app.exit`, `validate_and_handle`) -/
def HClass.mayFinish : HClass → Bool
  | .plain | .feedsKeys | .unknown => true
  | _ => false

/-- `_text_changed()` / `reset()` of a buffer clears its selection -/
def applyTc (hd : HData) (s : Sk) : Sk :=
  let s := if hd.tc0 then { s with sel0 := none } else s
  if hd.tc1 then { s with sel1 := none } else s

/-- `KeyProcessor._leave_vi_temp_navigation_mode` -/
def leaveTempNav (s : Sk) : Sk :=
  if s.vi then (if s.op.isNone && s.arg.isNone then { s with tempNav := false } else s) else s

/-- `KeyProcessor._call_handler(handler, key_sequence)` on the skeleton -/
def callHandler (c : HClass) (keys : List KeyP) (hd : HData) (enter : Key) (s : Sk) : Sk :=
  let wasTemp := s.tempNav
  let argOld := s.arg
  let s1 := { s with arg := none }
  let s2 := effect c keys argOld hd enter s1
  let s2 := if c.editsText then applyTc hd s2 else s2
  let s3 := { s2 with done := s2.done || (c.mayFinish && hd.done) }
  if wasTemp then leaveTempNav s3 else s3

/-! ### key_bindings.py / key_processor.py -/

def evalAtom (t : Tbl) (s : Sk) (env : Env) (i : Nat) : Bool :=
  match t.atoms[i]? with
  | some .env => env[i]?.getD false
  | some a => evalAtomSk s a
  | none => false

def evalF (t : Tbl) (s : Sk) (env : Env) : F → Bool
  | .tt => true
  | .ff => false
  | .atom i => evalAtom t s env i
  | .not f => !evalF t s env f
  | .and a b => evalF t s env a && evalF t s env b
  | .or a b => evalF t s env a || evalF t s env b

/-- `i != j and i != Keys.Any` fails: binding key `bk` accepts the typed key `k` -/
def keyOk (anyKey : Key) (bk k : Key) : Bool := bk == k || bk == anyKey

/-- `zip(b.keys, keys)` all accepted, for equal lengths / for a proper prefix -/
def keysMatch (anyKey : Key) : List Key → List Key → Bool
  | [], [] => true
  | bk :: bks, k :: ks => keyOk anyKey bk k && keysMatch anyKey bks ks
  | _, _ => false

def prefixMatch (anyKey : Key) : List Key → List Key → Bool
  | _ :: _, [] => true            -- `len(keys) < len(b.keys)`
  | bk :: bks, k :: ks => keyOk anyKey bk k && prefixMatch anyKey bks ks
  | [], _ => false

/-- `any_count` -/
def anyCount (anyKey : Key) (b : Binding) : Nat := (b.keys.filter (· == anyKey)).length

/-- stable insertion for `sorted(result, key=lambda item: -item[0])`: more `Any`s first -/
def insertSorted (anyKey : Key) (b : Binding) : List Binding → List Binding
  | [] => [b]
  | x :: xs => if anyCount anyKey x ≤ anyCount anyKey b then b :: x :: xs else x :: insertSorted anyKey b xs

def sortByAny (anyKey : Key) : List Binding → List Binding
  | [] => []
  | b :: bs => insertSorted anyKey b (sortByAny anyKey bs)

/-- `KeyProcessor._get_matches` -/
def getMatches (t : Tbl) (s : Sk) (env : Env) (keys : List Key) : List Binding :=
  (sortByAny t.anyKey (t.bindings.filter fun b => keysMatch t.anyKey b.keys keys)).filter
    fun b => evalF t s env b.filter

/-- `KeyProcessor._is_prefix_of_longer_match` -/
def isPrefixOfLonger (t : Tbl) (s : Sk) (env : Env) (keys : List Key) : Bool :=
  t.bindings.any fun b => prefixMatch t.anyKey b.keys keys && evalF t s env b.filter

/-- the input of one `feed` + `process_keys`: the key and the data observed around the handler
    calls it causes (`envs[i]` = the filter atoms after `i` handler calls, `hds[i]` = the data of the
    i-th call) -/
structure KeyIn where
  key : KeyP
  flush : Bool              -- the key is `_Flush`
  envs : List Env
  hds : List HData
deriving Repr

/-- a run in progress: the skeleton and the handlers called so far (indices) -/
structure Run where
  s : Sk
  calls : List Nat
deriving Repr

def KeyIn.envAt (ki : KeyIn) (n : Nat) : Env := (ki.envs[n]?).getD (ki.envs.getLast?.getD [])
def KeyIn.hdAt (ki : KeyIn) (n : Nat) : HData := (ki.hds[n]?).getD HData.none

def classOf (t : Tbl) (h : Nat) : HClass := (t.classes[h]?).getD .unknown

def callBinding (t : Tbl) (ki : KeyIn) (b : Binding) (keys : List KeyP) (r : Run) : Run :=
  { s := callHandler (classOf t b.handler) keys (ki.hdAt r.calls.length) t.enterKey r.s,
    calls := r.calls ++ [b.handler] }

/-- the `for i in range(len(buffer), 0, -1)` loop of `_process`: longest prefix first; `del buffer[:1]`
    when nothing matches -/
def retryShift (t : Tbl) (ki : KeyIn) (r : Run) (buf : List KeyP) : Nat → Run
  | 0 => { r with s := { r.s with keyBuf := buf.drop 1 } }
  | i + 1 =>
    let pre := buf.take (i + 1)
    match (getMatches t r.s (ki.envAt r.calls.length) (pre.map (·.key))).getLast? with
    | some b =>
      let r1 := callBinding t ki b pre r
      { r1 with s := { r1.s with keyBuf := buf.drop (i + 1) } }
    | none => retryShift t ki r buf i

/-- the matches `_process` works with: exact matches, whether a longer match is possible (never after
    `_Flush`), eager matches take priority and hide the longer ones -/
def selectMatches (t : Tbl) (s : Sk) (env : Env) (keys : List Key) (flush : Bool) : List Binding × Bool :=
  let ms := getMatches t s env keys
  let pre := if flush then false else isPrefixOfLonger t s env keys
  let eg := ms.filter fun b => evalF t s env b.eager
  if eg.isEmpty then (ms, pre) else (eg, false)

/-- `KeyProcessor._process` from the point where a key (or `_Flush`) was received, until it waits
    for the next key.  `fuel` bounds the retries (each one shortens the key buffer). -/
def processLoop (t : Tbl) (ki : KeyIn) : Nat → Run → Bool → Run
  | 0, r, _ => r
  | fuel + 1, r, flush =>
    let buf := r.s.keyBuf
    if buf.isEmpty then r
    else
      let sel := selectMatches t r.s (ki.envAt r.calls.length) (buf.map (·.key)) flush
      if sel.2 then r
      else
        match sel.1.getLast? with
        | some b =>
          let r1 := callBinding t ki b buf r
          { r1 with s := { r1.s with keyBuf := [] } }
        | none =>
          let r1 := retryShift t ki r buf buf.length
          -- `retry`: keys left when the handler finished the application become typeahead
          if !r1.s.keyBuf.isEmpty && r1.s.done then
            { r1 with s := { r1.s with queue := r1.s.keyBuf ++ r1.s.queue, keyBuf := [] } }
          else processLoop t ki fuel r1 false

def flushKey : Key := 0x300000

/-- one key taken from the input queue -/
def processKey (t : Tbl) (ki : KeyIn) (r : Run) (k : KeyP) : Run :=
  if k.key == flushKey then processLoop t ki (r.s.keyBuf.length + 1) r true
  else
    let r1 := { r with s := { r.s with keyBuf := r.s.keyBuf ++ [k] } }
    processLoop t ki (r1.s.keyBuf.length + 1) r1 false

/-- `KeyProcessor.process_keys`: until the input queue is empty or the application is done -/
def processQueue (t : Tbl) (ki : KeyIn) : Nat → Run → Run
  | 0, r => r
  | n + 1, r =>
    if r.s.done then r
    else
      match r.s.queue with
      | [] => r
      | k :: rest => processQueue t ki n (processKey t ki { r with s := { r.s with queue := rest } } k)

/-- the bound on the keys one `process_keys` handles (handlers feed at most one key each) -/
def queueFuel : Nat := 12

/-- `key_processor.feed(key); key_processor.process_keys()` -/
def feed (t : Tbl) (s : Sk) (ki : KeyIn) : Run :=
  let k := if ki.flush then ⟨flushKey, 0⟩ else ki.key
  processQueue t ki queueFuel { s := { s with queue := s.queue ++ [k] }, calls := [] }

/-- a fresh prompt: `vi_state.reset()` (INSERT), nothing pending -/
def Sk.init (vi ro : Bool) : Sk :=
  { vi := vi, ro := ro, mode := .insert, tempNav := false, op := none, opArg := false, dgWait := false,
    dg1 := false, sel0 := none, sel1 := none, searching := false, quoted := false, recording := none,
    emacsRec := false, arg := none, keyBuf := [], queue := [], done := false }

/-! ### the hand-written tables: how each filter atom is evaluated, what each handler writes

  The generated file lists the atom and handler names of the running code (sorted); `Props/C05Skel`
  proves that they are exactly the names below, in this order (a new / renamed handler breaks it). -/

def atomTable : List (String × Atom) := [
  ("app:buffer_has_focus", .bufferHasFocus),
  ("app:control_is_searchable", .controlIsSearchable),
  ("app:emacs_insert_mode", .emacsInsertMode),
  ("app:emacs_mode", .emacsMode),
  ("app:has_arg", .hasArg),
  ("app:has_focus.has_focus_filter[test=app:has_focus.test[value='DEFAULT_BUFFER']]", .hasFocusDefault),
  ("app:has_selection", .hasSelection),
  ("app:is_multiline", .env),
  ("app:is_read_only", .isReadOnly),
  ("app:is_searching", .isSearching),
  ("app:shift_selection_mode", .shiftSelectionMode),
  ("app:vi_digraph_mode", .viDigraphMode),
  ("app:vi_insert_mode", .viInsertMode),
  ("app:vi_insert_multiple_mode", .viInsertMultipleMode),
  ("app:vi_mode", .viMode),
  ("app:vi_navigation_mode", .viNavigationMode),
  ("app:vi_recording_macro", .viRecordingMacro),
  ("app:vi_replace_mode", .viReplaceMode),
  ("app:vi_replace_single_mode", .viReplaceSingleMode),
  ("app:vi_search_direction_reversed", .env),
  ("app:vi_selection_mode", .viSelectionMode),
  ("app:vi_waiting_for_text_object_mode", .viWaitingForTextObjectMode),
  ("application:Application.__init__.<lambda>", .env),
  ("auto_suggest:load_auto_suggest_bindings.suggestion_available", .env),
  ("basic:has_text_before_cursor", .env),
  ("basic:in_quoted_insert", .inQuotedInsert),
  ("emacs:is_arg", .isArgMinus),
  ("emacs:is_returnable", .isReturnable),
  ("prompt:PromptSession._create_prompt_bindings.ctrl_d_condition", .env),
  ("prompt:PromptSession._create_prompt_bindings.do_accept", .env),
  ("prompt:PromptSession._create_prompt_bindings.enable_suspend", .env),
  ("prompt:PromptSession._create_prompt_bindings.readline_complete_style", .env),
  ("prompt:PromptSession._dyncond.dynamic[attr_name='enable_open_in_editor']", .env),
  ("utils:suspend_to_background_supported", .env),
  ("vi:digraph_symbol_1_given", .digraphSymbol1Given),
  ("vi:in_block_selection", .inBlockSelection),
  ("vi:is_returnable", .isReturnable),
  ("vi:search_buffer_is_empty", .env),
  ("vi:tilde_operator", .env)]


/-- first id of the named keys (one-character keys are their code point) -/
def namedBase : Nat := 0x110000

end Skel
end Ptk.C05
