/-
  C04 (part 3) — model of `prompt_toolkit.key_binding.key_processor.KeyProcessor`
  (src/prompt_toolkit/key_binding/key_processor.py): the `_process` coroutine
  (`_get_matches`, `_is_prefix_of_longer_match`, eager / exact / retry logic),
  `_call_handler` (key_sequence / previous_key_sequence, EditReadOnlyBuffer → bell),
  `process_keys` (queue, `is_done` / CPR selection, before/after events, reset on exception),
  `feed`, `feed_multiple`, `reset`, `empty_queue`, `send_sigint`.

  The processor is generic in the world `σ` it runs in (`Iface σ`): the lookups of the
  key-binding object, the values of filters, what a handler does.  `World` instantiates
  it with the filter heap, the object table of part 2 and scripted handlers.

  Timeouts: the timer task of `_start_timeout` is not modelled; a timeout is the explicit
  `_Flush` key in the queue (that is exactly what the timer feeds).
  `_call_handler` is followed including the Readline argument (`arg` is moved into the event and
  cleared; a handler may set it again with `append_to_arg_count`), `is_repeat`
  (`handler == self._previous_handler`, identity of `Binding` objects) and macro recording
  (`record_in_macro()`, "recording before and after the handler").
  Not modelled: `save_before` / undo, the vi cursor fix-up, leaving vi temporary navigation mode.
-/
import Ptk.Model.C04KB
import Ptk.Model.C04Keys
namespace Ptk.C04

/-- a `KeyPress`: the `_Flush` marker object, or `KeyPress(key, data)` (`tag` stands for `data`) -/
inductive KP where
  | flush
  | key (k : Key) (tag : Nat)
deriving Repr, Inhabited, DecidableEq

def KP.isFlush : KP → Bool
  | .flush => true
  | _ => false

/-- `key_press.key == Keys.CPRResponse` (`_Flush.key` is `"?"`) -/
def KP.isCpr : KP → Bool
  | .key k _ => k == Key.cpr
  | .flush => false

/-- `tuple(k.key for k in key_presses)` (`_Flush` never enters the key buffer; its key is `"?"`,
    encoded as 63) -/
def keysOf (l : List KP) : List Key := l.map fun
  | .key k _ => k
  | .flush => 63

inductive Outcome where
  | ok
  | readonly     -- handler raised EditReadOnlyBuffer: swallowed, bell
  | raise        -- handler raised another exception
deriving Repr, Inhabited, DecidableEq

/-- the remaining fields of the `KeyPressEvent` a handler receives -/
structure EvX where
  arg : Arg := none        -- `event._arg`
  rep : Bool := false      -- `event.is_repeat`
deriving Repr, Inhabited, DecidableEq

/-- what the processor needs from the world around it -/
structure Iface (σ : Type) where
  getFor : σ → List Key → σ × List Binding        -- self._bindings.get_bindings_for_keys(keys)
  getStart : σ → List Key → σ × List Binding      -- self._bindings.get_bindings_starting_with_keys
  evalF : σ → F → Bool                            -- f()
  /-- `handler.call(event)`: world, input queue (handlers may `feed`), binding, key_sequence,
      previous_key_sequence, arg / is_repeat ↦ world, queue, outcome -/
  call : σ → List KP → Binding → List KP → List KP → EvX → σ × List KP × Outcome
  done : σ → Bool                                 -- app.is_done
  /-- the value this invocation leaves in `key_processor.arg` (`event.append_to_arg_count`);
      `none` = the handler does not touch it -/
  argOut : σ → Binding → List KP → EvX → Option (List Char) := fun _ _ _ _ => none
  recE : σ → Bool := fun _ => false               -- app.emacs_state.is_recording
  recV : σ → Bool := fun _ => false               -- bool(app.vi_state.recording_register)
  pushE : σ → List KP → σ := fun w _ => w         -- emacs_state.current_recording.extend(key_sequence)
  pushV : σ → List KP → σ := fun w _ => w         -- vi_state.current_recording += k.data, k in key_sequence

/-- what can be observed -/
inductive Obs where
  | pop (k : KP)                                 -- key taken from the input queue and sent to `_process`
  | before                                       -- before_key_press fired
  | after                                        -- after_key_press fired
  | call (hid : Nat) (seq prev : List KP)        -- handler invoked with event.key_sequence; returned
  | bell                                         -- EditReadOnlyBuffer swallowed
  | drop (k : KP)                                -- `del buffer[:1]` (key matched nothing)
  | requeue (ks : List KP)                       -- app is done: rest of the key buffer pushed back
                                                 -- to the front of the input queue (typeahead)
  | cpr (hid : Option Nat) (k : KP) (prev : List KP)   -- `_process_cpr_response`: handler called
                                                 -- directly with `[k]` (`none`: nothing bound)
  | cprRaise (hid : Nat) (k : KP) (prev : List KP)     -- … and its exception left process_keys
  | raise (hid : Nat) (seq prev : List KP)       -- handler invoked; its exception left process_keys
  | ev (arg : Arg) (rep : Bool)                  -- `event._arg` and `event.is_repeat` of the invocation
                                                 -- that follows in the log
  | recE (seq : List KP)                         -- key sequence appended to the emacs macro recording
  | recV (seq : List KP)                         -- … to the vi macro recording
deriving Repr, Inhabited, DecidableEq

structure PS (σ : Type) where
  w : σ
  buffer : List KP := []     -- key_buffer
  queue : List KP := []      -- input_queue
  prev : List KP := []       -- _previous_key_sequence
  arg : Arg := none          -- arg
  prevH : Option Nat := none -- _previous_handler (identity of the Binding object)
deriving Inhabited

variable {σ : Type}

/-- `_get_matches` -/
def getMatches (I : Iface σ) (w : σ) (buf : List KP) : σ × List Binding :=
  let r := I.getFor w (keysOf buf)
  (r.1, r.2.filter fun b => I.evalF r.1 b.filter)

/-- `_is_prefix_of_longer_match` (the set of filters is evaluated; filters are pure) -/
def isPrefixOfLonger (I : Iface σ) (w : σ) (buf : List KP) : σ × Bool :=
  let r := I.getStart w (keysOf buf)
  (r.1, r.2.any fun b => I.evalF r.1 b.filter)

/-- the end of `_call_handler`: `if handler.record_in_macro(): …` — the key sequence is appended to
    the emacs recording when emacs was recording before the handler and still is, and (then) to
    the vi recording when vi was recording before and still is -/
def recordMacro (I : Iface σ) (wasE wasV : Bool) (w : σ) (b : Binding) (seq : List KP) :
    σ × List Obs :=
  if I.evalF w b.rim then
    let doE := I.recE w && wasE
    let w1 := if doE then I.pushE w seq else w
    let doV := I.recV w1 && wasV
    let w2 := if doV then I.pushV w1 seq else w1
    (w2, (if doE then [Obs.recE seq] else []) ++ (if doV then [Obs.recV seq] else []))
  else (w, [])

/-- the event built by `_call_handler`: `arg = self.arg` (which is then cleared),
    `is_repeat = (handler == self._previous_handler)` -/
def eventOf (ps : PS σ) (b : Binding) : EvX := { arg := ps.arg, rep := ps.prevH == some b.bid }

/-- `_call_handler` (`save_before`, the vi cursor fix-up and leaving vi temporary navigation mode
    are not modelled) -/
def callHandler (I : Iface σ) (ps : PS σ) (b : Binding) (seq : List KP) : PS σ × List Obs × Bool :=
  let wasE := I.recE ps.w
  let wasV := I.recV ps.w
  let x := eventOf ps b
  let a := I.argOut ps.w b seq x
  let r := I.call ps.w ps.queue b seq ps.prev x
  match r.2.2 with
  | .ok =>
    let m := recordMacro I wasE wasV r.1 b seq
    ({ ps with w := m.1, queue := r.2.1, prev := seq, arg := a, prevH := some b.bid },
     [.ev x.arg x.rep, .call b.hid seq ps.prev] ++ m.2, false)
  | .readonly =>
    let m := recordMacro I wasE wasV r.1 b seq
    ({ ps with w := m.1, queue := r.2.1, prev := seq, arg := a, prevH := some b.bid },
     [.ev x.arg x.rep, .call b.hid seq ps.prev, .bell] ++ m.2, false)
  | .raise => ({ ps with w := r.1, queue := r.2.1, arg := a },
               [.ev x.arg x.rep, .raise b.hid seq ps.prev], true)

/-- `for i in range(len(buffer), 0, -1): matches = self._get_matches(buffer[:i]); if matches: …` -/
def scan (I : Iface σ) (buf : List KP) : Nat → σ → σ × Option (Nat × Binding)
  | 0, w => (w, none)
  | i + 1, w =>
    let r := getMatches I w (buf.take (i + 1))
    match r.2.getLast? with
    | some b => (r.1, some (i + 1, b))
    | none => scan I buf i r.1

/-- control after one pass through the body of `while True` -/
inductive Ctl where
  | yield_     -- back to `key = yield`
  | retry      -- `retry = True`: run the body again without a new key
  | dead       -- a handler raised: the generator is finished
deriving Repr, DecidableEq

/-- what one pass through the loop body decides to do -/
inductive Decision where
  | idle                                        -- empty buffer
  | wait                                        -- a longer active binding is still possible
  | fire (b : Binding) (n : Nat) (exact : Bool) -- call `b` with the first `n` buffered keys
  | dropOne                                     -- nothing matches: forget the first key
deriving Inhabited

/-- the body of the `while True` loop after the key intake (`if buffer: …`), first half:
    lookups and filter calls up to the point where a handler is called or a key is dropped -/
def decideOf (I : Iface σ) (ps : PS σ) (flush : Bool) : σ × Decision :=
  if ps.buffer.isEmpty then (ps.w, .idle)
  else
    let r1 := getMatches I ps.w ps.buffer
    let r2 := if flush then (r1.1, false) else isPrefixOfLonger I r1.1 ps.buffer
    let w := r2.1
    -- when eager matches were found, give priority to them and ignore all the longer matches
    let eager := r1.2.filter fun m => I.evalF w m.eager
    let ms := if eager.isEmpty then r1.2 else eager
    let isPref := if eager.isEmpty then r2.2 else false
    if isPref then (w, .wait)
    else
      match ms.getLast? with
      | some b => (w, .fire b ps.buffer.length true)     -- exact matches found: matches[-1]
      | none =>
        -- no match found: longest prefix first, else drop one key
        let s := scan I ps.buffer ps.buffer.length w
        match s.2 with
        | some (i, b) => (s.1, .fire b i false)
        | none => (s.1, .dropOne)

/-- second half: `_call_handler(...)`, `del buffer[:i]` / `del buffer[:1]`, `retry = True` -/
def exec (I : Iface σ) (ps : PS σ) : Decision → PS σ × List Obs × Ctl
  | .idle => (ps, [], .yield_)
  | .wait => (ps, [], .yield_)
  | .fire b n exact =>
    let c := callHandler I ps b (ps.buffer.take n)
    if c.2.2 then (c.1, c.2.1, .dead)
    else ({ c.1 with buffer := ps.buffer.drop n }, c.2.1, if exact then .yield_ else .retry)
  | .dropOne => ({ ps with buffer := ps.buffer.drop 1 }, (ps.buffer.take 1).map .drop, .retry)

/-- one pass through the loop body -/
def examine (I : Iface σ) (ps : PS σ) (flush : Bool) : PS σ × List Obs × Ctl :=
  let d := decideOf I ps flush
  exec I { ps with w := d.1 } d.2

/-- run the loop body until the coroutine yields again (or dies).  At the top of a retry
    iteration: `if buffer and get_app().is_done:` the keys left in the key buffer are pushed back
    to the front of the input queue (`extendleft(reversed(buffer))`), the buffer is cleared and
    the coroutine yields. -/
def runLoop (I : Iface σ) : Nat → PS σ → Bool → PS σ × List Obs × Bool
  | 0, ps, _ => (ps, [], false)
  | n + 1, ps, flush =>
    let r := examine I ps flush
    match r.2.2 with
    | .yield_ => (r.1, r.2.1, false)
    | .dead => (r.1, r.2.1, true)
    | .retry =>
      if !r.1.buffer.isEmpty && I.done r.1.w then
        ({ r.1 with queue := r.1.buffer ++ r.1.queue, buffer := [] },
         r.2.1 ++ [.requeue r.1.buffer], false)
      else
        let r' := runLoop I n r.1 false
        (r'.1, r.2.1 ++ r'.2.1, r'.2.2)

/-- `self._process_coroutine.send(key_press)`; the flag says that an exception came out -/
def send (I : Iface σ) (ps : PS σ) (kp : KP) : PS σ × List Obs × Bool :=
  match kp with
  | .flush => runLoop I (ps.buffer.length + 1) ps true
  | k => runLoop I (ps.buffer.length + 2) { ps with buffer := ps.buffer ++ [k] } false

/-- `not_empty()` -/
def notEmpty (I : Iface σ) (ps : PS σ) : Bool :=
  if I.done ps.w then ps.queue.any KP.isCpr else !ps.queue.isEmpty

/-- remove the first CPR response from the queue -/
def takeCpr : List KP → Option (KP × List KP)
  | [] => none
  | k :: rest =>
    if k.isCpr then some (k, rest)
    else match takeCpr rest with
      | some (c, rest') => some (c, k :: rest')
      | none => none

/-- `get_next()` -/
def getNext (I : Iface σ) (ps : PS σ) : Option (KP × List KP) :=
  if I.done ps.w then takeCpr ps.queue
  else match ps.queue with
    | k :: rest => some (k, rest)
    | [] => none

/-- `reset()` + `empty_queue()` in the `except` clause of process_keys (also clears `arg` and
    `_previous_handler`) -/
def resetPS (ps : PS σ) : PS σ := { w := ps.w, buffer := [], queue := [], prev := [] }

/-- `_process_cpr_response(key_press)`: the handler of the last active exact match for the single
    key is called directly (`Binding.call`, not `_call_handler`): the key buffer, the previous key
    sequence and the EditReadOnlyBuffer handling are bypassed — any exception leaves process_keys. -/
def cprResponse (I : Iface σ) (ps : PS σ) (kp : KP) : PS σ × List Obs × Bool :=
  let r := getMatches I ps.w [kp]
  match r.2.getLast? with
  | some b =>
    -- KeyPressEvent(arg=None, …, is_repeat=False); `self.arg` is not cleared on this path
    let a := (I.argOut r.1 b [kp] {}).orElse fun _ => ps.arg
    let c := I.call r.1 ps.queue b [kp] ps.prev {}
    match c.2.2 with
    | .ok => ({ ps with w := c.1, queue := c.2.1, arg := a }, [.cpr (some b.hid) kp ps.prev], false)
    | _ => ({ ps with w := c.1, queue := c.2.1, arg := a }, [.cprRaise b.hid kp ps.prev], true)
  | none => ({ ps with w := r.1 }, [.cpr none kp ps.prev], false)

/-- `if is_cpr: self._process_cpr_response(key_press) else: self._process_coroutine.send(key_press)` -/
def dispatchKey (I : Iface σ) (ps : PS σ) (kp : KP) : PS σ × List Obs × Bool :=
  if kp.isCpr then cprResponse I ps kp else send I ps kp

/-- one iteration of `while not_empty():` in `process_keys`; `none` when the loop exits -/
def pkStep (I : Iface σ) (ps : PS σ) : Option (PS σ × List Obs × Bool) :=
  if !notEmpty I ps then none
  else
    match getNext I ps with
    | none => none
    | some (kp, q) =>
      let plain := !kp.isFlush && !kp.isCpr
      let r := dispatchKey I { ps with queue := q } kp
      if r.2.2 then
        some (resetPS r.1, Obs.pop kp :: (if plain then [Obs.before] else []) ++ r.2.1, true)
      else
        some (r.1, Obs.pop kp :: (if plain then [Obs.before] else []) ++ r.2.1
                     ++ (if plain then [Obs.after] else []), false)

/-- `process_keys()`; `fuel` bounds the number of loop iterations (handlers may feed keys
    forever, then the real loop does not terminate either) -/
def processKeys (I : Iface σ) : Nat → PS σ → PS σ × List Obs × Bool
  | 0, ps => (ps, [], false)
  | n + 1, ps =>
    match pkStep I ps with
    | none => (ps, [], false)
    | some (ps', obs, true) => (ps', obs, true)
    | some (ps', obs, false) =>
      let r := processKeys I n ps'
      (r.1, obs ++ r.2.1, r.2.2)

/-- `feed(key_press, first)` -/
def feed (ps : PS σ) (kp : KP) (first : Bool) : PS σ :=
  if first then { ps with queue := kp :: ps.queue } else { ps with queue := ps.queue ++ [kp] }

/-- `feed_multiple(key_presses, first)` -/
def feedMultiple (q : List KP) (kps : List KP) (first : Bool) : List KP :=
  if first then kps ++ q else q ++ kps

/-- `empty_queue()`: returns the unprocessed non-CPR keys -/
def emptyQueue (ps : PS σ) : PS σ × List KP :=
  ({ ps with queue := [] }, ps.queue.filter fun k => !k.isCpr)

/-! ### a handler that always feeds its own key again (non-termination witness) -/

/-- one binding `a` → handler 0, which does `event.key_processor.feed(KeyPress('a'))` -/
def loopBinding : Binding :=
  { keys := [2], hid := 0, filter := .always, eager := .never, isGlobal := .never, bid := 1 }

def loopI : Iface Unit where
  getFor := fun w ks => (w, matchFor [loopBinding] ks)
  getStart := fun w ks => (w, matchStarting [loopBinding] ks)
  evalF := fun _ f => f.eval fun _ => false
  call := fun w q _ _ _ _ => (w, q ++ [.key 2 0], .ok)
  done := fun _ => false

/-- the processor after the first `a` has been handled: `a` is queued again -/
def loopPS : PS Unit :=
  { w := (), queue := [.key 2 0], prev := [.key 2 0], prevH := some 1 }

/-! ### the concrete world: filter heap + object table + scripted handlers -/

/-- what handlers do to the macro state (named commands `start-kbd-macro`, `end-kbd-macro`,
    `call-last-kbd-macro`; vi `q<reg>` / `q`) -/
inductive MacroOp where
  | start      -- emacs_state.start_macro(): current_recording = []
  | stop       -- emacs_state.end_macro(): macro = current_recording; current_recording = None
  | call       -- if macro: key_processor.feed_multiple(macro, first=True)
  | viStart    -- vi_state.recording_register = c; vi_state.current_recording = ""
  | viStop     -- if recording_register: recording_register = None; current_recording = ""
deriving Repr, Inhabited, DecidableEq

/-- what one invocation of a handler does, in this order -/
structure Eff where
  flips : List Nat := []                  -- toggle these condition variables
  ops : List ROp := []                    -- add / remove bindings, retarget dynamic wrappers
  feeds : List (List KP × Bool) := []     -- key_processor.feed_multiple(keys, first)
  macros : List MacroOp := []             -- start / end / call the keyboard macro
  exit : Bool := false                    -- makes app.is_done true
  argKey : Option Char := none            -- event.append_to_arg_count(c)
  outcome : Outcome := .ok
deriving Repr, Inhabited

structure World where
  t : W := {}
  done : Bool := false
  root : Nat := 0                         -- the KeyProcessor's `_bindings` object
  scripts : List (List Eff) := []         -- handler id ↦ effects of its 1st, 2nd, … invocation
  hcount : List Nat := []                 -- handler id ↦ number of invocations so far
  erec : Option (List KP) := none         -- app.emacs_state.current_recording
  lastMacro : Option (List KP) := some [] -- app.emacs_state.macro
  vreg : Bool := false                    -- app.vi_state.recording_register is set
  vrec : List KP := []                    -- app.vi_state.current_recording (the keys whose `data`
                                          -- were concatenated)
deriving Repr, Inhabited

def flipEnv (env : List Bool) (v : Nat) : List Bool :=
  if v < env.length then env.set v (!(env.getD v false))
  else env ++ List.replicate (v - env.length) false ++ [true]

def applyOps (w : W) (ops : List ROp) : W := ops.foldl (fun w op => (applyROp w op).1) w

def applyMacro (xq : World × List KP) : MacroOp → World × List KP
  | .start => ({ xq.1 with erec := some [] }, xq.2)
  | .stop => ({ xq.1 with lastMacro := xq.1.erec, erec := none }, xq.2)
  | .call =>
    match xq.1.lastMacro with
    | some (k :: ks) => (xq.1, feedMultiple xq.2 (k :: ks) true)
    | _ => xq
  | .viStart => ({ xq.1 with vreg := true, vrec := [] }, xq.2)
  | .viStop => if xq.1.vreg then ({ xq.1 with vreg := false, vrec := [] }, xq.2) else xq

def applyEff (x : World) (q : List KP) (e : Eff) : World × List KP :=
  let env := e.flips.foldl flipEnv x.t.env
  let t := applyOps { x.t with env := env } e.ops
  let q := e.feeds.foldl (fun q f => feedMultiple q f.1 f.2) q
  let r := e.macros.foldl applyMacro ({ x with t := t }, q)
  ({ r.1 with done := x.done || e.exit }, r.2)

/-- the script entry for the next invocation of handler `hid` -/
def scriptOf (x : World) (hid : Nat) : Option Eff :=
  (x.scripts.getD hid [])[x.hcount.getD hid 0]?

/-- `event.append_to_arg_count(c)` of a scripted handler: the new `key_processor.arg`
    (`none`: not called, or its `assert` failed) -/
def worldArgOut (x : World) (b : Binding) (_seq : List KP) (ev : EvX) : Option (List Char) :=
  match scriptOf x b.hid with
  | some e => match e.argKey with
    | some c => appendArg ev.arg c
    | none => none
  | none => none

def worldCall (x : World) (q : List KP) (b : Binding) (_seq _prev : List KP) (ev : EvX) :
    World × List KP × Outcome :=
  let n := x.hcount.getD b.hid 0
  let hc := if b.hid < x.hcount.length then x.hcount.set b.hid (n + 1)
            else x.hcount ++ List.replicate (b.hid - x.hcount.length) 0 ++ [1]
  let x := { x with hcount := hc }
  match (x.scripts.getD b.hid [])[n]? with
  | some e =>
    let r := applyEff x q e
    -- a failing `assert` in append_to_arg_count leaves the handler as an AssertionError
    let bad := match e.argKey with
      | some c => (appendArg ev.arg c).isNone
      | none => false
    (r.1, r.2, if bad then .raise else e.outcome)
  | none => (x, q, .ok)

def worldIface : Iface World where
  getFor := fun x keys => let r := x.t.fns.getFor x.t x.root keys; ({ x with t := r.1 }, r.2)
  getStart := fun x keys => let r := x.t.fns.getStart x.t x.root keys; ({ x with t := r.1 }, r.2)
  evalF := fun x f => f.eval (envFn x.t.env)
  call := worldCall
  done := fun x => x.done
  argOut := worldArgOut
  recE := fun x => x.erec.isSome
  recV := fun x => x.vreg
  pushE := fun x seq => { x with erec := x.erec.map (· ++ seq) }
  pushV := fun x seq => { x with vrec := x.vrec ++ seq }

end Ptk.C04
