/-
  C20 (third part) — `StdoutProxy.write` / `flush` below the lock: the body of a call is split
  into the steps that really touch shared state, so that threads can be interleaved *inside* the
  `with self._lock:` block, and the re-entrant lock is a variable of the model instead of an
  assumption ("a write is atomic") as in `Ptk.Model.C20`.

    call t c   thread `t` calls `write(d)` / `flush()` and reaches `with self._lock:`
    acq t      `self._lock.__enter__()` succeeds (no other thread holds the lock)
    rd t       `_write`: no newline -> `self._buffer.append(data)` (one atomic list operation), done;
                         newline    -> `to_write = self._buffer + [before, "\n"]`, `text = "".join(to_write)`
               `_flush`: `text = "".join(self._buffer)`
    as t       `self._buffer = [after]`   /   `self._buffer = []`
    put t      `self._flush_queue.put(text)`
    rel t      `self._lock.__exit__()`, the call returns
    fl         the flush thread takes everything that is in the queue (`get` + `get_nowait` drain) and
               writes it (the rest of its work is the subject of `Ptk.Model.C20`)

  `useLock = false` is the same code without the `with self._lock:` — used only to show that the
  lock is what makes the property hold.
-/
import Ptk.Model.C20
namespace Ptk.C20Lock
open Ptk.Py Ptk.C20

inductive Call where
  | write (d : Text)
  | flush
deriving Repr, DecidableEq

inductive Pc where
  | idle
  /-- at `with self._lock:` -/
  | want (c : Call)
  /-- lock taken, body not started -/
  | locked (c : Call)
  /-- `text` computed from the old buffer (`loc`), assignment of the new buffer (`[rest]`, or `[]` when
      `clear`) pending -/
  | assign (loc rest : Text) (clear : Bool)
  /-- buffer reassigned, `put(text)` pending -/
  | putting (loc : Text)
  /-- body finished, lock still held -/
  | releasing
deriving Repr, DecidableEq

/-- inside the `with self._lock:` block -/
def crit : Pc → Bool
  | .idle => false
  | .want _ => false
  | _ => true

def upd (f : Nat → Pc) (t : Nat) (p : Pc) : Nat → Pc := fun x => if x = t then p else f x

structure St where
  useLock : Bool := true
  pc : Nat → Pc := fun _ => .idle
  /-- `self._lock` owner -/
  owner : Option Nat := none
  buffer : List Text := []
  queue : List Text := []
  /-- text the flush thread has taken out of the queue -/
  out : Text := []
  /-- ghost: the write calls in the order in which they got the lock -/
  acquired : List (Nat × Text) := []
  /-- ghost: the write calls in the order in which the threads made them -/
  called : List (Nat × Text) := []

inductive Op where
  | call (t : Nat) (c : Call)
  | acq (t : Nat)
  | rd (t : Nat)
  | as (t : Nat)
  | put (t : Nat)
  | rel (t : Nat)
  | fl
deriving Repr, DecidableEq

def callData : Call → List Text
  | .write d => [d]
  | .flush => []

def step (s : St) : Op → St
  | .call t c =>
    match s.pc t with
    | .idle => { s with pc := upd s.pc t (.want c), called := s.called ++ (callData c).map fun d => (t, d) }
    | _ => s
  | .acq t =>
    match s.pc t with
    | .want c =>
      if s.useLock ∧ s.owner.isSome then s     -- blocked
      else { s with pc := upd s.pc t (.locked c), owner := if s.useLock then some t else none,
                    acquired := s.acquired ++ (callData c).map fun d => (t, d) }
    | _ => s
  | .rd t =>
    match s.pc t with
    | .locked (.write d) =>
      match rsplitNl d with
      | some (before, after) =>
        { s with pc := upd s.pc t (.assign (cat (s.buffer ++ [before, ['\n']])) after false) }
      | none => { s with buffer := s.buffer ++ [d], pc := upd s.pc t .releasing }
    | .locked .flush => { s with pc := upd s.pc t (.assign (cat s.buffer) [] true) }
    | _ => s
  | .as t =>
    match s.pc t with
    | .assign loc rest clear =>
      { s with buffer := if clear then [] else [rest], pc := upd s.pc t (.putting loc) }
    | _ => s
  | .put t =>
    match s.pc t with
    | .putting loc => { s with queue := s.queue ++ [loc], pc := upd s.pc t .releasing }
    | _ => s
  | .rel t =>
    match s.pc t with
    | .releasing => { s with pc := upd s.pc t .idle, owner := none }
    | _ => s
  | .fl => { s with out := s.out ++ s.queue.flatten, queue := [] }

def runOps (s : St) : List Op → St
  | [] => s
  | o :: os => runOps (step s o) os

/-- the whole body of a call, as the real code runs it when nobody interferes -/
def body (t : Nat) : List Op := [.rd t, .as t, .put t]

end Ptk.C20Lock
