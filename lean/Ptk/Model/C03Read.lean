/-
  C03 — model of `PosixStdinReader.read` as it is (src/prompt_toolkit/input/posix_utils.py) on top
  of a pipe / terminal file descriptor, and of `Vt100Input.read_keys` / `flush_keys` / `closed`
  (src/prompt_toolkit/input/vt100.py) on top of it.

  The kernel side of the descriptor is the state `Fd`: the bytes written and not yet read, whether
  all writers are gone (EOF once drained), and whether the descriptor itself was closed under the
  reader (then `select` and `os.read` raise `OSError`).  `os.read(fd, count)` hands out at most
  `count` bytes — `read_keys` asks for 1024 — so a long input (a big paste) reaches the decoder
  and the parser in several pieces, cut wherever the 1024-byte boundary happens to fall.
-/
import Ptk.Model.C03Utf8
import Ptk.Gen.C03Codecs
namespace Ptk.C03.Utf8
open Ptk.Py

structure Fd where
  /-- bytes written to the other end and not yet read -/
  avail : Bytes
  /-- every writer has closed its end -/
  eof : Bool
  /-- the descriptor was closed under the reader: `select` / `os.read` raise `OSError` -/
  bad : Bool
deriving DecidableEq, Repr

def Fd.init : Fd := { avail := [], eof := false, bad := false }
/-- `os.write` on the other end -/
def Fd.write (fd : Fd) (b : Bytes) : Fd := { fd with avail := fd.avail ++ b }
def Fd.closeWrite (fd : Fd) : Fd := { fd with eof := true }
def Fd.closeRead (fd : Fd) : Fd := { fd with bad := true }

/-- `select.select([fd], [], [], 0)[0]` is non-empty: data available, or EOF -/
def Fd.readable (fd : Fd) : Bool := !fd.avail.isEmpty || fd.eof

/-! ### the ENCODING of the input

  `PosixStdinReader.__init__(stdin_fd, errors="surrogateescape", encoding="utf-8")` picks its
  incremental decoder with `getincrementaldecoder(encoding)`; `Vt100Input.__init__` passes
  `encoding=stdin.encoding`.  Modelled: UTF-8 (`Model/C03Utf8`) and the single-byte code pages
  (charmap / latin-1 / ascii decoders: stateless, one character per byte, an undecodable byte `b`
  becomes the lone surrogate `0xDC00 + b`), given by a table regenerated from the interpreter. -/

inductive Codec where
  | utf8
  /-- byte → code point, `none` = undecodable -/
  | single (tbl : List (Option Nat))
deriving DecidableEq, Repr

/-- one byte through a single-byte code page with `errors="surrogateescape"` -/
def sbChar (tbl : List (Option Nat)) (b : Nat) : Nat :=
  match tbl[b]? with
  | some (some cp) => cp
  | _ => esc b

/-- `self._stdin_decoder.decode(data)` with `buf` pending → (text, pending) -/
def Codec.decode : Codec → Bytes → Bytes → List Nat × Bytes
  | .utf8, buf, chunk => Utf8.decode buf chunk
  | .single tbl, buf, chunk => ((buf ++ chunk).map (sbChar tbl), [])

/-- `codecs.getincrementaldecoder(encoding)` for the encodings modelled (`none` = LookupError or
    not modelled) -/
def codecOf (enc : String) : Option Codec :=
  if enc == "utf-8" || enc == "utf8" || enc == "UTF-8" then some .utf8
  else (Gen.C03.codecs.find? (·.1 == enc)).map (fun kv => .single kv.2)

/-- `PosixStdinReader`: which decoder, the decoder's pending bytes, the `closed` attribute -/
structure Reader where
  codec : Codec := .utf8
  dec : Bytes
  closed : Bool
deriving DecidableEq, Repr

/-- `PosixStdinReader(fd, encoding=…)`: a fresh decoder of that encoding, `closed = False` -/
def Reader.new (c : Codec) : Reader := { codec := c, dec := [], closed := false }

/-- `PosixStdinReader(fd)`: the default encoding -/
def Reader.init : Reader := Reader.new .utf8

/-- `PosixStdinReader.read(count)` → (text as code points, reader, descriptor):

        if self.closed: return ""
        try:
            if not select.select([self.stdin_fd], [], [], 0)[0]: return ""
        except OSError: self.closed = True          # … and goes on
        try:
            data = os.read(self.stdin_fd, count)
            if data == b"": self.closed = True; return ""
        except OSError: data = b""
        return self._stdin_decoder.decode(data)                                              -/
def Reader.read (count : Nat) (r : Reader) (fd : Fd) : List Nat × Reader × Fd :=
  if r.closed then ([], r, fd)
  else if fd.bad then
    -- select raises: closed = True;  os.read raises: data = b"";  decode(b"")
    let (t, buf) := r.codec.decode r.dec []
    (t, { r with dec := buf, closed := true }, fd)
  else if !fd.readable then ([], r, fd)
  else
    let data := fd.avail.take count
    let fd' := { fd with avail := fd.avail.drop count }
    if data.isEmpty then ([], { r with closed := true }, fd')
    else
      let (t, buf) := r.codec.decode r.dec data
      (t, { r with dec := buf }, fd')

/-- `Vt100Input`: stdin reader + parser (the callback buffer is `p.out`) -/
structure Inp where
  rd : Reader
  p : St
deriving Repr

/-- `Vt100Input.__init__(stdin)`: `self._buffer = []`,
    `self.stdin_reader = PosixStdinReader(self._fileno, encoding=stdin.encoding)`,
    `self.vt100_parser = Vt100Parser(…)` — for a stdin whose encoding resolves to codec `c` -/
def Inp.new (c : Codec) : Inp := { rd := Reader.new c, p := St.init }

/-- … from the name in `stdin.encoding` (`none` = the constructor raises LookupError) -/
def Inp.ofEncoding (enc : String) : Option Inp := (codecOf enc).map Inp.new

def Inp.init : Inp := Inp.new .utf8

/-- decode + feed for an arbitrary codec (`Utf8.readKeys` is the `.utf8` instance) -/
def readKeysC (cfg : Cfg) (c : Codec) (st : InSt) (chunk : Bytes) : InSt :=
  let (cps, buf) := c.decode st.dec chunk
  { dec := buf, p := feed cfg st.p (cps.map Char.ofNat) }

/-- `Vt100Input.read_keys()`: `data = self.stdin_reader.read(); self.vt100_parser.feed(data)` -/
def Inp.readKeys (cfg : Cfg) (count : Nat) (st : Inp) (fd : Fd) : Inp × Fd :=
  let (cps, rd', fd') := st.rd.read count fd
  ({ rd := rd', p := feed cfg st.p (cps.map Char.ofNat) }, fd')

/-- `Vt100Input.flush_keys()` -/
def Inp.flushKeys (cfg : Cfg) (st : Inp) : Inp := { st with p := flush cfg st.p }

/-- `Vt100Input.closed` -/
def Inp.closed (st : Inp) : Bool := st.rd.closed

/-- `n` calls of `read_keys()` in a row (the event loop calling back while the fd is readable) -/
def Inp.readKeysN (cfg : Cfg) (count : Nat) : Nat → Inp → Fd → Inp × Fd
  | 0, st, fd => (st, fd)
  | n + 1, st, fd =>
    let (st', fd') := st.readKeys cfg count fd
    Inp.readKeysN cfg count n st' fd'

/-! ### typeahead (src/prompt_toolkit/input/typeahead.py)

  `_buffer : dict[str, list[KeyPress]]` (a `defaultdict(list)`) keyed by `input.typeahead_hash()`. -/

abbrev TA := List (String × List Press)

/-- `_buffer[key]` (defaultdict: missing = `[]`) -/
def TA.get (b : TA) (k : String) : List Press :=
  match b.find? (·.1 == k) with
  | some kv => kv.2
  | none => []

/-- `_buffer[key] = v` -/
def TA.set (b : TA) (k : String) (v : List Press) : TA :=
  (k, v) :: b.filter (fun kv => !(kv.1 == k))

/-- `store_typeahead(input_obj, key_presses)`: `_buffer[key].extend(key_presses)` -/
def TA.store (b : TA) (k : String) (ps : List Press) : TA := b.set k (b.get k ++ ps)

/-- `get_typeahead(input_obj)`: `result = _buffer[key]; _buffer[key] = []; return result` -/
def TA.take (b : TA) (k : String) : List Press × TA := (b.get k, b.set k [])

/-- `clear_typeahead(input_obj)` -/
def TA.clear (b : TA) (k : String) : TA := b.set k []

end Ptk.C03.Utf8
