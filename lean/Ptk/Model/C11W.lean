/-
  C11 — the runtime character classes the driver runs the model with, regenerated from the current
  tree / interpreter on every run (`Ptk.Gen.C11`).  In its own file so that the theorems can pin the
  side conditions they assume about them (`Props/C11Wide`: `genW_measures_as_drawn`, `genW_blank`, ...).
-/
import Ptk.Gen.C11
import Ptk.Model.C11
namespace Ptk.C11

/-- `get_cwidth`, `Char.display_mappings` and the two behavioural probes of the current tree -/
def genW : Widths := { rw := Gen.C11.rawWidth, disp := Gen.C11.display,
                        dm := Gen.C11.measuresDisplayWidth, exact := Gen.C11.exactWrappedHeight }

end Ptk.C11
