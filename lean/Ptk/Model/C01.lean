/-
  C01 — model of the basic edit operations of `prompt_toolkit.buffer.Buffer`
  (src/prompt_toolkit/buffer.py) on the pair (text, cursor_position).

  Conventions: `isSpace` models `str.isspace` (runtime, parameter); `f` models
  the user callback of the transform_* methods (parameter).
  Slices whose bounds the code guarantees to be non-negative are written with
  `take`/`drop` (Python clamps the upper bound exactly like `take`).
-/
import Ptk.Py
namespace Ptk.C01
open Ptk.Py

structure Buf where
  text : Text
  cur : Nat
deriving Repr, DecidableEq

/-- `c != '\\n'` (named so that `simp` does not rewrite the lambda) -/
def notNl (c : Char) : Bool := c != '\n'

def Buf.before (b : Buf) : Text := b.text.take b.cur
def Buf.after (b : Buf) : Text := b.text.drop b.cur

/-- `Buffer.cursor_position = value` : clamped to `0..len(text)`. -/
def setCursor (b : Buf) (v : Int) : Buf :=
  { b with cur := min v.toNat b.text.length }

/-- `Buffer.text = value` : the cursor is clamped first. -/
def setText (b : Buf) (t : Text) : Buf :=
  { text := t, cur := min b.cur t.length }

/-- `Buffer.document = Document(text, cpos)`; `Document.__init__` asserts
    `cpos <= len(text)` and `_set_cursor_position` clamps at 0.  `none` = AssertionError. -/
def setDocument (_b : Buf) (t : Text) (c : Int) : Option Buf :=
  if c ≤ t.length then some { text := t, cur := c.toNat } else none

/-- text of the current line before / after the cursor -/
def lineBefore (b : Buf) : Text :=
  (b.before.reverse.takeWhile notNl).reverse
def lineAfter (b : Buf) : Text := b.after.takeWhile notNl
def currentLine (b : Buf) : Text := lineBefore b ++ lineAfter b

def leadingWs (isSpace : Char → Bool) (b : Buf) : Text :=
  (currentLine b).takeWhile isSpace

/-- `Buffer.insert_text(data, overwrite, move_cursor)` -/
def insertText (b : Buf) (data : Text) (overwrite move : Bool) : Buf :=
  let otext := b.text
  let ocpos := b.cur
  let text :=
    if overwrite then
      -- `ov[:ov.find("\n")]` when a newline occurs in `ov`, else `ov`
      let ov := ((otext.drop ocpos).take data.length).takeWhile notNl
      otext.take ocpos ++ data ++ otext.drop (ocpos + ov.length)
    else otext.take ocpos ++ data ++ otext.drop ocpos
  let cpos := if move then b.cur + data.length else b.cur
  -- Document(text, cpos): cpos ≤ len(text) always holds here when cur ≤ len
  { text := text, cur := min cpos text.length }

/-- `Buffer.delete(count)` with `count ≥ 0` ; returns the deleted text. -/
def delete (b : Buf) (count : Nat) : Buf × Text :=
  if b.cur < b.text.length then
    let deleted := b.after.take count
    (setText b (b.text.take b.cur ++ b.text.drop (b.cur + deleted.length)), deleted)
  else (b, [])

/-- `Buffer.delete(count)` exactly as the code has it, for any integer count: the deleted text is the
    Python slice `text_after_cursor[:count]`, so a NEGATIVE count removes all but the last `-count`
    characters after the cursor (`Buffer.delete` has no `assert count >= 0`). -/
def deleteI (b : Buf) (count : Int) : Buf × Text :=
  if b.cur < b.text.length then
    let deleted := sliceTo b.after count
    (setText b (b.text.take b.cur ++ b.text.drop (b.cur + deleted.length)), deleted)
  else (b, [])

/-- `Buffer.delete_before_cursor(count)` (after the fix: `count = min(count, cursor)`). -/
def deleteBefore (b : Buf) (count : Nat) : Buf × Text :=
  if 0 < b.cur then
    let count := min count b.cur
    let deleted := (b.text.take b.cur).drop (b.cur - count)
    let newText := b.text.take (b.cur - count) ++ b.text.drop b.cur
    ({ text := newText, cur := b.cur - deleted.length }, deleted)
  else (b, [])

def newline (isSpace : Char → Bool) (b : Buf) (copyMargin : Bool) : Buf :=
  if copyMargin then insertText b ('\n' :: leadingWs isSpace b) false true
  else insertText b ['\n'] false true

def insertLineAbove (isSpace : Char → Bool) (b : Buf) (copyMargin : Bool) : Buf :=
  let ins := if copyMargin then leadingWs isSpace b ++ ['\n'] else ['\n']
  let b1 := setCursor b ((b.cur : Int) - (lineBefore b).length)
  let b2 := insertText b1 ins false true
  setCursor b2 ((b2.cur : Int) - 1)

def insertLineBelow (isSpace : Char → Bool) (b : Buf) (copyMargin : Bool) : Buf :=
  let ins := if copyMargin then '\n' :: leadingWs isSpace b else ['\n']
  let b1 := setCursor b ((b.cur : Int) + (lineAfter b).length)
  insertText b1 ins false true

/-- `Document.on_last_line` : no newline at or after the cursor. -/
def onLastLine (b : Buf) : Bool := !(b.after.contains '\n')

def joinNextLine (b : Buf) (sep : Text) : Buf :=
  if !onLastLine b then
    let b1 := setCursor b ((b.cur : Int) + (lineAfter b).length)
    let b2 := (delete b1 1).1
    setText b2 (b2.before ++ sep ++ lstripChar ' ' b2.after)
  else b

def swapBeforeCursor (b : Buf) : Buf :=
  if 2 ≤ b.cur then
    match b.text[b.cur - 2]?, b.text[b.cur - 1]? with
    | some x, some y => setText b (b.text.take (b.cur - 2) ++ [y, x] ++ b.text.drop b.cur)
    | _, _ => b   -- IndexError: unreachable when cur ≤ len
  else b

def transformCurrentLine (f : Text → Text) (b : Buf) : Buf :=
  let a := b.cur - (lineBefore b).length
  let e := b.cur + (lineAfter b).length
  setText b (b.text.take a ++ f ((b.text.take e).drop a) ++ b.text.drop e)

/-- `transform_region(from_, to, f)`; requires `from_ < to` (assert). -/
def transformRegion (f : Text → Text) (b : Buf) (from_ to : Nat) : Option Buf :=
  if from_ < to then
    some (setText b (b.text.take from_ ++ f ((b.text.take to).drop from_) ++ b.text.drop to))
  else none

/-- the list index addressed by Python `lines[i]` for a list of length `n` (`none` = IndexError) -/
def pyIdx (n : Nat) (i : Int) : Option Nat :=
  if i < 0 then (if i + n < 0 then none else some (i + n).toNat)
  else (if i.toNat < n then some i.toNat else none)

/-- `for index in range(i, i+fuel): try: lines[index] = f(lines[index]) except IndexError: pass` -/
def tlGo (f : Text → Text) (n : Nat) : Nat → Int → List Text → List Text
  | 0, _, ls => ls
  | fuel + 1, i, ls =>
    let ls' := match pyIdx n i with
      | some k => ls.modify k f
      | none => ls
    tlGo f n fuel (i + 1) ls'

/-- `Buffer.transform_lines(range(from_, to), f)` -/
def transformLines (f : Text → Text) (t : Text) (from_ to : Int) : Text :=
  let lines := splitOn '\n' t
  join ['\n'] (tlGo f lines.length (to - from_).toNat from_ lines)

def cursorRow (b : Buf) : Nat := (b.before.filter (· = '\n')).length
def cursorCol (b : Buf) : Nat := (lineBefore b).length

/-- `Document.translate_row_col_to_index(row, 0)` for `0 ≤ row` (clamped to the last line). -/
def rowStart (t : Text) (row : Nat) : Nat :=
  let lines := splitOn '\n' t
  let row := min row (lines.length - 1)
  ((lines.take row).map (·.length + 1)).sum

def indentUnit : Text := [' ', ' ', ' ', ' ']

def indent (b : Buf) (fromRow toRow : Int) (count : Nat) : Buf :=
  let row := cursorRow b
  let col := cursorCol b
  let ic := repeatText indentUnit count
  let newText := transformLines (fun l => ic ++ l) b.text fromRow toRow
  let b1 : Buf := { text := newText, cur := rowStart newText row }
  setCursor b1 ((b1.cur : Int) + col + ic.length)

def unindent (isSpace : Char → Bool) (b : Buf) (fromRow toRow : Int) (count : Nat) : Buf :=
  let row := cursorRow b
  let col := cursorCol b
  let ic := repeatText indentUnit count
  let tr : Text → Text := fun l =>
    if isPrefixOf' ic l then l.drop ic.length else l.dropWhile isSpace
  let newText := transformLines tr b.text fromRow toRow
  let b1 : Buf := { text := newText, cur := rowStart newText row }
  setCursor b1 ((b1.cur : Int) + col - ic.length)



/-! ### join_selected_lines and the `document` setter -/

/-- `"\r\n"` counts as one line break for `str.splitlines()` -/
def crlf : Text → Text
  | '\r' :: '\n' :: r => '\n' :: crlf r
  | c :: r => c :: crlf r
  | [] => []

def splitBreaks (isBreak : Char → Bool) : Text → Text → List Text
  | [], acc => if acc.isEmpty then [] else [acc.reverse]
  | c :: rest, acc =>
    if isBreak c then acc.reverse :: splitBreaks isBreak rest []
    else splitBreaks isBreak rest (c :: acc)

/-- `str.splitlines()` (no keepends): break characters are a runtime table (parameter) -/
def splitLinesPy (isBreak : Char → Bool) (t : Text) : List Text := splitBreaks isBreak (crlf t) []

/-- `Buffer.document = Document(t, c)`: `Document.__init__` asserts `c <= len(t)` (AssertionError:
    nothing happens); `_set_cursor_position` stores `max(0, c)`. -/
def setDoc (b : Buf) (t : Text) (c : Int) : Buf :=
  if c ≤ (t.length : Int) then { text := t, cur := c.toNat } else b

/-- `Buffer.join_selected_lines(separator)` with `selection_state.original_cursor_position = orig` -/
def joinSelectedLines (isBreak : Char → Bool) (b : Buf) (orig : Nat) (sep : Text) : Buf :=
  let from_ := min b.cur orig
  let to := max b.cur orig
  let before := b.text.take from_
  let lines := (splitLinesPy isBreak ((b.text.take to).drop from_)).map fun l => lstripChar ' ' l ++ sep
  let after := b.text.drop to
  setDoc b (before ++ lines.flatten ++ after)
    (((before ++ lines.dropLast.flatten).length : Int) - 1)

/-! ### readline named commands built on the edit API
    (src/prompt_toolkit/key_binding/bindings/named_commands.py) -/

/-- `backward-delete-char` with numeric argument `arg` (negative: delete forward). -/
def backwardDeleteChar (b : Buf) (arg : Int) : Buf × Text :=
  if arg < 0 then delete b (-arg).toNat else deleteBefore b arg.toNat

/-- `delete-char` with numeric argument `arg` (negative: delete backward; after the fix). -/
def deleteChar (b : Buf) (arg : Int) : Buf × Text :=
  if arg < 0 then deleteBefore b (-arg).toNat else delete b arg.toNat

/-- `self-insert`: `insert_text(event.data * event.arg)` (`str * n` is empty for `n ≤ 0`). -/
def selfInsert (b : Buf) (data : Text) (arg : Int) : Buf :=
  insertText b (repeatText data arg.toNat) false true

/-- `transpose-chars` -/
def transposeChars (b : Buf) : Buf :=
  if b.cur = 0 then b
  else if b.cur = b.text.length ∨ b.text[b.cur]? = some '\n' then swapBeforeCursor b
  else
    -- cursor_position += get_cursor_right_position()  (stays on the line; here text[cur] ≠ '\n')
    swapBeforeCursor (setCursor b ((b.cur : Int) + 1))

def isWordChar (c : Char) : Bool := c.isAlphanum || c = '_'

/-- a character at which `([a-zA-Z0-9_]+|[^a-zA-Z0-9_\s]+)` cannot start a match: the regex tries
    the word class FIRST, so only a non-word character that is `\s` is skipped -/
def wordSkip (reSpace : Char → Bool) (c : Char) : Bool := !isWordChar c && reSpace c

/-- first match of `([a-zA-Z0-9_]+|[^a-zA-Z0-9_\s]+)` in `t`: `some end` (index after the run).
    The alternation is followed in the order of the regex: `[a-zA-Z0-9_]` is tested before `\s`. -/
def firstWordEnd (reSpace : Char → Bool) (t : Text) : Option Nat :=
  let skipped := t.takeWhile (wordSkip reSpace)
  match t.dropWhile (wordSkip reSpace) with
  | [] => none
  | c :: rest =>
    let run := if isWordChar c then rest.takeWhile isWordChar
               else rest.takeWhile (fun d => !isWordChar d && !reSpace d)
    some (skipped.length + 1 + run.length)

/-- `Document.find_next_word_ending()` (count = 1, include_current_position = False) -/
def findNextWordEnding (reSpace : Char → Bool) (b : Buf) : Option Nat :=
  (firstWordEnd reSpace (b.after.drop 1)).map (· + 1)

/-- one iteration of `_transform_following_words` -/
def transformWord (reSpace : Char → Bool) (f : Text → Text) (b : Buf) : Option Buf :=
  match findNextWordEnding reSpace b with
  | none => none
  | some pos =>
    let words := f ((b.text.drop b.cur).take pos)
    some { text := b.text.take b.cur ++ words ++ b.text.drop (b.cur + pos),
           cur := b.cur + words.length }

/-- `uppercase-word` / `downcase-word` / `capitalize-word` with numeric argument -/
def transformWords (reSpace : Char → Bool) (f : Text → Text) : Nat → Buf → Buf
  | 0, b => b
  | n + 1, b => match transformWord reSpace f b with
    | none => b
    | some b' => transformWords reSpace f n b'

/-- Operations of the edit API (one constructor per public method). -/
inductive Op
  | insert (data : Text) (overwrite move : Bool)
  | delete (n : Int)
  | deleteBefore (n : Nat)
  | newline (copy : Bool)
  | lineAbove (copy : Bool)
  | lineBelow (copy : Bool)
  | joinNext (sep : Text)
  | swap
  | setCursor (v : Int)
  | setText (t : Text)
  | trLine
  | trRegion (a b : Nat)
  | indent (a b : Int) (n : Nat)
  | unindent (a b : Int) (n : Nat)
  | backwardDeleteChar (arg : Int)
  | deleteChar (arg : Int)
  | selfInsert (data : Text) (arg : Int)
  | transposeChars
  | trWords (n : Nat)
  | setDoc (t : Text) (c : Int)
  | joinSelected (orig : Nat) (sep : Text)
deriving Repr

/-- One step; the `Text` is the method's return value (empty when it returns None).
    `isSpace` = `str.isspace`, `isBreak` = the break characters of `str.splitlines`.
    An `AssertionError` (transform_region with from ≥ to) leaves the buffer unchanged. -/
def step (isSpace isBreak : Char → Bool) (f : Text → Text) (b : Buf) : Op → Buf × Text
  | .setDoc t c => (setDoc b t c, [])
  | .joinSelected o s => (joinSelectedLines isBreak b o s, [])
  | .backwardDeleteChar a => backwardDeleteChar b a
  | .deleteChar a => deleteChar b a
  | .selfInsert d a => (selfInsert b d a, [])
  | .transposeChars => (transposeChars b, [])
  | .trWords n => (transformWords isSpace f n b, [])
  | .insert d o m => (insertText b d o m, [])
  | .delete n => deleteI b n
  | .deleteBefore n => deleteBefore b n
  | .newline c => (newline isSpace b c, [])
  | .lineAbove c => (insertLineAbove isSpace b c, [])
  | .lineBelow c => (insertLineBelow isSpace b c, [])
  | .joinNext s => (joinNextLine b s, [])
  | .swap => (swapBeforeCursor b, [])
  | .setCursor v => (setCursor b v, [])
  | .setText t => (setText b t, [])
  | .trLine => (transformCurrentLine f b, [])
  | .trRegion x y => ((transformRegion f b x y).getD b, [])
  | .indent x y n => (indent b x y n, [])
  | .unindent x y n => (unindent isSpace b x y n, [])

def run (isSpace isBreak : Char → Bool) (f : Text → Text) (b : Buf) (ops : List Op) : Buf :=
  ops.foldl (fun b op => (step isSpace isBreak f b op).1) b

end Ptk.C01

/-! ### the three views of the text: `Buffer.text` (`_working_lines[working_index]`),
    `Buffer.document.text` (document cache keyed by text/cursor/selection) and the working line -/
namespace Ptk.C01
open Ptk.Py

/-- buffer state with the history working lines (`_working_lines`, `working_index`) -/
structure WBuf where
  work : List Text
  idx : Nat
  cur : Nat
deriving Repr, DecidableEq

/-- `Buffer.text` getter: `self._working_lines[self.working_index]` (`none` = IndexError) -/
def WBuf.text? (w : WBuf) : Option Text := w.work[w.idx]?

/-- `Buffer.document`: `_document_cache[text, cursor_position, selection_state]`; the cache maps a key
    to `Document(text, cursor, selection)`, so the view is the pair itself. -/
def WBuf.document? (w : WBuf) : Option (Text × Nat) := w.text?.map fun t => (t, w.cur)

/-- `Buffer._set_text(value)`: `working_lines[working_index] = value` -/
def WBuf.setText (w : WBuf) (t : Text) : WBuf := { w with work := w.work.set w.idx t }

/-- lifting an edit of the current (text, cursor) pair to the working lines, as every Buffer
    method does through the `text` / `document` setters -/
def WBuf.edit (w : WBuf) (e : Buf → Buf) : WBuf :=
  match w.text? with
  | none => w
  | some t =>
    let b := e { text := t, cur := w.cur }
    { (w.setText b.text) with cur := b.cur }

end Ptk.C01
