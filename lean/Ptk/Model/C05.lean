/-
  C05 — model of the choke points through which every key-binding handler of the
  line editor acts on the editor state:

  (a) the state-writing API of `prompt_toolkit.buffer.Buffer`
      (src/prompt_toolkit/buffer.py): `cursor_position` / `text` / `working_index`
      setters, `set_document`, `reset`, `save_to_undo_stack`, `undo`, `redo`,
      `start_selection` / `exit_selection`, `_text_changed`, history navigation,
      `insert_text`, `delete`, `delete_before_cursor`, the history loader;
  (b) `KeyProcessor._call_handler` / `_fix_vi_cursor_position` /
      `_leave_vi_temp_navigation_mode` (key_binding/key_processor.py) and the filter
      `vi_navigation_mode` (filters/app.py);
  (c) `ViState.input_mode` setter and `ViState.reset` (key_binding/vi_state.py);
  (d) `EditReadOnlyBuffer` swallowed by `_call_handler`;
  (e) `Buffer.validate_and_handle` with the accept handler of `PromptSession`
      (shortcuts/prompt.py: `exit(result=buff.document.text)`).

  The model follows the code as it is.  Core Lean only.
-/
import Ptk.Py
namespace Ptk.C05
open Ptk.Py

/-- `c != '\\n'` (named so that `simp` does not rewrite the lambda) -/
def notNl (c : Char) : Bool := c != '\n'

/-- how a call ends: normally, with `EditReadOnlyBuffer`, with an `AssertionError`
    (`Document.__init__`: cursor_position > len(text)), or with an `IndexError`
    (`_working_lines[working_index]`). -/
inductive Outcome
  | ok | readOnly | assertion | indexError
deriving DecidableEq, Repr

/-- `SelectionState`: `original_cursor_position` (a Python int) and the selection type
    (0 CHARACTERS, 1 LINES, 2 BLOCK). -/
structure Sel where
  anchor : Int
  typ : Nat
deriving DecidableEq, Repr

/-- `YankNthArgState` (buffer.py): `history_position`, `n`, `previous_inserted_word` -/
structure YankSt where
  pos : Int
  n : Int
  prev : Text
deriving DecidableEq, Repr

/-- `Completion`: `text`, `start_position` -/
structure Completion where
  text : Text
  start : Int
deriving DecidableEq, Repr

/-- `CompletionState` (buffer.py): `original_document`, `completions`, `complete_index` -/
structure CompSt where
  origText : Text
  origCur : Nat
  comps : List Completion
  index : Option Nat
deriving DecidableEq, Repr

/-- The state of a `Buffer` that the property talks about. -/
structure Buf where
  lines : List Text            -- `_working_lines`
  idx : Nat                    -- `__working_index`
  cur : Nat                    -- `__cursor_position` (`_set_cursor_position` stores `max(0, v)`)
  sel : Option Sel             -- `selection_state`
  multi : List Int             -- `multiple_cursor_positions`
  undo : List (Text × Nat)     -- `_undo_stack`, head = top
  redo : List (Text × Nat)     -- `_redo_stack`, head = top
  readOnly : Bool              -- `read_only()`
  hsearch : Option Text        -- `history_search_text`
  enableHS : Bool              -- `enable_history_search()`
  hist : List Text := []       -- `history.get_strings()` (oldest first)
  yank : Option YankSt := none -- `yank_nth_arg_state`
  comp : Option CompSt := none -- `complete_state`
deriving DecidableEq, Repr

/-- `Buffer.text` getter: `_working_lines[working_index]` (empty when the index is invalid;
    the real code raises IndexError there, see `setWorkingIndex`). -/
def Buf.text (b : Buf) : Text := (b.lines[b.idx]?).getD []

def Buf.before (b : Buf) : Text := b.text.take b.cur
def Buf.after (b : Buf) : Text := b.text.drop b.cur

/-- `Buffer._text_changed`: the state it resets (selection and — since the fix of the stale
    multiple cursors — `multiple_cursor_positions`). -/
def textChanged (b : Buf) : Buf := { b with sel := none, multi := [], yank := none, comp := none }

/-- `Buffer._cursor_position_changed`: the state it resets (`complete_state`, `yank_nth_arg_state`),
    when the stored cursor position `c` differs from the old one `old` -/
def cursorChanged (b : Buf) (old c : Nat) : Buf :=
  if c != old then { b with yank := none, comp := none } else b

/-- `_set_text(v)` + `_set_cursor_position(c)` + the change events: when the text differs from the
    old one, `_text_changed()` runs and `history_search_text` is reset; when the cursor differs,
    `_cursor_position_changed()` runs. -/
def writeText (b : Buf) (v : Text) (c : Nat) : Buf :=
  cursorChanged
    (if v != b.text then
      { textChanged { b with lines := b.lines.set b.idx v, cur := c } with hsearch := none }
    else { b with lines := b.lines.set b.idx v, cur := c }) b.cur c

/-- `Buffer.cursor_position = value`: clamped to `0 .. len(text)`. -/
def setCursor (b : Buf) (v : Int) : Buf :=
  let v := if v > (b.text.length : Int) then (b.text.length : Int) else v
  let v := if v < 0 then 0 else v
  cursorChanged { b with cur := v.toNat } b.cur v.toNat

/-- `Buffer.text = value`: cursor clamp first, then the read-only check, then the change. -/
def setText (b : Buf) (v : Text) : Buf × Outcome :=
  let b1 := if b.cur > v.length then setCursor b v.length else b
  if b1.readOnly then (b1, .readOnly) else (writeText b1 v b1.cur, .ok)

/-- `Buffer.set_document(Document(t, c), bypass_readonly)`.
    The `Document` exists already, so `c ≤ len t` was asserted by its constructor:
    `c > len t` is reported as `assertion` (nothing was changed). -/
def setDocument (b : Buf) (t : Text) (c : Int) (bypass : Bool) : Buf × Outcome :=
  if c > (t.length : Int) then (b, .assertion)
  else if !bypass && b.readOnly then (b, .readOnly)
  else (writeText b t (max c 0).toNat, .ok)

/-- `Buffer.working_index = value` -/
def setWorkingIndex (b : Buf) (i : Nat) : Buf × Outcome :=
  if b.idx != i then
    let b1 := { b with idx := i }
    -- `self.cursor_position = 0` evaluates `len(self.text)`: IndexError for an invalid index
    if i < b1.lines.length then (textChanged (setCursor b1 0), .ok) else (b1, .indexError)
  else (b, .ok)

/-- `Buffer.reset(Document(t, c))` with `0 ≤ c` (`c > len t`: AssertionError in `Document`). -/
def reset (b : Buf) (t : Text) (c : Nat) : Buf × Outcome :=
  if c > t.length then (b, .assertion)
  else ({ b with lines := [t], idx := 0, cur := c, sel := none, multi := [], undo := [], redo := [],
                 hsearch := none, yank := none, comp := none }, .ok)

/-- `Buffer.save_to_undo_stack(clear_redo_stack)` -/
def saveUndo (b : Buf) (clear : Bool) : Buf :=
  let u := match b.undo with
    | (t, p) :: rest => if t == b.text then (t, b.cur) :: rest else (b.text, b.cur) :: (t, p) :: rest
    | [] => [(b.text, b.cur)]
  { b with undo := u, redo := if clear then [] else b.redo }

/-- `Buffer.undo()`: pop until an entry with a different text is found. -/
def undoLoop (b : Buf) : List (Text × Nat) → Buf × Outcome
  | [] => ({ b with undo := [] }, .ok)
  | (t, p) :: rest =>
    if t != b.text then
      setDocument { b with undo := rest, redo := (b.text, b.cur) :: b.redo } t p false
    else undoLoop b rest

/-- `Buffer.undo()` (after fix a69558c: a read-only buffer raises before the stacks are touched) -/
def undo (b : Buf) : Buf × Outcome := if b.readOnly then (b, .readOnly) else undoLoop b b.undo

/-- `Buffer.redo()` (same guard) -/
def redo (b : Buf) : Buf × Outcome :=
  if b.readOnly then (b, .readOnly)
  else
    match b.redo with
    | [] => (b, .ok)
    | (t, p) :: _ =>
      let b1 := saveUndo b false
      setDocument { b1 with redo := b1.redo.drop 1 } t p false

/-- `Buffer.start_selection(type)` -/
def startSelection (b : Buf) (typ : Nat) : Buf := { b with sel := some ⟨b.cur, typ⟩ }
/-- `Buffer.exit_selection()` / `selection_state = None` -/
def exitSelection (b : Buf) : Buf := { b with sel := none }

/-- the history loader (`load_history`): `_working_lines.appendleft(item); __working_index += 1` -/
def appendLeft (b : Buf) (item : Text) : Buf := { b with lines := item :: b.lines, idx := b.idx + 1 }

/-! ### derived methods (programs over the primitives above) -/

/-- sequencing: stop at the first exception -/
def andThen (r : Buf × Outcome) (f : Buf → Buf × Outcome) : Buf × Outcome :=
  match r with
  | (b, .ok) => f b
  | r => r

/-- `cursor_position += d` -/
def moveCursor (b : Buf) (d : Int) : Buf := setCursor b ((b.cur : Int) + d)

/-- `Buffer.insert_text(data, overwrite, move_cursor)` -/
def insertText (b : Buf) (data : Text) (overwrite move : Bool) : Buf × Outcome :=
  let otext := b.text
  let ocpos := b.cur
  let text :=
    if overwrite then
      let ov := ((otext.drop ocpos).take data.length).takeWhile notNl
      otext.take ocpos ++ data ++ otext.drop (ocpos + ov.length)
    else otext.take ocpos ++ data ++ otext.drop ocpos
  let cpos := if move then b.cur + data.length else b.cur
  setDocument b text cpos false

/-- `Buffer.delete(count)`, `count ≥ 0` -/
def delete (b : Buf) (count : Nat) : Buf × Outcome :=
  if b.cur < b.text.length then
    let deleted := b.after.take count
    setText b (b.text.take b.cur ++ b.text.drop (b.cur + deleted.length))
  else (b, .ok)

/-- `Buffer.delete_before_cursor(count)`, `count ≥ 0` (after fix 97a8eab) -/
def deleteBefore (b : Buf) (count : Nat) : Buf × Outcome :=
  if 0 < b.cur then
    let count := min count b.cur
    let deleted := (b.text.take b.cur).drop (b.cur - count)
    let newText := b.text.take (b.cur - count) ++ b.text.drop b.cur
    setDocument b newText ((b.cur : Int) - deleted.length) false
  else (b, .ok)

/-- `_set_history_search` -/
def setHistorySearch (b : Buf) : Buf :=
  if b.enableHS then
    (if b.hsearch.isNone then { b with hsearch := some b.before } else b)
  else { b with hsearch := none }

/-- `_history_matches(i)` -/
def historyMatches (b : Buf) (i : Nat) : Bool :=
  match b.hsearch with
  | none => true
  | some s => isPrefixOf' s ((b.lines[i]?).getD [])

/-- the loop of `history_forward` / `history_backward` over the candidate indices `is`:
    `if matches(i): working_index = i; count -= 1; found = True` / `if count == 0: break`. -/
def histLoop : List Nat → Int → Bool → Buf → Buf × Bool × Outcome
  | [], _, found, b => (b, found, .ok)
  | i :: rest, count, found, b =>
    if historyMatches b i then
      match setWorkingIndex b i with
      | (b1, .ok) => if count - 1 == 0 then (b1, true, .ok) else histLoop rest (count - 1) true b1
      | (b1, o) => (b1, true, o)
    else if count == 0 then (b, found, .ok) else histLoop rest count found b

/-- first line of `t` -/
def firstLineLen (t : Text) : Nat := (t.takeWhile notNl).length

/-- `Buffer.history_forward(count)` -/
def historyForward (b : Buf) (count : Int) : Buf × Outcome :=
  let b0 := setHistorySearch b
  let cands := (List.range (b0.lines.length - (b0.idx + 1))).map (· + b0.idx + 1)
  match histLoop cands count false b0 with
  | (b1, found, .ok) =>
    if found then
      -- cursor_position = 0; cursor_position += get_end_of_line_position()
      let b2 := setCursor b1 0
      (moveCursor b2 (firstLineLen b2.text), .ok)
    else (b1, .ok)
  | (b1, _, o) => (b1, o)

/-- `Buffer.history_backward(count)` -/
def historyBackward (b : Buf) (count : Int) : Buf × Outcome :=
  let b0 := setHistorySearch b
  let cands := (List.range b0.idx).reverse
  match histLoop cands count false b0 with
  | (b1, found, .ok) =>
    if found then (setCursor b1 b1.text.length, .ok) else (b1, .ok)
  | (b1, _, o) => (b1, o)

/-- `Buffer.go_to_history(index)` -/
def goToHistory (b : Buf) (i : Nat) : Buf × Outcome :=
  if i < b.lines.length then
    andThen (setWorkingIndex b i) fun b1 => (setCursor b1 b1.text.length, .ok)
  else (b, .ok)

/-- `Buffer.apply_search` once a result `(working_index, cursor_position)` was found -/
def applySearchResult (b : Buf) (i : Nat) (c : Int) : Buf × Outcome :=
  andThen (setWorkingIndex b i) fun b1 => (setCursor b1 c, .ok)

/-- `Buffer.cut_selection()` given the `(text, cursor)` of `Document.cut_selection()` -/
def cutSelection (b : Buf) (t : Text) (c : Int) : Buf × Outcome :=
  andThen (setDocument b t c false) fun b1 => (exitSelection b1, .ok)

/-! ### the API as an op language -/

/-- One call of the state-writing API of `Buffer`. -/
inductive Op
  | setCursor (v : Int)
  | setText (t : Text)
  | setDocument (t : Text) (c : Int) (bypass : Bool)
  | setWorkingIndex (i : Nat)
  | reset (t : Text) (c : Nat)
  | saveUndo (clear : Bool)
  | undo
  | redo
  | startSelection (typ : Nat)
  | exitSelection
  | appendLeft (item : Text)
  | moveCursor (d : Int)
  | insertText (data : Text) (overwrite move : Bool)
  | delete (n : Nat)
  | deleteBefore (n : Nat)
  | historyForward (count : Int)
  | historyBackward (count : Int)
  | goToHistory (i : Nat)
  | applySearch (i : Nat) (c : Int)
  | cutSelection (t : Text) (c : Int)
deriving Repr

def step (b : Buf) : Op → Buf × Outcome
  | .setCursor v => (setCursor b v, .ok)
  | .setText t => setText b t
  | .setDocument t c bp => setDocument b t c bp
  | .setWorkingIndex i => setWorkingIndex b i
  | .reset t c => reset b t c
  | .saveUndo cl => (saveUndo b cl, .ok)
  | .undo => undo b
  | .redo => redo b
  | .startSelection ty => (startSelection b ty, .ok)
  | .exitSelection => (exitSelection b, .ok)
  | .appendLeft it => (appendLeft b it, .ok)
  | .moveCursor d => (moveCursor b d, .ok)
  | .insertText d o m => insertText b d o m
  | .delete n => delete b n
  | .deleteBefore n => deleteBefore b n
  | .historyForward c => historyForward b c
  | .historyBackward c => historyBackward b c
  | .goToHistory i => goToHistory b i
  | .applySearch i c => applySearchResult b i c
  | .cutSelection t c => cutSelection b t c

/-- A handler body as a program over the API: runs until the first exception. -/
def run : Buf → List Op → Buf × Outcome
  | b, [] => (b, .ok)
  | b, op :: ops =>
    match step b op with
    | (b1, .ok) => run b1 ops
    | r => r

/-- The writes that by-pass the API (pinned source locations in key_binding/bindings/vi.py):
    `selection_state.original_cursor_position = …`, `selection_state.type = …`,
    `buff.multiple_cursor_positions = …`, and a raw `selection_state = SelectionState(a, t)`. -/
inductive Raw
  | selWrite (anchor : Int) (typ : Nat)
  | multi (ps : List Int)
  | hsearch (v : Option Text)     -- `history_search_text = …` (`_set_history_search`; not in the invariant)
deriving Repr

def stepRaw (b : Buf) : Raw → Buf
  | .selWrite a t => { b with sel := some ⟨a, t⟩ }
  | .multi ps => { b with multi := ps }
  | .hsearch v => { b with hsearch := v }

/-! ### Vi state, key processor -/

inductive InputMode
  | insert | insertMultiple | navigation | replace | replaceSingle
deriving DecidableEq, Repr

/-- `ViState` (key_binding/vi_state.py): the fields the property mentions. -/
structure Vi where
  mode : InputMode
  opPending : Bool            -- `operator_func is not None`
  opArg : Option Int          -- `operator_arg`
  waitingDigraph : Bool       -- `waiting_for_digraph`
  digraph1 : Option Text      -- `digraph_symbol1`
  tempNav : Bool              -- `temporary_navigation_mode`
  recording : Option Text     -- `recording_register`
  curRecording : Text         -- `current_recording`
deriving DecidableEq, Repr

/-- `ViState.input_mode = value` (after fix fb01c78: also forgets a half-entered digraph). -/
def Vi.setInputMode (v : Vi) (m : InputMode) : Vi :=
  if m = .navigation then
    { v with waitingDigraph := false, digraph1 := none, opPending := false, opArg := none, mode := m }
  else { v with mode := m }

/-- `ViState.reset()` -/
def Vi.reset (v : Vi) : Vi :=
  { (v.setInputMode .insert) with
      waitingDigraph := false, digraph1 := none, opPending := false, opArg := none,
      recording := none, curRecording := [] }

/-- What `_call_handler` sees of the application. -/
structure App where
  buf : Buf                   -- `app.current_buffer`
  vi : Vi                     -- `app.vi_state`
  viMode : Bool               -- `app.editing_mode == EditingMode.VI`
  arg : Option Text           -- `key_processor.arg`
deriving DecidableEq, Repr

/-- filter `vi_navigation_mode` (filters/app.py) -/
def viNavigationMode (a : App) : Bool :=
  if !a.viMode || a.vi.opPending || a.vi.waitingDigraph || a.buf.sel.isSome then false
  else a.vi.mode == .navigation || a.vi.tempNav || a.buf.readOnly

/-- `Document.current_char`: `text[cursor]` or '' -/
def currentChar (b : Buf) : Option Char := b.text[b.cur]?
/-- `Document.is_cursor_at_the_end_of_line`: `current_char in ("\n", "")` -/
def atEndOfLine (b : Buf) : Bool :=
  match currentChar b with
  | none => true
  | some c => c == '\n'
/-- `Document.current_line_before_cursor` -/
def lineBefore (b : Buf) : Text := (b.before.reverse.takeWhile notNl).reverse
/-- `Document.current_line_after_cursor` -/
def lineAfter (b : Buf) : Text := b.after.takeWhile notNl
def currentLine (b : Buf) : Text := lineBefore b ++ lineAfter b

/-- `KeyProcessor._fix_vi_cursor_position` -/
def fixViCursor (a : App) : App :=
  if viNavigationMode a && atEndOfLine a.buf && (currentLine a.buf).length > 0 then
    { a with buf := moveCursor a.buf (-1) }
  else a

/-- `KeyProcessor._leave_vi_temp_navigation_mode` -/
def leaveTempNav (a : App) : App :=
  if a.viMode then
    (if !a.vi.opPending && a.arg.isNone then { a with vi := { a.vi with tempNav := false } } else a)
  else a

/-- `KeyProcessor._call_handler(handler, key_sequence)` for a handler given as an arbitrary
    state transformer `h` that ends with an `Outcome`; `saveBefore` = `handler.save_before(event)`. -/
def callHandler (h : App → App × Outcome) (saveBefore : Bool) (a : App) : App × Outcome :=
  let wasTemp := a.vi.tempNav
  let a0 := { a with arg := none }
  let a1 := if saveBefore then { a0 with buf := saveUndo a0.buf true } else a0
  match h a1 with
  | (a2, .ok) =>
    let a3 := fixViCursor a2
    ((if wasTemp then leaveTempNav a3 else a3), .ok)
  | (a2, .readOnly) =>
    -- `except EditReadOnlyBuffer: app.output.bell()`
    ((if wasTemp then leaveTempNav a2 else a2), .ok)
  | (a2, o) => (a2, o)    -- any other exception propagates (the rest of `_call_handler` is skipped)

/-- The handler language used by the correspondence: API calls on the current buffer, raw
    by-passing writes, and writes to the Vi state / the numeric argument. -/
inductive HOp
  | buf (op : Op)
  | raw (r : Raw)
  | setMode (m : InputMode)
  | setOp (pending : Bool) (arg : Option Int)
  | setDigraph (waiting : Bool) (sym : Option Text)
  | setTempNav (t : Bool)
  | setArg (a : Option Text)
  | viReset
deriving Repr

def hstep (a : App) : HOp → App × Outcome
  | .buf op => let (b, o) := step a.buf op; ({ a with buf := b }, o)
  | .raw r => ({ a with buf := stepRaw a.buf r }, .ok)
  | .setMode m => ({ a with vi := a.vi.setInputMode m }, .ok)
  | .setOp p g => ({ a with vi := { a.vi with opPending := p, opArg := g } }, .ok)
  | .setDigraph w s => ({ a with vi := { a.vi with waitingDigraph := w, digraph1 := s } }, .ok)
  | .setTempNav t => ({ a with vi := { a.vi with tempNav := t } }, .ok)
  | .setArg g => ({ a with arg := g }, .ok)
  | .viReset => ({ a with vi := a.vi.reset }, .ok)

def hrun : App → List HOp → App × Outcome
  | a, [] => (a, .ok)
  | a, op :: ops =>
    match hstep a op with
    | (a1, .ok) => hrun a1 ops
    | r => r

/-! ### accept -/

/-- `Buffer.validate_and_handle()` with the accept handler of `PromptSession._create_default_buffer`
    (`get_app().exit(result=buff.document.text); return True`).
    `validator doc_text doc_cursor = some c` models `ValidationError(cursor_position=c)`.
    Returns the new buffer and the value handed to `Application.exit`. -/
def validateAndHandle (validator : Text → Nat → Option Int) (b : Buf) : Buf × Option Text :=
  match validator b.text b.cur with
  | some c =>
    -- `self.cursor_position = min(max(0, e.cursor_position), len(self.text))`
    (setCursor b (min (max 0 c) (b.text.length : Int)), none)
  | none =>
    -- `buff.document.text` is `Document(self.text, …).text`; keep_text = True: no reset
    (b, some b.text)

end Ptk.C05
