/-
  C08 — model of the Vi operator / text-object machinery of
  `src/prompt_toolkit/key_binding/bindings/vi.py`:

    * `TextObject.sorted / operator_range / get_line_numbers / cut`
      (the code as of /repo 71bdcd7, i.e. after the fixes 754945d, 91ece3a, 3d7917f, fc80c4b,
      0c4b424, 46db376, 71bdcd7: `TextObject.spans_nothing`, failing `j` / `k`, registers also store one empty
      line, LINES cut text keeps a selected empty last line; the BLOCK type that only visual
      block selections produce is not modelled)
    * `Document.cut_selection` / `selection_ranges` for a CHARACTERS / LINES selection in Vi mode
    * the operators `d c y` (+ `"x` register variants), `g? gu gU g~`, `> <`
    * the text objects `h l 0 $ ^ w W b B e E f F t T iw aw iW aW j k G gg`,
      brackets `i( a( …`, quotes `i" a" …`, `;` `,` (with the last character find as state),
      built on re-modelled `Document` queries
    * the argument multiplication of `create_text_object_decorator`.

  Conventions: text = `List Char`; absolute positions the code keeps non-negative are `Nat`,
  offsets relative to the cursor (`TextObject.start/end`, `operator_range`) are `Int`.
  `isSpace` = `str.isspace` (for `str.lstrip()`), `reSpace` = regex `\s`, `tf` = the transform
  callback (`str.upper` …) are parameters.  `none` results model an exception / a state the
  code cannot reach with in-range offsets (negative absolute positions, `Document(...)`
  assertion); `Props/C08.lean` proves that no modelled motion reaches them.
-/
import Ptk.Py
namespace Ptk.C08
open Ptk.Py

/-- `c != '\\n'` (named so that `simp` does not rewrite the lambda) -/
def notNl (c : Char) : Bool := c != '\n'

structure Doc where
  text : Text
  cur : Nat
deriving Repr, DecidableEq

def Doc.before (d : Doc) : Text := d.text.take d.cur
def Doc.after (d : Doc) : Text := d.text.drop d.cur

/-- `current_line_before_cursor` : `text_before_cursor.rpartition("\n")[2]` -/
def lineBefore (d : Doc) : Text := (d.before.reverse.takeWhile notNl).reverse
/-- `current_line_after_cursor` : `text_after_cursor.partition("\n")[0]` -/
def lineAfter (d : Doc) : Text := d.after.takeWhile notNl
def currentLine (d : Doc) : Text := lineBefore d ++ lineAfter d
def currentChar (d : Doc) : Option Char := d.text[d.cur]?

/-! ### index <-> (row, col)  (`_find_line_start_index`, `translate_*`) -/

/-- start of the line containing absolute index `i` (`i ≥ len`: the last line), i.e.
    `_line_start_indexes[bisect_right(indexes, i) - 1]` -/
def lineStart (t : Text) (i : Nat) : Nat :=
  (t.take i).length - ((t.take i).reverse.takeWhile notNl).length

/-- end of the line containing index `i`:
    `translate_row_col_to_index(row(i), len(lines[row(i)]))` -/
def lineEnd (t : Text) (i : Nat) : Nat :=
  min i t.length + ((t.drop i).takeWhile notNl).length

/-- row of index `i` : number of newlines before it -/
def rowOf (t : Text) (i : Nat) : Nat := ((t.take i).filter (· == '\n')).length

def lines (t : Text) : List Text := splitOn '\n' t
def lineCount (t : Text) : Nat := (lines t).length

def Doc.row (d : Doc) : Nat := rowOf d.text d.cur
def Doc.col (d : Doc) : Nat := d.cur - lineStart d.text d.cur

/-- `translate_row_col_to_index(row, col)` for `row, col ≥ 0` (row clamped to the last line,
    col to the line length, result to `len(text)`). -/
def rowColToIndex (t : Text) (row col : Nat) : Nat :=
  let ls := lines t
  let r := min row (ls.length - 1)
  let line := ls.getD r []
  min (((ls.take r).map (·.length + 1)).sum + min col line.length) t.length

/-- versions for a possibly negative index: `bisect_right(...) - 1 = -1` addresses the LAST
    line (Python negative index); the row is then `-1`. -/
def lineStartI (t : Text) (i : Int) : Int :=
  if i < 0 then lineStart t t.length else lineStart t i.toNat
def lineEndI (t : Text) (i : Int) : Int :=
  if i < 0 then t.length else lineEnd t i.toNat
def colI (t : Text) (i : Int) : Int :=
  if i < 0 then i - lineStart t t.length else i - lineStart t i.toNat
def rowI (t : Text) (i : Int) : Int :=
  if i < 0 then -1 else rowOf t i.toNat

/-! ### TextObject -/

inductive TOType | exclusive | inclusive | linewise
deriving Repr, DecidableEq

structure TextObject where
  start : Int
  stop : Int := 0
  type : TOType := .exclusive
deriving Repr, DecidableEq

/-- `TextObject.sorted` -/
def TextObject.sorted (o : TextObject) : Int × Int :=
  if o.start < o.stop then (o.start, o.stop) else (o.stop, o.start)

/-- `TextObject.operator_range(document)` (relative, end exclusive) -/
def operatorRange (d : Doc) (o : TextObject) : Int × Int :=
  let s := o.sorted.1
  let e := o.sorted.2
  match o.type with
  | .exclusive =>
    if s < e ∧ colI d.text (e + d.cur) = 0 then (s, e - 1) else (s, e)
  | .inclusive => (s, e + 1)
  | .linewise =>
    (lineStartI d.text (s + d.cur) - d.cur, lineEndI d.text (e + d.cur) - d.cur)

/-- `TextObject.spans_nothing(document)`: the range, cut off at the end of the text, is empty
    (`end = min(end, len(text) - cursor)`) -/
def spansNothing (d : Doc) (o : TextObject) : Bool :=
  o.type != .linewise &&
    decide ((operatorRange d o).1 ≥ min (operatorRange d o).2 ((d.text.length : Int) - d.cur))

/-- `TextObject.get_line_numbers(buffer)` -/
def getLineNumbers (d : Doc) (o : TextObject) : Int × Int :=
  let r := operatorRange d o
  (rowI d.text (r.1 + d.cur), rowI d.text (r.2 + d.cur))

/-- `ClipboardData(text, type)`; `lines = true` is `SelectionType.LINES`, else CHARACTERS -/
structure Clip where
  text : Text
  lines : Bool
deriving Repr, DecidableEq

/-- the single range of `Document.selection_ranges()` in Vi mode for a CHARACTERS / LINES
    selection between `a ≤ b` (the sorted cursor / original cursor) -/
def selRange (t : Text) (a b : Nat) (linesSel : Bool) : Nat × Nat :=
  if linesSel then
    (lineStart t a,                       -- max(0, text.rfind("\n", 0, from_) + 1)
     match findChar? '\n' (t.drop b) with -- text.find("\n", to)
     | some k => b + k + 1
     | none => t.length)                  -- len(text) - 1, then + 1
  else (a, b + 1)

/-- strip one trailing newline (LINES selection) -/
def stripNl (s : Text) : Text :=
  if s.getLast? = some '\n' then s.dropLast else s

/-- `Document(text, cursor, SelectionState(orig, type)).cut_selection()` in Vi mode -/
def cutSelection (t : Text) (cursor orig : Nat) (linesSel : Bool) : Doc × Clip :=
  let a := min cursor orig
  let b := max cursor orig
  let r := selRange t a b linesSel
  let remaining := t.take r.1 ++ t.drop r.2
  let cutText := (t.take r.2).drop r.1
  -- LINES: drop the newline that terminates the last selected line; when the selection runs to
  -- the end of the text (`text.find("\n", last) < 0`) a trailing newline is a selected empty line
  ({ text := remaining, cur := r.1 },
   { text := if linesSel && (findChar? '\n' (t.drop b)).isSome then stripNl cutText else cutText,
     lines := linesSel })

/-- `TextObject.cut(buffer)`; `none` = negative position / `Document` assertion (unreachable
    for in-range offsets). -/
def cut (d : Doc) (o : TextObject) : Option (Doc × Clip) :=
  let r := operatorRange d o
  let isLines := o.type == .linewise
  if !isLines && decide (r.1 ≥ r.2) then some (d, { text := [], lines := false })
  else
    let fa := r.1 + d.cur
    let ta := if isLines then r.2 + d.cur else r.2 + d.cur - 1
    if fa < 0 ∨ ta < 0 ∨ ta > d.text.length then none
    else some (cutSelection d.text ta.toNat fa.toNat isLines)

/-! ### editor state and operators -/

structure St where
  text : Text
  cur : Nat
  clip : Clip
  regs : List (Char × Clip)
  insert : Bool
deriving Repr, DecidableEq

def St.doc (s : St) : Doc := { text := s.text, cur := s.cur }

/-- `vi_register_names = ascii_lowercase + "0123456789"` -/
def isRegName (c : Char) : Bool := c.isLower || c.isDigit

def regSet (rs : List (Char × Clip)) (n : Char) (v : Clip) : List (Char × Clip) :=
  (n, v) :: rs.filter (fun p => p.1 != n)

def regGet (rs : List (Char × Clip)) (n : Char) : Option Clip :=
  (rs.find? (fun p => p.1 == n)).map (·.2)

/-- store cut data: named register (when the name is valid) or clipboard; nothing when the
    data is empty and not LINES (`clipboard_data.text or clipboard_data.type == LINES`) -/
def store (s : St) (reg : Option Char) (c : Clip) : St :=
  if c.text.isEmpty && !c.lines then s
  else match reg with
    | some r => if isRegName r then { s with regs := regSet s.regs r c } else s
    | none => { s with clip := c }

/-- `with_register and event.key_sequence[1].data not in vi_register_names` -/
def badReg : Option Char → Bool
  | some r => !isRegName r
  | none => false

/-- `d` / `c` / `"xd` / `"xc` (as of 46db376: a register name that does not exist — `"Ad` — makes
    the operator return before anything is cut, like the yank operator) -/
def opDelete (s : St) (o : TextObject) (reg : Option Char) (change : Bool) : Option St :=
  if badReg reg then some s
  else
    match cut s.doc o with
    | none => none
    | some (d', c) =>
      let s1 := store { s with text := d'.text, cur := d'.cur } reg c
      some { s1 with insert := s1.insert || change }

/-- `y` / `"xy` -/
def opYank (s : St) (o : TextObject) (reg : Option Char) : Option St :=
  match reg with
  | some r =>
    if isRegName r then
      match cut s.doc o with
      | none => none
      | some (_, c) => some (store s reg c)
    else some s
  | none =>
    match cut s.doc o with
    | none => none
    | some (_, c) => some (store s none c)

/-- `Buffer.cursor_position = v` (clamped) -/
def clampCur (v : Int) (len : Nat) : Nat := min v.toNat len

/-- `g?` `gu` `gU` `g~` with transform callback `f` -/
def opTransform (f : Text → Text) (s : St) (o : TextObject) : Option St :=
  let r := operatorRange s.doc o
  if r.1 < r.2 then
    let fa := r.1 + s.cur
    let ta := r.2 + s.cur
    if fa < 0 then none
    else
      let a := fa.toNat
      let b := ta.toNat
      let newText := s.text.take a ++ f ((s.text.take b).drop a) ++ s.text.drop b
      let cur1 := min s.cur newText.length          -- `Buffer.text = …` clamps the cursor
      let mv := if o.stop ≠ 0 then o.stop else o.start   -- `text_object.end or text_object.start`
      some { s with text := newText, cur := clampCur (cur1 + mv) newText.length }
  else some s

def indentUnit : Text := [' ', ' ', ' ', ' ']

/-- `Buffer.transform_lines(range(a, b), f)` for `0 ≤ a` -/
def transformLines (f : Text → Text) (t : Text) (a b : Nat) : Text :=
  join ['\n'] ((lines t).mapIdx fun i l => if a ≤ i ∧ i < b then f l else l)

/-- `buffer.indent(buffer, from_row, to_row, count)` -/
def indent (s : St) (fromRow toRow count : Nat) : St :=
  let row := s.doc.row
  let col := s.doc.col
  let ic := repeatText indentUnit count
  let newText := transformLines (fun l => ic ++ l) s.text fromRow toRow
  let c0 := rowColToIndex newText row 0
  { s with text := newText, cur := clampCur ((c0 : Int) + col + ic.length) newText.length }

/-- `buffer.unindent(...)` -/
def unindent (isSpace : Char → Bool) (s : St) (fromRow toRow count : Nat) : St :=
  let row := s.doc.row
  let col := s.doc.col
  let ic := repeatText indentUnit count
  let tr : Text → Text := fun l =>
    if isPrefixOf' ic l then l.drop ic.length else l.dropWhile isSpace
  let newText := transformLines tr s.text fromRow toRow
  let c0 := rowColToIndex newText row 0
  { s with text := newText, cur := clampCur ((c0 : Int) + col - ic.length) newText.length }

/-- `>` / `<` (with the `spans_nothing` guard) -/
def opIndent (isSpace : Char → Bool) (s : St) (o : TextObject) (count : Nat) (un : Bool) :
    Option St :=
  if spansNothing s.doc o then some s
  else
    let ln := getLineNumbers s.doc o
    if ln.1 < 0 ∨ ln.2 < 0 then none
    else if un then some (unindent isSpace s ln.1.toNat (ln.2.toNat + 1) count)
    else some (indent s ln.1.toNat (ln.2.toNat + 1) count)

/-! ### Document queries used by the text objects -/

/-- positions of the character `c` in `t` (`re.finditer(re.escape(c), t)`) -/
def occGo (c : Char) : Nat → Text → List Nat
  | _, [] => []
  | pos, x :: xs => if x = c then pos :: occGo c (pos + 1) xs else occGo c (pos + 1) xs
def occ (c : Char) (t : Text) : List Nat := occGo c 0 t

/-- `for i, m in enumerate(it): if i + 1 == count: return m` -/
def nth {α : Type} (l : List α) (count : Nat) : Option α :=
  if count = 0 then none else l[count - 1]?

/-- `Document.find(c, in_current_line, count=count)` (include_current_position = False) -/
def findFwd (d : Doc) (c : Char) (inLine : Bool) (count : Nat) : Option Int :=
  let text := if inLine then lineAfter d else d.after
  if text.isEmpty then none
  else (nth (occ c (text.drop 1)) count).map fun (k : Nat) => (k : Int) + 1

/-- `Document.find_backwards(c, in_current_line, count=count)` -/
def findBwd (d : Doc) (c : Char) (inLine : Bool) (count : Nat) : Option Int :=
  let text := if inLine then (lineBefore d).reverse else d.before.reverse
  (nth (occ c text) count).map fun (k : Nat) => -(k : Int) - 1

/-- ASCII `[a-zA-Z0-9_]` -/
def isWordChar (c : Char) : Bool := c.isAlphanum || c = '_'

/-- character class of the word regexes, alternatives tried in the order of the pattern:
    `_FIND_WORD_RE = ([a-zA-Z0-9_]+|[^a-zA-Z0-9_\s]+)` : 1 = `[a-zA-Z0-9_]` (tested FIRST), then
    0 = `\s`, else 2;  `_FIND_BIG_WORD_RE = ([^\s]+)` : 0 = `\s`, else 1 -/
def cls (reSpace : Char → Bool) (big : Bool) (c : Char) : Nat :=
  if big then (if reSpace c then 0 else 1)
  else if isWordChar c then 1 else if reSpace c then 0 else 2

/-- matches `(start, end)` of `_FIND_WORD_RE` / `_FIND_BIG_WORD_RE` `.finditer(t)`:
    the maximal runs of one non-zero class -/
def runsAux (cl : Char → Nat) : Nat → Option (Nat × Nat) → Text → List (Nat × Nat)
  | _, none, [] => []
  | pos, some (s, _), [] => [(s, pos)]
  | pos, none, c :: r =>
    if cl c = 0 then runsAux cl (pos + 1) none r else runsAux cl (pos + 1) (some (pos, cl c)) r
  | pos, some (s, k), c :: r =>
    if cl c = k then runsAux cl (pos + 1) (some (s, k)) r
    else (s, pos) ::
      (if cl c = 0 then runsAux cl (pos + 1) none r else runsAux cl (pos + 1) (some (pos, cl c)) r)

def runs (cl : Char → Nat) (t : Text) : List (Nat × Nat) := runsAux cl 0 none t

/-- `find_start_of_previous_word(count, WORD)` -/
def findStartOfPreviousWord (sp : Char → Bool) (d : Doc) (count : Nat) (big : Bool) : Option Int :=
  (nth (runs (cls sp big) d.before.reverse) count).map fun (m : Nat × Nat) => -(m.2 : Int)

/-- `find_next_word_beginning(count, WORD)` (count ≥ 0) -/
def findNextWordBeginning (sp : Char → Bool) (d : Doc) (count : Nat) (big : Bool) : Option Int :=
  let ms := runs (cls sp big) d.after
  -- `if i == 0 and match.start(1) == 0: count += 1`
  let count' := match ms with
    | (0, _) :: _ => count + 1
    | _ => count
  -- `if i + 1 == count: return match.start(1)` (count = 0: only the bumped count 1 is ever reached,
  -- `Document('ab cd', 0).find_next_word_beginning(count=0) == 0`)
  (nth ms count').map fun (m : Nat × Nat) => (m.1 : Int)

/-- `find_next_word_ending(count, WORD)` (include_current_position = False) -/
def findNextWordEnding (sp : Char → Bool) (d : Doc) (count : Nat) (big : Bool) : Option Int :=
  (nth (runs (cls sp big) (d.after.drop 1)) count).map fun (m : Nat × Nat) => (m.2 : Int) + 1

/-- `^(word)` / `^(word\s*)` `.search(t)` → `end(1)` -/
def currentWordEnd (sp : Char → Bool) (big trailing : Bool) (t : Text) : Option Nat :=
  match t with
  | [] => none
  | c :: r =>
    let k := cls sp big c
    if k = 0 then none
    else
      let run := r.takeWhile fun x => cls sp big x == k
      let e := 1 + run.length
      if trailing then some (e + ((r.drop run.length).takeWhile sp).length) else some e

/-- `find_boundaries_of_current_word(WORD, include_trailing_whitespace)` -/
def wordBoundaries (sp : Char → Bool) (d : Doc) (big trailing : Bool) : Int × Int :=
  let mb := currentWordEnd sp big false (lineBefore d).reverse
  let ma := currentWordEnd sp big trailing (lineAfter d)
  let mb := if !big && mb.isSome && ma.isSome then
      match d.text[d.cur - 1]?, d.text[d.cur]? with
      | some c1, some c2 => if isWordChar c1 != isWordChar c2 then none else mb
      | _, _ => mb   -- IndexError: unreachable (both matches exist)
    else mb
  ((match mb with | some e => -(e : Int) | none => 0),
   (match ma with | some e => (e : Int) | none => 0))

/-- the bracket walk of `find_enclosing_bracket_right/left`: `stack` open brackets, `off` the
    offset of the head of the list -/
def walk (inc dec : Char) : Nat → Nat → Text → Option Nat
  | _, _, [] => none
  | stack, off, c :: rest =>
    if c = inc then walk inc dec (stack + 1) (off + 1) rest
    else if c = dec then
      (if stack ≤ 1 then some off else walk inc dec (stack - 1) (off + 1) rest)
    else walk inc dec stack (off + 1) rest

/-- `find_enclosing_bracket_right(l, r)` -/
def enclosingRight (d : Doc) (l r : Char) : Option Int :=
  if currentChar d = some r then some 0
  else (walk l r 1 1 (d.text.drop (d.cur + 1))).map fun (k : Nat) => (k : Int)

/-- `find_enclosing_bracket_left(l, r)` -/
def enclosingLeft (d : Doc) (l r : Char) : Option Int :=
  if currentChar d = some l then some 0
  else (walk r l 1 1 d.before.reverse).map fun (k : Nat) => -(k : Int)


/-- `find_previous_word_ending(count, WORD)` (count ≥ 0) -/
def findPreviousWordEnding (sp : Char → Bool) (d : Doc) (count : Nat) (big : Bool) : Option Int :=
  -- text_before_cursor = self.text_after_cursor[:1] + self.text_before_cursor[::-1]
  let ms := runs (cls sp big) (d.after.take 1 ++ d.before.reverse)
  -- `if i == 0 and match.start(1) == 0: count += 1`
  let count' := match ms with
    | (0, _) :: _ => count + 1
    | _ => count
  (nth ms count').map fun (m : Nat × Nat) => -(m.1 : Int) + 1

/-- `str.rstrip()` -/
def rstrip (isSpace : Char → Bool) (l : Text) : Text := (l.reverse.dropWhile isSpace).reverse

/-- the four pairs of `find_matching_bracket_position`, in the order the code tries them -/
def bracketPairs : List (Char × Char) := [('(', ')'), ('[', ']'), ('{', '}'), ('<', '>')]

/-- `find_matching_bracket_position()` -/
def matchingBracketGo (d : Doc) : List (Char × Char) → Int
  | [] => 0
  | (a, b) :: rest =>
    if currentChar d = some a then orZero' (enclosingRight d a b)
    else if currentChar d = some b then orZero' (enclosingLeft d a b)
    else matchingBracketGo d rest
where orZero' : Option Int → Int
  | some v => v
  | none => 0

def matchingBracket (d : Doc) : Int := matchingBracketGo d bracketPairs

/-- the `match_func` of `start_of_paragraph` / `end_of_paragraph`: `not text or text.isspace()` -/
def blankLine (isSpace : Char → Bool) (l : Text) : Bool := l.isEmpty || l.all isSpace

/-- the loop of `find_next_matching_line` / `find_previous_matching_line` over the lines below /
    above the cursor (nearest first): index of the line that `result` names when the loop ends -/
def scanMatch (blank : Text → Bool) : List Text → Nat → Int → Option Nat → Option Nat
  | [], _, _, res => res
  | l :: rest, idx, count, res =>
    let res' := if blank l then some idx else res
    let count' := if blank l then count - 1 else count
    if count' = 0 then res' else scanMatch blank rest (idx + 1) count' res'

/-- `start_of_paragraph(count, before)` -/
def startOfParagraph (isSpace : Char → Bool) (d : Doc) (count : Nat) (before : Bool) : Int :=
  match scanMatch (blankLine isSpace) ((lines d.text).take d.row).reverse 0 count none with
  | some i =>          -- line_index = -1 - i ; get_cursor_up_position(count = -line_index)
    min 0 ((rowColToIndex d.text (d.row - (i + 1)) d.col : Int) - d.cur + (if before then 0 else 1))
  | none => -(d.cur : Int)

/-- `end_of_paragraph(count, after)` -/
def endOfParagraph (isSpace : Char → Bool) (d : Doc) (count : Nat) (after : Bool) : Int :=
  match scanMatch (blankLine isSpace) ((lines d.text).drop (d.row + 1)) 0 count none with
  | some i =>          -- line_index = 1 + i ; get_cursor_down_position(count = line_index)
    max 0 ((rowColToIndex d.text (d.row + (i + 1)) d.col : Int) - d.cur - (if after then 0 else 1))
  | none => (d.after.length : Int)

/-! ### text objects -/

/-- `H` `M` `L` -/
inductive Screen | top | middle | bottom
deriving Repr, DecidableEq

inductive Motion
  | h | l | zero | dollar | caret
  | w (big : Bool) | b (big : Bool) | e (big : Bool)
  | f (c : Char) | F (c : Char) | t (c : Char) | T (c : Char)
  | iw (big : Bool) | aw (big : Bool)
  | j | k | G | gg
  | bracket (l r : Char) (inner : Bool)
  | quote (q : Char) (inner : Bool)
  /-- `;` (`reverse = false`) / `,` (`reverse = true`): repeat the last `f F t T`;
      `last` = `vi_state.last_character_find` as `(character, backwards)` -/
  | repeatFind (last : Option (Char × Bool)) (reverse : Bool)
  /-- `ge` / `gE` -/
  | ge (big : Bool)
  /-- `g_` -/
  | gUnder
  /-- `|` -/
  | bar
  /-- `%`; `argPresent` = `event._arg` is set (a count was typed before the operator or the
      motion): then `N%` is the linewise jump to N percent of the lines -/
  | percent (argPresent : Bool)
  /-- `{` and `}` -/
  | braceUp | braceDown
  /-- `ap` -/
  | ap
  /-- `H` `M` `L`; `row` = the line `Window.render_info` reports (first visible line after the
      scroll offset / centre line / last visible line before the scroll offset), `none` when the
      window has not been rendered -/
  | screen (which : Screen) (row : Option Nat)
  /-- `gm`; `width` = `render_info.window_width` -/
  | gm (width : Option Nat)
  | raw (o : TextObject)
deriving Repr, DecidableEq

/-- `x or 0` for an optional int -/
def orZero : Option Int → Int
  | some v => v
  | none => 0

/-- the text-object functions of `load_vi_bindings`, `count = event.arg` -/
def textObject (isSpace sp : Char → Bool) (d : Doc) (count : Nat) : Motion → TextObject
  | .h => { start := -(min d.col count : Nat) }
  | .l => { start := (min count (lineAfter d).length : Nat) }
  | .zero => { start := -((lineBefore d).length : Int) }
  | .dollar => { start := ((lineAfter d).length : Nat) }
  | .caret =>
    let line := currentLine d
    { start := (line.length : Int) - (line.dropWhile isSpace).length - d.col }
  | .w big =>
    let eod : Int := (d.text.length : Int) - d.cur
    { start := match findNextWordBeginning sp d count big with
        | some v => if v ≠ 0 then v else eod
        | none => eod }
  | .b big => { start := orZero (findStartOfPreviousWord sp d count big) }
  | .e big =>
    { start := match findNextWordEnding sp d count big with
        | some v => if v ≠ 0 then v - 1 else 0
        | none => 0,
      type := .inclusive }
  | .f c =>
    match findFwd d c true count with
    | some m => if m ≠ 0 then { start := m, type := .inclusive } else { start := 0 }
    | none => { start := 0 }
  | .F c => { start := orZero (findBwd d c true count) }
  | .t c =>
    match findFwd d c true count with
    | some m => if m ≠ 0 then { start := m - 1, type := .inclusive } else { start := 0 }
    | none => { start := 0 }
  | .T c =>
    { start := match findBwd d c true count with
        | some m => if m ≠ 0 then m + 1 else 0
        | none => 0 }
  | .iw big => let r := wordBoundaries sp d big false; { start := r.1, stop := r.2 }
  | .aw big => let r := wordBoundaries sp d big true; { start := r.1, stop := r.2 }
  | .j =>
    if d.row = lineCount d.text - 1 then { start := 0 }      -- on_last_line: the motion fails
    else { start := (rowColToIndex d.text (d.row + count) d.col : Int) - d.cur, type := .linewise }
  | .k =>
    if d.row = 0 then { start := 0 }                         -- on_first_line: the motion fails
    else { start := (rowColToIndex d.text (d.row - count) d.col : Int) - d.cur, type := .linewise }
  | .G => { start := (rowColToIndex d.text (lineCount d.text - 1) 0 : Int) - d.cur, type := .linewise }
  | .gg => { start := (rowColToIndex d.text (count - 1) 0 : Int) - d.cur, type := .linewise }
  | .bracket l r inner =>
    match enclosingLeft d l r, enclosingRight d l r with
    | some s, some e =>
      let off : Int := if inner then 0 else 1
      { start := s + 1 - off, stop := e + off }
    | _, _ => { start := 0 }
  | .quote q inner =>
    match findBwd d q false 1, findFwd d q false 1 with
    | some s, some e =>
      let off : Int := if inner then 0 else 1
      { start := s + 1 - off, stop := e + off }
    | _, _ => { start := 0 }
  | .repeatFind last reverse =>
    match last with
    | none => { start := 0 }
    | some (c, bw) =>
      -- `if reverse: backwards = not backwards`; only the forward search is INCLUSIVE
      if (if reverse then !bw else bw) then
        match findBwd d c true count with
        | some p => if p ≠ 0 then { start := p } else { start := 0 }
        | none => { start := 0 }
      else
        match findFwd d c true count with
        | some p => if p ≠ 0 then { start := p, type := .inclusive } else { start := 0 }
        | none => { start := 0 }
  | .ge big =>
    match findPreviousWordEnding sp d count big with
    | some p => { start := p - 1, type := .inclusive }
    | none => { start := 0 }                                   -- no previous word: the motion fails
  | .gUnder =>
    if (currentLine d).isEmpty then { start := 0 }             -- empty line: nothing to span
    else { start := (((rstrip isSpace (currentLine d)).length - 1 : Nat) : Int) - d.col, type := .inclusive }
  | .bar => { start := ((min (currentLine d).length (count - 1) : Nat) : Int) - d.col }
  | .percent argPresent =>
    if argPresent then
      if 0 < count ∧ count ≤ 100 then
        -- int((event.arg * line_count - 1) / 100)
        { start := (rowColToIndex d.text ((count * lineCount d.text - 1) / 100) 0 : Int) - d.cur,
          type := .linewise }
      else { start := 0 }
    else
      if matchingBracket d ≠ 0 then { start := matchingBracket d, type := .inclusive } else { start := 0 }
  | .braceUp => { start := startOfParagraph isSpace d count true }
  | .braceDown => { start := endOfParagraph isSpace d count true }
  | .ap => { start := startOfParagraph isSpace d 1 false, stop := endOfParagraph isSpace d count false }
  | .screen which row =>
    match row with
    | some r => { start := (rowColToIndex d.text r 0 : Int) - d.cur, type := .linewise }
    | none =>
      match which with
      | .bottom => { start := (d.after.length : Int), type := .linewise }
      | _ => { start := -(d.before.length : Int), type := .linewise }
  | .gm width =>
    match width with
    | some w =>
      -- (71bdcd7) `if w and w.render_info and buff.document.current_line:`
      --           start-of-line + int(min(width / 2, len(current_line) - 1))
      if (currentLine d).isEmpty then { start := 0 }
      else { start := -((lineBefore d).length : Int) + (min (w / 2) ((currentLine d).length - 1) : Nat),
             type := .inclusive }
    | none => { start := 0 }
  | .raw o => o

/-- `vi_state.last_character_find = CharacterFind(event.data, backwards)` as set by the
    `f F t T` handlers (also when the search fails; `t`/`T` are remembered as `f`/`F`) -/
def lastFindOf : Motion → Option (Char × Bool)
  | .f c => some (c, false)
  | .t c => some (c, false)
  | .F c => some (c, true)
  | .T c => some (c, true)
  | _ => none

/-- `KeyPressEvent.arg` of a typed / computed argument: "don't exceed a million" -/
def normArg (n : Nat) : Nat := if n ≥ 1000000 then 1 else n

/-- `event._arg = str((operator_arg or 1) * (event.arg or 1))`, read back through `event.arg` -/
def combineArgs (opArg motArg : Option Nat) : Nat :=
  let a := match opArg with | some n => (if normArg n = 0 then 1 else normArg n) | none => 1
  let b := match motArg with | some n => (if normArg n = 0 then 1 else normArg n) | none => 1
  normArg (a * b)

inductive Transform | rot13 | lower | upper | swap
deriving Repr, DecidableEq

inductive Op
  | delete (reg : Option Char)
  | change (reg : Option Char)
  | yank (reg : Option Char)
  | transform (k : Transform)
  | indent
  | unindent
deriving Repr, DecidableEq

structure Env where
  isSpace : Char → Bool
  reSpace : Char → Bool
  tf : Transform → Text → Text

/-- the operator function called with a text object and `event.arg = count` -/
def applyOp (env : Env) (s : St) (op : Op) (o : TextObject) (count : Nat) : Option St :=
  match op with
  | .delete reg => opDelete s o reg false
  | .change reg => opDelete s o reg true
  | .yank reg => opYank s o reg
  | .transform k => opTransform (env.tf k) s o
  | .indent => opIndent env.isSpace s o count false
  | .unindent => opIndent env.isSpace s o count true

/-- `[count] <operator> [count] <motion>` in navigation mode -/
def run (env : Env) (s : St) (opArg : Option Nat) (op : Op) (motArg : Option Nat) (m : Motion) :
    Option St :=
  let count := combineArgs opArg motArg
  applyOp env s op (textObject env.isSpace env.reSpace s.doc count m) count

/-! ### `gq` : `reshape_text` -/

/-- `str.splitlines(True)` for a text whose only line separator is "\n" (the other separators of
    `splitlines` — \r \v \f \x1c-\x1e \x85     — are outside the modelled alphabet) -/
def splitlinesKeep : Text → Text → List Text
  | [], [] => []
  | [], acc => [acc.reverse]
  | c :: r, acc => if c = '\n' then (c :: acc).reverse :: splitlinesKeep r [] else splitlinesKeep r (c :: acc)

/-- `str.split()` : the maximal runs of non-whitespace characters -/
def splitWords (isSpace : Char → Bool) : Text → Text → List Text
  | [], [] => []
  | [], acc => [acc.reverse]
  | c :: r, acc =>
    if isSpace c then (if acc.isEmpty then splitWords isSpace r [] else acc.reverse :: splitWords isSpace r [])
    else splitWords isSpace r (c :: acc)

/-- the filling loop of `reshape_text`: words separated by one space, a new line (+ indent) when
    `len(w) + current_width + 1 > width` -/
def fillWords (indent : Text) (width : Int) : List Text → Nat → Text
  | [], _ => []
  | w :: ws, cw =>
    if cw ≠ 0 then
      if (w.length : Int) + cw + 1 > width then '\n' :: indent ++ w ++ fillWords indent width ws w.length
      else ' ' :: w ++ fillWords indent width ws (cw + 1 + w.length)
    else w ++ fillWords indent width ws w.length

/-- `reshape_text(buffer, from_row, to_row)`; `tw` = `buffer.text_width or 80` -/
def reshapeText (env : Env) (tw : Nat) (s : St) (fromRow toRow : Nat) : St :=
  let ls := splitlinesKeep s.text []
  let before := ls.take fromRow
  let after := ls.drop (toRow + 1)
  let mid := (ls.take (toRow + 1)).drop fromRow
  match mid with
  | [] => s
  | line0 :: _ =>
    -- re.search(r"^\s*", line0) ; indent = line0[:length].replace("\n", "")
    let indent := (line0.takeWhile env.reSpace).filter (· != '\n')
    let words := splitWords env.isSpace mid.flatten []
    let width : Int := (tw : Int) - indent.length
    let reshaped := indent ++ fillWords indent width words 0 ++ ['\n']
    { s with text := before.flatten ++ reshaped ++ after.flatten,
             cur := (before.flatten ++ reshaped).length }

/-- `gq` (with the `spans_nothing` guard) -/
def opReshape (env : Env) (tw : Nat) (s : St) (o : TextObject) : Option St :=
  if spansNothing s.doc o then some s
  else
    let ln := getLineNumbers s.doc o
    if ln.1 < 0 ∨ ln.2 < 0 then none
    else some (reshapeText env tw s ln.1.toNat ln.2.toNat)

/-- `[count] gq [count] <motion>` -/
def runReshape (env : Env) (tw : Nat) (s : St) (opArg motArg : Option Nat) (m : Motion) : Option St :=
  opReshape env tw s (textObject env.isSpace env.reSpace s.doc (combineArgs opArg motArg) m)

/-! ### the doubled linewise forms `>>` `<<` `guu` `gUU` `g~~` (own handlers, not operator + motion) -/

inductive Double | indent | unindent | lower | upper | swap
deriving Repr, DecidableEq

/-- `Buffer.transform_current_line(f)` : `text[:a] + f(text[a:b]) + text[b:]` with `a`, `b` the
    start / end of the cursor line; the `text` setter clamps the cursor -/
def transformCurrentLine (f : Text → Text) (s : St) : St :=
  let a := s.cur - (lineBefore s.doc).length
  let b := s.cur + (lineAfter s.doc).length
  let newText := s.text.take a ++ f ((s.text.take b).drop a) ++ s.text.drop b
  { s with text := newText, cur := min s.cur newText.length }

/-- `_indent` / `_unindent` (`indent(buffer, row, row + event.arg)`: `count` lines, ONE indent unit)
    and `_lowercase_line` / `_uppercase_line` / `_swapcase_line` (the count is ignored) -/
def runDouble (env : Env) (s : St) (k : Double) (count : Nat) : St :=
  match k with
  | .indent => indent s s.doc.row (s.doc.row + count) 1
  | .unindent => unindent env.isSpace s s.doc.row (s.doc.row + count) 1
  | .lower => transformCurrentLine (env.tf .lower) s
  | .upper => transformCurrentLine (env.tf .upper) s
  | .swap => transformCurrentLine (env.tf .swap) s

/-- the `~` operator (registered with the filter `tilde_operator`) is `create_transform_handler`
    with `str.swapcase`, the same body as `g~` -/
def tildeOp : Op := .transform .swap

/-- `KeyProcessor._fix_vi_cursor_position`: after every handler in navigation mode the cursor
    is pulled back from the end of a non-empty line. -/
def fixViCursor (t : Text) (cur : Nat) : Nat :=
  let d : Doc := { text := t, cur := cur }
  if (currentChar d = some '\n' ∨ currentChar d = none) ∧ (currentLine d).length > 0
  then cur - 1 else cur

def St.fix (s : St) : St := if s.insert then s else { s with cur := fixViCursor s.text s.cur }

/-- the whole key sequence `[count] <operator> [count] <motion>` through the key processor:
    a leading count is a handler of its own and is followed by the fix (the operator key is
    not: `vi_navigation_mode` is false while an operator is pending); the text-object handler
    clears the operator and is followed by the fix again -/
def runKeys (env : Env) (s : St) (opArg : Option Nat) (op : Op) (motArg : Option Nat) (m : Motion) :
    Option St :=
  (run env (if opArg.isSome then s.fix else s) opArg op motArg m).map St.fix

/-- `[count] <motion>` typed alone in navigation mode: `cursor_position += text_object.start` -/
def moveAlone (env : Env) (s : St) (motArg : Option Nat) (m : Motion) : Nat :=
  let count := match motArg with | some n => (if normArg n = 0 then 1 else normArg n) | none => 1
  clampCur ((s.cur : Int) + (textObject env.isSpace env.reSpace s.doc count m).start) s.text.length

def moveAloneKeys (env : Env) (s : St) (motArg : Option Nat) (m : Motion) : Nat :=
  fixViCursor s.text (moveAlone env (if motArg.isSome then s.fix else s) motArg m)

/-- the key sequence `[count] gq [count] <motion>` (see `runKeys`) -/
def runReshapeKeys (env : Env) (tw : Nat) (s : St) (opArg motArg : Option Nat) (m : Motion) : Option St :=
  (runReshape env tw (if opArg.isSome then s.fix else s) opArg motArg m).map St.fix

/-- `[count] f|F|t|T <c>` typed as a movement, then `[count] <operator> [count] ;|,` : the
    character find moves the cursor and leaves `last_character_find` for the repeat motion -/
def runKeysAfterFind (env : Env) (s : St) (findArg : Option Nat) (fm : Motion)
    (opArg : Option Nat) (op : Op) (motArg : Option Nat) (reverse : Bool) : Option St :=
  runKeys env { s with cur := moveAloneKeys env s findArg fm } opArg op motArg
    (.repeatFind (lastFindOf fm) reverse)

/-- the same with the repeat motion typed alone -/
def moveAloneKeysAfterFind (env : Env) (s : St) (findArg : Option Nat) (fm : Motion)
    (motArg : Option Nat) (reverse : Bool) : Nat :=
  moveAloneKeys env { s with cur := moveAloneKeys env s findArg fm } motArg
    (.repeatFind (lastFindOf fm) reverse)

end Ptk.C08
