/-
  C19 — shared types of the style / colour models (core Lean only).
  `Attrs` mirrors `prompt_toolkit.styles.base.Attrs` (a NamedTuple whose fields may be None);
  `Tables` bundles every table of /repo the models read.  The concrete tables are
  regenerated from the live objects on every run (`Ptk/Gen/C19.lean`); all theorems are
  stated for an arbitrary `Tables` value satisfying decidable side conditions.
-/
import Ptk.Py
namespace Ptk.C19
export Ptk.Py (Text)

abbrev RGB := Nat × Nat × Nat

/-- `styles/base.py: class Attrs(NamedTuple)`; `none` = Python `None`. -/
structure Attrs where
  color : Option Text
  bgcolor : Option Text
  bold : Option Bool
  underline : Option Bool
  strike : Option Bool
  italic : Option Bool
  blink : Option Bool
  reverse : Option Bool
  hidden : Option Bool
deriving DecidableEq, Repr, Inhabited

structure Tables where
  /-- ANSI_COLOR_NAMES -/
  ansiNames : List Text
  /-- ANSI_COLOR_NAMES_ALIASES -/
  aliases : List (Text × Text)
  /-- _named_colors_lowercase -/
  named : List (Text × Text)
  /-- FG_ANSI_COLORS / BG_ANSI_COLORS -/
  fg : List (Text × Nat)
  bg : List (Text × Nat)
  /-- ANSI_COLORS_TO_RGB in iteration order -/
  ansiRgb : List (Text × RGB)
  /-- _256_colors.colors -/
  pal256 : List RGB
  /-- formatted_text/ansi.py: _fg_colors, _bg_colors, _256_colors -/
  decFg : List (Nat × Text)
  decBg : List (Nat × Text)
  dec256 : List (Nat × Text)
  /-- DEFAULT_ATTRS, _EMPTY_ATTRS -/
  defaultAttrs : Attrs
  emptyAttrs : Attrs
  /-- behaviour probe: does `parse_color` reject '#' + non-hex characters (ValueError)? -/
  hexValidated : Bool

/-- `dict.get(k)` on an association list (keys of a dict are unique; first match). -/
def lookup [BEq κ] (k : κ) : List (κ × α) → Option α
  | [] => none
  | (k', v) :: rest => if k' == k then some v else lookup k rest

end Ptk.C19
