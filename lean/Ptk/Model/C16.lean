/-
  C16 — model of text search in `prompt_toolkit`:

    document.py   Document.find / Document.find_backwards   (count = 1, not in_current_line)
    buffer.py     Buffer._search / apply_search / get_search_position / document_for_search
    search.py     start_search / stop_search / do_incremental_search / accept_search
    key_binding/bindings/search.py (+ the emacs / vi search bindings that call them)
    layout/controls.py  BufferControl.create_content : which Document is displayed (preview)

  Conventions.
  * `eq needleChar textChar` models the character comparison of `re` for the escaped
    (literal) pattern: `(· == ·)` normally, ASCII case folding under `re.IGNORECASE`.
    It is a parameter; every theorem holds for every `eq`.
  * `re.finditer(re.escape(sub), t)`: only the FIRST match is ever used by the anchored code
    (`count = 1`), and the first match of a literal pattern is its leftmost occurrence:
    `findFirst`.
  * `lines` = `Buffer._working_lines`, `widx` = `working_index`, `cur` = `cursor_position`.
-/
import Ptk.Py
namespace Ptk.C16
open Ptk.Py

/-! ### literal scanner -/

/-- the literal pattern `sub` matches at the very start of `t` -/
def prefixBy (eq : Char → Char → Bool) : Text → Text → Bool
  | [], _ => true
  | _ :: _, [] => false
  | a :: as, b :: bs => eq a b && prefixBy eq as bs

/-- `next(re.finditer(re.escape(sub), t)).start()` : leftmost occurrence, `none` if there is none.
    (The empty pattern matches at 0, also in the empty text.) -/
def findFirst (eq : Char → Char → Bool) (sub : Text) : Text → Option Nat
  | [] => if prefixBy eq sub [] then some 0 else none
  | x :: xs =>
    if prefixBy eq sub (x :: xs) then some 0
    else (findFirst eq sub xs).map (· + 1)

/-- `Document(text, cur).find(sub, include_current_position=incl, ignore_case=…)`
    (offset relative to the cursor) -/
def docFind (eq : Char → Char → Bool) (text : Text) (cur : Nat) (sub : Text) (incl : Bool) :
    Option Nat :=
  let t := text.drop cur                      -- text_after_cursor
  if !incl then
    if t.length == 0 then none                -- "otherwise we always get a match for the empty string"
    else (findFirst eq sub (t.drop 1)).map (· + 1)   -- text[1:] ; match.start(0) + 1
  else findFirst eq sub t

/-- `Document(text, cur).find_backwards(sub, ignore_case=…)` : a non-positive offset relative
    to the cursor: `-match.start(0) - len(sub)` for the first match of the reversed needle in the
    reversed text before the cursor. -/
def docFindBack (eq : Char → Char → Bool) (text : Text) (cur : Nat) (sub : Text) : Option Int :=
  let before := (text.take cur).reverse       -- text_before_cursor[::-1]
  (findFirst eq sub.reverse before).map fun (s : Nat) => -(s : Int) - (sub.length : Int)

/-! ### Buffer._search -/

inductive Dir where
  | fwd | bwd
deriving Repr, DecidableEq

/-- `~search_state` -/
def Dir.inv : Dir → Dir
  | .fwd => .bwd
  | .bwd => .fwd

/-- `self._working_lines[i]` (the index is in range under the buffer invariant) -/
def entry (ls : List Text) (i : Nat) : Text := ls.getD i []

/-- a `for i in …: … if found: return …` loop: the first index whose body returns -/
def firstSome {β : Type} (f : Nat → Option β) : List Nat → Option β
  | [] => none
  | i :: is =>
    match f i with
    | some r => some r
    | none => firstSome f is

/-- the indices visited by `for i in range(w + 1, n + 1): i %= n` -/
def fwdCands (n w : Nat) : List Nat := (List.range' (w + 1) (n - w)).map (· % n)

/-- the indices visited by `for i in range(w - 1, -2, -1): i %= n`
    (`w-1, …, 0` and then `-1 % n = n - 1`) -/
def bwdCands (n w : Nat) : List Nat := (List.range w).reverse ++ [n - 1]

/-- `search_once(working_index, document)`; the document's text is always
    `_working_lines[working_index]`, so a position is the pair (index, cursor). -/
def searchOnce (eq : Char → Char → Bool) (ls : List Text) (sub : Text) (dir : Dir) (incl : Bool)
    (p : Nat × Nat) : Option (Nat × Nat) :=
  let w := p.1
  let cur := p.2
  let text := entry ls w
  match dir with
  | .fwd =>
    match docFind eq text cur sub incl with
    | some k => some (w, cur + k)
    | none =>
      firstSome (fun i =>
        (docFind eq (entry ls i) 0 sub true).map fun k => (i, k)) (fwdCands ls.length w)
  | .bwd =>
    match docFindBack eq text cur sub with
    | some k => some (w, ((cur : Int) + k).toNat)
    | none =>
      firstSome (fun i =>
        let t := entry ls i
        (docFindBack eq t t.length sub).map fun k => (i, ((t.length : Int) + k).toNat))
        (bwdCands ls.length w)

/-- `for _ in range(count): result = search_once(…); if result is None: return None` -/
def searchN (eq : Char → Char → Bool) (ls : List Text) (sub : Text) (dir : Dir) (incl : Bool) :
    Nat → Nat × Nat → Option (Nat × Nat)
  | 0, p => some p
  | k + 1, p =>
    match searchOnce eq ls sub dir incl p with
    | none => none
    | some p' => searchN eq ls sub dir incl k p'

structure Buf where
  lines : List Text
  widx : Nat
  cur : Nat
deriving Repr, DecidableEq

def Buf.text (b : Buf) : Text := entry b.lines b.widx

/-- `Buffer._search(search_state, include_current_position, count)` -/
def search (eq : Char → Char → Bool) (b : Buf) (sub : Text) (dir : Dir) (incl : Bool)
    (count : Nat) : Option (Nat × Nat) :=
  searchN eq b.lines sub dir incl count (b.widx, b.cur)

/-- `Buffer.working_index = i` : a change resets the cursor to 0 -/
def setWidx (b : Buf) (i : Nat) : Buf :=
  if b.widx ≠ i then { b with widx := i, cur := 0 } else b

/-- `Buffer.cursor_position = v` (clamped to the current text) -/
def setCur (b : Buf) (v : Nat) : Buf := { b with cur := min v b.text.length }

/-- `Buffer.apply_search(search_state, include_current_position, count)` -/
def applySearch (eq : Char → Char → Bool) (b : Buf) (sub : Text) (dir : Dir) (incl : Bool)
    (count : Nat) : Buf :=
  match search eq b sub dir incl count with
  | none => b
  | some (i, c) => setCur (setWidx b i) c

/-- `Buffer.document_for_search(search_state)` : (text, cursor) of the returned Document -/
def docForSearch (eq : Char → Char → Bool) (b : Buf) (sub : Text) (dir : Dir) : Text × Nat :=
  match search eq b sub dir true 1 with
  | none => (b.text, b.cur)
  | some (i, c) => (entry b.lines i, c)

/-- `Buffer.get_search_position(search_state, include_current_position, count)`.
    A match in another history entry says nothing about this document: the position stays. -/
def getSearchPosition (eq : Char → Char → Bool) (b : Buf) (sub : Text) (dir : Dir) (incl : Bool)
    (count : Nat) : Nat :=
  match search eq b sub dir incl count with
  | none => b.cur
  | some (i, c) => if i ≠ b.widx then b.cur else c

/-! ### the incremental-search session (search.py + bindings + BufferControl preview) -/

/-- what the search keys can see and change -/
structure Sess where
  buf : Buf            -- the searched (main) buffer
  field : Text         -- text of the search field's own buffer
  stext : Text         -- SearchState.text
  sdir : Dir           -- SearchState.direction
  searching : Bool     -- the search field is focused (a search link exists)
deriving Repr, DecidableEq

inductive Key where
  | start (d : Dir)          -- C-r / C-s (emacs, vi), `/` `?` (vi navigation mode)
  | type (c : Char)          -- a printable key
  | backspace
  | incr (d : Dir)           -- C-r / C-s / Up / Down while the search field is focused
  | accept                   -- Enter (or Escape) in the search field
  | abort                    -- C-g / C-c
  | next (count : Nat)       -- vi `n`  (navigation mode)
  | prev (count : Nat)       -- vi `N`
deriving Repr, DecidableEq

/-- `document.is_cursor_at_the_end_of_line and len(document.current_line) > 0` -/
def viAtEolNonEmpty (b : Buf) : Bool :=
  let t := b.text
  let atEol := match t[b.cur]? with
    | none => true
    | some c => c == '\n'
  -- at the end of a line, the line is non-empty  ⇔  the character before the cursor is not '\n'
  let lineNonEmpty := match b.cur with
    | 0 => false
    | k + 1 => match t[k]? with
      | some c => c != '\n'
      | none => false
  atEol && lineNonEmpty

/-- `KeyProcessor._fix_vi_cursor_position` : in Vi navigation mode the cursor may not rest
    behind the last character of a non-empty line. -/
def viFix (b : Buf) : Buf :=
  if viAtEolNonEmpty b then { b with cur := b.cur - 1 } else b

/-- `search.stop_search` : focus back, search field reset -/
def stopSearch (s : Sess) : Sess := { s with searching := false, field := [] }

/-- one key.  `vi = true`: Vi editing mode with the main buffer in navigation mode whenever the
    search field is not focused.  Keys that are not search keys in the current state
    (e.g. a printable key in Vi navigation mode) are outside the model: state unchanged. -/
def step (eq : Char → Char → Bool) (vi : Bool) (s : Sess) : Key → Sess
  | .start d =>
    if s.searching then s else { s with sdir := d, searching := true }
  | .type c =>
    if s.searching then { s with field := s.field ++ [c] }
    else if vi then s
    else
      -- emacs self-insert into the main buffer
      let t := s.buf.text
      { s with buf := { lines := s.buf.lines.set s.buf.widx (t.take s.buf.cur ++ [c] ++ t.drop s.buf.cur),
                        widx := s.buf.widx, cur := s.buf.cur + 1 } }
  | .backspace =>
    if s.searching then
      if s.field.isEmpty then (if vi then viFixS (stopSearch s) else s)
      else { s with field := s.field.dropLast }
    else s
  | .incr d =>
    if s.searching then
      -- do_incremental_search(direction, count = 1)
      let changed := s.sdir ≠ d
      let s1 := { s with stext := s.field, sdir := d }
      if !changed then { s1 with buf := applySearch eq s.buf s.field d false 1 } else s1
    else s
  | .accept =>
    if s.searching then
      -- accept_search
      let st := if !s.field.isEmpty then s.field else s.stext
      let s1 := { s with stext := st, buf := applySearch eq s.buf st s.sdir true 1 }
      let s2 := stopSearch s1
      if vi then viFixS s2 else s2
    else s
  | .abort =>
    if s.searching then (let s2 := stopSearch s; if vi then viFixS s2 else s2) else s
  | .next count =>
    if vi && !s.searching then
      viFixS { s with buf := applySearch eq s.buf s.stext s.sdir false count }
    else s
  | .prev count =>
    if vi && !s.searching then
      viFixS { s with buf := applySearch eq s.buf s.stext s.sdir.inv false count }
    else s
where
  viFixS (s : Sess) : Sess := { s with buf := viFix s.buf }

/-- the Document `BufferControl.create_content` displays for the main buffer: the search
    preview while something is typed in the focused search field, else the real document -/
def preview (eq : Char → Char → Bool) (s : Sess) : Text × Nat :=
  if s.searching && !s.field.isEmpty then docForSearch eq s.buf s.field s.sdir
  else (s.buf.text, s.buf.cur)

def run (eq : Char → Char → Bool) (vi : Bool) (s : Sess) : List Key → Sess
  | [] => s
  | k :: ks => run eq vi (step eq vi s k) ks

/-- ASCII case folding (`re.IGNORECASE` restricted to ASCII text and needle) -/
def foldAscii (c : Char) : Char :=
  if 'A' ≤ c ∧ c ≤ 'Z' then Char.ofNat (c.toNat + 32) else c

def eqCS (a b : Char) : Bool := a == b
def eqCI (a b : Char) : Bool := foldAscii a == foldAscii b

end Ptk.C16
