/-
  C16 — model of text search in `prompt_toolkit`:

    document.py   Document.find / Document.find_backwards : `docFind` / `docFindBack` (what the search
                  uses: count = 1, whole text) and `docFindX` / `docFindBackX` (all parameters:
                  in_current_line, include_current_position, count); get_word_under_cursor
    buffer.py     Buffer._search / apply_search / get_search_position / document_for_search,
                  append_to_history, auto_up / auto_down (history recall in the search field)
    search.py     SearchState.__invert__, start_search / stop_search / do_incremental_search / accept_search
    key_binding/bindings/search.py, vi.py (n N * # and the search bindings), emacs.py (search bindings,
                  n / N on a read-only buffer)
    layout/controls.py  BufferControl.create_content : which Document is displayed (preview)
  (several controls / search fields: Model/C16World.lean; physical keys through the generated binding
   table: Model/C16Keys.lean)

  Conventions.
  * `eq needleChar textChar` models the character comparison of `re` for the escaped
    (literal) pattern: `(· == ·)` normally; under `re.IGNORECASE` ASCII case folding (`eqCI`) or the
    folding classes generated from the running interpreter (`eqFold Ptk.Gen.C16Fold.foldRanges`).
    It is a parameter; every theorem holds for every `eq`.
  * `re.finditer(re.escape(sub), t)`: the first match of a literal pattern is its leftmost
    occurrence (`findFirst`); later matches do not overlap earlier ones (`findNth`).
  * `lines` = `Buffer._working_lines`, `widx` = `working_index`, `cur` = `cursor_position`.
-/
import Ptk.Py
namespace Ptk.C16
open Ptk.Py

def notNl (c : Char) : Bool := c != '\n'

/-! ### literal scanner -/

/-- the literal pattern `sub` matches at the very start of `t` -/
def prefixBy (eq : Char → Char → Bool) : Text → Text → Bool
  | [], _ => true
  | _ :: _, [] => false
  | a :: as, b :: bs => eq a b && prefixBy eq as bs

/-- `next(re.finditer(re.escape(sub), t)).start()` : leftmost occurrence, `none` if there is none.
    (The empty pattern matches at 0, also in the empty text.) -/
def findFirst (eq : Char → Char → Bool) (sub : Text) : Text → Option Nat
  | [] => if prefixBy eq sub [] then some 0 else none
  | x :: xs =>
    if prefixBy eq sub (x :: xs) then some 0
    else (findFirst eq sub xs).map (· + 1)

/-- `Document(text, cur).find(sub, include_current_position=incl, ignore_case=…)`
    (offset relative to the cursor) -/
def docFind (eq : Char → Char → Bool) (text : Text) (cur : Nat) (sub : Text) (incl : Bool) :
    Option Nat :=
  let t := text.drop cur                      -- text_after_cursor
  if !incl then
    if t.length == 0 then none                -- "otherwise we always get a match for the empty string"
    else (findFirst eq sub (t.drop 1)).map (· + 1)   -- text[1:] ; match.start(0) + 1
  else findFirst eq sub t

/-- `Document(text, cur).find_backwards(sub, ignore_case=…)` : a non-positive offset relative
    to the cursor: `-match.start(0) - len(sub)` for the first match of the reversed needle in the
    reversed text before the cursor. -/
def docFindBack (eq : Char → Char → Bool) (text : Text) (cur : Nat) (sub : Text) : Option Int :=
  let before := (text.take cur).reverse       -- text_before_cursor[::-1]
  (findFirst eq sub.reverse before).map fun (s : Nat) => -(s : Int) - (sub.length : Int)


/-! ### Document.find / find_backwards in full: `in_current_line`, `count` (Vi f F t T ; ,) -/

/-- the `count`-th element of `re.finditer(re.escape(sub), t)` : `match.start(0)`.
    Matches do not overlap: the scan resumes behind the previous match (an empty match advances by
    one character and there is none behind the end of the text).  `count = 0` never matches
    (`i + 1 == count` is never true). -/
def findNth (eq : Char → Char → Bool) (sub : Text) : Nat → Text → Option Nat
  | 0, _ => none
  | k + 1, t =>
    match findFirst eq sub t with
    | none => none
    | some s =>
      if k = 0 then some s
      else if sub.isEmpty && t.length ≤ s then none
      else
        let adv := s + (if sub.isEmpty then 1 else sub.length)
        (findNth eq sub k (t.drop adv)).map (· + adv)

/-- `Document(text, cur).find(sub, in_current_line, include_current_position, ignore_case, count)` -/
def docFindX (eq : Char → Char → Bool) (text : Text) (cur : Nat) (sub : Text) (inLine incl : Bool)
    (count : Nat) : Option Nat :=
  let after := text.drop cur
  let t := if inLine then after.takeWhile notNl else after     -- current_line_after_cursor / text_after_cursor
  if !incl then
    if t.length == 0 then none
    else (findNth eq sub count (t.drop 1)).map (· + 1)
  else findNth eq sub count t

/-- `Document(text, cur).find_backwards(sub, in_current_line, ignore_case, count)` -/
def docFindBackX (eq : Char → Char → Bool) (text : Text) (cur : Nat) (sub : Text) (inLine : Bool)
    (count : Nat) : Option Int :=
  let rev := (text.take cur).reverse                          -- text_before_cursor[::-1]
  let t := if inLine then rev.takeWhile notNl else rev        -- current_line_before_cursor[::-1]
  (findNth eq sub.reverse count t).map fun (s : Nat) => -(s : Int) - (sub.length : Int)

/-! ### Buffer._search -/

inductive Dir where
  | fwd | bwd
deriving Repr, DecidableEq

/-- `~search_state` -/
def Dir.inv : Dir → Dir
  | .fwd => .bwd
  | .bwd => .fwd

/-- `self._working_lines[i]` (the index is in range under the buffer invariant) -/
def entry (ls : List Text) (i : Nat) : Text := ls.getD i []

/-- a `for i in …: … if found: return …` loop: the first index whose body returns -/
def firstSome {β : Type} (f : Nat → Option β) : List Nat → Option β
  | [] => none
  | i :: is =>
    match f i with
    | some r => some r
    | none => firstSome f is

/-- the indices visited by `for i in range(w + 1, n + 1): i %= n` -/
def fwdCands (n w : Nat) : List Nat := (List.range' (w + 1) (n - w)).map (· % n)

/-- the indices visited by `for i in range(w - 1, -2, -1): i %= n`
    (`w-1, …, 0` and then `-1 % n = n - 1`) -/
def bwdCands (n w : Nat) : List Nat := (List.range w).reverse ++ [n - 1]

/-- `search_once(working_index, document)`; the document's text is always
    `_working_lines[working_index]`, so a position is the pair (index, cursor). -/
def searchOnce (eq : Char → Char → Bool) (ls : List Text) (sub : Text) (dir : Dir) (incl : Bool)
    (p : Nat × Nat) : Option (Nat × Nat) :=
  let w := p.1
  let cur := p.2
  let text := entry ls w
  match dir with
  | .fwd =>
    match docFind eq text cur sub incl with
    | some k => some (w, cur + k)
    | none =>
      firstSome (fun i =>
        (docFind eq (entry ls i) 0 sub true).map fun k => (i, k)) (fwdCands ls.length w)
  | .bwd =>
    match docFindBack eq text cur sub with
    | some k => some (w, ((cur : Int) + k).toNat)
    | none =>
      firstSome (fun i =>
        let t := entry ls i
        (docFindBack eq t t.length sub).map fun k => (i, ((t.length : Int) + k).toNat))
        (bwdCands ls.length w)

/-- `for _ in range(count): result = search_once(…); if result is None: return None` -/
def searchN (eq : Char → Char → Bool) (ls : List Text) (sub : Text) (dir : Dir) (incl : Bool) :
    Nat → Nat × Nat → Option (Nat × Nat)
  | 0, p => some p
  | k + 1, p =>
    match searchOnce eq ls sub dir incl p with
    | none => none
    | some p' => searchN eq ls sub dir incl k p'

structure Buf where
  lines : List Text
  widx : Nat
  cur : Nat
deriving Repr, DecidableEq

def Buf.text (b : Buf) : Text := entry b.lines b.widx

/-- `Buffer._search(search_state, include_current_position, count)` -/
def search (eq : Char → Char → Bool) (b : Buf) (sub : Text) (dir : Dir) (incl : Bool)
    (count : Nat) : Option (Nat × Nat) :=
  searchN eq b.lines sub dir incl count (b.widx, b.cur)

/-- `Buffer.working_index = i` : a change resets the cursor to 0 -/
def setWidx (b : Buf) (i : Nat) : Buf :=
  if b.widx ≠ i then { b with widx := i, cur := 0 } else b

/-- `Buffer.cursor_position = v` (clamped to the current text) -/
def setCur (b : Buf) (v : Nat) : Buf := { b with cur := min v b.text.length }

/-- `Buffer.apply_search(search_state, include_current_position, count)` -/
def applySearch (eq : Char → Char → Bool) (b : Buf) (sub : Text) (dir : Dir) (incl : Bool)
    (count : Nat) : Buf :=
  match search eq b sub dir incl count with
  | none => b
  | some (i, c) => setCur (setWidx b i) c

/-- `Buffer.document_for_search(search_state)` : (text, cursor) of the returned Document -/
def docForSearch (eq : Char → Char → Bool) (b : Buf) (sub : Text) (dir : Dir) : Text × Nat :=
  match search eq b sub dir true 1 with
  | none => (b.text, b.cur)
  | some (i, c) => (entry b.lines i, c)

/-- `Buffer.get_search_position(search_state, include_current_position, count)`.
    A match in another history entry says nothing about this document: the position stays. -/
def getSearchPosition (eq : Char → Char → Bool) (b : Buf) (sub : Text) (dir : Dir) (incl : Bool)
    (count : Nat) : Nat :=
  match search eq b sub dir incl count with
  | none => b.cur
  | some (i, c) => if i ≠ b.widx then b.cur else c

/-! ### the incremental-search session (search.py + bindings + BufferControl preview) -/

/-- what the search keys can see and change.
    The search field is a `Buffer` of its own: its working lines are kept as a zipper
    `fbefore ++ [field] ++ fafter` (working_index = `fbefore.length`), `fhist` are the strings of
    its history (oldest first), `floaded` says whether that history has been loaded into the
    working lines since the last `Buffer.reset()` (`BufferControl.create_content` triggers the load
    when the field is rendered). -/
structure Sess where
  buf : Buf            -- the searched (main) buffer
  field : Text         -- text of the search field's own buffer
  stext : Text         -- SearchState.text
  sdir : Dir           -- SearchState.direction
  searching : Bool     -- the search field is focused (a search link exists)
  fbefore : List Text := []   -- search field: working lines before the current one
  fafter : List Text := []    -- search field: working lines after the current one
  fhist : List Text := []     -- search field: history strings, oldest first
  floaded : Bool := false     -- search field: history loaded into the working lines
deriving Repr, DecidableEq

inductive Key where
  | start (d : Dir)          -- C-r / C-s (emacs, vi), `/` `?` (vi navigation mode)
  | type (c : Char)          -- a printable key
  | backspace
  | incr (d : Dir)           -- C-r / C-s / Up / Down while the search field is focused
  | accept                   -- Enter (or Escape) in the search field
  | abort                    -- C-g / C-c
  | next (count : Nat)       -- vi `n`  (navigation mode)
  | prev (count : Nat)       -- vi `N`
  | histPrev                 -- search field history: emacs C-p, vi Up   (`Buffer.auto_up`)
  | histNext                 -- search field history: emacs C-n, vi Down (`Buffer.auto_down`)
deriving Repr, DecidableEq

/-- `document.is_cursor_at_the_end_of_line and len(document.current_line) > 0` -/
def viAtEolNonEmpty (b : Buf) : Bool :=
  let t := b.text
  let atEol := match t[b.cur]? with
    | none => true
    | some c => c == '\n'
  -- at the end of a line, the line is non-empty  ⇔  the character before the cursor is not '\n'
  let lineNonEmpty := match b.cur with
    | 0 => false
    | k + 1 => match t[k]? with
      | some c => c != '\n'
      | none => false
  atEol && lineNonEmpty

/-- `KeyProcessor._fix_vi_cursor_position` : in Vi navigation mode the cursor may not rest
    behind the last character of a non-empty line. -/
def viFix (b : Buf) : Buf :=
  if viAtEolNonEmpty b then { b with cur := b.cur - 1 } else b

/-- `search.stop_search` : focus back; `search_buffer_control.buffer.reset()` leaves the search
    field with the single working line `""` and forgets that its history was loaded -/
def stopSearch (s : Sess) : Sess :=
  { s with searching := false, field := [], fbefore := [], fafter := [], floaded := false }

/-- `Buffer.append_to_history()` of the search field (in `accept_search`): a non-empty text that
    differs from the newest history string is appended -/
def appendHist (h : List Text) (t : Text) : List Text :=
  if t.isEmpty then h
  else if h.getLast? == some t then h
  else h ++ [t]

/-- the search field is rendered while it has the focus: `BufferControl.create_content` calls
    `load_history_if_not_yet_loaded`, whose task `appendleft`s the history strings (newest first)
    to the working lines and increments `working_index` for each -/
def renderField (s : Sess) : Sess :=
  if s.searching && !s.floaded then { s with fbefore := s.fhist ++ s.fbefore, floaded := true }
  else s

/-- one key.  `vi = true`: Vi editing mode with the main buffer in navigation mode whenever the
    search field is not focused.  Keys that are not search keys in the current state
    (e.g. a printable key in Vi navigation mode) are outside the model: state unchanged. -/
def step (eq : Char → Char → Bool) (vi : Bool) (s : Sess) : Key → Sess
  | .start d =>
    if s.searching then s else renderField { s with sdir := d, searching := true }
  | .type c =>
    if s.searching then { s with field := s.field ++ [c] }
    else if vi then s
    else
      -- emacs self-insert into the main buffer
      let t := s.buf.text
      { s with buf := { lines := s.buf.lines.set s.buf.widx (t.take s.buf.cur ++ [c] ++ t.drop s.buf.cur),
                        widx := s.buf.widx, cur := s.buf.cur + 1 } }
  | .backspace =>
    if s.searching then
      if s.field.isEmpty then (if vi then viFixS (stopSearch s) else s)
      else { s with field := s.field.dropLast }
    else s
  | .incr d =>
    if s.searching then
      -- do_incremental_search(direction, count = 1)
      let changed := s.sdir ≠ d
      let s1 := { s with stext := s.field, sdir := d }
      if !changed then { s1 with buf := applySearch eq s.buf s.field d false 1 } else s1
    else s
  | .accept =>
    if s.searching then
      -- accept_search
      let st := if !s.field.isEmpty then s.field else s.stext
      let s1 := { s with stext := st, buf := applySearch eq s.buf st s.sdir true 1,
                         fhist := appendHist s.fhist s.field }   -- search_control.buffer.append_to_history()
      let s2 := stopSearch s1
      if vi then viFixS s2 else s2
    else s
  | .abort =>
    if s.searching then (let s2 := stopSearch s; if vi then viFixS s2 else s2) else s
  | .next count =>
    if vi && !s.searching then
      viFixS { s with buf := applySearch eq s.buf s.stext s.sdir false count }
    else s
  | .prev count =>
    if vi && !s.searching then
      viFixS { s with buf := applySearch eq s.buf s.stext s.sdir.inv false count }
    else s
  | .histPrev =>
    -- auto_up -> history_backward(1): `for i in range(working_index - 1, -1, -1)`: first index
    if s.searching then
      match s.fbefore.getLast? with
      | none => s
      | some x => { s with fbefore := s.fbefore.dropLast, field := x, fafter := s.field :: s.fafter }
    else s
  | .histNext =>
    -- auto_down -> history_forward(1)
    if s.searching then
      match s.fafter with
      | [] => s
      | x :: rest => { s with fbefore := s.fbefore ++ [s.field], field := x, fafter := rest }
    else s
where
  viFixS (s : Sess) : Sess := { s with buf := viFix s.buf }

/-- the Document `BufferControl.create_content` displays for the main buffer: the search
    preview while something is typed in the focused search field, else the real document -/
def preview (eq : Char → Char → Bool) (s : Sess) : Text × Nat :=
  if s.searching && !s.field.isEmpty then docForSearch eq s.buf s.field s.sdir
  else (s.buf.text, s.buf.cur)

def run (eq : Char → Char → Bool) (vi : Bool) (s : Sess) : List Key → Sess
  | [] => s
  | k :: ks => run eq vi (step eq vi s k) ks


/-! ### SearchState objects, `~search_state` -/

/-- `search.SearchState` : text, direction, ignore_case -/
structure SState where
  text : Text
  dir : Dir
  ic : Bool
deriving Repr, DecidableEq

/-- `SearchState.__invert__` : a NEW state with the direction flipped, same text, same
    ignore_case -/
def SState.inv (ss : SState) : SState :=
  { text := ss.text,
    dir := (match ss.dir with
            | .bwd => .fwd
            | _ => .bwd),
    ic := ss.ic }

/-- `Buffer.apply_search(search_state, …)` with the comparison chosen by `search_state.ignore_case()` -/
def applySS (eqOf : Bool → Char → Char → Bool) (b : Buf) (ss : SState) (incl : Bool) (count : Nat) :
    Buf :=
  applySearch (eqOf ss.ic) b ss.text ss.dir incl count

/-! ### the word under the cursor (Vi `*` and `#`) -/

/-- `[a-zA-Z0-9_]` (also `string.ascii_letters + "0123456789_"`) -/
def isWordCh (c : Char) : Bool :=
  ('a' ≤ c && c ≤ 'z') || ('A' ≤ c && c ≤ 'Z') || ('0' ≤ c && c ≤ '9') || c == '_'

/-- `[^a-zA-Z0-9_\s]` ; `isSp` is the interpreter's `\s` -/
def isPunctCh (isSp : Char → Bool) (c : Char) : Bool := !isWordCh c && !isSp c

/-- `_FIND_CURRENT_WORD_RE = ^([a-zA-Z0-9_]+|[^a-zA-Z0-9_\s]+)` searched in `t`: `match.end(1)`,
    0 standing for "no match" (a match is never empty) -/
def curWordEnd (isSp : Char → Bool) (t : Text) : Nat :=
  match t with
  | [] => 0
  | x :: _ =>
    if isWordCh x then (t.takeWhile isWordCh).length
    else if isPunctCh isSp x then (t.takeWhile (isPunctCh isSp)).length
    else 0

/-- `Document.find_boundaries_of_current_word()` (WORD=False, no whitespace included):
    (characters before the cursor, characters from the cursor on) -/
def wordBounds (isSp : Char → Bool) (text : Text) (cur : Nat) : Nat × Nat :=
  let before := ((text.take cur).reverse.takeWhile notNl)   -- current_line_before_cursor[::-1]
  let after := (text.drop cur).takeWhile notNl               -- current_line_after_cursor
  let mb := curWordEnd isSp before
  let ma := curWordEnd isSp after
  -- both match: the characters around the cursor must be of the same kind, else drop the part before
  let mb' :=
    if mb != 0 && ma != 0 then
      match text[cur - 1]?, text[cur]? with
      | some c1, some c2 => if isWordCh c1 != isWordCh c2 then 0 else mb
      | _, _ => mb
    else mb
  (mb', ma)

/-- `Document.get_word_under_cursor()` : `text[cursor + start : cursor + end]` -/
def wordUnderCursor (isSp : Char → Bool) (text : Text) (cur : Nat) : Text :=
  let (mb, ma) := wordBounds isSp text cur
  (text.drop (cur - mb)).take (mb + ma)

/-! ### further search keys: Vi `*` / `#`, Emacs `n` / `N` on a read-only buffer -/

inductive XKey where
  | base (k : Key)
  | star (count : Nat)        -- vi `*` : search the word under the cursor forward
  | hash (count : Nat)        -- vi `#` : … backward
  | jumpNext (arg : Int)      -- emacs `n` on a read-only buffer (arg may be ≤ 0: Esc - n, Esc 0 n)
  | jumpPrev (arg : Int)      -- emacs `N` on a read-only buffer
deriving Repr, DecidableEq

/-- `load_emacs_search_bindings.jump(event, search_state)` with `count = event.arg` -/
def jump (eq : Char → Char → Bool) (b : Buf) (sub : Text) (dir : Dir) (arg : Int) : Buf :=
  if arg < 0 then applySearch eq b sub dir.inv false (-arg).toNat
  else if arg > 0 then applySearch eq b sub dir false arg.toNat
  else b

/-- one key of the extended key set.  `ro`: the searched buffer is read-only (Emacs mode: `n`/`N`
    jump, printable keys are refused with a bell). -/
def stepX (eq : Char → Char → Bool) (isSp : Char → Bool) (vi ro : Bool) (s : Sess) : XKey → Sess
  | .base (.type c) =>
    if !s.searching && ro then s           -- EditReadOnlyBuffer -> bell
    else step eq vi s (.type c)
  | .base k => step eq vi s k
  | .star count =>
    if vi && !s.searching then
      let w := wordUnderCursor isSp s.buf.text s.buf.cur
      { s with stext := w, sdir := .fwd, buf := viFix (applySearch eq s.buf w .fwd false count) }
    else s
  | .hash count =>
    if vi && !s.searching then
      let w := wordUnderCursor isSp s.buf.text s.buf.cur
      { s with stext := w, sdir := .bwd, buf := viFix (applySearch eq s.buf w .bwd false count) }
    else s
  | .jumpNext arg =>
    if !vi && ro && !s.searching then { s with buf := jump eq s.buf s.stext s.sdir arg } else s
  | .jumpPrev arg =>
    if !vi && ro && !s.searching then { s with buf := jump eq s.buf s.stext s.sdir.inv arg } else s

def runX (eq : Char → Char → Bool) (isSp : Char → Bool) (vi ro : Bool) (s : Sess) :
    List XKey → Sess
  | [] => s
  | k :: ks => runX eq isSp vi ro (stepX eq isSp vi ro s k) ks

/-- ASCII case folding (`re.IGNORECASE` restricted to ASCII text and needle) -/
def foldAscii (c : Char) : Char :=
  if 'A' ≤ c ∧ c ≤ 'Z' then Char.ofNat (c.toNat + 32) else c

def eqCS (a b : Char) : Bool := a == b
def eqCI (a b : Char) : Bool := foldAscii a == foldAscii b

/-- case folding through an ascending table of ranges `(lo, hi, delta)` : code points `lo..hi` fold
    to `code point - delta`, everything else to itself.  The table for `re.IGNORECASE` on `str` is
    generated from the running interpreter (`Ptk.Gen.C16Fold.foldRanges`). -/
def foldWith : List (Nat × Nat × Nat) → Nat → Nat
  | [], n => n
  | (lo, hi, d) :: rest, n => if n < lo then n else if n ≤ hi then n - d else foldWith rest n

/-- `re.IGNORECASE` comparison of a pattern character with a text character: same fold -/
def eqFold (tbl : List (Nat × Nat × Nat)) (a b : Char) : Bool :=
  foldWith tbl a.toNat == foldWith tbl b.toNat

end Ptk.C16
