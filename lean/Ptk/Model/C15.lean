/-
  C15 — labelled transition system for the asynchronous machinery of
  `prompt_toolkit.buffer.Buffer` (src/prompt_toolkit/buffer.py):

    * the completion state (`CompletionState`, `complete_next/previous`,
      `go_to_completion`, `cancel_completion`, `apply_completion`, `start_completion`,
      `_set_completions`) and the key binding `generate_completions`,
    * the three background coroutines created by `_create_completer_coroutine`,
      `_create_auto_validate_coroutine` (+ `_validate_async`) and
      `_create_auto_suggest_coroutine`, each wrapped by `_only_one_at_a_time`,
    * `_text_changed` / `_cursor_position_changed` / `set_document` / the `text` and
      `cursor_position` setters, `insert_text`, `delete_before_cursor`, `delete`, `reset`.

  A coroutine is cut at its `await`s: one scheduler step runs one segment between two
  awaits atomically (asyncio's guarantee; assumed).  Tasks are created *pending*
  (`Application.create_background_task`) and take their first step only when the scheduler
  says so (`Act.start`); a task waiting in the user's completer / validator / suggester
  resumes with `Act.resume`.  `token` models the object identity of a `CompletionState`
  (`proceed()` compares identity): every newly constructed state gets a fresh token.

  User code is a parameter (`Env`): the completer's result stream, the validator's verdict
  and the suggester's answer are arbitrary functions of the `Document` they are called with.

  `cfg.threaded`: the completer is a `ThreadedCompleter`; the stream then is
  `generator_to_async_generator` (`Ptk.Model.C15Thread`: producer thread, bounded queue, `q.get`
  jobs, `quitting`), embedded in the tasks `cLoadT` / `cCloseT`; `Act.prod` / `Act.take` are the
  steps of the other threads.  `ThreadedValidator` / `ThreadedAutoSuggest` are one executor job
  each — the same await as the asynchronous versions (`vWait` / `sWait`).
  `St.sel` is `Buffer.selection_state` (part of `Buffer.document`, hence of the staleness
  comparisons of validator and suggester).
-/
import Ptk.Py
import Ptk.Model.C15Thread
namespace Ptk.C15
open Ptk.Py

structure Doc where
  text : Text
  cur : Nat
deriving DecidableEq, Repr

def Doc.before (d : Doc) : Text := d.text.take d.cur
def Doc.after (d : Doc) : Text := d.text.drop d.cur

/-- `Completion(text, start_position)`; `start_position ≤ 0` (asserted by the constructor). -/
structure Completion where
  text : Text
  start : Int
deriving DecidableEq, Repr

inductive VState | unknown | valid | invalid
deriving DecidableEq, Repr

/-- keyword arguments of `start_completion` / `async_completer` -/
inductive Mode | plain | first | last | common
deriving DecidableEq, Repr

/-- `CompletionState` -/
structure CState where
  orig : Doc
  comps : List Completion
  index : Option Nat
  token : Nat
deriving DecidableEq, Repr

inductive Task
  /-- created by `create_background_task(self._async_completer(..))`, not yet started -/
  | cPend (m : Mode)
  /-- inside `async for completion in async_generator`, `i` completions received so far -/
  | cLoad (m : Mode) (doc : Doc) (i : Nat) (tok : Nat)
  /-- `ThreadedCompleter`: inside `async for`, the stream is `generator_to_async_generator`
      with hand-off state `h` (producer thread, queue, `q.get` job) -/
  | cLoadT (m : Mode) (doc : Doc) (tok : Nat) (h : HS)
  /-- `ThreadedCompleter`: the loop was left (`break`, end of stream, or `CancelledError` when
      `cancelled`); `quitting` is set and the coroutine waits in `await runner_f` for the
      producer thread to return -/
  | cCloseT (m : Mode) (doc : Doc) (tok : Nat) (h : HS) (cancelled : Bool)
  | vPend
  /-- inside `await self.validator.validate_async(document)`; `sel` = the selection that was
      part of `self.document` when the coroutine read it -/
  | vWait (doc : Doc) (sel : Option Nat)
  | sPend
  /-- inside `await self.auto_suggest.get_suggestion_async(self, document)` -/
  | sWait (doc : Doc) (sel : Option Nat)
deriving DecidableEq, Repr

structure Config where
  /-- `complete_while_typing()` -/
  cwt : Bool
  /-- `validator is not None` -/
  hasV : Bool
  /-- `validate_while_typing()` -/
  vwt : Bool
  /-- `auto_suggest is not None` -/
  hasS : Bool
  /-- `max_number_of_completions` -/
  maxN : Nat
  /-- the repaired `async_completer`: the single no-op completion is only dropped while
      nothing is selected (see proposed_fixes/C15-dangling-index.diff) -/
  fixD1 : Bool
  /-- the completer is a `ThreadedCompleter` -/
  threaded : Bool := false
  /-- `buffer_size` of `generator_to_async_generator` (`DEFAULT_BUFFER_SIZE`) -/
  qcap : Nat := 1000
deriving DecidableEq, Repr

/-- user code: completer stream, validator verdict (`none` = valid, `some msg` = the
    `ValidationError` message), suggestion. -/
structure Env where
  comp : Doc → List Completion
  valid : Doc → Option Text
  sugg : Doc → Option Text
  /-- `str.isspace` of the running interpreter (used by `strip()` in
      `start_history_lines_completion`) -/
  isSpace : Char → Bool

structure St where
  text : Text
  cur : Nat
  cs : Option CState
  vs : VState
  verr : Option Text
  sugg : Option Text
  tasks : List Task
  runC : Bool
  runV : Bool
  runS : Bool
  nextTok : Nat
  /-- `Buffer.selection_state`: `none`, or the identity of the `SelectionState` object
      (`Document.__eq__` compares the selection too, and `SelectionState` has no `__eq__`) -/
  sel : Option Nat := none
  nextSel : Nat := 0
deriving DecidableEq, Repr

def St.doc (s : St) : Doc := ⟨s.text, s.cur⟩

/-- `Buffer.reset(document)` on a fresh buffer -/
def init (d : Doc) : St :=
  { text := d.text, cur := d.cur, cs := none, vs := .unknown, verr := none, sugg := none,
    tasks := [], runC := false, runV := false, runS := false, nextTok := 0 }

/-! ### CompletionState -/

/-- the text/cursor a completion produces on the original document
    (`CompletionState.new_text_and_position`, the `else` branch) -/
def applyCompl (d : Doc) (c : Completion) : Doc :=
  let before := if c.start = 0 then d.before else sliceTo d.before c.start
  ⟨before ++ c.text ++ d.after, before.length + c.text.length⟩

/-- `CompletionState.new_text_and_position`; `none` = IndexError -/
def CState.newDoc (st : CState) : Option Doc :=
  match st.index with
  | none => some st.orig
  | some i =>
    match st.comps[i]? with
    | some c => some (applyCompl st.orig c)
    | none => none

/-- `CompletionState.go_to_index` (ignored when there are no completions) -/
def CState.goToIndex (st : CState) (idx : Option Nat) : CState :=
  if st.comps.isEmpty then st else { st with index := idx }

/-! ### change notification -/

/-- `Buffer._text_changed` -/
def textChanged (cfg : Config) (s : St) : St :=
  { s with verr := none, vs := .unknown, cs := none, sugg := none, sel := none,
           tasks := if cfg.hasV && cfg.vwt then s.tasks ++ [.vPend] else s.tasks }

/-- `Buffer._cursor_position_changed` -/
def cursorChanged (s : St) : St := { s with cs := none }

/-- `Buffer.set_document(Document(t, c))` -/
def setDocument (cfg : Config) (s : St) (t : Text) (c : Nat) : St :=
  let s1 := { s with text := t, cur := c }
  let s2 := if t ≠ s.text then textChanged cfg s1 else s1
  if c ≠ s.cur then cursorChanged s2 else s2

/-- `Buffer.cursor_position = v` -/
def setCursor (s : St) (v : Int) : St :=
  let c := min v.toNat s.text.length
  if c ≠ s.cur then cursorChanged { s with cur := c } else s

/-- `Buffer.text = t` -/
def setText (cfg : Config) (s : St) (t : Text) : St :=
  let s1 := if s.cur > t.length then setCursor s t.length else s
  if t ≠ s1.text then textChanged cfg { s1 with text := t } else s1

/-- `Buffer.insert_text(data)` (insert mode, `move_cursor`, `fire_event`) -/
def insertText (cfg : Config) (s : St) (data : Text) : St :=
  let s1 := setDocument cfg s (s.text.take s.cur ++ data ++ s.text.drop s.cur) (s.cur + data.length)
  let t1 := if cfg.cwt then s1.tasks ++ [.cPend .plain] else s1.tasks
  let t2 := if cfg.hasS then t1 ++ [.sPend] else t1
  { s1 with tasks := t2 }

/-- `Buffer.delete_before_cursor(count)` -/
def deleteBefore (cfg : Config) (s : St) (count : Nat) : St :=
  if 0 < s.cur then
    let count := min count s.cur
    let deleted := (s.text.take s.cur).drop (s.cur - count)
    setDocument cfg s (s.text.take (s.cur - count) ++ s.text.drop s.cur) (s.cur - deleted.length)
  else s

/-- `Buffer.delete(count)` -/
def delete (cfg : Config) (s : St) (count : Nat) : St :=
  if s.cur < s.text.length then
    let deleted := (s.text.drop s.cur).take count
    setText cfg s (s.text.take s.cur ++ s.text.drop (s.cur + deleted.length))
  else s

/-! ### completion navigation -/

/-- `Buffer.go_to_completion(index)`; the flag is `true` when an exception escaped
    (`assert self.complete_state`, or IndexError from `new_text_and_position`). -/
def goToCompletion (cfg : Config) (s : St) (idx : Option Nat) : St × Bool :=
  match s.cs with
  | none => (s, true)
  | some st =>
    let st' := st.goToIndex idx
    match st'.newDoc with
    | none => ({ s with cs := some st' }, true)
    | some d => ({ setDocument cfg s d.text d.cur with cs := some st' }, false)

/-- `Buffer.complete_next(count, disable_wrap_around)` -/
def completeNext (cfg : Config) (s : St) (count : Nat) (dw : Bool) : St × Bool :=
  match s.cs with
  | none => (s, false)
  | some st =>
    let n := st.comps.length
    match st.index with
    | none => goToCompletion cfg s (some 0)
    | some i =>
      if (i : Int) = (n : Int) - 1 then
        if dw then (s, false) else goToCompletion cfg s none
      else goToCompletion cfg s (some (min (n - 1) (i + count)))

/-- `Buffer.complete_previous(count, disable_wrap_around)` -/
def completePrevious (cfg : Config) (s : St) (count : Nat) (dw : Bool) : St × Bool :=
  match s.cs with
  | none => (s, false)
  | some st =>
    match st.index with
    | none => goToCompletion cfg s (some (st.comps.length - 1))
    | some i =>
      if i = 0 then
        if dw then (s, false) else goToCompletion cfg s none
      else goToCompletion cfg s (some (i - count))

/-- `Buffer.cancel_completion()` -/
def cancelCompletion (cfg : Config) (s : St) : St × Bool :=
  match s.cs with
  | none => (s, false)
  | some _ =>
    let r := goToCompletion cfg s none
    if r.2 then (r.1, true) else ({ r.1 with cs := none }, false)

/-- first lines of `apply_completion`: `if self.complete_state: self.go_to_completion(None)` -/
def cancelFirst (cfg : Config) (s : St) : St × Bool :=
  if s.cs.isSome then goToCompletion cfg s none else (s, false)

/-- `Buffer.apply_completion(c)` -/
def applyCompletion (cfg : Config) (s : St) (c : Completion) : St × Bool :=
  if (cancelFirst cfg s).2 then ((cancelFirst cfg s).1, true) else
  (insertText cfg (deleteBefore cfg { (cancelFirst cfg s).1 with cs := none } (-c.start).toNat) c.text, false)

/-- `Buffer.start_completion(...)` -/
def startCompletion (s : St) (m : Mode) : St :=
  { s with tasks := s.tasks ++ [.cPend m] }

/-- key binding `generate_completions` (Tab) -/
def tab (cfg : Config) (s : St) : St × Bool :=
  if s.cs.isSome then completeNext cfg s 1 false else (startCompletion s .common, false)

/-- `Buffer.validate(set_cursor=False)` -/
def validateSync (cfg : Config) (env : Env) (s : St) : St :=
  if s.vs ≠ .unknown then s
  else if cfg.hasV then
    match env.valid s.doc with
    | some msg => { s with vs := .invalid, verr := some msg }
    | none => { s with vs := .valid, verr := none }
  else { s with vs := .valid, verr := none }

/-- `Buffer.reset(Document(t, c))` : no change notification, background tasks keep running -/
def reset (s : St) (t : Text) (c : Nat) : St :=
  { s with text := t, cur := c, cs := none, vs := .unknown, verr := none, sugg := none, sel := none }

/-- `Buffer.start_selection()` : a new `SelectionState` object; no change notification -/
def startSelection (s : St) : St := { s with sel := some s.nextSel, nextSel := s.nextSel + 1 }

/-- `Buffer.exit_selection()` -/
def exitSelection (s : St) : St := { s with sel := none }

/-! ### completer coroutine -/

/-- `completion_does_nothing(document, completion)` -/
def doesNothing (d : Doc) (c : Completion) : Bool :=
  sliceFrom d.before ((d.before.length : Int) + c.start) == c.text

/-- `str.endswith` -/
def endsWith (s suffix : Text) : Bool := isPrefixOf' suffix.reverse s.reverse

/-- `str < str` (code point order) -/
def ltText : Text → Text → Bool
  | [], [] => false
  | [], _ :: _ => true
  | _ :: _, [] => false
  | a :: as, b :: bs => if a < b then true else if b < a then false else ltText as bs

def minText (l : List Text) : Text := l.foldl (fun m x => if ltText x m then x else m) (l.headD [])
def maxText (l : List Text) : Text := l.foldl (fun m x => if ltText m x then x else m) (l.headD [])

/-- the loop of `_commonprefix` over `s1 = min`, `s2 = max` -/
def lcp : Text → Text → Text
  | a :: as, b :: bs => if a = b then a :: lcp as bs else []
  | _, _ => []

/-- `_commonprefix(strings)` -/
def commonPrefix (l : List Text) : Text :=
  if l.isEmpty then [] else lcp (minText l) (maxText l)

/-- `get_common_complete_suffix(document, completions)` -/
def commonSuffix (d : Doc) (cs : List Completion) : Text :=
  if cs.all (fun c => endsWith d.before (c.text.take (-c.start).toNat)) then
    commonPrefix (cs.map fun c => c.text.drop (-c.start).toNat)
  else []

/-- `Completion.new_completion_from_position(position)` -/
def fromPos (position : Nat) (c : Completion) : Completion :=
  ⟨c.text.drop ((position : Int) - c.start).toNat, 0⟩

/-- `Buffer._set_completions(completions)` -/
def setCompletions (s : St) (comps : List Completion) : St :=
  { s with cs := some ⟨s.doc, comps, none, s.nextTok⟩, nextTok := s.nextTok + 1 }

/-! ### `start_history_lines_completion` : a menu that does not come from the completer -/

def notNl (c : Char) : Bool := c != '\n'

/-- `Document.current_line_before_cursor` -/
def lineBeforeCursor (d : Doc) : Text := (d.before.reverse.takeWhile notNl).reverse

def lstrip (sp : Char → Bool) (t : Text) : Text := t.dropWhile sp
def strip (sp : Char → Bool) (t : Text) : Text := ((t.dropWhile sp).reverse.dropWhile sp).reverse

/-- the loop over the lines of the (only) working line: stripped, non-empty, starting with the
    current line, not seen before -/
def histLoop (sp : Char → Bool) (cl : Text) : List Text → List Text → List Completion
  | [], _ => []
  | l :: ls, seen =>
    let l' := strip sp l
    if !l'.isEmpty && isPrefixOf' cl l' && !seen.contains l' then
      ⟨l', -(cl.length : Int)⟩ :: histLoop sp cl ls (l' :: seen)
    else histLoop sp cl ls seen

/-- the completions `start_history_lines_completion` builds for document `d` when the history
    is empty (`_working_lines == [text]`), already reversed -/
def histComps (sp : Char → Bool) (d : Doc) : List Completion :=
  (histLoop sp (lstrip sp (lineBeforeCursor d)) (splitOn '\n' d.text) []).reverse

/-- `Buffer.start_history_lines_completion()` : `_set_completions(..)`, `go_to_completion(0)` -/
def histComplete (cfg : Config) (env : Env) (s : St) : St × Bool :=
  goToCompletion cfg (setCompletions s (histComps env.isSpace s.doc)) (some 0)

/-- The outcome of one coroutine segment: the new state and what becomes of the task
    (`none` = the coroutine returned and `_only_one_at_a_time` cleared its flag). -/
abbrev Seg := St × Option Task

/-- body of `async_completer` up to the first `await` inside the user's completer -/
def compBegin (cfg : Config) (env : Env) (s : St) (m : Mode) : Seg :=
  if s.cs.isSome then ({ s with runC := false }, none)
  else
    ({ s with cs := some ⟨s.doc, [], none, s.nextTok⟩, nextTok := s.nextTok + 1 },
     some (if cfg.threaded then .cLoadT m s.doc s.nextTok (HS.init (env.comp s.doc).length cfg.qcap)
           else .cLoad m s.doc 0 s.nextTok))

/-- is the state created by this coroutine run still the buffer's state? (`proceed()`) -/
def proceed (s : St) (tok : Nat) : Bool :=
  match s.cs with
  | some st => st.token == tok
  | none => false

/-- `if len(completions) == 1 and [complete_index is None and] completion_does_nothing(..):
    del completions[:]` on the state object of this coroutine run (visible only while that
    object is still the buffer's) -/
def dropNoop (cfg : Config) (s : St) (doc : Doc) (tok : Nat) : St :=
  match s.cs with
  | some st =>
    if st.token == tok && (!cfg.fixD1 || st.index.isNone) then
      match st.comps with
      | [c] => if doesNothing doc c then { s with cs := some { st with comps := [] } } else s
      | _ => s
    else s
  | none => s

/-- the coroutine returns: `_only_one_at_a_time` clears the flag -/
def segDone (s : St) : Seg := ({ s with runC := false }, none)

/-- `proceed()` is false: give up, or `raise _Retry` when the text before the cursor only grew -/
def compElse (cfg : Config) (env : Env) (s : St) (m : Mode) (doc : Doc) : Seg :=
  if s.doc.before == doc.before then segDone s
  else if isPrefixOf' doc.before s.doc.before then compBegin cfg env s m   -- raise _Retry
  else segDone s

/-- `proceed()` is true: `st` is the buffer's state and was created by this run -/
def compProceed (cfg : Config) (s : St) (st : CState) (m : Mode) (doc : Doc) : Seg :=
  if st.index.isSome then segDone s
  else if st.comps.isEmpty then segDone { s with cs := none }
  else
    match m with
    | .plain => segDone s
    | .first => segDone (goToCompletion cfg s (some 0)).1
    | .last => segDone (goToCompletion cfg s (some (st.comps.length - 1))).1
    | .common =>
      if !(commonSuffix doc st.comps).isEmpty then
        if st.comps.length > 1 then
          segDone (setCompletions (insertText cfg s (commonSuffix doc st.comps))
                    (st.comps.map (fromPos (commonSuffix doc st.comps).length)))
        else segDone { insertText cfg s (commonSuffix doc st.comps) with cs := none }
      else if st.comps.length == 1 then segDone (goToCompletion cfg s (some 0)).1
      else segDone s

/-- dispatch on `proceed()` -/
def compDispatch (cfg : Config) (env : Env) (s : St) (m : Mode) (doc : Doc) (tok : Nat) : Seg :=
  match s.cs with
  | some st => if st.token == tok then compProceed cfg s st m doc else compElse cfg env s m doc
  | none => compElse cfg env s m doc

/-- `async_completer` after the `async for` loop -/
def compPost (cfg : Config) (env : Env) (s : St) (m : Mode) (doc : Doc) (tok : Nat) : Seg :=
  compDispatch cfg env (dropNoop cfg s doc tok) m doc tok

/-- `complete_state.completions.append(completion)` (invisible once the state is orphaned) -/
def appendCompl (s : St) (tok : Nat) (c : Completion) : St :=
  match s.cs with
  | some st => if st.token == tok then { s with cs := some { st with comps := st.comps ++ [c] } } else s
  | none => s

def compsLen (s : St) : Nat :=
  match s.cs with
  | some st => st.comps.length
  | none => 0

/-- the completer's stream delivered its next event to `async for` -/
def compResume (cfg : Config) (env : Env) (s : St) (m : Mode) (doc : Doc) (i tok : Nat) : Seg :=
  match (env.comp doc)[i]? with
  | some c =>
    if !proceed (appendCompl s tok c) tok then compPost cfg env (appendCompl s tok c) m doc tok
    else if compsLen (appendCompl s tok c) ≥ cfg.maxN then compPost cfg env (appendCompl s tok c) m doc tok
    else (appendCompl s tok c, some (.cLoad m doc (i + 1) tok))
  | none => compPost cfg env s m doc tok    -- StopAsyncIteration

/-! ### completer coroutine over a `ThreadedCompleter`

  The stream is `generator_to_async_generator` (`Ptk.Model.C15Thread`).  The consumer side is
  cut finer than asyncio cuts it: every `q.get_nowait()` is a step of its own, so that steps
  of the producer thread (which runs in parallel with the event loop) interleave with them.
  The coarser real schedules — a whole `get_nowait` loop between two awaits — are sequences of
  these steps; user actions between them are impossible in reality and harmless here (the
  invariant is proved for the larger set of interleavings). -/

/-- the body of `async for` for one element received from the queue -/
def compItemT (cfg : Config) (env : Env) (s : St) (m : Mode) (doc : Doc) (tok : Nat) (h : HS) :
    QItem → Seg
  | .done => (s, some (.cCloseT m doc tok (quit h) false))
  | .item j =>
    match (env.comp doc)[j]? with
    | none => (s, some (.cLoadT m doc tok h))
    | some c =>
      if !proceed (appendCompl s tok c) tok then
        (appendCompl s tok c, some (.cCloseT m doc tok (quit h) false))
      else if compsLen (appendCompl s tok c) ≥ cfg.maxN then
        (appendCompl s tok c, some (.cCloseT m doc tok (quit h) false))
      else (appendCompl s tok c, some (.cLoadT m doc tok h))

/-- one consumer step: the result of the `q.get` job is delivered, or `q.get_nowait()`
    returns an element, or it raises `Empty` and the `q.get` job is submitted -/
def compStepT (cfg : Config) (env : Env) (s : St) (m : Mode) (doc : Doc) (tok : Nat) (h : HS) : Seg :=
  match deliver h with
  | some (x, h') => compItemT cfg env s m doc tok h' x
  | none =>
    if h.getter then (s, some (.cLoadT m doc tok h))
    else
      match popNow h with
      | some (x, h') => compItemT cfg env s m doc tok h' x
      | none => (s, some (.cLoadT m doc tok (submitGet h)))

/-- `await runner_f` returns once the producer thread has returned; then the rest of
    `async_completer` runs (or, after a cancellation, `CancelledError` propagates and
    `_only_one_at_a_time` clears the flag) -/
def compCloseT (cfg : Config) (env : Env) (s : St) (m : Mode) (doc : Doc) (tok : Nat) (h : HS)
    (cancelled : Bool) : Seg :=
  if h.pc.isExit then
    if cancelled then segDone s else compPost cfg env s m doc tok
  else (s, some (.cCloseT m doc tok h cancelled))

/-! ### validator coroutine -/

/-- top of the `while True` loop of `_validate_async` -/
def valLoop (s : St) : Seg :=
  if s.vs ≠ .unknown then ({ s with runV := false }, none)
  else (s, some (.vWait s.doc s.sel))

/-- `if self.document != document: continue` — `Buffer.document` is built from text, cursor
    position *and* `selection_state` -/
def valResume (env : Env) (s : St) (doc : Doc) (sel : Option Nat) : Seg :=
  if s.doc ≠ doc ∨ s.sel ≠ sel then valLoop s
  else
    match env.valid doc with
    | some msg => ({ s with vs := .invalid, verr := some msg, runV := false }, none)
    | none => ({ s with vs := .valid, verr := none, runV := false }, none)

/-! ### suggester coroutine -/

def sugBegin (s : St) : Seg :=
  if s.sugg.isSome then ({ s with runS := false }, none)
  else (s, some (.sWait s.doc s.sel))

def sugResume (env : Env) (s : St) (doc : Doc) (sel : Option Nat) : Seg :=
  if s.doc = doc ∧ s.sel = sel then ({ s with sugg := env.sugg doc, runS := false }, none)
  else sugBegin s       -- raise _Retry

/-! ### scheduler -/

/-- The task list without the task that is being run, and what becomes of that task: a
    coroutine that goes on waiting is put (back) at the front.  (The order of the list only
    matters among *pending* tasks: it is their creation order.) -/
def finishSeg (r : Seg) : St :=
  match r.2 with
  | some t => { r.1 with tasks := t :: r.1.tasks }
  | none => r.1

def dropTask (s : St) (i : Nat) : St := { s with tasks := s.tasks.eraseIdx i }

/-- first step of a pending task: the `running` check of `_only_one_at_a_time`, then the
    coroutine body up to its first await -/
def startTask (cfg : Config) (env : Env) (s : St) (i : Nat) : St :=
  match s.tasks[i]? with
  | some (.cPend m) =>
    if s.runC then dropTask s i
    else finishSeg (compBegin cfg env { dropTask s i with runC := true } m)
  | some .vPend =>
    if s.runV then dropTask s i
    else finishSeg (valLoop { dropTask s i with runV := true })
  | some .sPend =>
    if s.runS then dropTask s i
    else finishSeg (sugBegin { dropTask s i with runS := true })
  | _ => s

def resumeTask (cfg : Config) (env : Env) (s : St) (i : Nat) : St :=
  match s.tasks[i]? with
  | some (.cLoad m doc k tok) => finishSeg (compResume cfg env (dropTask s i) m doc k tok)
  | some (.cLoadT m doc tok h) => finishSeg (compStepT cfg env (dropTask s i) m doc tok h)
  | some (.cCloseT m doc tok h c) => finishSeg (compCloseT cfg env (dropTask s i) m doc tok h c)
  | some (.vWait doc sel) => finishSeg (valResume env (dropTask s i) doc sel)
  | some (.sWait doc sel) => finishSeg (sugResume env (dropTask s i) doc sel)
  | _ => s

/-- The asyncio task is cancelled (the Application exits): `CancelledError` is raised at the
    await, the `finally` of `_only_one_at_a_time` clears the flag.  A task that has not
    taken its first step is just dropped (its body never runs). -/
def killFlags (s : St) : Task → St
  | .cLoad .. => { s with runC := false }
  /- `CancelledError` at the await of the `q.get` job: the `finally` of
     `generator_to_async_generator` sets `quitting` and awaits `runner_f` — the coroutine is
     not finished, the flag stays set until the producer thread has returned -/
  | .cLoadT m doc tok h => { s with tasks := .cCloseT m doc tok (quit h) true :: s.tasks }
  /- `CancelledError` at `await runner_f`: the coroutine ends, the thread is left to itself -/
  | .cCloseT .. => { s with runC := false }
  | .vWait _ _ => { s with runV := false }
  | .sWait _ _ => { s with runS := false }
  | .cPend _ => s
  | .vPend => s
  | .sPend => s

def cancelTask (s : St) (i : Nat) : St :=
  match s.tasks[i]? with
  | some t => killFlags (dropTask s i) t
  | none => s

/-- one step of the producer thread of the threaded completer task `i` -/
def prodTask (s : St) (i : Nat) : St :=
  match s.tasks[i]? with
  | some (.cLoadT m doc tok h) => { s with tasks := s.tasks.set i (.cLoadT m doc tok (prodStep h)) }
  | some (.cCloseT m doc tok h c) => { s with tasks := s.tasks.set i (.cCloseT m doc tok (prodStep h) c) }
  | _ => s

/-- the blocking `q.get` job of the threaded completer task `i` returns -/
def takeTask (s : St) (i : Nat) : St :=
  match s.tasks[i]? with
  | some (.cLoadT m doc tok h) => { s with tasks := s.tasks.set i (.cLoadT m doc tok (take h)) }
  | some (.cCloseT m doc tok h c) => { s with tasks := s.tasks.set i (.cCloseT m doc tok (take h) c) }
  | _ => s

/-- what `AppendAutoSuggestion.apply_transformation` (layout/processors.py) appends to the last
    line: `buffer.suggestion.text` if there is a suggestion and the cursor is at the end of the
    document, else nothing -/
def shownSuggestion (s : St) : Text :=
  match s.sugg with
  | some t => if s.cur = s.text.length then t else []
  | none => []

/-! ### the transition system -/

inductive Act
  | insert (d : Text)
  | deleteBefore (n : Nat)
  | delete (n : Nat)
  | setCursor (v : Int)
  | setText (t : Text)
  | next (count : Nat) (dw : Bool)
  | prev (count : Nat) (dw : Bool)
  | cancel
  | startCompletion (m : Mode)
  | tab
  | apply (c : Completion)
  | validateSync
  | reset (t : Text) (c : Nat)
  | histComplete
  | start (i : Nat)
  | resume (i : Nat)
  | kill (i : Nat)
  | prod (i : Nat)
  | take (i : Nat)
  | startSel
  | exitSel
deriving Repr

/-- one step; the flag reports an exception escaping from a user-level call -/
def step (cfg : Config) (env : Env) (s : St) : Act → St × Bool
  | .insert d => (insertText cfg s d, false)
  | .deleteBefore n => (deleteBefore cfg s n, false)
  | .delete n => (delete cfg s n, false)
  | .setCursor v => (setCursor s v, false)
  | .setText t => (setText cfg s t, false)
  | .next c dw => completeNext cfg s c dw
  | .prev c dw => completePrevious cfg s c dw
  | .cancel => cancelCompletion cfg s
  | .startCompletion m => (startCompletion s m, false)
  | .tab => tab cfg s
  | .apply c => applyCompletion cfg s c
  | .validateSync => (validateSync cfg env s, false)
  | .reset t c => (reset s t (min c t.length), false)
  | .histComplete => histComplete cfg env s
  | .start i => (startTask cfg env s i, false)
  | .resume i => (resumeTask cfg env s i, false)
  | .kill i => (cancelTask s i, false)
  | .prod i => (prodTask s i, false)
  | .take i => (takeTask s i, false)
  | .startSel => (startSelection s, false)
  | .exitSel => (exitSelection s, false)

def run (cfg : Config) (env : Env) (s : St) (as : List Act) : St :=
  as.foldl (fun s a => (step cfg env s a).1) s

/-! ### concrete user code used by the driver and by the non-vacuity examples -/

/-- one completion of a scripted completer: `start_position = -back`, text = (the last
    `back` characters before the cursor, if `echo`) ++ `lit` -/
structure CompSpec where
  back : Nat
  echo : Bool
  lit : Text
deriving DecidableEq, Repr

def lastN (t : Text) (n : Nat) : Text := t.drop (t.length - n)

def mkComp (spec : List CompSpec) (d : Doc) : List Completion :=
  spec.map fun sp =>
    ⟨(if sp.echo then lastN d.before sp.back else []) ++ sp.lit, -(sp.back : Int)⟩

/-- invalid iff `(len(text) + a*cursor) % p == r`; the message is `E` + first character -/
def mkValid (a p r : Nat) (d : Doc) : Option Text :=
  if (d.text.length + a * d.cur) % p = r then some ('E' :: d.text.take 1) else none

/-- no suggestion iff `(len(text) + a*cursor) % p == r`, else the last two characters + `lit` -/
def mkSugg (a p r : Nat) (lit : Text) (d : Doc) : Option Text :=
  if (d.text.length + a * d.cur) % p = r then none else some (lastN d.text 2 ++ lit)

end Ptk.C15
