/-
  C17 (fourth layer) — the byte parser's bracketed-paste mode under chunked reads, in front of the
  accept boundary.

  Code followed (as it is now):
    * input/vt100_parser.py `Vt100Parser.feed` (paste mode: `_paste_buffer += data`, the end mark is
      searched in the ACCUMULATED buffer, the content before it becomes ONE
      `KeyPress(Keys.BracketedPaste, content)`, the text after it is re-fed; normal mode: character
      by character through the generator, and `feed(data[i:])` as soon as the generator has switched
      to paste mode), `_call_handler` (`Keys.BracketedPaste` → `_in_bracketed_paste = True;
      _paste_buffer = ""`, every other key → callback);
    * input/vt100.py `Vt100Input.read_keys` (`data = stdin_reader.read(); parser.feed(data); return
      the collected key presses`) — the parser and its state belong to the INPUT object, so they
      survive the end of one prompt and the start of the next;
    * application.py `read_from_input` (`keys = input.read_keys(); feed_multiple(keys);
      process_keys()` under the guard of `Ptk.Model.C17`), everything else as in `Ptk.Model.C17`.

  The normal-mode generator (`_input_parser_generator`) is a PARAMETER of this layer (`Norm`): any
  state type, any `send`; what it reports is the key presses it handed to the callback and whether
  `Keys.BracketedPaste` was among the matched keys.  `Conc` below is the concrete generator (a
  line-by-line copy of the code over the sequence table regenerated from /repo) that the driver
  runs.  Text is a list of characters: the UTF-8 decoder in front of the parser is C03's.
-/
import Ptk.Model.C17
import Ptk.Gen.C17
namespace Ptk.C17.Paste
open Ptk.Py Ptk.C17

def ESC : Char := Char.ofNat 27

/-- the sequence that `ANSI_SEQUENCES` maps to `Keys.BracketedPaste` -/
def startMark : Text := [ESC, '[', '2', '0', '0', '~']

/-- the literal `end_mark = "\x1b[201~"` in `Vt100Parser.feed` -/
def endMark : Text := [ESC, '[', '2', '0', '1', '~']

/-- pin: the build breaks here when the literal in /repo changes -/
example : Gen.C17.endMarkSrc = endMark := by decide

/-- the normal-mode generator: `send st c` = `self._input_parser.send(c)`: new generator state, the
    key presses handed to `feed_key_callback`, and whether `_call_handler` saw
    `Keys.BracketedPaste` (→ `_in_bracketed_paste = True; _paste_buffer = ""`) -/
structure Norm (ν : Type) where
  send : ν → Char → ν × List Key × Bool

/-- `Vt100Parser` -/
structure PS (ν : Type) where
  nst : ν                  -- the generator (its local `prefix`)
  inPaste : Bool           -- `_in_bracketed_paste`
  pbuf : Text              -- `_paste_buffer` (only meaningful in paste mode)
deriving DecidableEq

variable {ν : Type}

/-- the `for i, c in enumerate(data)` loop of `feed` in normal mode; returns the state, the keys and
    the `data[i:]` that is re-fed once the parser is in paste mode (`[]` if the loop ended) -/
def feedNormal (N : Norm ν) : Text → PS ν → List Key → PS ν × List Key × Text
  | [], s, out => (s, out, [])
  | c :: cs, s, out =>
    if s.inPaste then (s, out, c :: cs)
    else
      let r := N.send s.nst c
      feedNormal N cs { nst := r.1, inPaste := r.2.2, pbuf := [] } (out ++ r.2.1)

/-- `Vt100Parser.feed` with an explicit bound on the recursion depth -/
def feedFuel (N : Norm ν) : Nat → PS ν → Text → List Key → PS ν × List Key
  | 0, s, _, out => (s, out)
  | n + 1, s, data, out =>
    if s.inPaste then
      -- self._paste_buffer += data
      let buf := s.pbuf ++ data
      -- if end_mark in self._paste_buffer: end_index = self._paste_buffer.index(end_mark)
      match findSub? endMark buf with
      | some j =>
        -- feed_key_callback(KeyPress(Keys.BracketedPaste, paste_content)); leave paste mode;
        -- self.feed(remaining)
        feedFuel N n { s with inPaste := false, pbuf := [] } (buf.drop (j + endMark.length))
          (out ++ [pasteKey (buf.take j)])
      | none => ({ s with pbuf := buf }, out)
    else
      let r := feedNormal N data s out
      if r.2.2.isEmpty then (r.1, r.2.1) else feedFuel N n r.1 r.2.2 r.2.1

/-- `Vt100Parser.feed(data)` → (parser afterwards, key presses collected in `Vt100Input._buffer`);
    the recursion depth is bounded by the amount of text at hand
    (`Props.C17Paste.feed_eq_parse`: the bound is never reached) -/
def feed (N : Norm ν) (s : PS ν) (data : Text) : PS ν × List Key :=
  feedFuel N (s.pbuf.length + data.length + 1) s data []

/-! ### the specification of the parser: one character at a time

  In paste mode nothing is a key until the end mark is complete in the accumulated buffer; the
  paste is then one key press whose data is everything before the mark.  (This is NOT how the code
  works — the code handles whole chunks — it is what the code is proved equal to.) -/
def stepChar (N : Norm ν) (s : PS ν × List Key) (c : Char) : PS ν × List Key :=
  if s.1.inPaste then
    let b := s.1.pbuf ++ [c]
    if endMark.isSuffixOf b then
      ({ s.1 with inPaste := false, pbuf := [] }, s.2 ++ [pasteKey (b.take (b.length - endMark.length))])
    else ({ s.1 with pbuf := b }, s.2)
  else
    let r := N.send s.1.nst c
    ({ nst := r.1, inPaste := r.2.2, pbuf := [] }, s.2 ++ r.2.1)

def parseFrom (N : Norm ν) (s : PS ν × List Key) (data : Text) : PS ν × List Key :=
  data.foldl (stepChar N) s

/-- the whole text at once, from parser state `s` -/
def parse (N : Norm ν) (s : PS ν) (data : Text) : PS ν × List Key := parseFrom N (s, []) data

/-! ### the input object in front of the accept boundary -/

structure St (ν : Type) where
  bytes : Text             -- written to the pipe, not yet returned by `stdin_reader.read()`
  ps : PS ν                -- `Vt100Input.vt100_parser` — one per input object, never reset between prompts
  l1 : C17.St              -- the accept-boundary machinery; its own `pipe` stays empty here

def St.init (g : ν) (responds : Bool) : St ν :=
  { bytes := [], ps := ⟨g, false, []⟩, l1 := C17.St.init responds }

inductive Ev where
  | write (c : Text)       -- somebody writes characters to the pipe
  | start
  | read (n : Nat)         -- `read_from_input`; `stdin_reader.read()` returns ≤ n characters
  | finish
  | endWait
deriving DecidableEq, Repr

/-- the guard of `read_from_input`: `self._is_running or self.renderer.waiting_for_cpr` -/
def active (s : C17.St) : Bool := s.running || (s.exiting && decide (0 < s.kp.waiting))

def step (N : Norm ν) (s : St ν) : Ev → St ν
  | .write c => { s with bytes := s.bytes ++ c }
  | .start => { s with l1 := C17.step s.l1 .start }
  | .finish => { s with l1 := C17.step s.l1 .finish }
  | .endWait => { s with l1 := C17.step s.l1 .endWait }
  | .read n =>
    if !active s.l1 then s
    else
      -- keys = self.input.read_keys()
      let r := feed N s.ps (s.bytes.take n)
      -- self.key_processor.feed_multiple(keys); self.key_processor.process_keys()
      { bytes := s.bytes.drop n
        ps := r.1
        l1 := { s.l1 with kp := processKeys { s.l1.kp with queue := s.l1.kp.queue ++ r.2 } } }

def run (N : Norm ν) (s : St ν) : List Ev → St ν
  | [] => s
  | e :: es => run N (step N s e) es

def written : List Ev → Text
  | [] => []
  | .write c :: es => c ++ written es
  | _ :: es => written es

/-! ### the concrete normal-mode generator (`_input_parser_generator`, `_get_match`,
    `_IsPrefixOfLongerMatchCache`, `_call_handler`) over the regenerated sequence table -/
namespace Conc

abbrev Table := List (Text × List Int)

structure Cfg where
  table : Table
  isDigit : Char → Bool

/-- `Keys.BracketedPaste` in the table -/
def pasteCode : Int := -100
def unknownCode : Nat := 0x110000 + 999

/-! pattern pins (the build breaks here when a regex in /repo changes) -/
example : Gen.C17.cprRe = "^\x1b\\[\\d+;\\d+R\\Z" := by decide
example : Gen.C17.mouseRe = "^\x1b\\[(<?[\\d;]+[mM]|M...)\\Z" := by decide
example : Gen.C17.cprPrefixRe = "^\x1b\\[[\\d;]*\\Z" := by decide
example : Gen.C17.mousePrefixRe = "^\x1b\\[(<?[\\d;]*|M.{0,2})\\Z" := by decide
example : (Gen.C17.cprReFlags, Gen.C17.mouseReFlags, Gen.C17.cprPrefixReFlags,
    Gen.C17.mousePrefixReFlags) = (32, 32, 32, 32) := by decide

/-- `[\d;]` -/
def isDS (dg : Char → Bool) (c : Char) : Bool := dg c || c == ';'

/-- strip the literal `\x1b[` every pattern starts with -/
def csi : Text → Option Text
  | e :: b :: r => if e == ESC && b == '[' then some r else none
  | _ => none

def digits1 (dg : Char → Bool) (x : Text) : Bool := !x.isEmpty && x.all dg

def digitsR (dg : Char → Bool) (t : Text) : Bool :=
  match t.getLast? with
  | some c => c == 'R' && digits1 dg t.dropLast
  | none => false

/-- body of `_cpr_response_re`: `\d+;\d+R\Z` -/
def cprBody (dg : Char → Bool) (r : Text) : Bool :=
  (List.range r.length).any fun i =>
    r[i]? == some ';' && digits1 dg (r.take i) && digitsR dg (r.drop (i + 1))

def dsM (dg : Char → Bool) (x : Text) : Bool :=
  match x.getLast? with
  | some c => (c == 'm' || c == 'M') && !x.dropLast.isEmpty && x.dropLast.all (isDS dg)
  | none => false

def mDots : Text → Bool
  | [m, a, b, c] => m == 'M' && a != '\n' && b != '\n' && c != '\n'
  | _ => false

/-- body of `_mouse_event_re`: `(<?[\d;]+[mM]|M...)\Z` -/
def mouseBody (dg : Char → Bool) (r : Text) : Bool :=
  dsM dg r ||
  (match r with
   | c :: r' => c == '<' && dsM dg r'
   | [] => false) ||
  mDots r

def cprPrefixBody (dg : Char → Bool) (r : Text) : Bool := r.all (isDS dg)

def mousePrefixBody (dg : Char → Bool) (r : Text) : Bool :=
  r.all (isDS dg) ||
  (match r with
   | c :: r' => (c == '<' && r'.all (isDS dg)) || (c == 'M' && r'.length ≤ 2 && r'.all (· != '\n'))
   | [] => false)

def isCpr (dg : Char → Bool) (p : Text) : Bool :=
  match csi p with | some r => cprBody dg r | none => false
def isMouse (dg : Char → Bool) (p : Text) : Bool :=
  match csi p with | some r => mouseBody dg r | none => false
def isCprPrefix (dg : Char → Bool) (p : Text) : Bool :=
  match csi p with | some r => cprPrefixBody dg r | none => false
def isMousePrefix (dg : Char → Bool) (p : Text) : Bool :=
  match csi p with | some r => mousePrefixBody dg r | none => false

def lookup (t : Table) (p : Text) : List Int :=
  match t.find? (fun kv => kv.1 == p) with
  | some kv => kv.2
  | none => []

/-- `Vt100Parser._get_match` (`[]` = None) -/
def getMatch (cfg : Cfg) (p : Text) : List Int :=
  if isCpr cfg.isDigit p then [-3]
  else if isMouse cfg.isDigit p then [Int.ofNat unknownCode]
  else lookup cfg.table p

/-- `_IsPrefixOfLongerMatchCache.__missing__` -/
def isPrefixOfLonger (cfg : Cfg) (p : Text) : Bool :=
  if isCprPrefix cfg.isDigit p || isMousePrefix cfg.isDigit p then true
  else cfg.table.any fun kv => !kv.2.isEmpty && p.isPrefixOf kv.1 && kv.1 != p

/-- key code → key press of the accept-boundary model -/
def codeKey (i : Int) : Key :=
  if i = -1 then .accept
  else if i = -2 then .abort
  else if i = -3 then .cpr
  else if i = -4 then .cj
  else if i ≥ 0 then .other i.toNat
  else .other unknownCode

/-- generator state and what one `send` has produced so far -/
structure G where
  pre : Text               -- local `prefix`
  out : List Key           -- key presses handed to the callback
  on : Bool                -- `_call_handler` saw `Keys.BracketedPaste`

/-- `_call_handler(key, insert_text)` for a tuple of keys -/
def callHandler : G → List Int → G
  | g, [] => g
  | g, k :: ks =>
    callHandler (if k = pasteCode then { g with on := true } else { g with out := g.out ++ [codeKey k] }) ks

/-- `for i in range(len(prefix), 0, -1): …` (no `break`) -/
def shiftLoop (cfg : Cfg) : Nat → G → Bool → G × Bool
  | 0, g, found => (g, found)
  | i + 1, g, found =>
    let m := getMatch cfg (g.pre.take (i + 1))
    if !m.isEmpty then
      shiftLoop cfg i (callHandler { g with pre := g.pre.drop (i + 1) } m) true
    else shiftLoop cfg i g found

def shiftStep (cfg : Cfg) (g : G) : G :=
  let (g1, found) := shiftLoop cfg g.pre.length g false
  if found then g1
  else match g1.pre with
    | c :: r => { g1 with pre := r, out := g1.out ++ [.other c.toNat] }
    | [] => g1

/-- the body of the `while True` loop between two `yield`s (no flush in this layer) -/
def process (cfg : Cfg) : Nat → G → G
  | 0, g => g
  | fuel + 1, g =>
    if g.pre.isEmpty then g
    else
      let isP := isPrefixOfLonger cfg g.pre
      let m := getMatch cfg g.pre
      if !isP then
        if !m.isEmpty then callHandler { g with pre := [] } m
        else process cfg fuel (shiftStep cfg g)
      else g

def send (cfg : Cfg) (pre : Text) (c : Char) : Text × List Key × Bool :=
  let g := process cfg (pre.length + 1) ⟨pre ++ [c], [], false⟩
  (g.pre, g.out, g.on)

def norm (cfg : Cfg) : Norm Text := ⟨send cfg⟩

/-- the configuration of the current tree -/
def genCfg : Cfg := { table := Gen.C17.seqTable, isDigit := Gen.C17.reDigit }

end Conc

end Ptk.C17.Paste
