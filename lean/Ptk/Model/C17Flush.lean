/-
  C17 (third layer) — the input flush timer of `Application.run_async`.

  Code followed:
    * application.py `read_from_input`: after every read
        `if flush_task: flush_task.cancel(); flush_task = create_background_task(auto_flush_input())`
      and `auto_flush_input`: `await sleep(self.ttimeoutlen); flush_input()`;
      `flush_input`: `keys = self.input.flush_keys()` (the parser gives up waiting for the rest of an
      incomplete escape sequence: a lone Escape comes out, the rest will be read as text);
    * input/vt100.py + vt100_parser.py, abstracted: the parser either holds the first part of an
      escape sequence (`pending`) or nothing.

  Time is a natural number (any unit); `T` = `ttimeoutlen`.  A read at time `t` delivers pieces:
  complete key presses, the first part (`head k`) or the rest (`tail k`) of the escape sequence of
  key `k`.  The timer is a pending deadline; the `timer t` event is the loop looking at its timers at
  time `t`: the flush happens only when the deadline has been reached.
-/
import Ptk.Model.C17
namespace Ptk.C17.Flush
open Ptk.C17

inductive Piece where
  | key (k : Key)          -- a complete key press
  | head (k : Nat)         -- the first bytes of the escape sequence of key `other k`
  | tail (k : Nat)         -- the remaining bytes of that sequence
deriving DecidableEq, Repr

/-- what the input object hands to the key processor -/
inductive Out where
  | key (k : Key)
  | esc                    -- a lone Escape: the parser was flushed in the middle of a sequence
  | junk (k : Nat)         -- the rest of a sequence whose beginning was flushed: read as text
deriving DecidableEq, Repr

structure P where
  T : Nat                  -- app.ttimeoutlen
  now : Nat                -- time of the last event
  pending : Option Nat     -- Vt100Parser is in the middle of the escape sequence of this key
  deadline : Option Nat    -- the flush task sleeps until then (`none`: no task / it has run)
  out : List Out           -- everything `read_keys()` / `flush_keys()` returned so far
deriving DecidableEq, Repr

def P.init (T : Nat) : P := ⟨T, 0, none, none, []⟩

/-- the parser without any timer: `Vt100Parser.feed` piece by piece -/
def feed (pending : Option Nat) : List Piece → List Out × Option Nat
  | [] => ([], pending)
  | .key k :: ps =>
    let (o, p') := feed none ps
    -- (a key while a sequence is pending cannot complete it: the parser emits the lone Escape)
    ((match pending with | some _ => [.esc] | none => []) ++ .key k :: o, p')
  | .head k :: ps =>
    let (o, p') := feed (some k) ps
    ((match pending with | some _ => [.esc] | none => []) ++ o, p')
  | .tail k :: ps =>
    let (o, p') := feed none ps
    ((if pending = some k then [.key (.other k)] else
        (match pending with | some _ => [.esc] | none => []) ++ [.junk k]) ++ o, p')

inductive Ev where
  | read (t : Nat) (c : List Piece)   -- `read_from_input` at time t
  | timer (t : Nat)                   -- the event loop runs its due timers at time t
deriving DecidableEq, Repr

def Ev.time : Ev → Nat
  | .read t _ => t
  | .timer t => t

def step (p : P) : Ev → P
  | .read t c =>
    let (o, pend) := feed p.pending c
    -- cancel the old flush task, start a new one: it fires `ttimeoutlen` after THIS read
    { p with now := t, pending := pend, out := p.out ++ o, deadline := some (t + p.T) }
  | .timer t =>
    match p.deadline with
    | some d =>
      if d ≤ t then
        -- flush_input(): parser.flush()
        { p with now := t, deadline := none, pending := none,
                 out := p.out ++ (match p.pending with | some _ => [.esc] | none => []) }
      else { p with now := t }
    | none => { p with now := t }

def run (p : P) : List Ev → P
  | [] => p
  | e :: es => run (step p e) es

/-- all pieces delivered by a schedule, in order -/
def pieces : List Ev → List Piece
  | [] => []
  | .read _ c :: es => c ++ pieces es
  | .timer _ :: es => pieces es

end Ptk.C17.Flush
