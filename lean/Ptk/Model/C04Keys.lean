/-
  C04 (part 4) — `key_bindings._parse_key` (+ `KEY_ALIASES`, the `Keys` enumeration) and the
  Readline numeric argument of `key_processor.KeyPressEvent` (`append_to_arg_count`, `.arg`).

  The tables (`Keys` values, `KEY_ALIASES`) and the cap of `.arg` are parameters; the driver
  instantiates them with `Ptk.Gen.C04`, regenerated from /repo on every run.
-/
import Ptk.Py
import Ptk.Gen.C04
namespace Ptk.C04

/-! ### `_parse_key` -/

/-- the argument of `_parse_key`: a `Keys` member (given by its value) or a plain string -/
inductive RawKey where
  | enum (v : List Char)
  | str (s : List Char)
deriving Repr, DecidableEq

/-- the result: a `Keys` member (by value) or a one-character string -/
inductive PKey where
  | special (v : List Char)
  | char (c : Char)
deriving Repr, DecidableEq

def lookupAlias : List (List Char × List Char) → List Char → Option (List Char)
  | [], _ => none
  | (a, t) :: rest, s => if a == s then some t else lookupAlias rest s

def kwSpace : List Char := ['s', 'p', 'a', 'c', 'e']

/-- `key = KEY_ALIASES.get(key, key)`; `if key == "space": key = " "` -/
def resolveKey (aliases : List (List Char × List Char)) (s : List Char) : List Char :=
  let k := (lookupAlias aliases s).getD s
  if k == kwSpace then [' '] else k

/-- `try: return Keys(key)` … `if len(key) != 1: raise ValueError` … `return key` -/
def classify (values : List (List Char)) (k : List Char) : Option PKey :=
  if values.contains k then some (.special k)
  else match k with
    | [c] => some (.char c)
    | _ => none

/-- `_parse_key(key)`; `none` = `ValueError("Invalid key: …")` -/
def parseKey (aliases : List (List Char × List Char)) (values : List (List Char)) : RawKey → Option PKey
  | .enum v => some (.special v)                      -- isinstance(key, Keys): return key
  | .str s => classify values (resolveKey aliases s)

/-- `tuple(_parse_key(k) for k in keys)` (the first failure raises) -/
def parseKeys (aliases : List (List Char × List Char)) (values : List (List Char)) :
    List RawKey → Option (List PKey)
  | [] => some []
  | r :: rs =>
    match parseKey aliases values r, parseKeys aliases values rs with
    | some k, some ks => some (k :: ks)
    | _, _ => none

/-! ### the Readline argument -/

/-- `KeyProcessor.arg` / `KeyPressEvent._arg`: `None` or a string over `-0123456789` -/
abbrev Arg := Option (List Char)

def isDigitC (c : Char) : Bool := '0' ≤ c && c ≤ '9'

/-- `event.append_to_arg_count(data)` for a one-character `data`: the new value of
    `key_processor.arg`; `none` = the `assert` fails (AssertionError leaves the handler) -/
def appendArg (cur : Arg) (d : Char) : Option (List Char) :=
  if !(d == '-' || isDigitC d) then none            -- assert data in "-0123456789"
  else if d == '-' then
    match cur with
    | none => some ['-']
    | some c => if c == ['-'] then some ['-'] else none   -- assert current is None or current == "-"
  else
    match cur with
    | none => some [d]
    | some c => some (c ++ [d])                       -- f"{current}{data}"

def digitsVal : List Char → Nat → Nat
  | [], acc => acc
  | c :: cs, acc => digitsVal cs (acc * 10 + (c.toNat - '0'.toNat))

/-- `int(s)` for `s` = optional `-` followed by at least one digit; `none` = ValueError -/
def pyInt (s : List Char) : Option Int :=
  match s with
  | '-' :: ds => if !ds.isEmpty && ds.all isDigitC then some (-(digitsVal ds 0 : Int)) else none
  | ds => if !ds.isEmpty && ds.all isDigitC then some (digitsVal ds 0 : Int) else none

/-- the property `KeyPressEvent.arg`; `none` = `int()` raises ValueError -/
def argValue (cap : Nat) (a : Arg) : Option Int :=
  match a with
  | none => some 1                                    -- int(self._arg or 1)
  | some s =>
    if s == ['-'] then some (-1)
    else if s.isEmpty then some 1                     -- "" or 1
    else match pyInt s with
      | some v => if v ≥ (cap : Int) then some 1 else some v
      | none => none

end Ptk.C04
