/-
  C19 — model of `Style.from_dict(style_dict, priority)` (src/prompt_toolkit/styles/style.py) and of
  styles/pygments.py (`pygments_token_to_classname`, `style_from_pygments_dict`).

  A dict is given by its `items()` in insertion order.  Python's `sorted(..., key=key)` is a STABLE
  sort; the model is the insertion sort that puts every next element behind all elements whose key
  is not greater — `Props/C19Dict.lean` proves that this is THE stable sorted permutation
  (sorted, a permutation, equal keys keep their order), so any stable sort computes the same list.
-/
import Ptk.Model.C19
namespace Ptk.C19
open Ptk.Py

/-- `key(item)`: `sum(len(i.split(".")) for i in item[0].split())` -/
def precisionKey (sp : Char → Bool) (names : Text) : Nat :=
  ((splitWs sp names).map fun i => (splitOn '.' i).length).sum

/-- put `x` behind every element whose key is ≤ its key -/
def insertByKey (key : α → Nat) (x : α) : List α → List α
  | [] => [x]
  | y :: ys => if key x < key y then x :: y :: ys else y :: insertByKey key x ys

/-- `sorted(l, key=key)` -/
def sortedByKey (key : α → Nat) (l : List α) : List α :=
  l.foldl (fun acc x => insertByKey key x acc) []

/-- the `style_rules` handed to `cls(...)` by `Style.from_dict(dict(items), priority)` -/
def fromDictRules (sp : Char → Bool) (mostPrecise : Bool) (items : List (Text × Text)) : List (Text × Text) :=
  if mostPrecise then sortedByKey (fun it => precisionKey sp it.1) items else items

/-- `pygments_token_to_classname(token)`: `".".join(("pygments",) + token).lower()` -/
def tokenToClassname (token : List Text) : Text :=
  lower (join ['.'] ("pygments".toList :: token))

/-- the rule list built by `style_from_pygments_dict(dict(items))` -/
def pygmentsRules (items : List (List Text × Text)) : List (Text × Text) :=
  items.map fun ts => (tokenToClassname ts.1, ts.2)

end Ptk.C19
