/-
  C06 — the renderer with ALL the state it carries between renders
  (src/prompt_toolkit/renderer.py `Renderer.__init__/reset/render/erase/clear/
  request_absolute_cursor_position/report_absolute_cursor_row/height_is_known/rows_above_layout`,
  `_StyleStringToAttrsCache`, `_StyleStringHasStyleCache`, and `_output_screen_diff` reading its two
  cache arguments).

  `Ptk.Model.C06` models the differ with the style lookups as pure functions (`Env.rawOf`); here the lookups
  go through the two dictionaries exactly as the code does, the dictionaries are fields of the renderer state
  (`_attrs_for_style`, `_style_string_has_style`), and the invalidation block of `Renderer.render` is followed
  statement by statement.  `Ptk.Props.C06Cache` proves that the caches are always consistent with the style in
  force and that therefore this model refines the pure one.

  Python objects: a `_StyleStringToAttrsCache` object is an `ACache` with an identity `id` (a creation counter);
  `_StyleStringHasStyleCache.style_string_to_attrs` is a reference to such an object: the model keeps a copy
  (`HCache.src`) and every write through one handle is replayed on the other handle when the identities are
  equal (`Caches.attrs`, `Caches.has`).
-/
import Ptk.Model.C06
namespace Ptk.C06
open Ptk.Py

/-- what the application's style objects compute: `rawAt sk tk s` =
    `style_transformation.transform_attrs(style.get_attrs_for_style_str(s))` when the style's
    `invalidation_hash()` is `sk` and the transformation's is `tk`; `enc` as in `Env` -/
structure World where
  rawAt : Nat → Nat → Nat → Attrs
  enc : Nat → Attrs → Attrs

/-- dictionary lookup -/
def lookupD {α : Type} : List (Nat × α) → Nat → Option α
  | [], _ => none
  | (k, v) :: rest, s => if k = s then some v else lookupD rest s

/-- a `_StyleStringToAttrsCache` object: it closes over `style.get_attrs_for_style_str` and the
    `style_transformation` it was created with (`sk`, `tk`); `ents` is the dict -/
structure ACache where
  id : Nat
  sk : Nat
  tk : Nat
  ents : List (Nat × Attrs)
deriving Repr, Inhabited

/-- `_StyleStringToAttrsCache.__getitem__` / `__missing__` -/
def ACache.get (wd : World) (c : ACache) (s : Nat) : Attrs × ACache :=
  match lookupD c.ents s with
  | some a => (a, c)
  | none => (wd.rawAt c.sk c.tk s, { c with ents := (s, wd.rawAt c.sk c.tk s) :: c.ents })

/-- a `_StyleStringHasStyleCache` object: `src` is `self.style_string_to_attrs` -/
structure HCache where
  src : ACache
  ents : List (Nat × Bool)
deriving Repr, Inhabited

/-- the two cache arguments of `_output_screen_diff` -/
structure Caches where
  ac : ACache
  hc : HCache
deriving Repr, Inhabited

/-- `attrs_for_style_string[s]` -/
def Caches.attrs (wd : World) (cs : Caches) (s : Nat) : Attrs × Caches :=
  let r := cs.ac.get wd s
  (r.1, { ac := r.2, hc := if cs.hc.src.id = cs.ac.id then { cs.hc with src := r.2 } else cs.hc })

/-- `style_string_has_style[s]` (`_StyleStringHasStyleCache.__missing__` reads `self.style_string_to_attrs[s]`) -/
def Caches.has (wd : World) (cs : Caches) (s : Nat) : Bool × Caches :=
  match lookupD cs.hc.ents s with
  | some b => (b, cs)
  | none =>
    let r := cs.hc.src.get wd s
    (r.1.hasStyle,
     { ac := if cs.hc.src.id = cs.ac.id then r.2 else cs.ac,
       hc := { src := r.2, ents := (s, r.1.hasStyle) :: cs.hc.ents } })

/-- nested `output_char(char)` with the dictionary lookups:
    `new_attrs = attrs_for_style_string[char.style]`,
    `if not last_style or new_attrs != attrs_for_style_string[last_style]` (short-circuit) -/
def outputCharC (wd : World) (e : Env) (cs : Caches) (last : Option Nat) (c : Cell) :
    List Cmd × Option Nat × Caches :=
  if last = some c.style then ([.write c.txt], last, cs)
  else
    let na := cs.attrs wd c.style
    match last with
    | none => ([.setAttrs na.1 e.depth (e.enc e.depth na.1), .write c.txt], some c.style, na.2)
    | some l =>
      if l = 0 then ([.setAttrs na.1 e.depth (e.enc e.depth na.1), .write c.txt], some c.style, na.2)
      else
        let la := na.2.attrs wd l
        ((if na.1 != la.1 then [.setAttrs na.1 e.depth (e.enc e.depth na.1)] else []) ++ [.write c.txt],
         some c.style, la.2)

/-- the generator of `get_max_column_index`: for every cell of the row
    `cell.char != " " or style_string_has_style[cell.style]` (the lookup only for blanks) -/
def countedC (wd : World) (cs : Caches) : List Cell → List Bool × Caches
  | [] => ([], cs)
  | c :: rest =>
    if c.txt != [' '] then
      let r := countedC wd cs rest
      (true :: r.1, r.2)
    else
      let h := cs.has wd c.style
      let r := countedC wd h.2 rest
      (h.1 :: r.1, r.2)

/-- `trimLen` over the flags -/
def trimLenB : List Bool → Nat
  | [] => 0
  | b :: bs => if trimLenB bs = 0 then (if b then 1 else 0) else trimLenB bs + 1

/-- `min(width - 1, get_max_column_index(row)) + 1` -/
def lineLenC (wd : World) (e : Env) (cs : Caches) (row : List Cell) : Nat × Caches :=
  let r := countedC wd cs row
  (min e.w (trimLenB r.1 - 1 + 1), r.2)

structure OutC where
  cmds : List Cmd
  pos : Point
  last : Option Nat
  cs : Caches
deriving Repr

def colLoopC (wd : World) (e : Env) (s : Screen) (y : Nat) (newRow prevRow : List Cell) (n : Nat) :
    Nat → Nat → Point → Option Nat → Caches → OutC
  | 0, _, pos, last, cs => ⟨[], pos, last, cs⟩
  | fuel + 1, c, pos, last, cs =>
    if c < n then
      let nc := cellAt newRow c
      let oc := cellAt prevRow c
      let cw := if nc.width = 0 then 1 else nc.width
      if nc.txt ≠ oc.txt ∨ nc.style ≠ oc.style then
        let m := moveCursor e.w pos last ⟨c, y⟩
        let z := zweCmds s.zwe y c
        let o := outputCharC wd e cs m.2 nc
        let r := colLoopC wd e s y newRow prevRow n fuel (c + cw) ⟨c + cw, y⟩ o.2.1 o.2.2
        ⟨m.1 ++ (z ++ (o.1 ++ r.cmds)), r.pos, r.last, r.cs⟩
      else colLoopC wd e s y newRow prevRow n fuel (c + cw) pos last cs
    else ⟨[], pos, last, cs⟩

def rowStepC (wd : World) (e : Env) (s prev : Screen) (y : Nat) (pos : Point) (last : Option Nat)
    (cs : Caches) : OutC :=
  let n := lineLenC wd e cs (s.row y)
  let pn := lineLenC wd e n.2 (prev.row y)
  let r := colLoopC wd e s y (s.row y) (prev.row y) n.1 n.1 0 pos last pn.2
  if n.1 < pn.1 then
    let m := moveCursor e.w r.pos r.last ⟨n.1, y⟩
    ⟨r.cmds ++ (m.1 ++ [.resetAttrs, .eraseEol]), ⟨n.1, y⟩, none, r.cs⟩
  else r

def rowLoopC (wd : World) (e : Env) (s prev : Screen) : Nat → Nat → Point → Option Nat → Caches → OutC
  | 0, _, pos, last, cs => ⟨[], pos, last, cs⟩
  | k + 1, y, pos, last, cs =>
    let a := rowStepC wd e s prev y pos last cs
    let b := rowLoopC wd e s prev k (y + 1) a.pos a.last a.cs
    ⟨a.cmds ++ b.cmds, b.pos, b.last, b.cs⟩

/-- `_output_screen_diff(…, attrs_for_style_string, style_string_has_style, …)`: the `Output` calls, the
    returned `(current_pos, last_style)` and the two dictionaries afterwards -/
def diffC (wd : World) (e : Env) (cs : Caches) (s : Screen) (pos : Point) (prev : Option Screen)
    (last : Option Nat) (isDone : Bool) (prevWidth : Nat) : OutC :=
  let p := preamble e pos prev last isDone prevWidth
  let rowCount := min (max s.height p.2.height) e.h
  let r := rowLoopC wd e s p.2 rowCount 0 p.1.pos p.1.last cs
  let f := finish e s p.2 isDone r.pos r.last
  ⟨p.1.cmds ++ (r.cmds ++ f.cmds), f.pos, f.last, r.cs⟩

/-! ### the renderer -/

/-- `CPR_Support` -/
inductive Cpr
  | unknown | supported | notSupported
deriving DecidableEq, Repr, Inhabited

/-- every attribute `Renderer` keeps between calls -/
structure RFull where
  /-- `_last_screen` -/
  lastScreen : Option Screen
  /-- `_last_size` as (rows, columns) -/
  lastSize : Option (Nat × Nat)
  /-- `_cursor_pos` -/
  pos : Point
  /-- `_last_style` -/
  lastStyle : Option Nat
  /-- `_last_style_hash` -/
  styleHash : Option Nat
  /-- `_last_transformation_hash` -/
  transHash : Option Nat
  /-- `_last_color_depth` -/
  lastDepth : Option Nat
  /-- `_last_cursor_shape` -/
  shape : Option Nat
  /-- `_in_alternate_screen`, `_mouse_support_enabled`, `_bracketed_paste_enabled`, `_cursor_key_mode_reset` -/
  inAlt : Bool
  mouse : Bool
  paste : Bool
  ckm : Bool
  /-- `_attrs_for_style` -/
  attrsCache : Option ACache
  /-- `_style_string_has_style` -/
  hasCache : Option HCache
  /-- (ghost) identity of the next `_StyleStringToAttrsCache` object -/
  nextId : Nat
  /-- `_min_available_height` -/
  minAvail : Int
  /-- `cpr_support` -/
  cpr : Cpr
  /-- `len(_waiting_for_cpr_futures)` -/
  waiting : Nat
  /-- the CPR-timeout tasks started by `request_absolute_cursor_position` that have not fired yet -/
  timers : Nat
deriving Repr, Inhabited

/-- what `Renderer.render` reads from the application and the output -/
structure AppSt where
  /-- `output.get_size()` -/
  w : Nat
  h : Nat
  /-- `self.style.invalidation_hash()`, `app.style_transformation.invalidation_hash()` -/
  sk : Nat
  tk : Nat
  /-- `app.color_depth` -/
  depth : Nat
  /-- `self.mouse_support()` -/
  mouse : Bool
  /-- `app.cursor.get_cursor_shape(app)` (0 = `_NEVER_CHANGE`) -/
  shape : Nat
deriving Repr, Inhabited, DecidableEq

/-- `Renderer.reset(_scroll, leave_alternate_screen)`: the caches, the hashes, `_last_color_depth`,
    `_cursor_key_mode_reset`, `cpr_support` and the CPR futures survive -/
def RFull.reset (r : RFull) (scroll leaveAlt : Bool) : RFull × List Cmd :=
  ({ r with pos := ⟨0, 0⟩, lastScreen := none, lastSize := none, lastStyle := none, shape := none,
            minAvail := 0,
            inAlt := if r.inAlt && leaveAlt then false else r.inAlt,
            mouse := false, paste := false },
   (if scroll then [Cmd.scrollToPrompt] else []) ++
   ((if r.inAlt && leaveAlt then [Cmd.quitAlt] else []) ++
   ((if r.mouse then [Cmd.disableMouse] else []) ++
   ((if r.paste then [Cmd.disablePaste] else []) ++
   [Cmd.resetCursorShape, Cmd.showCursor, Cmd.flush]))))

/-- `Renderer.__init__` (`respondsToCpr = output.responds_to_cpr`), which calls `reset(_scroll=True)` -/
def RFull.init (respondsToCpr : Bool) : RFull × List Cmd :=
  RFull.reset
    { lastScreen := none, lastSize := none, pos := ⟨0, 0⟩, lastStyle := none, styleHash := none,
      transHash := none, lastDepth := none, shape := none, inAlt := false, mouse := false, paste := false,
      ckm := false, attrsCache := none, hasCache := none, nextId := 0, minAvail := 0,
      cpr := if respondsToCpr then .unknown else .notSupported, waiting := 0, timers := 0 } true true

/-- `self._last_screen.height if self._last_screen else 0` -/
def RFull.lastHeight (r : RFull) : Nat :=
  match r.lastScreen with
  | some s => s.height
  | none => 0

/-- `height` handed to `layout.container.write_to_screen` (`pref` = the layout's preferred height) -/
def RFull.layoutHeight (r : RFull) (fs : Bool) (a : AppSt) (isDone : Bool) (pref : Nat) : Nat :=
  let h0 : Int :=
    if fs then (a.h : Int)
    else if isDone then (pref : Int)
    else max (max r.minAvail (r.lastHeight : Int)) (pref : Int)
  (min h0 (a.h : Int)).toNat

/-- the style / depth test of `Renderer.render` -/
def RFull.stale (r : RFull) (a : AppSt) : Bool :=
  r.styleHash != some a.sk || r.transHash != some a.tk || r.lastDepth != some a.depth

/-- the environment of the differ for one render (`rawAt` is not used by `diffC`: the lookups go through
    the caches; it is what the caches must agree with) -/
def AppSt.env (wd : World) (fs : Bool) (a : AppSt) : Env :=
  ⟨a.w, a.h, fs, fun _ => wd.rawAt a.sk a.tk, 0, a.depth, wd.enc⟩

/-- the `previous_screen` argument of the differ: `_last_screen` after
    `if self._last_size != size: self._last_screen = None` and after the invalidation block -/
def RFull.prevFor (r : RFull) (a : AppSt) : Option Screen :=
  let ls1 := if r.lastSize != some (a.h, a.w) then none else r.lastScreen
  if r.stale a then none else ls1

/-- the two dictionaries after the invalidation block
    (`self._attrs_for_style = None; self._style_string_has_style = None` when the style / transformation / depth
    changed) and the two `if … is None:` creations; and the identity of the next cache object -/
def RFull.cachesFor (r : RFull) (a : AppSt) : Caches × Nat :=
  let ac1 := if r.stale a then none else r.attrsCache
  let hc1 := if r.stale a then none else r.hasCache
  let ac2 : ACache := match ac1 with | some c => c | none => ⟨r.nextId, a.sk, a.tk, []⟩
  let nid := match ac1 with | some _ => r.nextId | none => r.nextId + 1
  let hc2 : HCache := match hc1 with | some h => h | none => ⟨ac2, []⟩
  (⟨ac2, hc2⟩, nid)

/-- `previous_width = self._last_size.columns if self._last_size else 0` -/
def RFull.prevWidth (r : RFull) : Nat :=
  match r.lastSize with
  | some (_, c) => c
  | none => 0

/-- the attributes `Renderer.render` has assigned when the differ returned `d` -/
def RFull.rendered (r : RFull) (fs : Bool) (a : AppSt) (s : Screen) (d : OutC) (nid : Nat) : RFull :=
  { r with inAlt := r.inAlt || fs, paste := true, ckm := true, mouse := a.mouse,
           styleHash := some a.sk, transHash := some a.tk, lastDepth := some a.depth,
           attrsCache := some d.cs.ac, hasCache := some d.cs.hc, nextId := nid,
           pos := d.pos, lastStyle := d.last, lastScreen := some s, lastSize := some (a.h, a.w),
           shape := some a.shape }

structure RenderOut where
  st : RFull
  cmds : List Cmd
  /-- the height given to the layout -/
  height : Nat

/-- `Renderer.render(app, layout, is_done)`: the layout, asked for `height` rows, produces screen `s`. -/
def RFull.render (wd : World) (fs : Bool) (r : RFull) (a : AppSt) (s : Screen) (isDone : Bool) (pref : Nat) :
    RenderOut :=
  let c1 : List Cmd := if fs && !r.inAlt then [.enterAlt] else []
  let c2 : List Cmd := if !r.paste then [.enablePaste] else []
  let c3 : List Cmd := if !r.ckm then [.resetCkm] else []
  let c4 : List Cmd :=
    if a.mouse && !r.mouse then [.enableMouse]
    else if !a.mouse && r.mouse then [.disableMouse] else []
  -- `height` is computed from `_last_screen` BEFORE it is forgotten
  let height := r.layoutHeight fs a isDone pref
  let d := diffC wd (a.env wd fs) (r.cachesFor a).1 s r.pos (r.prevFor a) r.lastStyle isDone r.prevWidth
  let c5 : List Cmd := if r.shape != some a.shape then [.setCursorShape a.shape] else []
  let r1 := r.rendered fs a s d (r.cachesFor a).2
  let cmds := c1 ++ (c2 ++ (c3 ++ (c4 ++ (d.cmds ++ (c5 ++ [Cmd.flush])))))
  if isDone then
    let r2 := r1.reset false true
    ⟨r2.1, cmds ++ r2.2, height⟩
  else ⟨r1, cmds, height⟩

/-- `Renderer.erase(leave_alternate_screen)` -/
def RFull.erase (r : RFull) (leaveAlt : Bool) : RFull × List Cmd :=
  let r2 := r.reset false leaveAlt
  (r2.1, [Cmd.cursorBackward r.pos.x, .cursorUp r.pos.y, .eraseDown, .resetAttrs, .enableAutowrap,
          .flush] ++ r2.2)

/-- `Renderer.request_absolute_cursor_position()` for an output without
    `get_rows_below_cursor_position` (vt100).  `none` = the `assert self._cursor_pos.y == 0` fails.
    The Bool says whether the CPR-timeout task was started. -/
def RFull.requestCpr (r : RFull) (fs : Bool) (rows : Nat) : Option (RFull × List Cmd × Bool) :=
  if r.pos.y != 0 then none
  else if fs then some ({ r with minAvail := rows }, [], false)
  else match r.cpr with
    | .notSupported => some (r, [], false)
    | .supported => some ({ r with waiting := r.waiting + 1 }, [Cmd.askCpr], false)
    | .unknown =>
      if r.waiting != 0 then some (r, [], false)
      else some ({ r with waiting := r.waiting + 1, timers := r.timers + 1 }, [Cmd.askCpr], true)

/-- `Renderer.clear()` -/
def RFull.clear (r : RFull) (fs : Bool) (rows : Nat) : Option (RFull × List Cmd × Bool) :=
  let r2 := r.erase true
  match r2.1.requestCpr fs rows with
  | none => none
  | some q => some (q.1, r2.2 ++ ([Cmd.eraseScreen, .cursorGoto 0 0, .flush] ++ q.2.1), q.2.2)

/-- `Renderer.report_absolute_cursor_row(row)` (`rows = output.get_size().rows`) -/
def RFull.reportCpr (r : RFull) (rows : Nat) (row : Int) : RFull :=
  { r with cpr := .supported, minAvail := (rows : Int) - row + 1, waiting := r.waiting - 1 }

/-- the oldest CPR-timeout task fires (`timer()` after its `sleep`; no `cpr_not_supported_callback`) -/
def RFull.cprTimeout (r : RFull) : RFull :=
  if r.timers = 0 then r
  else if r.cpr = .unknown then { r with cpr := .notSupported, timers := r.timers - 1 }
  else { r with timers := r.timers - 1 }

/-- `Renderer.height_is_known` (vt100: `get_rows_below_cursor_position` raises) -/
def RFull.heightIsKnown (r : RFull) (fs : Bool) : Bool := fs || decide (0 < r.minAvail)

/-- `Renderer.rows_above_layout` (`none` = `HeightIsUnknownError`) -/
def RFull.rowsAboveLayout (r : RFull) (rows : Nat) : Option Int :=
  if r.inAlt then some 0
  else if 0 < r.minAvail then some ((rows : Int) - max r.minAvail (r.lastHeight : Int))
  else none


/-! ### sessions: the application changes its style / transformation / colour depth / … between renders -/

structure FSt where
  app : AppSt
  r : RFull
deriving Repr, Inhabited

inductive FOp
  /-- `app.style = …` (another style sheet: `invalidation_hash()` becomes `sk`) -/
  | setStyle (sk : Nat)
  /-- `app.style_transformation = …` -/
  | setTrans (tk : Nat)
  /-- `app.color_depth` changes -/
  | setDepth (d : Nat)
  | setMouse (b : Bool)
  | setShape (n : Nat)
  /-- the terminal is resized (`output.get_size()` changes) -/
  | resize (w h : Nat)
  /-- `render(app, layout)`: the layout (preferred height `pref`) produces `s` -/
  | render (s : Screen) (pref : Nat)
  /-- `render(app, layout, is_done=True)` -/
  | finish (s : Screen) (pref : Nat)
  | erase (leaveAlt : Bool)
  | clear
  /-- a bare `reset()` (what `Application.reset` does before a new run) -/
  | reset (scroll leaveAlt : Bool)
  | requestCpr
  /-- the terminal answered the cursor position request: the cursor is on absolute row `row` (1-based) -/
  | reportCpr (row : Int)
  | cprTimeout

/-- one operation of a session: the new state and the `Output` calls -/
def stepF (wd : World) (fs : Bool) (st : FSt) : FOp → FSt × List Cmd
  | .setStyle sk => ({ st with app := { st.app with sk := sk } }, [])
  | .setTrans tk => ({ st with app := { st.app with tk := tk } }, [])
  | .setDepth d => ({ st with app := { st.app with depth := d } }, [])
  | .setMouse b => ({ st with app := { st.app with mouse := b } }, [])
  | .setShape n => ({ st with app := { st.app with shape := n } }, [])
  | .resize w h => ({ st with app := { st.app with w := w, h := h } }, [])
  | .render s pref =>
    let o := st.r.render wd fs st.app s false pref
    ({ st with r := o.st }, o.cmds)
  | .finish s pref =>
    let o := st.r.render wd fs st.app s true pref
    ({ st with r := o.st }, o.cmds)
  | .erase la => ({ st with r := (st.r.erase la).1 }, (st.r.erase la).2)
  | .clear =>
    match st.r.clear fs st.app.h with
    | some q => ({ st with r := q.1 }, q.2.1)
    | none => (st, [])
  | .reset sc la => ({ st with r := (st.r.reset sc la).1 }, (st.r.reset sc la).2)
  | .requestCpr =>
    match st.r.requestCpr fs st.app.h with
    | some q => ({ st with r := q.1 }, q.2.1)
    | none => (st, [])
  | .reportCpr row => ({ st with r := st.r.reportCpr st.app.h row }, [])
  | .cprTimeout => ({ st with r := st.r.cprTimeout }, [])

def runF (wd : World) (fs : Bool) : FSt → List FOp → FSt
  | st, [] => st
  | st, op :: ops => runF wd fs (stepF wd fs st op).1 ops

end Ptk.C06
