/-
  C08 — a Vi SESSION: the state that `create_operator_decorator` / `create_text_object_decorator`
  (vi.py), `ViState` (vi_state.py) and `KeyProcessor._call_handler` (key_processor.py) carry from
  one key handler to the next, threaded through an arbitrary sequence of keys.

  State (`Sess`):
    * `st`        buffer text, cursor, clipboard, named registers, input mode (`St.insert`)
    * `pending`   `vi_state.operator_func`: the operator waiting for its text object (the closure
                  captures the operator and the key sequence it was typed with, i.e. the register)
    * `opArg`     `vi_state.operator_arg`: the count typed before the operator
    * `lastFind`  `vi_state.last_character_find` as `(character, backwards)`
    * `tempNav`   `vi_state.temporary_navigation_mode` (after `c-o` in insert mode)
    * `arg`       `KeyProcessor.arg`: the digits typed since the last handler that was not a digit

  One `Key` = one key binding that the key processor dispatches (an operator key sequence such
  as `"ad` or `gU`, a text-object key sequence such as `fx` or `iw`, a digit, Escape, `c-o`, a
  key without a binding, printable text in insert mode).  `step` follows, per key:

    KeyProcessor._call_handler     arg = self.arg; self.arg = None; handler(event);
                                   _fix_vi_cursor_position; _leave_vi_temp_navigation_mode
    filters                        vi_navigation_mode / vi_waiting_for_text_object_mode /
                                   vi_insert_mode (no selection, no digraph, buffer not read-only)
    _arg / _0_arg                  event.append_to_arg_count
    _operator_in_navigation        operator_func := op ; operator_arg := arg if present else None
    _apply_operator_to_text_object event._arg := (operator_arg or 1) * (event.arg or 1) when one
                                   of them is present; text object; operator; operator_func :=
                                   None; operator_arg := None
    _move_in_navigation_mode       cursor_position += text_object.start
    _unknown_text_object / _ignore nothing (the count typed so far is consumed)
    _back_to_navigation (Escape)   leave insert mode (cursor one left), input_mode := NAVIGATION
                                   (the setter clears operator_func and operator_arg)
    _quick_normal_mode (c-o)       temporary_navigation_mode := True
    self-insert                    Buffer.insert_text(data * arg)

  `none` = the key is outside the modelled key set in that state (e.g. `iw` typed with no
  operator pending is `i` + `w`: insert mode) or the operator left the model's domain
  (`Props/C08Session.lean`: never, for modelled motions).
-/
import Ptk.Model.C08
namespace Ptk.C08
open Ptk.Py

structure Sess where
  st : St
  pending : Option Op := none
  opArg : Option Nat := none
  lastFind : Option (Char × Bool) := none
  tempNav : Bool := false
  arg : Option Nat := none
deriving Repr, DecidableEq

inductive Key
  /-- `1`..`9`, and `0` (which is the text object `0` when no count has been started) -/
  | digit (d : Fin 10)
  /-- an operator key sequence (`d`, `"ay`, `gU`, `>` …) -/
  | op (o : Op)
  /-- a text-object key sequence (`w`, `fx`, `iw`, `;` …); the `last` of `.repeatFind` is ignored:
      the handler reads `vi_state.last_character_find` -/
  | motion (m : Motion)
  | escape
  | ctrlO
  /-- a key that has no binding in navigation mode and is no text object (the harness types `Z`) -/
  | unbound
  /-- printable characters typed in insert mode -/
  | typed (t : Text)
  /-- `>>` `<<` `guu` `gUU` `g~~` -/
  | double (k : Double)
deriving Repr, DecidableEq

def Op.reg : Op → Option Char
  | .delete r => r
  | .change r => r
  | .yank r => r
  | _ => none

/-! ### filters -/

/-- `vi_waiting_for_text_object_mode` -/
def waiting (ss : Sess) : Bool := ss.pending.isSome

/-- `vi_navigation_mode` (no selection, no digraph, buffer not read-only) -/
def navMode (ss : Sess) : Bool := ss.pending.isNone && (!ss.st.insert || ss.tempNav)

/-- `vi_insert_mode` -/
def insertMode (ss : Sess) : Bool := ss.pending.isNone && !ss.tempNav && ss.st.insert

/-! ### `KeyProcessor._call_handler` -/

/-- `KeyPressEvent.arg` for `_arg = a` -/
def evArg : Option Nat → Nat
  | some n => normArg n
  | none => 1

/-- `_fix_vi_cursor_position` -/
def fixNav (ss : Sess) : Sess :=
  if navMode ss then { ss with st := { ss.st with cur := fixViCursor ss.st.text ss.st.cur } } else ss

/-- what `_call_handler` does after the handler returned: the cursor fix, then
    `_leave_vi_temp_navigation_mode` when the mode was temporary BEFORE the handler -/
def afterHandler (wasTemp : Bool) (s1 : Sess) : Sess :=
  let s2 := fixNav s1
  if wasTemp && s2.pending.isNone && s2.arg.isNone then { s2 with tempNav := false } else s2

/-! ### handlers (`ss0` = the state with `KeyProcessor.arg` already reset, `a` = `event._arg`) -/

/-- `event.append_to_arg_count(data)` : `key_processor.arg = current + data` (strings of digits) -/
def hDigit (ss0 : Sess) (a : Option Nat) (d : Fin 10) : Sess :=
  { ss0 with arg := some (match a with | none => d.val | some n => n * 10 + d.val) }

/-- `_operator_in_navigation` -/
def hOperator (ss0 : Sess) (a : Option Nat) (o : Op) : Sess :=
  { ss0 with pending := some o, opArg := if a.isSome then some (evArg a) else none }

/-- what the text-object function reads from the ViState / the event besides the count -/
def resolve (lastFind : Option (Char × Bool)) (argPresent : Bool) : Motion → Motion
  | .repeatFind _ r => .repeatFind lastFind r
  | .percent _ => .percent argPresent        -- `if event._arg:`
  | m => m

/-- `last_character_find` after the text-object function ran -/
def newLastFind (old : Option (Char × Bool)) (m : Motion) : Option (Char × Bool) :=
  match lastFindOf m with
  | some x => some x
  | none => old

/-- `_apply_operator_to_text_object` with `operator_func = op` -/
def hApply (env : Env) (ss0 : Sess) (a : Option Nat) (op : Op) (m : Motion) : Option Sess :=
  -- if vi_state.operator_arg is not None or event.arg_present:
  --     event._arg = str((vi_state.operator_arg or 1) * (event.arg or 1))
  let argPresent := ss0.opArg.isSome || a.isSome
  let count := combineArgs ss0.opArg a
  let o := textObject env.isSpace env.reSpace ss0.st.doc count (resolve ss0.lastFind argPresent m)
  -- operator_func(event, text_obj); operator_func = None; operator_arg = None
  (applyOp env ss0.st op o count).map fun st' =>
    { ss0 with st := st', lastFind := newLastFind ss0.lastFind m, pending := none, opArg := none }

/-- text objects registered without `no_move_handler` -/
def hasMoveHandler : Motion → Bool
  | .iw _ | .aw _ | .j | .k | .bracket _ _ _ | .quote _ _ | .ap | .raw _ => false
  | _ => true

/-- text objects that are keys at all (`.raw` is the direct `TextObject(...)` call) -/
def isKeyMotion : Motion → Bool
  | .raw _ => false
  | _ => true

/-- `_move_in_navigation_mode` -/
def hMove (env : Env) (ss0 : Sess) (a : Option Nat) (m : Motion) : Sess :=
  let o := textObject env.isSpace env.reSpace ss0.st.doc (evArg a) (resolve ss0.lastFind a.isSome m)
  { ss0 with st := { ss0.st with cur := clampCur ((ss0.st.cur : Int) + o.start) ss0.st.text.length },
             lastFind := newLastFind ss0.lastFind m }

/-- `_back_to_navigation` -/
def hEscape (ss0 : Sess) : Sess :=
  -- if vi_state.input_mode in (INSERT, REPLACE): cursor_position += get_cursor_left_position()
  let cur1 := if ss0.st.insert then ss0.st.cur - min ss0.st.doc.col 1 else ss0.st.cur
  -- vi_state.input_mode = NAVIGATION  (setter: operator_func = None; operator_arg = None)
  { ss0 with st := { ss0.st with cur := cur1, insert := false }, pending := none, opArg := none }

/-- `self-insert` of one character: `insert_text(event.data * event.arg)` -/
def insertChar (s : Sess) (c : Char) : Sess :=
  let data := List.replicate (evArg s.arg) c
  { s with arg := none,
           st := { s.st with text := s.st.text.take s.st.cur ++ data ++ s.st.text.drop s.st.cur,
                             cur := s.st.cur + data.length } }

/-! ### one key -/

def stepMotion (env : Env) (ss : Sess) (m : Motion) : Option Sess :=
  let a := ss.arg
  let ss0 := { ss with arg := none }
  if !isKeyMotion m then none
  else match ss.pending with
    | some op => (hApply env ss0 a op m).map (afterHandler ss.tempNav)
    | none =>
      if navMode ss && hasMoveHandler m then some (afterHandler ss.tempNav (hMove env ss0 a m))
      else none

def step (env : Env) (ss : Sess) (k : Key) : Option Sess :=
  let a := ss.arg
  let ss0 := { ss with arg := none }
  let fin := fun (s1 : Sess) => some (afterHandler ss.tempNav s1)
  match k with
  | .digit d =>
    if d.val = 0 ∧ a = none then stepMotion env ss .zero          -- `_0_arg` needs `has_arg`
    else if navMode ss || waiting ss then fin (hDigit ss0 a d)
    else none
  | .op o =>
    if waiting ss then
      -- the keys of an operator without register are no text objects: `_unknown_text_object`
      (if o.reg.isSome then none else fin ss0)
    else if navMode ss then fin (hOperator ss0 a o)
    else none
  | .motion m => stepMotion env ss m
  | .escape => fin (hEscape ss0)
  | .ctrlO =>
    if insertMode ss then fin { ss0 with tempNav := true }          -- `_quick_normal_mode`
    else fin ss0                                                    -- `_ignore`
  | .unbound =>
    if waiting ss then fin ss0                                      -- `_unknown_text_object`
    else if navMode ss then some ss                                 -- no binding: no handler
    else none
  | .typed t =>
    if insertMode ss then some (t.foldl insertChar ss) else none
  | .double k =>
    if waiting ss then fin ss0                                      -- its keys: `_unknown_text_object`
    else if navMode ss then fin { ss0 with st := runDouble env ss0.st k (evArg a) }
    else none

def runSession (env : Env) : Sess → List Key → Option Sess
  | ss, [] => some ss
  | ss, k :: ks =>
    match step env ss k with
    | some ss' => runSession env ss' ks
    | none => none

/-- the keys of the command `[count] <operator> [count] <motion>`; counts as digit lists -/
def cmdKeys (n1 : List (Fin 10)) (o : Op) (n2 : List (Fin 10)) (m : Motion) : List Key :=
  n1.map Key.digit ++ [Key.op o] ++ n2.map Key.digit ++ [Key.motion m]

/-- the number a digit string denotes (`none` for no digits) -/
def argOf : List (Fin 10) → Option Nat
  | [] => none
  | d :: ds => some (ds.foldl (fun n x => n * 10 + x.val) d.val)

end Ptk.C08
