/-
  C19 — the if/elif chains of the anchored functions AS DATA.

  `harness/gen_c19.py` walks the AST of `_parse_style_str` (styles/style.py),
  `_EscapeCodeCache.__missing__` (output/vt100.py), `ANSI._select_graphic_rendition` and
  `ANSI._create_style_string` (formatted_text/ansi.py) in the CURRENT tree and prints what it
  finds as values of the types below into `Ptk/Gen/C19X.lean`.  The interpreters in this file give
  those values a meaning; `Props/C19Pins.lean` proves — for all inputs — that the hand-written model
  functions equal the interpretation of the extracted chains.  A keyword that is added, renamed or
  given another effect in /repo therefore breaks the build.
-/
import Ptk.Model.C19
import Ptk.Model.C19Ansi
namespace Ptk.C19
open Ptk.Py

/-! ### `_parse_style_str`: `for part in style_str.split(): if … elif … else …` -/

inductive PTest where
  | eq (w : Text)                 -- `part == "w"`
  | isIn (ws : List Text)         -- `part in ("a", "b", …)`
  | pfx (p : Text)                -- `part.startswith("p")`
  | pfxSfx (p s : Text)           -- `part.startswith("p") and part.endswith("s")`
  | otherwise                     -- `else:`
  | unknown                       -- a test the extractor does not understand
deriving Repr, DecidableEq

inductive PAct where
  | pass                                        -- `pass`
  | setFlag (field : Text) (v : Bool)           -- `attrs = attrs._replace(field=True/False)`
  | setColor (field : Text) (dropN : Nat)       -- `attrs = attrs._replace(field=parse_color(part[dropN:]))`
  | unknown
deriving Repr, DecidableEq

structure PBranch where
  test : PTest
  act : PAct
deriving Repr, DecidableEq

def PTest.holds : PTest → Text → Bool
  | .eq w, part => part == w
  | .isIn ws, part => ws.foldl (fun acc w => acc || part == w) false
  | .pfx p, part => startsWith p part
  | .pfxSfx p s, part => startsWith p part && endsWith s part
  | .otherwise, _ => true
  | .unknown, _ => true

/-- `attrs._replace(field=v)` for a boolean field given by name (`none`: no such field) -/
def setFlagByName (a : Attrs) (field : Text) (v : Bool) : Option Attrs :=
  if field == "bold".toList then some { a with bold := some v }
  else if field == "underline".toList then some { a with underline := some v }
  else if field == "strike".toList then some { a with strike := some v }
  else if field == "italic".toList then some { a with italic := some v }
  else if field == "blink".toList then some { a with blink := some v }
  else if field == "reverse".toList then some { a with reverse := some v }
  else if field == "hidden".toList then some { a with hidden := some v }
  else none

/-- `attrs._replace(field=c)` for a colour field given by name -/
def setColorByName (a : Attrs) (field : Text) (c : Text) : Attrs :=
  if field == "bgcolor".toList then { a with bgcolor := some c } else { a with color := some c }

def PAct.run (T : Tables) (a : Attrs) (part : Text) : PAct → Option Attrs
  | .pass => some a
  | .setFlag f v => setFlagByName a f v
  | .setColor f n => (parseColor T (part.drop n)).map fun c => setColorByName a f c
  | .unknown => none

/-- meaning of the extracted chain: the first branch whose test holds is taken -/
def interpChain (T : Tables) (a : Attrs) (part : Text) : List PBranch → Option Attrs
  | [] => some a
  | b :: rest => if b.test.holds part then b.act.run T a part else interpChain T a part rest

/-! ### `_EscapeCodeCache.__missing__`: `if <flag>: parts.append("<code>")` in source order -/

def flagByName (a : Attrs) (field : Text) : Option Bool :=
  if field == "bold".toList then a.bold
  else if field == "underline".toList then a.underline
  else if field == "strike".toList then a.strike
  else if field == "italic".toList then a.italic
  else if field == "blink".toList then a.blink
  else if field == "reverse".toList then a.reverse
  else if field == "hidden".toList then a.hidden
  else none

def encFlagCodes (tbl : List (Text × Nat)) (a : Attrs) : List Nat :=
  tbl.filterMap fun fc => if (flagByName a fc.1).getD false then some fc.2 else none

/-! ### `ANSI._select_graphic_rendition`: `elif attr == k: self._field = v` -/

def setSgrFlag (s : Sgr) (field : Text) (v : Bool) : Sgr :=
  if field == "bold".toList then { s with bold := v }
  else if field == "underline".toList then { s with underline := v }
  else if field == "strike".toList then { s with strike := v }
  else if field == "italic".toList then { s with italic := v }
  else if field == "blink".toList then { s with blink := v }
  else if field == "reverse".toList then { s with reverse := v }
  else if field == "hidden".toList then { s with hidden := v }
  else s

def sgrFlagByName (s : Sgr) (field : Text) : Bool :=
  if field == "bold".toList then s.bold
  else if field == "underline".toList then s.underline
  else if field == "strike".toList then s.strike
  else if field == "italic".toList then s.italic
  else if field == "blink".toList then s.blink
  else if field == "reverse".toList then s.reverse
  else if field == "hidden".toList then s.hidden
  else false

/-- `ANSI._create_style_string`: the flag words in source order (`if self._f: result.append("w")`) -/
def flagWords (tbl : List (Text × Text)) (s : Sgr) : List Text :=
  tbl.filterMap fun fw => if sgrFlagByName s fw.1 then some fw.2 else none

end Ptk.C19
