/-
  C01 — model of `buffer.reshape_text(buffer, from_row, to_row)` (Vi `gq`), followed line by line:
  `str.splitlines(True)`, the three list slices, `re.search(r"^\s*", first)`, `str.split()`, the
  greedy filling loop and the final `Document(text, cursor)` assignment.

  `isBreak` = the characters at which `str.splitlines` breaks, `reSpace` = regex `\s`,
  `isSpace` = `str.isspace` (all three are runtime tables: parameters).
-/
import Ptk.Model.C01
namespace Ptk.C01
open Ptk.Py

/-- `str.splitlines(keepends=True)`: `acc` = current line reversed, `cr` = the line so far ends with
    a `'\r'` that may still be followed by `'\n'` (`"\r\n"` is ONE line break) -/
def splitKeep (isBreak : Char → Bool) : Text → Text → Bool → List Text
  | [], acc, _ => if acc.isEmpty then [] else [acc.reverse]
  | c :: rest, acc, true =>
    if c = '\n' then ('\n' :: acc).reverse :: splitKeep isBreak rest [] false
    else if c = '\r' then acc.reverse :: splitKeep isBreak rest ['\r'] true
    else if isBreak c then acc.reverse :: [c] :: splitKeep isBreak rest [] false
    else acc.reverse :: splitKeep isBreak rest [c] false
  | c :: rest, acc, false =>
    if c = '\r' then splitKeep isBreak rest ('\r' :: acc) true
    else if isBreak c then (c :: acc).reverse :: splitKeep isBreak rest [] false
    else splitKeep isBreak rest (c :: acc) false

/-- `text.splitlines(True)` -/
def splitLinesKeep (isBreak : Char → Bool) (t : Text) : List Text := splitKeep isBreak t [] false

/-- `str.split()` (no argument): maximal runs of non-`isspace` characters -/
def pySplitGo (isSpace : Char → Bool) : Text → Text → List Text
  | [], acc => if acc.isEmpty then [] else [acc.reverse]
  | c :: rest, acc =>
    if isSpace c then (if acc.isEmpty then pySplitGo isSpace rest [] else acc.reverse :: pySplitGo isSpace rest [])
    else pySplitGo isSpace rest (c :: acc)

def pySplit (isSpace : Char → Bool) (t : Text) : List Text := pySplitGo isSpace t []

/-- the filling loop: `cw` = `current_width`; yields the pieces appended to `reshaped_text` -/
def reshapeGo (indent : Text) (width : Int) : List Text → Nat → List Text
  | [], _ => []
  | w :: ws, cw =>
    if cw ≠ 0 then
      if (w.length : Int) + (cw : Int) + 1 > width then
        ['\n'] :: indent :: w :: reshapeGo indent width ws (0 + w.length)
      else
        [' '] :: w :: reshapeGo indent width ws (cw + 1 + w.length)
    else w :: reshapeGo indent width ws (cw + w.length)

/-- the pieces `reshaped_text` for the lines to reformat (non-empty list, `first` its first line) -/
def reshapePieces (reSpace isSpace : Char → Bool) (defaultWidth textWidth : Nat)
    (first : Text) (linesTo : List Text) : List Text :=
  let length := (first.takeWhile reSpace).length            -- `re.search(r"^\s*", first).end()`
  let indent := (first.take length).filter notNl            -- `.replace("\n", "")`
  let words := pySplit isSpace linesTo.flatten              -- `"".join(lines_to_reformat).split()`
  let width : Int := ((if textWidth = 0 then defaultWidth else textWidth : Nat) : Int) - indent.length
  let reshaped := indent :: reshapeGo indent width words 0
  if reshaped.getLast? ≠ some ['\n'] then reshaped ++ [['\n']] else reshaped

/-- `reshape_text(buffer, from_row, to_row)` with `buffer.text_width = textWidth` -/
def reshapeText (isBreak reSpace isSpace : Char → Bool) (defaultWidth : Nat) (b : Buf)
    (fromRow toRow : Int) (textWidth : Nat) : Buf :=
  let lines := splitLinesKeep isBreak b.text
  let linesBefore := sliceTo lines fromRow
  let linesAfter := sliceFrom lines (toRow + 1)
  let linesTo := slice lines (some fromRow) (some (toRow + 1))
  match linesTo with
  | [] => b
  | first :: _ =>
    let reshaped := reshapePieces reSpace isSpace defaultWidth textWidth first linesTo
    setDoc b (linesBefore ++ reshaped ++ linesAfter).flatten
      ((linesBefore ++ reshaped).flatten.length : Nat)

end Ptk.C01
