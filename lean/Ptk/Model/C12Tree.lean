/-
  C12 — nested split containers: `HSplit` / `VSplit` whose children are windows or further
  splits (containers.py: `preferred_width`, `preferred_height`, `_all_children`,
  `write_to_screen` of both classes).  A window is a `Window` with a `DummyControl`, explicit
  width and height dimensions, no `dont_extend_*`; it reports these dimensions and is drawn
  on exactly the region it is given (nothing when the region is empty).

  Recursion over the tree is by a depth bound `d` (use any `d ≥` the height of the tree);
  the divide loops take `fuel` as in `Ptk.Model.C12`; `none` = some inner division did not
  finish within the fuel (or a `ValueError`).
-/
import Ptk.Model.C12
namespace Ptk.C12

inductive Node
  | win (id : Nat) (w h : Dim)
  | hsplit (al : Align) (pad : Dim) (cs : List Node)
  | vsplit (al : Align) (pad : Dim) (cs : List Node)
deriving Repr, Inhabited

structure Rect where
  x : Nat
  y : Nat
  w : Nat
  h : Nat
deriving Repr, DecidableEq, Inhabited

/-- what is drawn: a user window (by id), or one of the windows the splits create themselves -/
inductive Tag
  | user (id : Nat) | pad | filler | remaining | tooSmall
deriving Repr, DecidableEq

/-- `Dimension()` -/
def dNone : Dim := (mkDim none none none none).getD default
/-- `Dimension(preferred=0)` -/
def dPref0 : Dim := (mkDim none none none (some 0)).getD default

/-- id used for windows that are not user windows -/
def auxId : Nat := 0

/-- `_all_children` of a split on the level of nodes. The padding windows are
    `Window(height=padding)` (HSplit) / `Window(width=padding)` (VSplit); the fillers are
    `Window(width=Dimension(preferred=0))` in both classes. Tags are recovered from the
    position in the list by `allTags`. -/
def allNodes (horizontal : Bool) (al : Align) (pad : Dim) (cs : List Node) : List (Tag × Node) :=
  let filler : Tag × Node := (.filler, .win auxId dPref0 dNone)
  let padw : Tag × Node :=
    (.pad, if horizontal then .win auxId dNone pad else .win auxId pad dNone)
  let tagOf : Node → Tag := fun c => match c with
    | .win id _ _ => .user id
    | _ => .user auxId      -- a nested split draws its own windows
  let pre := if al = .center ∨ al = .stop then [filler] else []
  let mid := (pre ++ cs.flatMap fun c => [(tagOf c, c), padw]).dropLast
  let post := if al = .center ∨ al = .start then [filler] else []
  mid ++ post

/-- `Option` list traversal -/
def mapM? {α β : Type} (f : α → Option β) : List α → Option (List β)
  | [] => some []
  | a :: as =>
    match f a, mapM? f as with
    | some b, some bs => some (b :: bs)
    | _, _ => none

/-- `container.preferred_width(max_available_width)` -/
def prefW (fuel : Nat) : Nat → Node → Nat → Option Dim
  | _, .win _ w _, _ => some w
  | 0, _, _ => some dNone
  | d + 1, .hsplit _ _ cs, avail =>
    if cs.isEmpty then some dNone
    else match mapM? (fun c => prefW fuel d c avail) cs with
      | none => none
      | some ds => maxDims ds
  | d + 1, .vsplit al pad cs, avail =>
    match mapM? (fun c => prefW fuel d c.2 avail) (allNodes false al pad cs) with
    | none => none
    | some ds => sumDims ds

/-- `VSplit._divide_widths(width)` on nodes: `some none` = the method returns `None` -/
def divideWidths (fuel d : Nat) (al : Align) (pad : Dim) (cs : List Node) (width : Nat) :
    Option (Option (List Nat)) :=
  let all := allNodes false al pad cs
  if all.isEmpty then some (some [])
  else match mapM? (fun c => prefW fuel d c.2 width) all with
    | none => none
    | some ds =>
      match divide fuel ds width true with
      | .ok sizes => some (some sizes)
      | .tooSmall => some none
      | _ => none

/-- `container.preferred_height(width, max_available_height)` -/
def prefH (fuel : Nat) : Nat → Node → Nat → Nat → Option Dim
  | _, .win _ _ h, _, _ => some h
  | 0, _, _, _ => some dNone
  | d + 1, .hsplit al pad cs, width, availH =>
    match mapM? (fun c => prefH fuel d c.2 width availH) (allNodes true al pad cs) with
    | none => none
    | some ds => sumDims ds
  | d + 1, .vsplit al pad cs, width, availH =>
    match divideWidths fuel d al pad cs width with
    | none => none
    | some none => some dNone
    | some (some sizes) =>
      match mapM? (fun p : Nat × (Tag × Node) => prefH fuel d p.2.2 p.1 availH)
          (sizes.zip (allNodes false al pad cs)) with
      | none => none
      | some ds => maxDims ds

def visible (r : Rect) : Bool := r.w > 0 && r.h > 0

/-- the `_remaining_space_window`, drawn when space is left over -/
def remRects (mk : Nat × Nat → Rect) (rem : Option (Nat × Nat)) : List (Tag × Rect) :=
  match rem with
  | some p => if visible (mk p) then [(.remaining, mk p)] else []
  | none => []

/-- `container.write_to_screen(..., WritePosition(x, y, w, h), ...)`: the windows that get drawn
    (entered into `Screen.visible_windows_to_write_positions`), in drawing order. -/
def render (fuel : Nat) : Nat → Tag → Node → Rect → Option (List (Tag × Rect))
  | _, t, .win _ _ _, r => some (if visible r then [(t, r)] else [])
  | 0, _, _, _ => some []
  | d + 1, _, .hsplit al pad cs, r =>
    let all := allNodes true al pad cs
    -- `_divide_heights`
    let sizes? : Option (Option (List Nat)) :=
      if cs.isEmpty then some (some [])
      else match mapM? (fun c => prefH fuel d c.2 r.w r.h) all with
        | none => none
        | some ds =>
          match divide fuel ds r.h true with
          | .ok sizes => some (some sizes)
          | .tooSmall => some none
          | _ => none
    match sizes? with
    | none => none
    | some none => some (if visible r then [(.tooSmall, r)] else [])
    | some (some sizes) =>
      let (regs, rem) := layout r.y r.h sizes
      match mapM? (fun p : (Nat × Nat) × (Tag × Node) =>
          render fuel d p.2.1 p.2.2 ⟨r.x, p.1.1, r.w, p.1.2⟩) (regs.zip all) with
      | none => none
      | some rs =>
        some (rs.flatten ++ remRects (fun p => ⟨r.x, p.1, r.w, p.2⟩) rem)
  | d + 1, _, .vsplit al pad cs, r =>
    if cs.isEmpty then some []
    else
      let all := allNodes false al pad cs
      match divideWidths fuel d al pad cs r.w with
      | none => none
      | some none => some (if visible r then [(.tooSmall, r)] else [])
      | some (some sizes) =>
        -- "Calculate heights": every child's preferred height is computed (and must not fail);
        -- the height used is `write_position.height`
        match mapM? (fun p : Nat × (Tag × Node) => prefH fuel d p.2.2 p.1 r.h) (sizes.zip all) with
        | none => none
        | some _ =>
          let (regs, rem) := layout r.x r.w sizes
          match mapM? (fun p : (Nat × Nat) × (Tag × Node) =>
              render fuel d p.2.1 p.2.2 ⟨p.1.1, r.y, p.1.2, r.h⟩) (regs.zip all) with
          | none => none
          | some rs =>
            some (rs.flatten ++ remRects (fun p => ⟨p.1, r.y, p.2, r.h⟩) rem)

/-- height of the tree (a sufficient depth bound) -/
def Node.depth : Node → Nat
  | .win _ _ _ => 0
  | .hsplit _ _ cs => 1 + (cs.attach.map fun ⟨c, _⟩ => c.depth).foldl Nat.max 0
  | .vsplit _ _ cs => 1 + (cs.attach.map fun ⟨c, _⟩ => c.depth).foldl Nat.max 0

end Ptk.C12
