/-
  C12 — nested split containers: `HSplit` / `VSplit` whose children are windows or further
  splits (containers.py: `preferred_width`, `preferred_height`, `_all_children`,
  `write_to_screen` of both classes).  A window is a `Window` with a `DummyControl`, explicit
  width and height dimensions, no `dont_extend_*`; it reports these dimensions and is drawn
  on exactly the region it is given (nothing when the region is empty).

  Recursion over the tree is by a depth bound `d` (use any `d ≥` the height of the tree);
  the divide loops take `fuel` as in `Ptk.Model.C12`; `none` = some inner division did not
  finish within the fuel (or a `ValueError`).
-/
import Ptk.Model.C12
import Ptk.Model.C12Steps
namespace Ptk.C12

/-- the constructor arguments of an explicit `Dimension(min, max, weight, preferred)` given as
    `width=` / `height=` (`to_dimension`: `None` = all four absent, an int `n` = `min = max =
    preferred = n`, a callable = what it returns) -/
structure Spec where
  mn : Option Nat
  mx : Option Nat
  w : Option Nat
  pr : Option Nat
deriving Repr, DecidableEq, Inhabited

/-- `Window._merge_dimensions(dimension, get_preferred, dont_extend)`: `content` is what the
    control reports as its preferred size (`None` for a `DummyControl`), only asked for when the
    window has no explicit preferred size; the preferred size is kept inside the SPECIFIED bounds;
    with `dont_extend` it also becomes the maximum.  `none` = `ValueError` of `Dimension(...)`. -/
def mergeDims (s : Spec) (content : Option Nat) (dontExtend : Bool) : Option Dim :=
  match mkDim s.mn s.mx s.w s.pr with
  | none => none
  | some d =>
    let p0 : Option Nat := if s.pr.isSome then some d.pref else content
    let p : Option Nat := p0.map fun v => clampSpec v d s.mn s.mx
    let mx : Option Nat :=
      if dontExtend && p.isSome then p.map (Nat.min d.max) else s.mx.map fun _ => d.max
    mkDim (s.mn.map fun _ => d.min) mx (some d.weight) p

/-- `AnyDimension`: `None`, an int, a `Dimension` (given by its constructor arguments) or a
    callable returning one of these -/
inductive AnyDim
  | none
  | int (n : Nat)
  | dim (s : Spec)
  | call (f : AnyDim)
deriving Repr, Inhabited

/-- `to_dimension(value)`; `none` = the `ValueError` of constructing an impossible `Dimension` -/
def toDimension : AnyDim → Option Dim
  | .none => mkDim none none none none
  | .int n => Dim.exact n
  | .dim s => mkDim s.mn s.mx s.w s.pr
  | .call f => toDimension f

/-- `Dimension.zero()` -/
def Dim.zero : Option Dim := Dim.exact 0

inductive Node
  /-- a `Window` with a `DummyControl` whose width / height are the given dimensions -/
  | win (id : Nat) (w h : Dim)
  | hsplit (al : Align) (pad : Dim) (cs : List Node)
  | vsplit (al : Align) (pad : Dim) (cs : List Node)
  /-- a `Window(content, width=sw, height=sh, dont_extend_width=dew, dont_extend_height=deh)`
      whose control prefers `cw` columns and `ch` rows (`none`: no preference) -/
  | winx (id : Nat) (sw sh : Spec) (cw ch : Option Nat) (dew deh : Bool)
  /-- `ConditionalContainer(content, filter)` with the current value of the filter -/
  | cond (on : Bool) (c : Node)
  /-- a split constructed with `width=` / `height=` (`some` = `to_dimension` of the argument):
      the given dimension is reported instead of the children's; drawing is unaffected -/
  | sized (w h : Option Dim) (c : Node)
deriving Repr, Inhabited

structure Rect where
  x : Nat
  y : Nat
  w : Nat
  h : Nat
deriving Repr, DecidableEq, Inhabited

/-- what is drawn: a user window (by id), or one of the windows the splits create themselves -/
inductive Tag
  | user (id : Nat) | pad | filler | remaining | tooSmall
deriving Repr, DecidableEq

/-- `Dimension()` -/
def dNone : Dim := (mkDim none none none none).getD default
/-- `Dimension(preferred=0)` -/
def dPref0 : Dim := (mkDim none none none (some 0)).getD default

/-- id used for windows that are not user windows -/
def auxId : Nat := 0

/-- the tag under which a container is drawn when it is a window itself -/
def tagOf : Node → Tag
  | .win id _ _ => .user id
  | .winx id _ _ _ _ _ _ => .user id
  | _ => .user auxId      -- a nested container draws its own windows

/-- `_all_children` of a split on the level of nodes. The padding windows are
    `Window(height=padding)` (HSplit) / `Window(width=padding)` (VSplit); the fillers are
    `Window(width=Dimension(preferred=0))` in both classes. Tags are recovered from the
    position in the list by `allTags`. -/
def allNodes (horizontal : Bool) (al : Align) (pad : Dim) (cs : List Node) : List (Tag × Node) :=
  let filler : Tag × Node := (.filler, .win auxId dPref0 dNone)
  let padw : Tag × Node :=
    (.pad, if horizontal then .win auxId dNone pad else .win auxId pad dNone)
  let pre := if al = .center ∨ al = .stop then [filler] else []
  let mid := (pre ++ cs.flatMap fun c => [(tagOf c, c), padw]).dropLast
  let post := if al = .center ∨ al = .start then [filler] else []
  mid ++ post

/-- `Option` list traversal -/
def mapM? {α β : Type} (f : α → Option β) : List α → Option (List β)
  | [] => some []
  | a :: as =>
    match f a, mapM? f as with
    | some b, some bs => some (b :: bs)
    | _, _ => none

/-- `container.preferred_width(max_available_width)` -/
def prefW (fuel : Nat) : Nat → Node → Nat → Option Dim
  | _, .win _ w _, _ => some w
  | _, .winx _ sw _ cw _ dew _, _ => mergeDims sw cw dew
  | 0, _, _ => some dNone
  | d + 1, .cond on c, avail => if on then prefW fuel d c avail else Dim.exact 0
  | d + 1, .sized w _ c, avail =>
    match w with
    | some w => some w
    | none => prefW fuel d c avail
  | d + 1, .hsplit _ _ cs, avail =>
    if cs.isEmpty then some dNone
    else match mapM? (fun c => prefW fuel d c avail) cs with
      | none => none
      | some ds => maxDims ds
  | d + 1, .vsplit al pad cs, avail =>
    match mapM? (fun c => prefW fuel d c.2 avail) (allNodes false al pad cs) with
    | none => none
    | some ds => sumDims ds

/-- `VSplit._divide_widths(width)` on nodes: `some none` = the method returns `None` -/
def divideWidths (fuel d : Nat) (al : Align) (pad : Dim) (cs : List Node) (width : Nat) :
    Option (Option (List Nat)) :=
  let all := allNodes false al pad cs
  if all.isEmpty then some (some [])
  else match mapM? (fun c => prefW fuel d c.2 width) all with
    | none => none
    | some ds =>
      match divide fuel ds width true with
      | .ok sizes => some (some sizes)
      | .tooSmall => some none
      | _ => none

/-- `container.preferred_height(width, max_available_height)` -/
def prefH (fuel : Nat) : Nat → Node → Nat → Nat → Option Dim
  | _, .win _ _ h, _, _ => some h
  | _, .winx _ _ sh _ ch _ deh, _, _ => mergeDims sh ch deh
  | 0, _, _, _ => some dNone
  | d + 1, .cond on c, width, availH => if on then prefH fuel d c width availH else Dim.exact 0
  | d + 1, .sized _ h c, width, availH =>
    match h with
    | some h => some h
    | none => prefH fuel d c width availH
  | d + 1, .hsplit al pad cs, width, availH =>
    match mapM? (fun c => prefH fuel d c.2 width availH) (allNodes true al pad cs) with
    | none => none
    | some ds => sumDims ds
  | d + 1, .vsplit al pad cs, width, availH =>
    match divideWidths fuel d al pad cs width with
    | none => none
    | some none => some dNone
    | some (some sizes) =>
      match mapM? (fun p : Nat × (Tag × Node) => prefH fuel d p.2.2 p.1 availH)
          (sizes.zip (allNodes false al pad cs)) with
      | none => none
      | some ds => maxDims ds

def visible (r : Rect) : Bool := r.w > 0 && r.h > 0

/-- the `_remaining_space_window`, drawn when space is left over -/
def remRects (mk : Nat × Nat → Rect) (rem : Option (Nat × Nat)) : List (Tag × Rect) :=
  match rem with
  | some p => if visible (mk p) then [(.remaining, mk p)] else []
  | none => []

/-- `Window.write_to_screen`: the write position is reduced to the preferred width / height when
    `dont_extend_width` / `dont_extend_height` is set (the height is asked for at the reduced
    width) -/
def winRect (sw sh : Spec) (cw ch : Option Nat) (dew deh : Bool) (r : Rect) : Option Rect :=
  match mergeDims sw cw dew, mergeDims sh ch deh with
  | some dw, some dh =>
    some ⟨r.x, r.y, if dew then Nat.min r.w dw.pref else r.w, if deh then Nat.min r.h dh.pref else r.h⟩
  | _, _ => none

/-- `container.write_to_screen(..., WritePosition(x, y, w, h), ...)`: the windows that get drawn
    (entered into `Screen.visible_windows_to_write_positions`), in drawing order. -/
def render (fuel : Nat) : Nat → Tag → Node → Rect → Option (List (Tag × Rect))
  | _, t, .win _ _ _, r => some (if visible r then [(t, r)] else [])
  | _, t, .winx _ sw sh cw ch dew deh, r =>
    match winRect sw sh cw ch dew deh r with
    | some q => some (if visible q then [(t, q)] else [])
    | none => none
  | 0, _, _, _ => some []
  | d + 1, _, .cond on c, r => if on then render fuel d (tagOf c) c r else some []
  | d + 1, _, .sized _ _ c, r => render fuel d (tagOf c) c r
  | d + 1, _, .hsplit al pad cs, r =>
    let all := allNodes true al pad cs
    -- `_divide_heights`
    let sizes? : Option (Option (List Nat)) :=
      if cs.isEmpty then some (some [])
      else match mapM? (fun c => prefH fuel d c.2 r.w r.h) all with
        | none => none
        | some ds =>
          match divide fuel ds r.h true with
          | .ok sizes => some (some sizes)
          | .tooSmall => some none
          | _ => none
    match sizes? with
    | none => none
    | some none => some (if visible r then [(.tooSmall, r)] else [])
    | some (some sizes) =>
      let (regs, rem) := layout r.y r.h sizes
      match mapM? (fun p : (Nat × Nat) × (Tag × Node) =>
          render fuel d p.2.1 p.2.2 ⟨r.x, p.1.1, r.w, p.1.2⟩) (regs.zip all) with
      | none => none
      | some rs =>
        some (rs.flatten ++ remRects (fun p => ⟨r.x, p.1, r.w, p.2⟩) rem)
  | d + 1, _, .vsplit al pad cs, r =>
    if cs.isEmpty then some []
    else
      let all := allNodes false al pad cs
      match divideWidths fuel d al pad cs r.w with
      | none => none
      | some none => some (if visible r then [(.tooSmall, r)] else [])
      | some (some sizes) =>
        -- "Calculate heights": every child's preferred height is computed (and must not fail);
        -- the height used is `write_position.height`
        match mapM? (fun p : Nat × (Tag × Node) => prefH fuel d p.2.2 p.1 r.h) (sizes.zip all) with
        | none => none
        | some _ =>
          let (regs, rem) := layout r.x r.w sizes
          match mapM? (fun p : (Nat × Nat) × (Tag × Node) =>
              render fuel d p.2.1 p.2.2 ⟨p.1.1, r.y, p.1.2, r.h⟩) (regs.zip all) with
          | none => none
          | some rs =>
            some (rs.flatten ++ remRects (fun p => ⟨p.1, r.y, p.2, r.h⟩) rem)

/-- height of the tree (a sufficient depth bound) -/
def Node.depth : Node → Nat
  | .win _ _ _ => 0
  | .winx _ _ _ _ _ _ _ => 0
  | .cond _ c => 1 + c.depth
  | .sized _ _ c => 1 + c.depth
  | .hsplit _ _ cs => 1 + (cs.attach.map fun ⟨c, _⟩ => c.depth).foldl Nat.max 0
  | .vsplit _ _ cs => 1 + (cs.attach.map fun ⟨c, _⟩ => c.depth).foldl Nat.max 0

/-- the largest weight that any window or padding of the tree carries -/
def Node.maxW : Node → Nat
  | .win _ w h => Nat.max w.weight h.weight
  | .winx _ sw sh _ _ _ _ =>
    Nat.max (sw.w.getD Gen.C12.defaultWeight) (sh.w.getD Gen.C12.defaultWeight)
  | .cond _ c => c.maxW
  | .sized w h c =>
    Nat.max c.maxW (Nat.max ((w.map (·.weight)).getD 0) ((h.map (·.weight)).getD 0))
  | .hsplit _ pad cs => (cs.attach.map fun ⟨c, _⟩ => c.maxW).foldl Nat.max pad.weight
  | .vsplit _ pad cs => (cs.attach.map fun ⟨c, _⟩ => c.maxW).foldl Nat.max pad.weight

/-- the longest `_all_children` list of any split of the tree: children, paddings, two fillers -/
def Node.maxKids : Node → Nat
  | .win _ _ _ => 0
  | .winx _ _ _ _ _ _ _ => 0
  | .cond _ c => c.maxKids
  | .sized _ _ c => c.maxKids
  | .hsplit _ _ cs => (cs.attach.map fun ⟨c, _⟩ => c.maxKids).foldl Nat.max (2 * cs.length + 1)
  | .vsplit _ _ cs => (cs.attach.map fun ⟨c, _⟩ => c.maxKids).foldl Nat.max (2 * cs.length + 1)

/-- A fuel that is enough for every division that rendering the tree into `r` performs
    (`Ptk.Props.C12TreeFuel.render_total`): no division has more than `maxKids` entries, a weight
    above `maxW` (or the default weight), or more than `max r.w r.h` cells to hand out. -/
def treeFuel (n : Node) (w h : Nat) : Nat :=
  Nat.max w h * (n.maxKids * (Nat.max n.maxW (Nat.max 1 Gen.C12.defaultWeight) + 1))
    + 3 * n.maxKids + 3

end Ptk.C12
