/-
  C12 — the divide loops with an iteration counter, and the explicit fuel that is always enough.

  `growLoopC` / `growSizesC` / `divideC` are `growLoop` / `growSizes` / `divide` of
  `Ptk.Model.C12` with one extra result: the number of loop iterations performed, i.e. the number
  of `next(generator)` calls of `_grow_sizes` (one per iteration of `while sum(sizes) < group_stop`).
  `Ptk.Props.C12Steps` proves that their first component IS `divide` (`divideC_fst`), that the
  counter never exceeds `(Σ sizes − Σ min) · n · (maxW + 1)` (`divideC_steps_le`) and that the fuel
  `fuelBound` is enough for every list of valid dimensions (`divide_terminates_bound`); the driver
  therefore runs the model ONCE with `fuelBound` (no fuel doubling) and prints the counter, which
  the harness compares with the number of `next` calls counted on the real generator.
  Core Lean only (the driver links this file).
-/
import Ptk.Model.C12
namespace Ptk.C12

/-- `growLoop` with a counter of the iterations (tail recursive: `c` is the running count) -/
def growLoopC (limits : List Nat) (stop nf : Nat) :
    Nat → List Nat → Gen → Nat → Option (List Nat × Gen × Nat)
  | 0, sizes, g, c => if sizes.sum < stop then none else some (sizes, g, c)
  | f + 1, sizes, g, c =>
    if sizes.sum < stop then
      match g.next? nf with
      | none => none
      | some (i, g') => growLoopC limits stop nf f (bump sizes limits i) g' (c + 1)
    else some (sizes, g, c)

/-- `growSizes` with the counter threaded through the groups -/
def growSizesC (fuel : Nat) (limits : List Nat) (stop : Nat) :
    List Nat → List (List Nat × Gen) → Nat → Option (List Nat × List (List Nat × Gen) × Nat)
  | sizes, [], c => some (sizes, [], c)
  | sizes, (grp, g) :: rest, c =>
    match growLoopC limits (Nat.min stop (sizes.sum + capOf sizes limits grp)) fuel fuel sizes g c with
    | none => none
    | some (sizes', g', c') =>
      match growSizesC fuel limits stop sizes' rest c' with
      | none => none
      | some (sizes'', rest', c'') => some (sizes'', (grp, g') :: rest', c'')

def phase2C (fuel : Nat) (dims : List Dim) (stop2 : Nat) (toMax : Bool) (sizes : List Nat)
    (gens : List (List Nat × Gen)) (c : Nat) : Outcome × Nat :=
  if toMax then
    match growSizesC fuel (dims.map (·.max)) stop2 sizes gens c with
    | none => (.hang, c)
    | some r => (.ok r.1, r.2.2)
  else (.ok sizes, c)

/-- `divide` together with the total number of loop iterations of the (up to four) grow loops -/
def divideC (fuel : Nat) (dims : List Dim) (avail : Nat) (toMax : Bool) : Outcome × Nat :=
  match sumDims dims with
  | none => (.error, 0)
  | some sd =>
    if sd.min > avail then (.tooSmall, 0)
    else
      match growSizesC fuel (dims.map (·.pref)) (Nat.min avail sd.pref) (dims.map (·.min))
          (childGenerators dims) 0 with
      | none => (.hang, 0)
      | some r => phase2C fuel dims (Nat.min avail sd.max) toMax r.1 r.2.1 r.2.2

/-- the largest weight among the children, at least 1 (weight-0 children run with weight 1) -/
def maxWeight (dims : List Dim) : Nat := Nat.max 1 (maxOf (dims.map (·.weight)))

/-- most `next` calls between two iterations that grow a child: every child is yielded at most
    once per round of `take_using_weights`, and a child that can still grow is yielded again
    within `maxW` rounds -/
def gapBound (dims : List Dim) : Nat := dims.length * (maxWeight dims + 1)

/-- most loop iterations of one whole division -/
def stepBound (dims : List Dim) (avail : Nat) : Nat :=
  (avail - sumOf (·.min) dims) * gapBound dims

/-- a fuel that is always enough: the loop iterations, and `3 n + 3` generator micro-steps for
    one `next` -/
def fuelBound (dims : List Dim) (avail : Nat) : Nat :=
  stepBound dims avail + 3 * dims.length + 3

/-- `HSplit._divide_heights` with the iteration counter -/
def divideHC (fuel : Nat) (al : Align) (filler pad : Dim) (children : List Dim) (avail : Nat)
    (done : Bool) : Outcome × Nat :=
  if children.isEmpty then (.ok [], 0)
  else divideC fuel (allChildren al filler pad children) avail (!done)

/-- `VSplit._divide_widths` with the iteration counter -/
def divideVC (fuel : Nat) (al : Align) (filler pad : Dim) (children : List Dim) (avail : Nat) :
    Outcome × Nat :=
  let all := allChildren al filler pad children
  if all.isEmpty then (.ok [], 0) else divideC fuel all avail true

end Ptk.C12
