/-
  C03 — model of the VT100 input decoder
  (src/prompt_toolkit/input/vt100_parser.py: `_IsPrefixOfLongerMatchCache`, `Vt100Parser`).

  The coroutine `_input_parser_generator` becomes the explicit state `St.pre` (its local
  `prefix` at the `yield`) plus the function `process`, which is the body of the `while True`
  loop between two `yield`s (the locals `retry` / `flush` only live there; after the fix
  b9eeae0 `flush` persists while retrying).  `Vt100Parser.feed` is `feed` (paste fast path and
  re-feed of the remaining data, exactly as written); `Vt100Parser.flush` is `flush`.

  Parameters (`Cfg`): the `ANSI_SEQUENCES` table (regenerated from /repo on every run), the
  regex character class `\d` (runtime), the three `Keys` values the parser hard-codes.
  Key presses are `(key, data)`; `key` is the `.value` of the `Keys` member, or the character
  itself for text that matches nothing.

  The four regexes are replaced by hand-written recognisers of the same languages; the pattern
  strings are pinned below against the generated copies, and the correspondence compares the
  recognisers with `re` on all short strings.
-/
import Ptk.Py
import Ptk.Gen.C03Ansi
namespace Ptk.C03
open Ptk.Py

structure Press where
  key : String
  data : Text
deriving DecidableEq, Repr

abbrev Table := List (Text × List String)

structure Cfg where
  table : Table
  isDigit : Char → Bool
  cprKey : String
  mouseKey : String
  pasteKey : String

def ESC : Char := Char.ofNat 27

/-- the literal `end_mark = "\x1b[201~"` in `Vt100Parser.feed` -/
def endMark : Text := [ESC, '[', '2', '0', '1', '~']

/-! ### pattern pins (the build breaks here when a regex in /repo changes) -/
example : Gen.C03.cprRe = "^\x1b\\[\\d+;\\d+R\\Z" := by decide
example : Gen.C03.mouseRe = "^\x1b\\[(<?[\\d;]+[mM]|M...)\\Z" := by decide
example : Gen.C03.cprPrefixRe = "^\x1b\\[[\\d;]*\\Z" := by decide
example : Gen.C03.mousePrefixRe = "^\x1b\\[(<?[\\d;]*|M.{0,2})\\Z" := by decide
/-- flags: `re.UNICODE` only (no DOTALL / MULTILINE / IGNORECASE) -/
example : (Gen.C03.cprReFlags, Gen.C03.mouseReFlags, Gen.C03.cprPrefixReFlags,
    Gen.C03.mousePrefixReFlags) = (32, 32, 32, 32) := by decide

/-! ### recognisers -/

/-- `[\d;]` -/
def isDS (dg : Char → Bool) (c : Char) : Bool := dg c || c == ';'

/-- strip the literal `\x1b[` every pattern starts with -/
def csi : Text → Option Text
  | e :: b :: r => if e == ESC && b == '[' then some r else none
  | _ => none

/-- `\d+` -/
def digits1 (dg : Char → Bool) (x : Text) : Bool := !x.isEmpty && x.all dg

/-- `\d+R\Z` -/
def digitsR (dg : Char → Bool) (t : Text) : Bool :=
  match t.getLast? with
  | some c => c == 'R' && digits1 dg t.dropLast
  | none => false

/-- body of `_cpr_response_re`: `\d+;\d+R\Z` (some `;` splits it) -/
def cprBody (dg : Char → Bool) (r : Text) : Bool :=
  (List.range r.length).any fun i =>
    r[i]? == some ';' && digits1 dg (r.take i) && digitsR dg (r.drop (i + 1))

/-- `[\d;]+[mM]\Z` -/
def dsM (dg : Char → Bool) (x : Text) : Bool :=
  match x.getLast? with
  | some c => (c == 'm' || c == 'M') && !x.dropLast.isEmpty && x.dropLast.all (isDS dg)
  | none => false

/-- `M...\Z` (`.` = anything but `\n`) -/
def mDots : Text → Bool
  | [m, a, b, c] => m == 'M' && a != '\n' && b != '\n' && c != '\n'
  | _ => false

/-- body of `_mouse_event_re`: `(<?[\d;]+[mM]|M...)\Z` -/
def mouseBody (dg : Char → Bool) (r : Text) : Bool :=
  dsM dg r ||
  (match r with
   | c :: r' => c == '<' && dsM dg r'
   | [] => false) ||
  mDots r

/-- body of `_cpr_response_prefix_re`: `[\d;]*\Z` -/
def cprPrefixBody (dg : Char → Bool) (r : Text) : Bool := r.all (isDS dg)

/-- body of `_mouse_event_prefix_re`: `(<?[\d;]*|M.{0,2})\Z` -/
def mousePrefixBody (dg : Char → Bool) (r : Text) : Bool :=
  r.all (isDS dg) ||
  (match r with
   | c :: r' => (c == '<' && r'.all (isDS dg)) || (c == 'M' && r'.length ≤ 2 && r'.all (· != '\n'))
   | [] => false)

def isCpr (dg : Char → Bool) (p : Text) : Bool :=
  match csi p with | some r => cprBody dg r | none => false
def isMouse (dg : Char → Bool) (p : Text) : Bool :=
  match csi p with | some r => mouseBody dg r | none => false
def isCprPrefix (dg : Char → Bool) (p : Text) : Bool :=
  match csi p with | some r => cprPrefixBody dg r | none => false
def isMousePrefix (dg : Char → Bool) (p : Text) : Bool :=
  match csi p with | some r => mousePrefixBody dg r | none => false

/-! ### table functions -/

/-- `ANSI_SEQUENCES[prefix]` ; `[]` = KeyError (→ None) -/
def lookup (t : Table) (p : Text) : List String :=
  match t.find? (fun kv => kv.1 == p) with
  | some kv => kv.2
  | none => []

/-- `Vt100Parser._get_match`; the result is used for its truth value (`[]` = None / empty tuple)
    and as the key (tuple) given to `_call_handler`. -/
def getMatch (cfg : Cfg) (p : Text) : List String :=
  if isCpr cfg.isDigit p then [cfg.cprKey]
  else if isMouse cfg.isDigit p then [cfg.mouseKey]
  else lookup cfg.table p

/-- `_IsPrefixOfLongerMatchCache.__missing__` (the dict is a pure memo) -/
def isPrefixOfLonger (cfg : Cfg) (p : Text) : Bool :=
  if isCprPrefix cfg.isDigit p || isMousePrefix cfg.isDigit p then true
  else cfg.table.any fun kv => !kv.2.isEmpty && p.isPrefixOf kv.1 && kv.1 != p

/-- `_IS_PREFIX_OF_LONGER_MATCH_CACHE`: the dict behind `_IsPrefixOfLongerMatchCache` as state
    (most recent entry first) -/
abbrev PCache := List (Text × Bool)

/-- `cache[prefix]`: a stored entry is returned as it is; `__missing__` computes the predicate,
    stores it (`self[prefix] = result`) and returns it -/
def PCache.lookup (cfg : Cfg) (c : PCache) (p : Text) : Bool × PCache :=
  match c.find? (fun kv => kv.1 == p) with
  | some kv => (kv.2, c)
  | none => (isPrefixOfLonger cfg p, (p, isPrefixOfLonger cfg p) :: c)

/-- a run of lookups: the answers, and the final dict -/
def PCache.lookups (cfg : Cfg) : PCache → List Text → List Bool × PCache
  | c, [] => ([], c)
  | c, p :: ps =>
    let (b, c1) := PCache.lookup cfg c p
    let (bs, c2) := PCache.lookups cfg c1 ps
    (b :: bs, c2)

/-! ### parser state -/

structure St where
  /-- generator local `prefix` at the `yield` -/
  pre : Text
  /-- `Vt100Parser._in_bracketed_paste` -/
  inPaste : Bool
  /-- `Vt100Parser._paste_buffer` -/
  paste : Text
  /-- what `feed_key_callback` has received so far -/
  out : List Press
deriving DecidableEq, Repr

def St.init : St := { pre := [], inPaste := false, paste := [], out := [] }

/-- `_call_handler(key, insert_text)` for a tuple of keys (a single key is a 1-tuple):
    the first key carries the data, the others `""`; `Keys.BracketedPaste` switches to paste
    mode instead of being delivered. -/
def callHandler (cfg : Cfg) : St → List String → Text → St
  | s, [], _ => s
  | s, k :: ks, d =>
    let s' := if k == cfg.pasteKey then { s with inPaste := true, paste := [] }
              else { s with out := s.out ++ [⟨k, d⟩] }
    callHandler cfg s' ks []

/-- the key presses `_call_handler` delivers for a (tuple of) non-paste key(s): the first one
    carries the text, the others `""` -/
def presses : List String → Text → List Press
  | [], _ => []
  | k :: ks, d => ⟨k, d⟩ :: presses ks []

/-- `for i in range(len(prefix), 0, -1): match = _get_match(prefix[:i]); if match: … prefix = prefix[i:]; found = True`
    (no `break`: after a hit the loop goes on with the smaller `i` on the shifted prefix) -/
def shiftLoop (cfg : Cfg) : Nat → St → Bool → St × Bool
  | 0, s, found => (s, found)
  | i + 1, s, found =>
    let m := getMatch cfg (s.pre.take (i + 1))
    if !m.isEmpty then
      shiftLoop cfg i (callHandler cfg { s with pre := s.pre.drop (i + 1) } m (s.pre.take (i + 1))) true
    else shiftLoop cfg i s found

/-- the "no exact match" branch: shift loop, then the single-character fallback -/
def shiftStep (cfg : Cfg) (s : St) : St :=
  let (s1, found) := shiftLoop cfg s.pre.length s false
  if found then s1
  else match s1.pre with
    | c :: r => callHandler cfg { s1 with pre := r } [String.singleton c] [c]
    | [] => s1

/-- One activation of the coroutine body after input was received, until the next `yield`.
    `fuel` bounds the number of `retry` iterations; `s.pre.length` always suffices
    (`Props.C03.process_fuel`). -/
def process (cfg : Cfg) : Nat → Bool → St → St
  | 0, _, s => s
  | fuel + 1, fl, s =>
    if s.pre.isEmpty then s
    else
      let isP := isPrefixOfLonger cfg s.pre
      let m := getMatch cfg s.pre
      if fl || !isP then
        if !m.isEmpty then callHandler cfg { s with pre := [] } m s.pre
        else process cfg fuel fl (shiftStep cfg s)
      else s

/-- `self._input_parser.send(c)` -/
def sendChar (cfg : Cfg) (s : St) (c : Char) : St :=
  let s1 := { s with pre := s.pre ++ [c] }
  process cfg s1.pre.length false s1

/-- `Vt100Parser.flush` = `self._input_parser.send(_Flush())` -/
def flush (cfg : Cfg) (s : St) : St := process cfg s.pre.length true s

/-- the `for i, c in enumerate(data)` loop of `feed` in normal mode; returns the state and the
    `data[i:]` that is re-fed when the parser entered bracketed paste (`[]` if the loop ended) -/
def feedNormal (cfg : Cfg) : Text → St → St × Text
  | [], s => (s, [])
  | c :: cs, s => if s.inPaste then (s, c :: cs) else feedNormal cfg cs (sendChar cfg s c)

/-- `Vt100Parser.feed` with an explicit bound on the recursion depth -/
def feedFuel (cfg : Cfg) : Nat → St → Text → St
  | 0, s, _ => s
  | n + 1, s, data =>
    if s.inPaste then
      let buf := s.paste ++ data
      match findSub? endMark buf with
      | some j =>
        feedFuel cfg n
          { s with out := s.out ++ [⟨cfg.pasteKey, buf.take j⟩], inPaste := false, paste := [] }
          (buf.drop (j + endMark.length))
      | none => { s with paste := buf }
    else
      let (s1, rest) := feedNormal cfg data s
      if rest.isEmpty then s1 else feedFuel cfg n s1 rest

/-- `Vt100Parser.feed(data)`; the recursion depth is bounded by the amount of text at hand
    (`Props.C03.feed_eq` shows the bound is never reached). -/
def feed (cfg : Cfg) (s : St) (data : Text) : St :=
  feedFuel cfg (s.paste.length + data.length + 1) s data

/-- `Vt100Parser.feed_and_flush` -/
def feedAndFlush (cfg : Cfg) (s : St) (data : Text) : St := flush cfg (feed cfg s data)

/-- what `Vt100Input.read_keys` / `flush_keys` do with the callback buffer -/
def takeOut (s : St) : St × List Press := ({ s with out := [] }, s.out)

/-- a schedule step: one read delivering a chunk, or the flush timeout -/
inductive Op where
  | feed (chunk : Text)
  | flush
deriving DecidableEq, Repr

def step (cfg : Cfg) (s : St) : Op → St
  | .feed d => feed cfg s d
  | .flush => flush cfg s

def run (cfg : Cfg) (s : St) (ops : List Op) : St := ops.foldl (step cfg) s

/-- the configuration of the current tree -/
def genCfg : Cfg :=
  { table := Gen.C03.ansiTable, isDigit := Gen.C03.reDigit, cprKey := Gen.C03.cprKey,
    mouseKey := Gen.C03.mouseKey, pasteKey := Gen.C03.pasteKey }

end Ptk.C03
