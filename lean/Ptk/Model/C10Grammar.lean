/-
  C10 — the grammar of the terminal output stream, written as recursive recognisers of the
  ECMA-48 token shapes (independent of the tokenizer automaton of `C10Tok.lean`):

      C0/C1 control   one control character other than ESC and 8-bit CSI
      CSI sequence    (ESC [ | 0x9B)  P*  I*  F        P = 0x30–0x3F, I = 0x20–0x2F, F = 0x40–0x7E
      ESC sequence    ESC  I*  X                       X = 0x30–0x7E (without intermediates: not `[`, and
                                                        not one of the string introducers ] P X ^ _)
      control string  ESC (] | P | X | ^ | _)  B*  T   B ∉ {BEL, ST, ESC},  T = BEL | ST (0x9C) | ESC \

  A well-formed output stream is a sequence of such tokens and of characters that are not control
  characters.  `Props/C10Grammar.lean` proves that this grammar is unambiguous (tokens are
  prefix-free, every stream has at most one parse) and that the tokenizer computes the parse.
-/
import Ptk.Model.C10Tok
namespace Ptk.C10
open Ptk.Py

/-- `I* F` -/
def interTail : CText → Bool
  | [] => false
  | c :: cs => if isInter c then interTail cs else (isFinal c && cs.isEmpty)

/-- `P* I* F` -/
def csiTail : CText → Bool
  | [] => false
  | c :: cs => if isParam c then csiTail cs else interTail (c :: cs)

/-- final byte of an ESC sequence -/
def isEscFinal (c : CP) : Bool := 0x30 ≤ c && c ≤ 0x7e

/-- `I* X` -/
def escTail : CText → Bool
  | [] => false
  | c :: cs => if isInter c then escTail cs else (isEscFinal c && cs.isEmpty)

/-- `B* T` -/
def strTail : CText → Bool
  | [] => false
  | c :: cs =>
    if c = BEL || c = ST8 then cs.isEmpty
    else if c = ESC then cs == [BSLASH]
    else strTail cs

/-- is `t` exactly one control token of the output grammar? -/
def isToken : CText → Bool
  | [] => false
  | c :: cs =>
    if c = ESC then
      match cs with
      | [] => false
      | d :: ds =>
        if d = LBRACK then csiTail ds
        else if isStrIntro d then strTail ds
        else if isInter d then escTail ds
        else (isEscFinal d && ds.isEmpty)
    else if c = CSI8 then csiTail cs
    else (isControl c && cs.isEmpty)

/-- a piece of a parsed stream -/
inductive Piece
  | ch (c : CP)       -- a character that is not a control character
  | tok (t : CText)   -- one control token
deriving DecidableEq, Repr

def Piece.text : Piece → CText
  | .ch c => [c]
  | .tok t => t

def Piece.ok : Piece → Bool
  | .ch c => !isControl c
  | .tok t => isToken t

/-- the stream a list of pieces spells -/
def flat (ps : List Piece) : CText := (ps.map Piece.text).flatten

/-- the control tokens of a parse, in order -/
def toks : List Piece → List CText
  | [] => []
  | .ch _ :: ps => toks ps
  | .tok t :: ps => t :: toks ps

/-- length of the (unique, see `token_prefix_free`) token at the head of `s`, if there is one -/
def firstTok (s : CText) : Option Nat := (List.range (s.length + 1)).find? fun n => isToken (s.take n)

/-- greedy parser (fuel = length of the stream + 1) -/
def parseG : Nat → CText → Option (List Piece)
  | _, [] => some []
  | 0, _ :: _ => none
  | fuel + 1, c :: cs =>
    if !isControl c then (parseG fuel cs).map (Piece.ch c :: ·)
    else match firstTok (c :: cs) with
      | none => none
      | some n => if n = 0 then none else (parseG fuel ((c :: cs).drop n)).map (Piece.tok ((c :: cs).take n) :: ·)

/-- the parse of a stream, when it is well-formed -/
def parse (s : CText) : Option (List Piece) := parseG (s.length + 1) s

end Ptk.C10
