/-
  C02 — executable model of `prompt_toolkit.document.Document`
  (src/prompt_toolkit/document.py): coordinate translation, the text views and
  every relative motion query.

  Conventions
  * a document is `(text, cur)` with `cur : Nat` (the property quantifies over
    cursors `0 ≤ cur ≤ len(text)`; `Document.__init__` asserts `cur ≤ len`).
  * `isSpace` models `str.isspace` (used by `lstrip()/rstrip()/isspace()`), `sp`
    models the regex class `\s`; both come from the Python runtime and are
    parameters (the driver instantiates them with `Gen.isSpace` / `Gen.reSpace`).
  * `eq` models character equality under `re.IGNORECASE` (or plain equality).
  * the six word regexes are replaced by hand-written scanners over maximal
    runs of a character class; the pattern strings are pinned in Ptk.Props.C02Gen.
  * relative motions return `Int` (offsets) / `Option Int` (`None`).
-/
import Ptk.Py
namespace Ptk.C02
open Ptk.Py

/-! ### pattern pins
  The scanners below are written for exactly the six regexes of `document.py`; the pattern strings
  and flags regenerated into `Ptk.Gen.C02Patterns` are pinned in `Ptk.Props.C02Gen`
  (`gen_patterns_ok`), the character classes of the compiled regex objects in `gen_ok`, so that a
  changed pattern breaks a proof obligation while this model (and the driver) still builds and the
  correspondence shows the diverging input. -/

structure Doc where
  text : Text
  cur : Nat
deriving Repr, DecidableEq

/-! ### text views -/

/-- `text_before_cursor` = `text[:cur]` -/
def Doc.before (d : Doc) : Text := d.text.take d.cur
/-- `text_after_cursor` = `text[cur:]` -/
def Doc.after (d : Doc) : Text := d.text.drop d.cur

/-- `s.rpartition("\n")[2]` : the part after the last newline (all of `s` if none) -/
def rpartLast (s : Text) : Text := (s.reverse.takeWhile (· ≠ '\n')).reverse
/-- `s.partition("\n")[0]` : the part before the first newline -/
def partFirst (s : Text) : Text := s.takeWhile (· ≠ '\n')

/-- `current_line_before_cursor` -/
def lineBefore (d : Doc) : Text := rpartLast d.before
/-- `current_line_after_cursor` -/
def lineAfter (d : Doc) : Text := partFirst d.after
/-- `current_line` -/
def currentLine (d : Doc) : Text := lineBefore d ++ lineAfter d

/-- `lines` = `text.split("\n")` -/
def lines (t : Text) : List Text := splitOn '\n' t

/-- the loop `for line_length in line_lengths: pos += line_length + 1; append(pos)` -/
def cumul : Nat → List Text → List Nat
  | _, [] => []
  | pos, l :: ls => (pos + l.length + 1) :: cumul (pos + l.length + 1) ls

/-- `_line_start_indexes` : `[0] + cumulative sums`, last item popped. -/
def lineStarts (t : Text) : List Nat :=
  let idx := 0 :: cumul 0 (lines t)
  if idx.length > 1 then idx.dropLast else idx

/-- specification of `bisect.bisect_right(a, x)` on a sorted list: the number of entries `≤ x` -/
def bisectRight (a : List Nat) (x : Nat) : Nat := (a.takeWhile (· ≤ x)).length

/-- the loop of `bisect.bisect_right` as the standard library writes it (Lib/bisect.py; the C
    accelerator `_bisect` is the same binary search):
    `while lo < hi: mid = (lo + hi) // 2; if x < a[mid]: hi = mid else: lo = mid + 1; return lo`.
    `fuel` bounds the number of iterations (`hi - lo` shrinks in every step). -/
def bisectLoop (a : List Nat) (x : Nat) : Nat → Nat → Nat → Nat
  | 0, lo, _ => lo
  | f + 1, lo, hi =>
    if lo < hi then
      let mid := (lo + hi) / 2
      if x < a[mid]?.getD 0 then bisectLoop a x f lo mid else bisectLoop a x f (mid + 1) hi
    else lo

/-- `bisect.bisect_right(a, x)` (`lo = 0`, `hi = len(a)`); equal to `bisectRight` on sorted lists
    (`bisectRightAlg_eq` in `Ptk.Props.C02Lines`) -/
def bisectRightAlg (a : List Nat) (x : Nat) : Nat := bisectLoop a x (a.length + 1) 0 a.length

/-- `_find_line_start_index(index)` → `(row, start index of that row)` -/
def findLineStart (t : Text) (i : Nat) : Nat × Nat :=
  let idx := lineStarts t
  let pos := bisectRightAlg idx i - 1
  (pos, idx[pos]?.getD 0)

/-- `translate_index_to_position(index)` -/
def indexToPos (t : Text) (i : Nat) : Nat × Nat :=
  let (row, rowIndex) := findLineStart t i
  (row, i - rowIndex)

/-- `translate_row_col_to_index(row, col)`; negative `row` is looked up the Python
    way first (`list[row]` wraps), only an IndexError falls back to row 0 / last row. -/
def rowColToIndex (t : Text) (row col : Int) : Nat :=
  let idx := lineStarts t
  let ls := lines t
  let (result, line) : Nat × Text :=
    match index? idx row, index? ls row with
    | some r, some l => (r, l)
    | _, _ =>
      if row < 0 then (idx.headD 0, ls.headD [])
      else (idx.getLastD 0, ls.getLastD [])
  let result : Int := (result : Int) + max 0 (min col (line.length : Int))
  (max 0 (min result (t.length : Int))).toNat

/-- `cursor_position_row` -/
def row (d : Doc) : Nat := (findLineStart d.text d.cur).1
/-- `cursor_position_col` -/
def col (d : Doc) : Nat := d.cur - (findLineStart d.text d.cur).2
/-- `line_count` -/
def lineCount (t : Text) : Nat := (lines t).length

/-- `_get_char_relative_to_cursor(offset)` (after the fix: a negative index gives "") -/
def charRel (d : Doc) (offset : Int) : Option Char :=
  let i : Int := (d.cur : Int) + offset
  if i < 0 then none else d.text[i.toNat]?
/-- `current_char` (`none` = "") -/
def currentChar (d : Doc) : Option Char := charRel d 0
/-- `char_before_cursor` -/
def charBefore (d : Doc) : Option Char := charRel d (-1)

def onFirstLine (d : Doc) : Bool := row d == 0
def onLastLine (d : Doc) : Bool := row d == lineCount d.text - 1
def isAtEnd (d : Doc) : Bool := d.cur == d.text.length
def isAtEndOfLine (d : Doc) : Bool :=
  match currentChar d with
  | none => true
  | some c => c == '\n'

/-- `lines_from_current` -/
def linesFromCurrent (d : Doc) : List Text := (lines d.text).drop (row d)

/-- `s.lstrip()` / `s.rstrip()` for the whitespace class `isSpace` -/
def lstrip (isSpace : Char → Bool) (s : Text) : Text := s.dropWhile isSpace
def rstrip (isSpace : Char → Bool) (s : Text) : Text := (s.reverse.dropWhile isSpace).reverse

/-- `leading_whitespace_in_current_line` -/
def leadingWs (isSpace : Char → Bool) (d : Doc) : Text :=
  let l := currentLine d
  l.take (l.length - (lstrip isSpace l).length)

/-- `not text or text.isspace()` -/
def blankLine (isSpace : Char → Bool) (l : Text) : Bool := l.isEmpty || l.all isSpace

/-- `empty_line_count_at_the_end()` -/
def emptyLineCountAtEnd (isSpace : Char → Bool) (t : Text) : Nat :=
  ((lines t).reverse.takeWhile (blankLine isSpace)).length

/-! ### character motions -/

/-- `get_cursor_left_position(count)` -/
def cursorLeft (d : Doc) (count : Int) : Int :=
  if count < 0 then min (-count) ((lineAfter d).length : Int)
  else -(min (col d : Int) count)

/-- `get_cursor_right_position(count)` -/
def cursorRight (d : Doc) (count : Int) : Int :=
  if count < 0 then -(min (col d : Int) (-count))
  else min count ((lineAfter d).length : Int)

/-- `get_cursor_up_position(count, preferred_column)` (`count ≥ 1` is asserted) -/
def cursorUp (d : Doc) (count : Int) (pref : Option Int) : Int :=
  let column : Int := pref.getD (col d : Int)
  (rowColToIndex d.text (max 0 ((row d : Int) - count)) column : Int) - d.cur

/-- `get_cursor_down_position(count, preferred_column)` -/
def cursorDown (d : Doc) (count : Int) (pref : Option Int) : Int :=
  let column : Int := pref.getD (col d : Int)
  (rowColToIndex d.text ((row d : Int) + count) column : Int) - d.cur

def startOfDocument (d : Doc) : Int := -(d.cur : Int)
def endOfDocument (d : Doc) : Int := (d.text.length : Int) - d.cur

/-- `get_start_of_line_position(after_whitespace)` -/
def startOfLine (isSpace : Char → Bool) (d : Doc) (afterWs : Bool) : Int :=
  if afterWs then
    let l := currentLine d
    (l.length : Int) - (lstrip isSpace l).length - col d
  else -((lineBefore d).length : Int)

/-- `get_end_of_line_position()` -/
def endOfLine (d : Doc) : Int := (lineAfter d).length

/-- `last_non_blank_of_current_line_position()` (after fix 3bfb87d) -/
def lastNonBlank (isSpace : Char → Bool) (d : Doc) : Int :=
  max 0 (((rstrip isSpace (currentLine d)).length : Int) - 1) - col d

/-- `get_column_cursor_position(column)` -/
def columnPos (d : Doc) (column : Int) : Int :=
  let lineLength : Int := (currentLine d).length
  max 0 (min lineLength column) - col d

/-! ### literal search (`re.finditer(re.escape(sub), text, flags)`) -/

/-- does `sub` match at the start of `t` (character equality `eq`) -/
def matchAt (eq : Char → Char → Bool) : Text → Text → Bool
  | [], _ => true
  | _ :: _, [] => false
  | a :: as, b :: bs => eq a b && matchAt eq as bs

/-- start offsets of the non-overlapping leftmost matches; an empty `sub` matches
    at every position `0..len`.  `fuel` bounds the number of scan steps. -/
def finditerGo (eq : Char → Char → Bool) (sub : Text) : Nat → Nat → Text → List Nat
  | 0, _, _ => []
  | f + 1, off, t =>
    if matchAt eq sub t then
      off :: (if sub.isEmpty then
                (match t with
                 | [] => []
                 | _ :: cs => finditerGo eq sub f (off + 1) cs)
              else finditerGo eq sub f (off + sub.length) (t.drop sub.length))
    else
      match t with
      | [] => []
      | _ :: cs => finditerGo eq sub f (off + 1) cs

def finditer (eq : Char → Char → Bool) (sub t : Text) : List Nat :=
  finditerGo eq sub (t.length + 1) 0 t

/-- `for i, match in enumerate(iterator): if i + 1 == count: return match` -/
def nth {α : Type} (ms : List α) (count : Int) : Option α :=
  if count ≥ 1 then ms[(count - 1).toNat]? else none

/-- the body of `find` on the selected text (rest of the line / rest of the document) -/
def findIn (eq : Char → Char → Bool) (text sub : Text) (incl : Bool) (count : Int) : Option Int :=
  if !incl then
    if text.isEmpty then none
    else (nth (finditer eq sub (text.drop 1)) count).map fun (s : Nat) => (s : Int) + 1
  else (nth (finditer eq sub text) count).map fun (s : Nat) => (s : Int)

/-- `find(sub, in_current_line, include_current_position, ignore_case→eq, count)` -/
def find (eq : Char → Char → Bool) (d : Doc) (sub : Text) (inLine incl : Bool) (count : Int) :
    Option Int :=
  findIn eq (if inLine then lineAfter d else d.after) sub incl count

/-- `find_all(sub, ignore_case→eq)` -/
def findAll (eq : Char → Char → Bool) (d : Doc) (sub : Text) : List Nat := finditer eq sub d.text

/-- `find_backwards(sub, in_current_line, ignore_case→eq, count)` -/
def findBackwards (eq : Char → Char → Bool) (d : Doc) (sub : Text) (inLine : Bool) (count : Int) :
    Option Int :=
  let beforeRev := if inLine then (lineBefore d).reverse else d.before.reverse
  (nth (finditer eq sub.reverse beforeRev) count).map fun (s : Nat) => -(s : Int) - sub.length

/-- `has_match_at_current_position(sub)` : `text.find(sub, cur) == cur` -/
def hasMatchAtCursor (d : Doc) (sub : Text) : Bool := matchAt (· == ·) sub d.after

/-! ### word scanners -/

/-- `[a-zA-Z0-9_]` (no flags: literal ASCII ranges) -/
def isWordChar (c : Char) : Bool :=
  (97 ≤ c.toNat && c.toNat ≤ 122) || (65 ≤ c.toNat && c.toNat ≤ 90) ||
  (48 ≤ c.toNat && c.toNat ≤ 57) || c.toNat == 95

/-- character classes of `_FIND_WORD_RE`: 1 = `[a-zA-Z0-9_]`, 2 = `[^a-zA-Z0-9_\s]`, 0 = neither -/
def clsWord (sp : Char → Bool) (c : Char) : Nat :=
  if isWordChar c then 1 else if sp c then 0 else 2
/-- character classes of `_FIND_BIG_WORD_RE`: 1 = `[^\s]`, 0 = `\s` -/
def clsBig (sp : Char → Bool) (c : Char) : Nat := if sp c then 0 else 1
def cls (sp : Char → Bool) (WORD : Bool) : Char → Nat := if WORD then clsBig sp else clsWord sp

/-- length of the longest prefix whose characters all have class `k` (greedy `[..]+`) -/
def prefixLen (cl : Char → Nat) (k : Nat) : Text → Nat
  | [] => 0
  | c :: cs => if cl c = k then prefixLen cl k cs + 1 else 0

/-- `regex.finditer(t)` for a regex "maximal run of one non-zero class":
    `(start, end)` of every match, left to right. -/
def runsGo (cl : Char → Nat) : Nat → Nat → Text → List (Nat × Nat)
  | 0, _, _ => []
  | _ + 1, _, [] => []
  | f + 1, off, c :: cs =>
    if cl c = 0 then runsGo cl f (off + 1) cs
    else
      let n := prefixLen cl (cl c) cs
      (off, off + 1 + n) :: runsGo cl f (off + 1 + n) (cs.drop n)

def runs (cl : Char → Nat) (t : Text) : List (Nat × Nat) := runsGo cl t.length 0 t

/-- `^(word)`.search(t): `end(1)` of the run starting at position 0 -/
def currentWordEnd (cl : Char → Nat) : Text → Option Nat
  | [] => none
  | c :: cs => if cl c = 0 then none else some (1 + prefixLen cl (cl c) cs)

/-- `^((word)\s*)`.search(t): `end(1)` including the trailing whitespace -/
def currentWordEndWs (cl : Char → Nat) (sp : Char → Bool) (t : Text) : Option Nat :=
  (currentWordEnd cl t).map fun (e : Nat) => e + ((t.drop e).takeWhile sp).length

/-- `find_start_of_previous_word(count, WORD)` (no custom pattern) -/
def findStartOfPreviousWord (sp : Char → Bool) (d : Doc) (count : Int) (WORD : Bool) : Option Int :=
  (nth (runs (cls sp WORD) d.before.reverse) count).map fun (r : Nat × Nat) => -(r.2 : Int)

/-- "Take first match, unless it's the word on which we're right now": `count += 1`
    when the first match starts at 0. -/
def adjustCount (rs : List (Nat × Nat)) (count : Int) : Int :=
  match rs with
  | (0, _) :: _ => count + 1
  | _ => count

/-- body of `find_next_word_beginning` for `count ≥ 0` -/
def nextWordBeginningPos (sp : Char → Bool) (d : Doc) (count : Int) (WORD : Bool) : Option Int :=
  let rs := runs (cls sp WORD) d.after
  (nth rs (adjustCount rs count)).map fun (r : Nat × Nat) => (r.1 : Int)

/-- body of `find_previous_word_beginning` for `count ≥ 0` -/
def prevWordBeginningPos (sp : Char → Bool) (d : Doc) (count : Int) (WORD : Bool) : Option Int :=
  (nth (runs (cls sp WORD) d.before.reverse) count).map fun (r : Nat × Nat) => -(r.2 : Int)

/-- body of `find_next_word_ending` for `count ≥ 0` -/
def nextWordEndingPos (sp : Char → Bool) (d : Doc) (incl : Bool) (count : Int) (WORD : Bool) :
    Option Int :=
  let text := if incl then d.after else d.after.drop 1
  (nth (runs (cls sp WORD) text) count).map fun (r : Nat × Nat) =>
    if incl then (r.2 : Int) else (r.2 : Int) + 1

/-- body of `find_previous_word_ending` for `count ≥ 0`
    (as it is: `-match.start(1) + 1` also when there is no character under the cursor) -/
def prevWordEndingPos (sp : Char → Bool) (d : Doc) (count : Int) (WORD : Bool) : Option Int :=
  let s := d.after.take 1 ++ d.before.reverse
  let rs := runs (cls sp WORD) s
  (nth rs (adjustCount rs count)).map fun (r : Nat × Nat) => -(r.1 : Int) + 1

def findNextWordBeginning (sp : Char → Bool) (d : Doc) (count : Int) (WORD : Bool) : Option Int :=
  if count < 0 then prevWordBeginningPos sp d (-count) WORD else nextWordBeginningPos sp d count WORD
def findPreviousWordBeginning (sp : Char → Bool) (d : Doc) (count : Int) (WORD : Bool) : Option Int :=
  if count < 0 then nextWordBeginningPos sp d (-count) WORD else prevWordBeginningPos sp d count WORD
def findNextWordEnding (sp : Char → Bool) (d : Doc) (incl : Bool) (count : Int) (WORD : Bool) :
    Option Int :=
  if count < 0 then prevWordEndingPos sp d (-count) WORD else nextWordEndingPos sp d incl count WORD
def findPreviousWordEnding (sp : Char → Bool) (d : Doc) (count : Int) (WORD : Bool) : Option Int :=
  -- (the delegation uses the default `include_current_position=False`)
  if count < 0 then nextWordEndingPos sp d false (-count) WORD else prevWordEndingPos sp d count WORD

/-- `find_boundaries_of_current_word(WORD, include_leading_whitespace, include_trailing_whitespace)` -/
def wordBoundaries (sp : Char → Bool) (d : Doc) (WORD lead trail : Bool) : Int × Int :=
  let tb := (lineBefore d).reverse
  let ta := lineAfter d
  let rx (ws : Bool) (t : Text) : Option Nat :=
    if ws then currentWordEndWs (cls sp WORD) sp t else currentWordEnd (cls sp WORD) t
  let mb := rx lead tb
  let ma := rx trail ta
  let mb :=
    if !WORD && mb.isSome && ma.isSome then
      match index? d.text ((d.cur : Int) - 1), index? d.text (d.cur : Int) with
      | some c1, some c2 => if isWordChar c1 != isWordChar c2 then none else mb
      | _, _ => mb   -- IndexError: unreachable (both matches are non-empty)
    else mb
  ((match mb with | some e => -(e : Int) | none => 0),
   (match ma with | some e => (e : Int) | none => 0))

/-- `get_word_under_cursor(WORD)` -/
def wordUnderCursor (sp : Char → Bool) (d : Doc) (WORD : Bool) : Text :=
  let (s, e) := wordBoundaries sp d WORD false false
  slice d.text (some ((d.cur : Int) + s)) (some ((d.cur : Int) + e))

/-- `get_word_before_cursor(WORD)` (no custom pattern) -/
def wordBeforeCursor (isSpace sp : Char → Bool) (d : Doc) (WORD : Bool) : Text :=
  let b := d.before
  let complete : Bool := b.isEmpty || (match b.getLast? with | some c => isSpace c | none => false)
  if complete then []
  else
    let start : Int := (findStartOfPreviousWord sp d 1 WORD).getD 0
    slice b (some ((b.length : Int) + start)) none

/-! ### line matching and paragraphs -/

/-- the loop shared by `find_next_matching_line` / `find_previous_matching_line`:
    `result` is overwritten by every match, `count` decremented, loop left when `count == 0`. -/
def matchLoop (f : Text → Bool) (mk : Nat → Int) : Int → Nat → Option Int → List Text → Option Int
  | _, _, res, [] => res
  | count, index, res, l :: ls =>
    let res' := if f l then some (mk index) else res
    let count' := if f l then count - 1 else count
    if count' = 0 then res' else matchLoop f mk count' (index + 1) res' ls

def findNextMatchingLine (f : Text → Bool) (d : Doc) (count : Int) : Option Int :=
  matchLoop f (fun i => 1 + (i : Int)) count 0 none ((lines d.text).drop (row d + 1))

def findPreviousMatchingLine (f : Text → Bool) (d : Doc) (count : Int) : Option Int :=
  matchLoop f (fun i => -1 - (i : Int)) count 0 none ((lines d.text).take (row d)).reverse

/-- `start_of_paragraph(count, before)` -/
def startOfParagraph (isSpace : Char → Bool) (d : Doc) (count : Int) (before : Bool) : Int :=
  match findPreviousMatchingLine (blankLine isSpace) d count with
  | some li =>
    if li ≠ 0 then min 0 (cursorUp d (-li) none + (if before then 0 else 1))
    else -(d.cur : Int)
  | none => -(d.cur : Int)

/-- `end_of_paragraph(count, after)` -/
def endOfParagraph (isSpace : Char → Bool) (d : Doc) (count : Int) (after : Bool) : Int :=
  match findNextMatchingLine (blankLine isSpace) d count with
  | some li =>
    if li ≠ 0 then max 0 (cursorDown d li none - (if after then 0 else 1))
    else (d.after.length : Int)
  | none => (d.after.length : Int)

/-! ### brackets -/

/-- the stack walk: `inc` pushes, `dec` pops; index (from `i`) of the element at which
    the stack becomes 0 -/
def walk (inc dec : Char) : Int → Nat → Text → Option Nat
  | _, _, [] => none
  | st, i, c :: cs =>
    let st' : Int := if c = inc then st + 1 else if c = dec then st - 1 else st
    if st' = 0 then some i else walk inc dec st' (i + 1) cs

/-- `end_pos = len(text) if end_pos is None else min(len(text), end_pos)` -/
def endLimit (n : Nat) : Option Int → Int
  | none => (n : Int)
  | some e => min (n : Int) e
/-- `start_pos = 0 if start_pos is None else max(0, start_pos)` -/
def startLimit : Option Int → Int
  | none => 0
  | some s => max 0 s

/-- `find_enclosing_bracket_right(left_ch, right_ch, end_pos)` -/
def enclosingRight (d : Doc) (l r : Char) (endPos : Option Int) : Option Int :=
  if currentChar d = some r then some 0
  else
    -- for i in range(cur + 1, e)
    let seg := (d.text.take (endLimit d.text.length endPos).toNat).drop (d.cur + 1)
    (walk l r 1 0 seg).map fun (i : Nat) => (i : Int) + 1

/-- `find_enclosing_bracket_left(left_ch, right_ch, start_pos)` -/
def enclosingLeft (d : Doc) (l r : Char) (startPos : Option Int) : Option Int :=
  if currentChar d = some l then some 0
  else
    -- for i in range(cur - 1, s - 1, -1)
    let seg := ((d.text.take d.cur).drop (startLimit startPos).toNat).reverse
    (walk r l 1 0 seg).map fun (i : Nat) => -((i : Int) + 1)

def bracketPairs : List (Char × Char) := [('(', ')'), ('[', ']'), ('{', '}'), ('<', '>')]

def matchingGo (d : Doc) (startPos endPos : Option Int) : List (Char × Char) → Int
  | [] => 0
  | (a, b) :: rest =>
    if currentChar d = some a then (enclosingRight d a b endPos).getD 0
    else if currentChar d = some b then (enclosingLeft d a b startPos).getD 0
    else matchingGo d startPos endPos rest

/-- `find_matching_bracket_position(start_pos, end_pos)` -/
def matchingBracket (d : Doc) (startPos endPos : Option Int) : Int :=
  matchingGo d startPos endPos bracketPairs

/-! ### the shared line-table cache

  `_text_to_document_cache` maps a text to one `_DocumentCache` (weakly: an entry can vanish
  whenever no `Document` refers to it any more); every `Document` with that text reads and fills
  the same two slots lazily. -/

structure Cache where
  lines : Option (List Text) := none
  lineIndexes : Option (List Nat) := none
deriving Repr

/-- the global dictionary, as an association list text ↦ cache -/
abbrev Store := List (Text × Cache)

def Store.get (s : Store) (t : Text) : Cache := ((s.find? (·.1 == t)).map (·.2)).getD {}
def Store.set (s : Store) (t : Text) (c : Cache) : Store := (t, c) :: s.filter (·.1 != t)

/-- `Document.lines` through the cache -/
def cachedLines (c : Cache) (t : Text) : List Text × Cache :=
  match c.lines with
  | some ls => (ls, c)
  | none => let ls := splitOn '\n' t; (ls, { c with lines := some ls })

/-- `Document._line_start_indexes` through the cache -/
def cachedStarts (c : Cache) (t : Text) : List Nat × Cache :=
  match c.lineIndexes with
  | some idx => (idx, c)
  | none =>
    let r := cachedLines c t
    let idx := 0 :: cumul 0 r.1
    let idx := if idx.length > 1 then idx.dropLast else idx
    (idx, { r.2 with lineIndexes := some idx })

/-- queries that go through the cache, and the garbage collection of an entry -/
inductive CacheOp
  | lines (t : Text)
  | starts (t : Text)
  | indexToPos (t : Text) (i : Nat)
  | rowColToIndex (t : Text) (row col : Int)
  | gc (t : Text)

inductive CacheAns
  | lines (ls : List Text)
  | starts (idx : List Nat)
  | pos (p : Nat × Nat)
  | index (i : Nat)
  | none
deriving DecidableEq, Repr

/-- `translate_index_to_position` reading the tables from the cache -/
def cachedIndexToPos (c : Cache) (t : Text) (i : Nat) : (Nat × Nat) × Cache :=
  let r := cachedStarts c t
  let pos := bisectRightAlg r.1 i - 1
  ((pos, i - r.1[pos]?.getD 0), r.2)

/-- `translate_row_col_to_index` reading the tables from the cache -/
def cachedRowColToIndex (c : Cache) (t : Text) (row col : Int) : Nat × Cache :=
  let r1 := cachedStarts c t
  let r2 := cachedLines r1.2 t
  let idx := r1.1
  let ls := r2.1
  let (result, line) : Nat × Text :=
    match index? idx row, index? ls row with
    | some r, some l => (r, l)
    | _, _ =>
      if row < 0 then (idx.headD 0, ls.headD [])
      else (idx.getLastD 0, ls.getLastD [])
  let result : Int := (result : Int) + max 0 (min col (line.length : Int))
  ((max 0 (min result (t.length : Int))).toNat, r2.2)

def cacheStep (s : Store) : CacheOp → CacheAns × Store
  | .lines t => let r := cachedLines (s.get t) t; (.lines r.1, s.set t r.2)
  | .starts t => let r := cachedStarts (s.get t) t; (.starts r.1, s.set t r.2)
  | .indexToPos t i => let r := cachedIndexToPos (s.get t) t i; (.pos r.1, s.set t r.2)
  | .rowColToIndex t row col => let r := cachedRowColToIndex (s.get t) t row col; (.index r.1, s.set t r.2)
  | .gc t => (.none, s.filter (·.1 != t))

/-- what the same query answers without any cache -/
def pureAns : CacheOp → CacheAns
  | .lines t => .lines (lines t)
  | .starts t => .starts (lineStarts t)
  | .indexToPos t i => .pos (indexToPos t i)
  | .rowColToIndex t row col => .index (rowColToIndex t row col)
  | .gc _ => .none

def cacheRun (s : Store) : List CacheOp → List CacheAns × Store
  | [] => ([], s)
  | op :: ops =>
    let r := cacheStep s op
    let rs := cacheRun r.2 ops
    (r.1 :: rs.1, rs.2)

end Ptk.C02
