/-
  C04 (part 2) — model of `prompt_toolkit.key_binding.key_bindings`
  (src/prompt_toolkit/key_binding/key_bindings.py) and of `cache.SimpleCache`:
  `KeyBindings` (binding list, version counter, the two lookup caches, `add`, `remove`,
  `get_bindings_for_keys`, `get_bindings_starting_with_keys`) and the four wrappers
  `ConditionalKeyBindings`, `_MergedKeyBindings`, `DynamicKeyBindings`,
  `GlobalOnlyKeyBindings` with their lazily resynchronised `_bindings2` copies.

  All key-binding containers live in one object table `W.regs`; a wrapper refers to its
  children by index (children are created before their parents, so child index < own index).

  A `Binding` carries `record_in_macro` (`rim`) and an identity `bid` (allocation counter
  `W.nextB`): `add` and the copies made by `ConditionalKeyBindings._update_cache` are new objects,
  merged / global-only / dynamic wrappers hand on the same objects.  `ropErr` says which exception
  a failing `add` / `remove` raises.
-/
import Ptk.Model.C04F
import Ptk.Gen.C04
namespace Ptk.C04

abbrev Key := Nat
/-- `Keys.Any` -/
def Key.any : Key := 0
/-- `Keys.CPRResponse` -/
def Key.cpr : Key := 1

structure Binding where
  keys : List Key
  hid : Nat            -- identity of the handler function
  filter : F
  eager : F
  isGlobal : F
  rim : F := .always   -- `record_in_macro`
  bid : Nat := 0       -- identity of the `Binding` object (`handler == self._previous_handler`
                       -- in `_call_handler` compares Binding objects, i.e. by identity)
deriving Repr, Inhabited

/-- the `for i, j in zip(b.keys, keys)` loop: a mismatch is `i != j and i != Keys.Any` -/
def zipMatch : List Key → List Key → Bool
  | p :: ps, k :: ks => (p == k || p == Key.any) && zipMatch ps ks
  | _, _ => true

/-- `any_count` of a fully matching binding -/
def anyCount (pat : List Key) : Nat := (pat.filter (· == Key.any)).length

/-- insertion step of the stable sort by `-any_count` -/
def insDesc (b : Binding) : List Binding → List Binding
  | [] => [b]
  | c :: cs => if anyCount c.keys ≤ anyCount b.keys then b :: c :: cs else c :: insDesc b cs

/-- `sorted(result, key=lambda item: -item[0])` (Python's sort is stable) -/
def sortDesc (l : List Binding) : List Binding := l.foldr insDesc []

/-- the uncached body `get()` of `KeyBindings.get_bindings_for_keys` -/
def matchFor (bs : List Binding) (keys : List Key) : List Binding :=
  sortDesc (bs.filter fun b => keys.length == b.keys.length && zipMatch b.keys keys)

/-- the uncached body `get()` of `KeyBindings.get_bindings_starting_with_keys` -/
def matchStarting (bs : List Binding) (keys : List Key) : List Binding :=
  bs.filter fun b => decide (keys.length < b.keys.length) && zipMatch b.keys keys

/-! ### `SimpleCache` -/

structure Cache where
  data : List (List Key × List Binding) := []    -- `_data` (dict)
  keys : List (List Key) := []                   -- `_keys` (deque)
deriving Repr, Inhabited

def Cache.find (c : Cache) (k : List Key) : Option (List Binding) :=
  (c.data.find? (fun e => e.1 == k)).map (·.2)

/-- `SimpleCache.get(key, getter_func)` -/
def Cache.get (maxsize : Nat) (c : Cache) (k : List Key) (getter : Unit → List Binding) :
    Cache × List Binding :=
  match c.find k with
  | some r => (c, r)
  | none =>
    let v := getter ()
    let data := (k, v) :: c.data
    let keys := c.keys ++ [k]
    if data.length > maxsize then
      match keys with
      | k0 :: rest => ({ data := data.filter (fun e => !(e.1 == k0)), keys := rest }, v)
      | [] => ({ data := data, keys := keys }, v)
    else ({ data := data, keys := keys }, v)

/-! ### `KeyBindings` -/

structure KB where
  bs : List Binding := []
  ver : Nat := 0
  cFor : Cache := {}
  cStart : Cache := {}
deriving Repr, Inhabited

/-- `_clear_cache` -/
def KB.clearCache (k : KB) : KB := { k with ver := k.ver + 1, cFor := {}, cStart := {} }

/-- `KeyBindings.add(*keys, filter, eager, is_global, record_in_macro)(func)` with a plain function
    `func`; `bid` is the identity of the new `Binding` object -/
def KB.add (k : KB) (keys : List Key) (hid : Nat) (filter eager isGlobal : Raw)
    (rim : Raw := .b true) (bid : Nat := 0) : KB :=
  if filter.isNever then k
  else
    KB.clearCache { k with bs := k.bs ++ [{ keys := keys, hid := hid, filter := filter.toF,
                                            eager := eager.toF, isGlobal := isGlobal.toF,
                                            rim := rim.toF, bid := bid }] }

/-- `KeyBindings.add(...)(func)` where `func` is a `Binding` object (made by `key_binding(...)`):
    `filter = func.filter & to_filter(filter)`, `eager = to_filter(eager) | func.eager`,
    `is_global = to_filter(is_global) | func.is_global` (evaluated in this order),
    `record_in_macro = func.record_in_macro`. -/
def KB.addBinding (h : Heap) (k : KB) (keys : List Key) (func : Binding)
    (filter eager isGlobal : Raw) (bid : Nat := 0) : Heap × KB :=
  if filter.isNever then (h, k)
  else
    let (h1, f) := fAnd h func.filter filter.toF
    let (h2, e) := fOr h1 eager.toF func.eager
    let (h3, g) := fOr h2 isGlobal.toF func.isGlobal
    (h3, KB.clearCache { k with bs := k.bs ++ [{ keys := keys, hid := func.hid, filter := f,
                                                 eager := e, isGlobal := g, rim := func.rim,
                                                 bid := bid }] })

/-- `for b in self.bindings: if p(b): self.bindings.remove(b); found = True` — the list is
    mutated while it is iterated, so the element after each removed one is skipped. -/
def removeLoop (p : Binding → Bool) : List Binding → List Binding × Bool
  | [] => ([], false)
  | b :: rest =>
    if p b then
      match rest with
      | [] => ([], true)
      | c :: rest' => (c :: (removeLoop p rest').1, true)
    else
      let r := removeLoop p rest
      (b :: r.1, r.2)

/-- `KeyBindings.remove(...)`; `none` = the exception raised when nothing was found -/
def KB.remove (k : KB) (p : Binding → Bool) : Option KB :=
  let r := removeLoop p k.bs
  if r.2 then some (KB.clearCache { k with bs := r.1 }) else none

def KB.getFor (k : KB) (keys : List Key) : KB × List Binding :=
  let r := k.cFor.get Gen.C04.maxFor keys (fun _ => matchFor k.bs keys)
  ({ k with cFor := r.1 }, r.2)

def KB.getStarting (k : KB) (keys : List Key) : KB × List Binding :=
  let r := k.cStart.get Gen.C04.maxStart keys (fun _ => matchStarting k.bs keys)
  ({ k with cStart := r.1 }, r.2)

/-! ### versions -/

/-- `_version` values: an int (KeyBindings), a tuple of versions (merged), `(id(kb), version)`
    (dynamic; `id` is the table index of the target, the own index for the private dummy) -/
inductive Ver where
  | num (n : Nat)
  | tup (l : List Ver)
  | dyn (t : Nat) (v : Ver)
deriving Repr, Inhabited

mutual
def Ver.beq : Ver → Ver → Bool
  | .num a, .num b => a == b
  | .tup a, .tup b => Ver.beqL a b
  | .dyn t v, .dyn t' v' => t == t' && Ver.beq v v'
  | _, _ => false
def Ver.beqL : List Ver → List Ver → Bool
  | [], [] => true
  | a :: as, b :: bs => Ver.beq a b && Ver.beqL as bs
  | _, _ => false
end

/-! ### the object table -/

inductive Reg where
  | kb (k : KB)
  /-- `ConditionalKeyBindings(key_bindings, filter)` with `_bindings2`, `_last_version` -/
  | cond (child : Nat) (filter : F) (b2 : KB) (last : Ver)
  /-- `_MergedKeyBindings(registries)` -/
  | merged (children : List Nat) (b2 : KB) (last : Ver)
  /-- `DynamicKeyBindings(get_key_bindings)`: the callable returns the object `target`
      (or None); `dummy` is the private empty `KeyBindings` -/
  | dyn (target : Option Nat) (dummy : KB)
  /-- `GlobalOnlyKeyBindings(key_bindings)` -/
  | glob (child : Nat) (b2 : KB) (last : Ver)
deriving Repr, Inhabited

structure W where
  heap : Heap := {}
  env : List Bool := []       -- values of the switchable conditions
  regs : List Reg := []
  nextB : Nat := 1            -- allocation counter for `Binding` objects
deriving Repr, Inhabited

def envFn (env : List Bool) : Nat → Bool := fun v => env.getD v false

/-- `Binding(keys=b.keys, handler=b.handler, filter=self.filter & b.filter, eager=b.eager, …)` for
    every binding of the wrapped object -/
def condCopy (h : Heap) (flt : F) : List Binding → Heap × List Binding
  | [] => (h, [])
  | b :: bs =>
    let r1 := fAnd h flt b.filter
    let r2 := condCopy r1.1 flt bs
    (r2.1, { b with filter := r1.2 } :: r2.2)

/-- the copies made by `ConditionalKeyBindings._update_cache` are new `Binding` objects -/
def renumber (nb : Nat) : List Binding → List Binding
  | [] => []
  | b :: bs => { b with bid := nb } :: renumber (nb + 1) bs

/-- the five operations every `KeyBindingsBase` offers, as state transformers on the table -/
structure Fns where
  update : W → Nat → W                              -- `_update_cache`
  version : W → Nat → W × Ver                       -- `_version`
  bindings : W → Nat → W × List Binding             -- `.bindings`
  getFor : W → Nat → List Key → W × List Binding    -- `get_bindings_for_keys`
  getStart : W → Nat → List Key → W × List Binding  -- `get_bindings_starting_with_keys`

def Fns.bottom : Fns where
  update := fun w _ => w
  version := fun w _ => (w, .tup [])
  bindings := fun w _ => (w, [])
  getFor := fun w _ _ => (w, [])
  getStart := fun w _ _ => (w, [])

def setReg (w : W) (i : Nat) (r : Reg) : W := { w with regs := w.regs.set i r }

/-- `tuple(r._version for r in self.registries)` -/
def versionsOf (p : Fns) : W → List Nat → W × List Ver
  | w, [] => (w, [])
  | w, c :: cs =>
    let r1 := p.version w c
    let r2 := versionsOf p r1.1 cs
    (r2.1, r1.2 :: r2.2)

/-- `for reg in self.registries: bindings2.bindings.extend(reg.bindings)` -/
def bindingsOfAll (p : Fns) : W → List Nat → W × List Binding
  | w, [] => (w, [])
  | w, c :: cs =>
    let r1 := p.bindings w c
    let r2 := bindingsOfAll p r1.1 cs
    (r2.1, r1.2 ++ r2.2)

/-- `_update_cache` of object `i`, the children being served by `p` -/
def updateWith (p : Fns) (w : W) (i : Nat) : W :=
  match w.regs[i]? with
  | some (.cond c flt _ last) =>
    let r1 := p.version w c                      -- expected_version = self.key_bindings._version
    if !(last.beq r1.2) then
      let r2 := p.bindings r1.1 c                -- self.key_bindings.bindings
      let r3 := condCopy r2.1.heap flt r2.2
      let w3 := setReg { r2.1 with heap := r3.1 } i
        (.cond c flt { bs := renumber r2.1.nextB r3.2 } r1.2)
      { w3 with nextB := r2.1.nextB + r3.2.length }
    else r1.1
  | some (.merged cs _ last) =>
    let r1 := versionsOf p w cs
    if !(last.beq (.tup r1.2)) then
      let r2 := bindingsOfAll p r1.1 cs
      setReg r2.1 i (.merged cs { bs := r2.2 } (.tup r1.2))
    else r1.1
  | some (.glob c _ last) =>
    let r1 := p.version w c
    if !(last.beq r1.2) then
      let r2 := p.bindings r1.1 c
      let ρ := envFn r2.1.env
      setReg r2.1 i (.glob c { bs := r2.2.filter fun b => b.isGlobal.eval ρ } r1.2)
    else r1.1
  | some (.dyn (some t) _) => (p.version w t).1  -- version = id(kb), kb._version
  | _ => w

/-- lookup in the private `_bindings2` copy of a cond / merged / global-only wrapper -/
def lookupOwn (w : W) (i : Nat) (keys : List Key) (starting : Bool) : W × List Binding :=
  let look := fun (k : KB) => if starting then k.getStarting keys else k.getFor keys
  match w.regs[i]? with
  | some (.kb k) => let r := look k; (setReg w i (.kb r.1), r.2)
  | some (.cond c flt b2 last) => let r := look b2; (setReg w i (.cond c flt r.1 last), r.2)
  | some (.merged cs b2 last) => let r := look b2; (setReg w i (.merged cs r.1 last), r.2)
  | some (.glob c b2 last) => let r := look b2; (setReg w i (.glob c r.1 last), r.2)
  | some (.dyn t d) => let r := look d; (setReg w i (.dyn t r.1), r.2)
  | none => (w, [])

/-- one more level of nesting -/
def Fns.step (p : Fns) : Fns where
  update := updateWith p
  version := fun w i =>
    match w.regs[i]? with
    | some (.kb k) => (w, .num k.ver)
    | some (.dyn (some t) _) => let r := p.version w t; (r.1, .dyn t r.2)
    | some (.dyn none d) => (w, .dyn i (.num d.ver))
    | some _ =>
      let w' := updateWith p w i
      match w'.regs[i]? with
      | some (.cond _ _ _ last) => (w', last)
      | some (.merged _ _ last) => (w', last)
      | some (.glob _ _ last) => (w', last)
      | _ => (w', .tup [])
    | none => (w, .tup [])
  bindings := fun w i =>
    match w.regs[i]? with
    | some (.kb k) => (w, k.bs)
    | some (.dyn (some t) _) => p.bindings (p.version w t).1 t
    | some (.dyn none d) => (w, d.bs)
    | some _ =>
      let w' := updateWith p w i
      match w'.regs[i]? with
      | some (.cond _ _ b2 _) => (w', b2.bs)
      | some (.merged _ b2 _) => (w', b2.bs)
      | some (.glob _ b2 _) => (w', b2.bs)
      | _ => (w', [])
    | none => (w, [])
  getFor := fun w i keys =>
    match w.regs[i]? with
    | some (.dyn (some t) _) => p.getFor (p.version w t).1 t keys
    | some _ => lookupOwn (updateWith p w i) i keys false
    | none => (w, [])
  getStart := fun w i keys =>
    match w.regs[i]? with
    | some (.dyn (some t) _) => p.getStart (p.version w t).1 t keys
    | some _ => lookupOwn (updateWith p w i) i keys true
    | none => (w, [])

/-- operations for objects nested at most `n` deep -/
def fns : Nat → Fns
  | 0 => Fns.bottom
  | n + 1 => (fns n).step

/-- enough fuel for every well-formed table (child index < own index) -/
def W.fns (w : W) : Fns := Ptk.C04.fns (w.regs.length + 1)

/-! ### operations on the table -/

inductive ROp where
  | add (r : Nat) (keys : List Key) (hid : Nat) (filter eager isGlobal : Raw) (rim : Raw)
  | addB (r : Nat) (keys : List Key) (func : Binding) (filter eager isGlobal : Raw)
  | removeH (r : Nat) (hid : Nat)
  | removeK (r : Nat) (keys : List Key)
  | target (d : Nat) (t : Option Nat)
deriving Repr, Inhabited

def listBeq (a b : List Key) : Bool := a == b

/-- apply one registry operation; the flag is `false` when the real call raises
    (nothing found by `remove`) or the operation does not apply to that object -/
def applyROp (w : W) : ROp → W × Bool
  | .add r keys hid f e g m =>
    match w.regs[r]? with
    | some (.kb k) =>
      if keys.isEmpty then (w, false)
      else ({ setReg w r (.kb (k.add keys hid f e g m w.nextB)) with nextB := w.nextB + 1 }, true)
    | _ => (w, false)
  | .addB r keys func f e g =>
    match w.regs[r]? with
    | some (.kb k) =>
      if keys.isEmpty then (w, false) else
      let x := k.addBinding w.heap keys func f e g w.nextB
      ({ setReg { w with heap := x.1 } r (.kb x.2) with nextB := w.nextB + 1 }, true)
    | _ => (w, false)
  | .removeH r hid =>
    match w.regs[r]? with
    | some (.kb k) =>
      match k.remove (fun b => b.hid == hid) with
      | some k' => (setReg w r (.kb k'), true)
      | none => (w, false)
    | _ => (w, false)
  | .removeK r keys =>
    match w.regs[r]? with
    | some (.kb k) =>
      match k.remove (fun b => listBeq b.keys keys) with
      | some k' => (setReg w r (.kb k'), true)
      | none => (w, false)
    | _ => (w, false)
  | .target d t =>
    match w.regs[d]? with
    | some (.dyn _ dummy) =>
      match t with
      | some t' => if t' < d then (setReg w d (.dyn t dummy), true) else (w, false)
      | none => (setReg w d (.dyn none dummy), true)
    | _ => (w, false)

/-- which exception the real call raises when `applyROp` reports failure on a registry
    (`KeyBindings.remove`: nothing found).  Removing by handler raises the documented `ValueError`;
    removing by keys reaches `raise ValueError(f"Binding not found: {function!r}")` with the
    local `function` unbound, so an `UnboundLocalError` comes out instead — unless the tree has
    proposed_fixes/C04-remove-unknown-keys.diff applied (`Gen.C04.rmkValueError`, probed from the
    running code on every run). -/
inductive RopErr where
  | valueError
  | unboundLocal
  | assertion      -- `assert keys` in `add`
deriving Repr, DecidableEq

def ropErr (w : W) (op : ROp) : Option RopErr :=
  if (applyROp w op).2 then none
  else match op with
    | .removeH r _ => match w.regs[r]? with | some (.kb _) => some .valueError | _ => none
    | .removeK r ks =>
      -- (`remove()` without arguments is an IndexError at `args[0]`: outside the API, not modelled)
      if ks.isEmpty then none else
      match w.regs[r]? with
      | some (.kb _) => some (if Gen.C04.rmkValueError then .valueError else .unboundLocal)
      | _ => none
    | .add r _ _ _ _ _ _ => match w.regs[r]? with | some (.kb _) => some .assertion | _ => none
    | .addB r _ _ _ _ _ => match w.regs[r]? with | some (.kb _) => some .assertion | _ => none
    | .target _ _ => none

/-- constructors: the new object gets the next table index; children must already exist -/
inductive Mk where
  | kb
  | cond (child : Nat) (filter : Raw)
  | merged (children : List Nat)
  | dyn (target : Option Nat)
  | glob (child : Nat)
deriving Repr, Inhabited

def mkReg (w : W) : Mk → Option W
  | .kb => some { w with regs := w.regs ++ [.kb {}] }
  | .cond c f =>
    if c < w.regs.length then some { w with regs := w.regs ++ [.cond c f.toF {} (.tup [])] } else none
  | .merged cs =>
    if cs.all (· < w.regs.length) then some { w with regs := w.regs ++ [.merged cs {} (.tup [])] }
    else none
  | .dyn t =>
    match t with
    | some t' => if t' < w.regs.length then some { w with regs := w.regs ++ [.dyn t {}] } else none
    | none => some { w with regs := w.regs ++ [.dyn none {}] }
  | .glob c =>
    if c < w.regs.length then some { w with regs := w.regs ++ [.glob c {} (.tup [])] } else none

end Ptk.C04
