/-
  C17 — model of the accept boundary / type-ahead machinery.

  Code followed (as it is now):
    * key_binding/key_processor.py  `KeyProcessor.process_keys` (`not_empty`, `get_next`,
      the `app.is_done` gate, CPR responses still consumed after the result is set),
      `feed(first=True)`, `feed_multiple`, `empty_queue` (drops CPR responses), `reset`;
    * application/application.py `run_async`/`_run_async`: `reset()`,
      `feed_multiple(get_typeahead(input)); process_keys()`, `read_from_input`
      (guard `not _is_running and not waiting_for_cpr`, `input.read_keys()`,
      `feed_multiple`, `process_keys`), `await f`, on exit
      `store_typeahead(input, key_processor.empty_queue())`;
    * input/typeahead.py `_buffer[hash]` (`store_typeahead` extends, `get_typeahead`
      returns and resets);
    * key_binding/bindings/cpr.py (the CPR handler only reports to the renderer),
      key_binding/bindings/basic.py `c-j` (feeds `ControlM` to the FRONT of the queue),
      shortcuts/prompt.py `enter` (`app.exit(result=text)`), `c-c`
      (`app.exit(exception=KeyboardInterrupt)`).

  Abstraction: a key press is `accept | abort | cpr | cj | other k`; the OS pipe plus
  the VT100 parser are one FIFO `pipe` of key presses (bytes → keys is C03's model);
  *when* something is written, *how much* one read delivers, *when* the application
  notices that its future is done are all events of a nondeterministic schedule.
  What the bindings do with the `other` keys is a parameter of the theorems (an
  arbitrary line editor); `Ptk.C17.Ed` below is the concrete single-line emacs editor
  used by the correspondence driver.
-/
import Ptk.Py
namespace Ptk.C17
open Ptk.Py

inductive Key where
  | accept            -- Enter (ControlM): accept handler → `app.exit(result=buffer.text)`
  | abort             -- Control-C: `app.exit(exception=KeyboardInterrupt)`
  | cpr               -- Keys.CPRResponse (terminal cursor position report)
  | cj                -- Control-J: handler feeds `KeyPress(ControlM)` with `first=True`
  | other (k : Nat)   -- every other key press (text, editing keys, …)
deriving DecidableEq, Repr, Inhabited

def Key.isCpr : Key → Bool
  | .cpr => true
  | _ => false

/-- keys whose handler sets the application's result -/
def Key.isFin : Key → Bool
  | .accept => true
  | .abort => true
  | _ => false

/-- `[k for k in key_presses if k.key != Keys.CPRResponse]` (`empty_queue`) -/
def dropCpr : List Key → List Key
  | [] => []
  | k :: q => if k.isCpr then dropCpr q else k :: dropCpr q

def countCpr : List Key → Nat
  | [] => 0
  | k :: q => if k.isCpr then countCpr q + 1 else countCpr q

/-- `any(k for k in input_queue if k.key == Keys.CPRResponse)` -/
def hasCpr : List Key → Bool
  | [] => false
  | k :: q => k.isCpr || hasCpr q

/-- `cpr = [k for k in q if k.key == CPRResponse][0]; q.remove(cpr)`:
    the queue without its first CPR response. -/
def removeFirstCpr : List Key → List Key
  | [] => []
  | k :: q => if k.isCpr then q else k :: removeFirstCpr q

/-- The part of the application state that `process_keys` touches. -/
structure KP where
  queue : List Key            -- KeyProcessor.input_queue
  done : Option Key           -- `app.is_done` (future has a result) and the key that set it
  applied : List Key          -- key presses handed to the editing bindings of this application
  cprs : Nat                  -- CPR responses reported to the renderer
  waiting : Nat               -- len(renderer._waiting_for_cpr_futures): CPR requests without answer
deriving DecidableEq, Repr

/-- `not_empty()` inside `process_keys` -/
def notEmpty (p : KP) : Bool :=
  if p.done.isSome then hasCpr p.queue else !p.queue.isEmpty

/-- `_process_coroutine.send(key)` followed by the binding's handler. -/
def handle (p : KP) (k : Key) : KP :=
  match k with
  | .cpr => { p with cprs := p.cprs + 1, waiting := p.waiting - 1 }   -- report_absolute_cursor_row: popleft
  | .cj => { p with queue := .accept :: p.queue }          -- feed(ControlM, first=True)
  | .other n => { p with applied := p.applied ++ [.other n] }
  | .accept => if p.done.isSome then p else { p with done := some .accept }
  | .abort => if p.done.isSome then p else { p with done := some .abort }

/-- One iteration of the `while not_empty(): key = get_next(); …send(key)` loop;
    `none` = the loop condition is false. -/
def procStep (p : KP) : Option KP :=
  if notEmpty p then
    if p.done.isSome then
      -- get_next: only CPR responses, everything else is type-ahead
      some (handle { p with queue := removeFirstCpr p.queue } .cpr)
    else
      match p.queue with
      | [] => none
      | k :: q => some (handle { p with queue := q } k)      -- popleft
  else none

def iter : Nat → KP → KP
  | 0, p => p
  | n + 1, p =>
    match procStep p with
    | none => p
    | some p' => iter n p'

/-- `KeyProcessor.process_keys()`: the loop run to completion.  The fuel is sufficient
    (`Props.C17.processKeys_stable`: the loop condition is false afterwards). -/
def processKeys (p : KP) : KP := iter (2 * p.queue.length + 2) p

/-- How a finished application ended: the keys applied to it and the key that ended it. -/
abbrev Res := List Key × Key

/-- One input object, the type-ahead store entry for it and the (at most one)
    application running on it. -/
structure St where
  pipe : List Key             -- written to the pipe, not yet returned by `input.read_keys()`
  typeahead : List Key        -- typeahead._buffer[input.typeahead_hash()]
  kp : KP
  running : Bool              -- Application._is_running
  exiting : Bool              -- `await f` has returned, the application waits for CPR responses
                              -- (`renderer.wait_for_cpr_responses()`), still attached to the input
  responds : Bool             -- output.responds_to_cpr (False for DummyOutput)
  results : List Res          -- finished applications, oldest first
deriving DecidableEq, Repr

def idleKP : KP := ⟨[], none, [], 0, 0⟩

def St.init (responds : Bool) : St :=
  { pipe := [], typeahead := [], kp := idleKP, running := false, exiting := false,
    responds := responds, results := [] }

inductive Ev where
  | write (c : List Key)      -- somebody (other thread, terminal) writes key presses
  | start                     -- `run_async` up to `await f`
  | read (n : Nat)            -- the loop calls `read_from_input`; the read delivers ≤ n keys
  | finish                    -- `await f` returns; exit path up to `wait_for_cpr_responses` /
                              -- (when nothing is outstanding) up to `store_typeahead`
  | endWait                   -- the CPR wait ends (all answers arrived, or its timeout erased the
                              -- requests); exit path up to `store_typeahead`
deriving DecidableEq, Repr

/-- the end of the exit path: `store_typeahead(input, key_processor.empty_queue())`, the result is
    handed to the caller -/
def leave (s : St) (f : Key) : St :=
  { s with
    running := false
    exiting := false
    results := s.results ++ [(s.kp.applied, f)]
    typeahead := s.typeahead ++ dropCpr s.kp.queue
    kp := idleKP }

def step (s : St) : Ev → St
  | .write c => { s with pipe := s.pipe ++ c }
  | .start =>
    if s.running || s.exiting then s        -- assert not self._is_running / prompt() has not returned
    else
      -- reset(): key_processor.reset() creates a fresh input_queue; new future
      -- feed_multiple(get_typeahead(input)); process_keys()
      let kp0 := processKeys ⟨s.typeahead, none, [], 0, 0⟩
      -- _request_absolute_cursor_position(): `if not input_queue and not is_done` a CPR request is
      -- sent when the output answers such requests
      let ask := s.responds && kp0.queue.isEmpty && kp0.done.isNone
      { s with
        typeahead := []
        running := true
        kp := { kp0 with waiting := if ask then 1 else 0 } }
  | .read n =>
    -- `if not self._is_running and not self.renderer.waiting_for_cpr: return`
    if !s.running && !(s.exiting && 0 < s.kp.waiting) then s
    else
      { s with
        pipe := s.pipe.drop n
        kp := processKeys { s.kp with queue := s.kp.queue ++ s.pipe.take n } }
  | .finish =>
    match s.running, s.kp.done with
    | true, some f =>
      -- self._is_running = False; if self.output.responds_to_cpr: await wait_for_cpr_responses()
      if s.responds && 0 < s.kp.waiting then { s with running := false, exiting := true }
      else leave s f
    | _, _ => s                -- `await f` has not returned
  | .endWait =>
    match s.exiting, s.kp.done with
    | true, some f => leave s f
    | _, _ => s

def run (s : St) : List Ev → St
  | [] => s
  | e :: es => run (step s e) es

/-- everything written during a schedule -/
def written : List Ev → List Key
  | [] => []
  | .write c :: es => c ++ written es
  | _ :: es => written es

/-! ### key presses that carry text

  `KeyPress(Keys.BracketedPaste, data)` is ONE key press whose `data` is the pasted text.  For the
  accept-boundary machinery it is an ordinary key (`Key.other`); its data is kept in the key code by
  an injective numbering of texts (`Props.C17Paste.decText_encText`), so that no layer has to
  know about it: `pasteKey d = other (pasteBase + encText d)`. -/
def encBase : Nat := 0x110001

/-- injective numbering of texts: digits `c.toNat + 1` in base `0x110001`, first character lowest -/
def encText : Text → Nat
  | [] => 0
  | c :: t => (c.toNat + 1) + encBase * encText t

def decTextFuel : Nat → Nat → Text
  | 0, _ => []
  | f + 1, n => if n = 0 then [] else Char.ofNat (n % encBase - 1) :: decTextFuel f (n / encBase)

def decText (n : Nat) : Text := decTextFuel n n

/-- key codes from here on are pastes -/
def pasteBase : Nat := 0x200000

/-- `KeyPress(Keys.BracketedPaste, d)` -/
def pasteKey (d : Text) : Key := .other (pasteBase + encText d)

/-- `data.replace("\r\n", "\n").replace("\r", "\n")` (the paste handler of basic.py) -/
def crlfGo : Bool → Text → Text
  | _, [] => []
  | prevCR, c :: t =>
    if c = '\r' then '\n' :: crlfGo true t          -- (`\r` alone and the `\r` of `\r\n`)
    else if c = '\n' && prevCR then crlfGo false t  -- the `\n` of `\r\n`
    else c :: crlfGo false t

def crlf (t : Text) : Text := crlfGo false t

/-! ### the concrete line editor used by the correspondence (default emacs bindings of a
    single-line `PromptSession`; the text contains a newline only after a paste that contained one,
    and the scripts then use no line-oriented editing key) -/
namespace Ed

structure E where
  text : Text
  cur : Nat
deriving DecidableEq, Repr

def base : Nat := 0x110000
/-- key codes of `Key.other`: `< 0x110000` = the character itself (self-insert) -/
def kBackspace := base + 0     -- c-h / \x7f  backward-delete-char
def kDelete := base + 1        -- delete      delete-char
def kLeft := base + 2          -- left        backward-char
def kRight := base + 3         -- right       forward-char
def kHome := base + 4          -- home        beginning-of-line
def kEnd := base + 5           -- end         end-of-line
def kCtrlK := base + 6         -- c-k         kill-line
def kCtrlU := base + 7         -- c-u         unix-line-discard
def kCtrlA := base + 8         -- c-a         beginning-of-line
def kCtrlE := base + 9         -- c-e         end-of-line
def kCtrlB := base + 10        -- c-b         backward-char
def kCtrlF := base + 11        -- c-f         forward-char
def kCtrlD := base + 15        -- c-d         delete-char (on a non-empty buffer; 12..14: escape, c-x, c-@)

def key (e : E) (k : Nat) : E :=
  if k < base then
    { text := e.text.take e.cur ++ [Char.ofNat k] ++ e.text.drop e.cur, cur := e.cur + 1 }
  else if k = kBackspace then
    if 0 < e.cur then { text := e.text.take (e.cur - 1) ++ e.text.drop e.cur, cur := e.cur - 1 }
    else e
  else if k = kDelete ∨ k = kCtrlD then
    { e with text := e.text.take e.cur ++ e.text.drop (e.cur + 1) }
  else if k = kLeft ∨ k = kCtrlB then { e with cur := e.cur - 1 }
  else if k = kRight ∨ k = kCtrlF then { e with cur := min (e.cur + 1) e.text.length }
  else if k = kHome ∨ k = kCtrlA then { e with cur := 0 }
  else if k = kEnd ∨ k = kCtrlE then { e with cur := e.text.length }
  else if k = kCtrlK then { e with text := e.text.take e.cur }
  else if k = kCtrlU then { text := e.text.drop e.cur, cur := 0 }
  else if pasteBase ≤ k then
    -- basic.py `_paste`: `event.current_buffer.insert_text(data)` with `\n` line endings
    let d := crlf (decText (k - pasteBase))
    { text := e.text.take e.cur ++ d ++ e.text.drop e.cur, cur := e.cur + d.length }
  else e

def keyK (e : E) : Key → E
  | .other k => key e k
  | _ => e

/-- the editor state after the given applied keys, from the fresh buffer of a new prompt -/
def render (ks : List Key) : E := ks.foldl keyK ⟨[], 0⟩

end Ed
end Ptk.C17
