/-
  C05 — the rest of the `Buffer` API the key handlers call (src/prompt_toolkit/buffer.py), on top of
  the state-writing primitives of `Ptk.Model.C05`:

    yank_nth_arg / yank_last_arg (with `YankNthArgState` and the `_QUOTED_WORDS_RE` split),
    auto_up / auto_down, cursor_up / cursor_down, copy_selection / cut_selection,
    paste_clipboard_data, transform_lines / transform_current_line / transform_region,
    join_next_line / join_selected_lines, swap_characters_before_cursor, newline /
    insert_line_above / insert_line_below, `_set_completions`, go_to_completion (with
    `CompletionState.go_to_index` / `new_text_and_position`), complete_next / complete_previous,
    cancel_completion, apply_completion, the assignment of the text that comes back from
    open_in_editor.

  Integer arguments are `Int` (negative, zero and oversized counts and indices are in the domain);
  Python indexing / slicing with wrap-around is `Py.index?` / `Py.slice`; `assert` and `IndexError`
  are outcomes.  Results of `Document` queries that live in document.py (cursor up / down position,
  `cut_selection`, `paste_clipboard_data`, the margin of the current line) and of user callbacks are
  arguments.  Character classes that come from the Python runtime are parameters (`Cls`).

  Core Lean only.
-/
import Ptk.Model.C05
namespace Ptk.C05
open Ptk.Py

/-- runtime character classes: regex `\s`, `str.isspace`, the break characters of `str.splitlines` -/
structure Cls where
  reSpace : Char → Bool
  isSpace : Char → Bool
  isBreak : Char → Bool

/-! ### `_QUOTED_WORDS_RE = (\s+|".*?"|'.*?')` -/

/-- `.*?"` after an opening quote: offset of the first closing quote on the same line
    (`.` does not match a newline) -/
def closeQuote (q : Char) : Text → Option Nat
  | [] => none
  | c :: r => if c == q then some 0 else if c == '\n' then none else (closeQuote q r).map (· + 1)

/-- `_QUOTED_WORDS_RE.split(line)`: the pieces between the matches AND (capture group) the matches -/
def splitQuoted (cls : Cls) : Nat → Text → Text → List Text
  | 0, _, acc => [acc.reverse]
  | _ + 1, [], acc => [acc.reverse]
  | f + 1, c :: r, acc =>
    if cls.reSpace c then
      let run := (c :: r).takeWhile cls.reSpace
      acc.reverse :: run :: splitQuoted cls f ((c :: r).drop run.length) []
    else if c == '"' || c == '\'' then
      match closeQuote c r with
      | some j => acc.reverse :: (c :: r.take (j + 1)) :: splitQuoted cls f (r.drop (j + 1)) []
      | none => splitQuoted cls f r (c :: acc)
    else splitQuoted cls f r (c :: acc)

/-- `str.strip()` -/
def strip (p : Char → Bool) (t : Text) : Text := ((t.dropWhile p).reverse.dropWhile p).reverse

/-- `words = [w.strip() for w in _QUOTED_WORDS_RE.split(line)]; words = [w for w in words if w]` -/
def quotedWords (cls : Cls) (line : Text) : List Text :=
  ((splitQuoted cls (line.length + 1) line []).map (strip cls.isSpace)).filter (!·.isEmpty)

/-! ### Document properties computed from text and cursor -/

/-- `Document.cursor_position_row` -/
def row (b : Buf) : Nat := (b.before.filter (· == '\n')).length
/-- `Document.line_count` -/
def lineCount (b : Buf) : Nat := (b.text.filter (· == '\n')).length + 1
/-- `Document.on_last_line` -/
def onLastLine (b : Buf) : Bool := row b == lineCount b - 1

/-! ### yank-nth-arg -/

/-- the `YankNthArgState` the call works with: the one the buffer holds or a fresh one, `n` overwritten
    when an argument was given -/
def yankState (b : Buf) (n : Option Int) (last : Bool) : YankSt :=
  let st0 : YankSt := match b.yank with
    | none => ⟨0, if last then -1 else 1, []⟩
    | some s => s
  match n with
  | some k => { st0 with n := k }
  | none => st0

/-- `new_pos = state.history_position - 1; if -new_pos > len(history_strings): new_pos = -1` -/
def yankNewPos (histLen : Nat) (st : YankSt) : Int :=
  if -(st.pos - 1) > (histLen : Int) then -1 else st.pos - 1

/-- the rest of `yank_nth_arg` once the state `st` is fixed -/
def yankCore (cls : Cls) (b0 : Buf) (st : YankSt) : Buf × Outcome :=
  match index? b0.hist (yankNewPos b0.hist.length st) with
  | none => (b0, .indexError)                          -- `history_strings[new_pos]`
  | some line =>
    -- `try: word = words[state.n] except IndexError: word = ""`
    let word := (index? (quotedWords cls line) st.n).getD []
    andThen (if st.prev.isEmpty then (b0, .ok) else deleteBefore b0 st.prev.length) fun b1 =>
    andThen (insertText b1 word false true) fun b2 =>
    ({ b2 with yank := some ⟨yankNewPos b0.hist.length st, st.n, word⟩ }, .ok)

/-- `Buffer.yank_nth_arg(n, _yank_last_arg)` -/
def yankNthArg (cls : Cls) (b : Buf) (n : Option Int) (last : Bool) : Buf × Outcome :=
  if b.hist.isEmpty then (b, .ok)
  else
    -- (`state.n = n` mutates the object the buffer holds, if it holds one)
    yankCore cls (if b.yank.isSome then { b with yank := some (yankState b n last) } else b) (yankState b n last)

/-! ### completions -/

/-- `CompletionState.go_to_index(index)`: `none` = the `assert` fails -/
def goToIndex (cs : CompSt) (index : Option Int) : Option CompSt :=
  if cs.comps.isEmpty then some cs
  else
    match index with
    | none => some { cs with index := none }
    | some i => if 0 ≤ i ∧ i < (cs.comps.length : Int) then some { cs with index := some i.toNat } else none

/-- `CompletionState.new_text_and_position()`: `none` = IndexError of `completions[complete_index]` -/
def newTextAndPosition (cs : CompSt) : Option (Text × Nat) :=
  match cs.index with
  | none => some (cs.origText, cs.origCur)
  | some i =>
    match cs.comps[i]? with
    | none => none
    | some c =>
      let obc := cs.origText.take cs.origCur
      let oac := cs.origText.drop cs.origCur
      let before := if c.start == 0 then obc else sliceTo obc c.start
      some (before ++ c.text ++ oac, before.length + c.text.length)

/-- `Buffer._set_completions(completions)` -/
def setCompletions (b : Buf) (comps : List Completion) : Buf :=
  { b with comp := some ⟨b.text, b.cur, comps, none⟩ }

/-- `Buffer.go_to_completion(index)` -/
def goToCompletion (b : Buf) (index : Option Int) : Buf × Outcome :=
  match b.comp with
  | none => (b, .assertion)                            -- `assert self.complete_state`
  | some cs =>
    match goToIndex cs index with
    | none => (b, .assertion)
    | some cs1 =>
      let b0 := { b with comp := some cs1 }            -- (the state object is updated in place)
      match newTextAndPosition cs1 with
      | none => (b0, .indexError)
      | some (nt, nc) =>
        match setDocument b0 nt nc false with
        | (b1, .ok) => ({ b1 with comp := some cs1 }, .ok)
        | r => r

/-- `Buffer.complete_next(count, disable_wrap_around)` -/
def completeNext (b : Buf) (count : Int) (noWrap : Bool) : Buf × Outcome :=
  match b.comp with
  | none => (b, .ok)
  | some cs =>
    let n : Int := cs.comps.length
    match cs.index with
    | none => goToCompletion b (some 0)
    | some i =>
      if (i : Int) == n - 1 then (if noWrap then (b, .ok) else goToCompletion b none)
      else goToCompletion b (some (min (n - 1) ((i : Int) + count)))

/-- `Buffer.complete_previous(count, disable_wrap_around)` -/
def completePrevious (b : Buf) (count : Int) (noWrap : Bool) : Buf × Outcome :=
  match b.comp with
  | none => (b, .ok)
  | some cs =>
    match cs.index with
    | some 0 => if noWrap then (b, .ok) else goToCompletion b none
    | none => goToCompletion b (some ((cs.comps.length : Int) - 1))
    | some i => goToCompletion b (some (max 0 ((i : Int) - count)))

/-- `Buffer.cancel_completion()` -/
def cancelCompletion (b : Buf) : Buf × Outcome :=
  if b.comp.isSome then andThen (goToCompletion b none) fun b1 => ({ b1 with comp := none }, .ok)
  else (b, .ok)

/-- `Buffer.apply_completion(Completion(text, start_position))` -/
def applyCompletion (b : Buf) (text : Text) (start : Int) : Buf × Outcome :=
  andThen (if b.comp.isSome then goToCompletion b none else (b, .ok)) fun b1 =>
  let b2 := { b1 with comp := none }
  -- `delete_before_cursor(-start_position)`: `assert count >= 0`
  if -start < 0 then (b2, .assertion)
  else andThen (deleteBefore b2 (-start).toNat) fun b3 => insertText b3 text false true

/-! ### vertical movement -/

/-- `Buffer.cursor_up(count)` / `cursor_down(count)`: `Document.get_cursor_up_position` asserts
    `count >= 1`; `d` is the relative position it returns -/
def cursorUpDown (b : Buf) (count d : Int) : Buf × Outcome :=
  if count < 1 then (b, .assertion) else (moveCursor b d, .ok)

/-- `get_start_of_line_position()` added to the cursor -/
def toLineStart (b : Buf) : Buf := moveCursor b (-((lineBefore b).length : Int))

/-- `auto_up` for `count >= 1` -/
def autoUpPos (b : Buf) (count : Int) (goStart : Bool) (d : Int) : Buf × Outcome :=
  if b.comp.isSome then completePrevious b count false
  else if row b > 0 then cursorUpDown b count d
  else if b.sel.isNone then
    andThen (historyBackward b count) fun b1 => (if goStart then toLineStart b1 else b1, .ok)
  else (b, .ok)

/-- `auto_down` for `count >= 1` -/
def autoDownPos (b : Buf) (count : Int) (goStart : Bool) (d : Int) : Buf × Outcome :=
  if b.comp.isSome then completeNext b count false
  else if row b < lineCount b - 1 then cursorUpDown b count d
  else if b.sel.isNone then
    andThen (historyForward b count) fun b1 => (if goStart then toLineStart b1 else b1, .ok)
  else (b, .ok)

/-- `Buffer.auto_up(count, go_to_start_of_line_if_history_changes)` (after fix 4885d55: a negative
    count moves the other way, zero does nothing) -/
def autoUp (b : Buf) (count : Int) (goStart : Bool) (d : Int) : Buf × Outcome :=
  if count ≤ 0 then (if count < 0 then autoDownPos b (-count) goStart d else (b, .ok))
  else autoUpPos b count goStart d

/-- `Buffer.auto_down(count, go_to_start_of_line_if_history_changes)` -/
def autoDown (b : Buf) (count : Int) (goStart : Bool) (d : Int) : Buf × Outcome :=
  if count ≤ 0 then (if count < 0 then autoUpPos b (-count) goStart d else (b, .ok))
  else autoDownPos b count goStart d

/-! ### selection, clipboard -/

/-- `Buffer.copy_selection(_cut)` with `(t, c)` = the new document of `Document.cut_selection()` -/
def copySelection (b : Buf) (cut : Bool) (t : Text) (c : Int) : Buf × Outcome :=
  andThen (if cut then setDocument b t c false else (b, .ok)) fun b1 => (exitSelection b1, .ok)

/-- `Buffer.paste_clipboard_data(data, paste_mode, count)` with `(t, c)` = the document returned by
    `Document.paste_clipboard_data` -/
def pasteDoc (b : Buf) (t : Text) (c : Int) : Buf × Outcome := setDocument b t c false

/-! ### transformations -/

/-- `lines[index] = v` for a possibly negative index; `none` = IndexError -/
def setIndex? (l : List Text) (i : Int) (v : Text) : Option (List Text) :=
  if i < 0 then
    (if i + (l.length : Int) < 0 then none else
      (if (i + (l.length : Int)).toNat < l.length then some (l.set (i + (l.length : Int)).toNat v) else none))
  else (if i.toNat < l.length then some (l.set i.toNat v) else none)

/-- `Buffer.transform_lines(line_index_iterator, transform_callback)`: returns the new text -/
def transformLines (b : Buf) (idxs : List Int) (f : Text → Text) : Text :=
  let lines := idxs.foldl (fun ls i =>
    match index? ls i with
    | none => ls                                        -- `except IndexError: pass`
    | some l => (setIndex? ls i (f l)).getD ls) (splitOn '\n' b.text)
  join ['\n'] lines

/-- `Buffer.transform_current_line(cb)` with `r = cb(current line)` -/
def transformCurrentLine (b : Buf) (r : Text) : Buf × Outcome :=
  let a := b.cur - (lineBefore b).length
  let e := b.cur + (lineAfter b).length
  setText b (b.text.take a ++ r ++ b.text.drop e)

/-- `Buffer.transform_region(from_, to, cb)` with `r = cb(text[from_:to])` -/
def transformRegion (b : Buf) (from_ to : Int) (r : Text) : Buf × Outcome :=
  if from_ < to then setText b (sliceTo b.text from_ ++ r ++ sliceFrom b.text to)
  else (b, .assertion)                                  -- `assert from_ < to`

/-- `Buffer.join_next_line(separator)` -/
def joinNextLine (b : Buf) (sep : Text) : Buf × Outcome :=
  if !onLastLine b then
    let b1 := moveCursor b (lineAfter b).length
    andThen (delete b1 1) fun b2 => setText b2 (b2.before ++ sep ++ lstripChar ' ' b2.after)
  else (b, .ok)

/-- `"\r\n"` is one line break for `str.splitlines()` -/
def crlf : Text → Text
  | '\r' :: '\n' :: r => '\n' :: crlf r
  | c :: r => c :: crlf r
  | [] => []

def splitBreaks (isBreak : Char → Bool) : Text → Text → List Text
  | [], acc => if acc.isEmpty then [] else [acc.reverse]
  | c :: rest, acc =>
    if isBreak c then acc.reverse :: splitBreaks isBreak rest []
    else splitBreaks isBreak rest (c :: acc)

/-- `str.splitlines()` -/
def splitLinesPy (isBreak : Char → Bool) (t : Text) : List Text := splitBreaks isBreak (crlf t) []

/-- `Buffer.join_selected_lines(separator)` -/
def joinSelectedLines (cls : Cls) (b : Buf) (sep : Text) : Buf × Outcome :=
  match b.sel with
  | none => (b, .assertion)                             -- `assert self.selection_state`
  | some s =>
    let from_ := min (b.cur : Int) s.anchor
    let to := max (b.cur : Int) s.anchor
    let before := sliceTo b.text from_
    let lines := (splitLinesPy cls.isBreak (slice b.text (some from_) (some to))).map
      fun l => lstripChar ' ' l ++ sep
    let after := sliceFrom b.text to
    setDocument b (before ++ lines.flatten ++ after)
      (((before ++ lines.dropLast.flatten).length : Int) - 1) false

/-- `Buffer.swap_characters_before_cursor()` -/
def swapChars (b : Buf) : Buf × Outcome :=
  if b.cur ≥ 2 then
    match b.text[b.cur - 2]?, b.text[b.cur - 1]? with
    | some x, some y => setText b (b.text.take (b.cur - 2) ++ [y, x] ++ sliceFrom b.text b.cur)
    | _, _ => (b, .indexError)
  else (b, .ok)

/-- `Buffer.newline(copy_margin)` with `margin` = the leading whitespace of the current line (or "") -/
def newline (b : Buf) (margin : Text) : Buf × Outcome := insertText b ('\n' :: margin) false true

/-- `Buffer.insert_line_above(copy_margin)` -/
def insertLineAbove (b : Buf) (margin : Text) : Buf × Outcome :=
  andThen (insertText (toLineStart b) (margin ++ ['\n']) false true) fun b1 => (moveCursor b1 (-1), .ok)

/-- `Buffer.insert_line_below(copy_margin)` -/
def insertLineBelow (b : Buf) (margin : Text) : Buf × Outcome :=
  insertText (moveCursor b (lineAfter b).length) ('\n' :: margin) false true

/-- what `open_in_editor` does with the text that comes back: drop one trailing newline,
    `self.document = Document(text, len(text))` -/
def editorResult (b : Buf) (t : Text) : Buf × Outcome :=
  let t1 := if t.getLast? == some '\n' then t.dropLast else t
  setDocument b t1 t1.length false

/-! ### the extended API as an op language -/

inductive Op2
  | old (op : Op)
  | yankNthArg (n : Option Int) (last : Bool)
  | setCompletions (comps : List Completion)
  | goToCompletion (index : Option Int)
  | completeNext (count : Int) (noWrap : Bool)
  | completePrevious (count : Int) (noWrap : Bool)
  | cancelCompletion
  | applyCompletion (text : Text) (start : Int)
  | cursorUpDown (count d : Int)
  | autoUp (count : Int) (goStart : Bool) (d : Int)
  | autoDown (count : Int) (goStart : Bool) (d : Int)
  | copySelection (cut : Bool) (t : Text) (c : Int)
  | pasteDoc (t : Text) (c : Int)
  | transformCurrentLine (r : Text)
  | transformRegion (from_ to : Int) (r : Text)
  | joinNextLine (sep : Text)
  | joinSelectedLines (sep : Text)
  | swapChars
  | newline (margin : Text)
  | insertLineAbove (margin : Text)
  | insertLineBelow (margin : Text)
  | editorResult (t : Text)
deriving Repr

def step2 (cls : Cls) (b : Buf) : Op2 → Buf × Outcome
  | .old op => step b op
  | .yankNthArg n last => yankNthArg cls b n last
  | .setCompletions cs => (setCompletions b cs, .ok)
  | .goToCompletion i => goToCompletion b i
  | .completeNext c w => completeNext b c w
  | .completePrevious c w => completePrevious b c w
  | .cancelCompletion => cancelCompletion b
  | .applyCompletion t s => applyCompletion b t s
  | .cursorUpDown c d => cursorUpDown b c d
  | .autoUp c g d => autoUp b c g d
  | .autoDown c g d => autoDown b c g d
  | .copySelection cut t c => copySelection b cut t c
  | .pasteDoc t c => pasteDoc b t c
  | .transformCurrentLine r => transformCurrentLine b r
  | .transformRegion f t r => transformRegion b f t r
  | .joinNextLine sep => joinNextLine b sep
  | .joinSelectedLines sep => joinSelectedLines cls b sep
  | .swapChars => swapChars b
  | .newline m => newline b m
  | .insertLineAbove m => insertLineAbove b m
  | .insertLineBelow m => insertLineBelow b m
  | .editorResult t => editorResult b t

/-- a handler body as a program over the extended API: runs until the first exception -/
def run2 (cls : Cls) : Buf → List Op2 → Buf × Outcome
  | b, [] => (b, .ok)
  | b, op :: ops =>
    match step2 cls b op with
    | (b1, .ok) => run2 cls b1 ops
    | r => r

end Ptk.C05
