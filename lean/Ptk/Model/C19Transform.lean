/-
  C19 — model of src/prompt_toolkit/styles/style_transformation.py:
  `SwapLightAndDarkStyleTransformation` (+ `get_opposite_color`), `ReverseStyleTransformation`,
  `SetDefaultColorStyleTransformation`, `AdjustBrightnessStyleTransformation`,
  `DummyStyleTransformation`, `DynamicStyleTransformation`, `ConditionalStyleTransformation`,
  `_MergedStyleTransformation` / `merge_style_transformations`, and their `invalidation_hash`.

  What is NOT exact: the float arithmetic (`colorsys.rgb_to_hls` / `hls_to_rgb`, `int(x * 255)`).
  Everything around it is followed exactly — which colours reach it, the three `int(color[i:j], 16)`
  slices with their ValueError, which field is replaced — and the float pipeline itself is a
  PARAMETER of the model (`Flt`): the text it produces for a colour string.  In the correspondence
  the harness measures that text on the real code and hands it to the driver.

  A `Tr` is a SNAPSHOT of a transformation object: callables (`to_str`, `to_float`, filters,
  `get_style_transformation`) are already evaluated.  Brightness values are given in 1/1000.
-/
import Ptk.Model.C19Color
import Ptk.Model.C19
namespace Ptk.C19
open Ptk.Py

/-- the float pipelines: `swap c` = the text `get_opposite_color` prints for an RGB colour string `c`
    (after its slices parsed), `adjust mn mx c` = the `new_color` of `AdjustBrightness…` -/
structure Flt where
  swap : Text → Text
  adjust : Int → Int → Text → Text

structure TrTables where
  /-- OPPOSITE_ANSI_COLOR_NAMES (dict order) -/
  opposite : List (Text × Text)
  /-- behaviour probe: `AdjustBrightness…` leaves the colour 'default' alone (instead of raising) -/
  adjustSkipsDefault : Bool

/-- `int(color[0:2], 16), int(color[2:4], 16), int(color[4:6], 16)`; `none` = ValueError -/
def hexSlices (sp : Char → Bool) (c : Text) : Option (Int × Int × Int) :=
  match pyIntHex sp (c.take 2), pyIntHex sp ((c.drop 2).take 2), pyIntHex sp ((c.drop 4).take 2) with
  | some r, some g, some b => some (r, g, b)
  | _, _, _ => none

/-- `get_opposite_color(colorname)`; outer `none` = ValueError -/
def oppositeColor (X : TrTables) (F : Flt) (sp : Char → Bool) (c : Option Text) : Option (Option Text) :=
  match c with
  | none => some none
  | some c =>
    if c == [] || c == "default".toList then some (some c) else
    match lookup c X.opposite with
    | some o => some (some o)
    | none =>
      -- r, g, b are evaluated in this order; any ValueError propagates
      match hexSlices sp c with
      | none => none
      | some _ => some (some (F.swap c))

inductive Tr where
  | swap                                  -- SwapLightAndDarkStyleTransformation()
  | reverse                               -- ReverseStyleTransformation()
  | setDefault (fg bg : Text)             -- SetDefaultColorStyleTransformation(fg, bg), `to_str` applied
  | adjust (minB maxB : Int)              -- AdjustBrightnessStyleTransformation(min, max), `to_float` * 1000
  | dummy                                 -- DummyStyleTransformation()
  | dynNone                               -- DynamicStyleTransformation(f), f() is None
  | dyn (t : Tr)                          -- DynamicStyleTransformation(f), f() is t
  | cond (t : Tr) (filter : Bool)         -- ConditionalStyleTransformation(t, filter), filter() evaluated
  | merged (ts : List Tr)                 -- merge_style_transformations(ts)
deriving Repr

/-- `SetDefaultColorStyleTransformation.transform_attrs` (background first, as in the source) -/
def applySetDefault (T : Tables) (fg bg : Text) (a : Attrs) : Except Err Attrs :=
  let step1 : Except Err Attrs :=
    if a.bgcolor == some [] || a.bgcolor == some "default".toList then
      match parseColor T bg with
      | some c => .ok { a with bgcolor := some c }
      | none => .error .value
    else .ok a
  match step1 with
  | .error e => .error e
  | .ok a1 =>
    if a1.color == some [] || a1.color == some "default".toList then
      match parseColor T fg with
      | some c => .ok { a1 with color := some c }
      | none => .error .value
    else .ok a1

/-- `AdjustBrightnessStyleTransformation._color_to_rgb` succeeds (`false` = ValueError) -/
def colorToRgbOk (T : Tables) (sp : Char → Bool) (c : Text) : Bool :=
  (lookup c T.ansiRgb).isSome || (hexSlices sp c).isSome

/-- `AdjustBrightnessStyleTransformation.transform_attrs` -/
def applyAdjust (T : Tables) (X : TrTables) (F : Flt) (sp : Char → Bool) (mn mx : Int) (a : Attrs) :
    Except Err Attrs :=
  if !(0 ≤ mn && mn ≤ 1000) then .error .assertion
  else if !(0 ≤ mx && mx ≤ 1000) then .error .assertion
  else if mn == 0 && mx == 1000 then .ok a
  else
    let bgc := a.bgcolor.getD []
    let noBackground := bgc.isEmpty || bgc == "default".toList          -- `not attrs.bgcolor or … == "default"`
    let col := a.color.getD []
    let hasFg := !col.isEmpty && col != "ansidefault".toList &&
      !(X.adjustSkipsDefault && col == "default".toList)
    if hasFg && noBackground then
      if colorToRgbOk T sp col then .ok { a with color := some (F.adjust mn mx col) }
      else .error .value
    else .ok a

mutual
/-- `t.transform_attrs(attrs)` -/
def Tr.apply (T : Tables) (X : TrTables) (F : Flt) (sp : Char → Bool) : Tr → Attrs → Except Err Attrs
  | .swap, a =>
    -- `attrs._replace(color=get_opposite_color(attrs.color))` then the same for bgcolor
    match oppositeColor X F sp a.color with
    | none => .error .value
    | some c => match oppositeColor X F sp a.bgcolor with
      | none => .error .value
      | some b => .ok { a with color := c, bgcolor := b }
  | .reverse, a => .ok { a with reverse := some (!truthy a.reverse) }      -- `not attrs.reverse`
  | .setDefault fg bg, a => applySetDefault T fg bg a
  | .adjust mn mx, a => applyAdjust T X F sp mn mx a
  | .dummy, a => .ok a
  | .dynNone, a => .ok a
  | .dyn t, a => Tr.apply T X F sp t a
  | .cond t f, a => if f then Tr.apply T X F sp t a else .ok a
  | .merged ts, a => Tr.applyList T X F sp ts a
/-- `for transformation in self.style_transformations: attrs = transformation.transform_attrs(attrs)` -/
def Tr.applyList (T : Tables) (X : TrTables) (F : Flt) (sp : Char → Bool) : List Tr → Attrs → Except Err Attrs
  | [], a => .ok a
  | t :: ts, a => match Tr.apply T X F sp t a with
    | .error e => .error e
    | .ok a' => Tr.applyList T X F sp ts a'
end

/-- the values of `StyleTransformation.invalidation_hash()` -/
inductive TH where
  | inst (cls : Nat)                       -- f"{self.__class__.__name__}-{id(self)}": 0 = Swap…, 1 = Reverse…
  | setDefault (fg bg : Text)              -- ("set-default-color", fg, bg)
  | adjust (mn mx : Int)                   -- ("adjust-brightness", min, max)
  | dummy                                  -- "dummy-style-transformation"
  | cond (f : Bool) (h : TH)               -- (self.filter(), inner hash)
  | tup (l : List TH)
deriving Repr

mutual
def Tr.hash : Tr → TH
  | .swap => .inst 0
  | .reverse => .inst 1
  | .setDefault fg bg => .setDefault fg bg
  | .adjust mn mx => .adjust mn mx
  | .dummy => .dummy
  | .dynNone => .dummy                     -- `DummyStyleTransformation().invalidation_hash()`
  | .dyn t => Tr.hash t
  | .cond t f => .cond f (Tr.hash t)
  | .merged ts => .tup (Tr.hashList ts)
def Tr.hashList : List Tr → List TH
  | [] => []
  | t :: ts => Tr.hash t :: Tr.hashList ts
end

end Ptk.C19
