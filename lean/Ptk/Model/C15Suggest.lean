/-
  C15 — `AutoSuggestFromHistory.get_suggestion` (src/prompt_toolkit/auto_suggest.py):

      text = document.text.rsplit("\n", 1)[-1]
      if text.strip():
          for string in reversed(list(history.get_strings())):
              for line in reversed(string.splitlines()):
                  if line.startswith(text):
                      return Suggestion(line[len(text):])
      return None

  `str.splitlines` is a parameter (its separator set belongs to the Python runtime); the driver
  instantiates it for texts whose only line separator is `\n`.
-/
import Ptk.Model.C15
namespace Ptk.C15
open Ptk.Py

/-- `text.rsplit("\n", 1)[-1]` : the part after the last newline -/
def lastLine (t : Text) : Text := (t.reverse.takeWhile notNl).reverse

/-- `for line in reversed(lines): if line.startswith(text): return line[len(text):]`
    (the argument is the reversed list) -/
def findLine (text : Text) : List Text → Option Text
  | [] => none
  | l :: ls => if isPrefixOf' text l then some (l.drop text.length) else findLine text ls

/-- `for string in reversed(strings): for line in reversed(string.splitlines()): …`
    (the argument is the reversed list of history strings) -/
def findHist (splitlines : Text → List Text) (text : Text) : List Text → Option Text
  | [] => none
  | e :: es =>
    match findLine text (splitlines e).reverse with
    | some r => some r
    | none => findHist splitlines text es

/-- `AutoSuggestFromHistory.get_suggestion` for history strings `hist` (oldest first) -/
def histSuggest (sp : Char → Bool) (splitlines : Text → List Text) (hist : List Text) (docText : Text) :
    Option Text :=
  if (strip sp (lastLine docText)).isEmpty then none
  else findHist splitlines (lastLine docText) hist.reverse

/-- `str.splitlines()` for texts whose only line separator is `\n` -/
def splitlinesNl (t : Text) : List Text :=
  let parts := splitOn '\n' t
  if parts.getLast? = some [] then parts.dropLast else parts

end Ptk.C15
