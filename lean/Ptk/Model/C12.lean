/-
  C12 — model of the size division of split containers
  (src/prompt_toolkit/layout/containers.py `HSplit._divide_heights`,
  `VSplit._divide_widths`, `_child_generators`, `_grow_sizes`, both `_all_children`
  and both `write_to_screen`; layout/dimension.py `Dimension.__init__`,
  `sum_layout_dimensions`, `max_layout_dimensions`; utils.py `take_using_weights`).

  Conventions
  * `Dim` is a constructed `Dimension` (min, preferred, max, weight); `mkDim` is the
    constructor with its defaulting / clamping / `ValueError` (= `none`).
  * The generator `take_using_weights` is the explicit state machine `Gen` with one
    micro-step per evaluation of the inner `for` (or per end of a pass); the float
    comparison `already_taken < i * weight / float(max_weight)` is the exact integer
    comparison `already_taken * max_weight < i * weight`.
  * Loops that the Python code runs "until done" take a fuel argument; `none`/`.hang`
    means "not finished within the fuel".  `Ptk.Props.C12` proves that enough fuel always
    exists (termination) and that results do not depend on the fuel.
  Core Lean only (the driver links this file).
-/
import Ptk.Gen.C12
namespace Ptk.C12

/-! ### dimension.py -/

structure Dim where
  min : Nat
  pref : Nat
  max : Nat
  weight : Nat
deriving Repr, DecidableEq, Inhabited

/-- `Dimension(min, max, weight, preferred)`; `none` arguments are Python `None`;
    result `none` = `ValueError("Invalid Dimension: max < min.")`. -/
def mkDim (mn mx w pr : Option Nat) : Option Dim :=
  let mn' := mn.getD Gen.C12.defaultMin
  let mx' := mx.getD Gen.C12.defaultMax
  let pr' := pr.getD mn'
  let w' := w.getD Gen.C12.defaultWeight
  if mx' < mn' then none
  else
    let pr1 := if pr' < mn' then mn' else pr'
    let pr2 := if pr1 > mx' then mx' else pr1
    some { min := mn', pref := pr2, max := mx', weight := w' }

/-- `Dimension.exact(amount)` -/
def Dim.exact (n : Nat) : Option Dim := mkDim (some n) (some n) none (some n)

/-- `Dimension.is_zero()` -/
def Dim.isZero (d : Dim) : Bool := d.pref == 0 || d.max == 0

/-- `if dimension.max_specified: preferred = min(preferred, dimension.max)`;
    `if dimension.min_specified: preferred = max(preferred, dimension.min)` -/
def clampSpec (p : Nat) (d : Dim) (mn mx : Option Nat) : Nat :=
  let p1 := if mx.isSome then Nat.min p d.max else p
  if mn.isSome then Nat.max p1 d.min else p1

/-- What a `Window(height=Dimension(mn, mx, w, pr))` with a `DummyControl` reports as
    `preferred_height` (`Window._merge_dimensions`, content preferred = None,
    dont_extend = False): the given dimension is rebuilt from its *specified* fields. -/
def windowDim (mn mx w pr : Option Nat) : Option Dim :=
  match mkDim mn mx w pr with
  | none => none
  | some d =>
    -- preferred: only when explicitly given, then clamped again into the specified bounds
    mkDim (mn.map fun _ => d.min) (mx.map fun _ => d.max) (some d.weight)
      (pr.map fun _ => clampSpec d.pref d mn mx)

def sumOf (f : Dim → Nat) (ds : List Dim) : Nat := (ds.map f).sum

/-- `sum_layout_dimensions` -/
def sumDims (ds : List Dim) : Option Dim :=
  mkDim (some (sumOf (·.min) ds)) (some (sumOf (·.max) ds)) none (some (sumOf (·.pref) ds))

def maxOf (l : List Nat) : Nat := l.foldl Nat.max 0
def minOf : List Nat → Nat
  | [] => 0
  | x :: xs => xs.foldl Nat.min x

/-- the general case of `max_layout_dimensions` on the non-empty dimensions: highest minimum,
    smallest maximum but at least the highest preferred size, priority to the minimum. -/
def maxDimsNZ (nz : List Dim) : Option Dim :=
  let mn := maxOf (nz.map (·.min))
  let pr := maxOf (nz.map (·.pref))
  let mx0 := Nat.max (minOf (nz.map (·.max))) pr
  mkDim (some mn) (some (if mn > mx0 then mn else mx0)) none (some pr)

/-- `max_layout_dimensions` -/
def maxDims (ds : List Dim) : Option Dim :=
  match ds with
  | [] => Dim.exact 0
  | d0 :: _ =>
    if ds.all Dim.isZero then some d0
    else
      let nz := ds.filter fun d => !d.isZero
      if nz.isEmpty then mkDim none none none none else maxDimsNZ nz

/-! ### utils.take_using_weights as a state machine -/

/-- State of one running `take_using_weights(items, weights)` generator.
    `items`/`ws`/`maxW` are fixed after the zero-weight filter; `i`, `taken`
    (`already_taken`), `pos` (index of the inner `for`), `adding` are the locals. -/
structure Gen where
  items : List Nat
  ws : List Nat
  maxW : Nat
  i : Nat
  taken : List Nat
  pos : Nat
  adding : Bool
deriving Repr, DecidableEq

/-- Generator creation: items with weight 0 are removed; `max_weight = max(weights)`.
    (With no item left the real generator raises `ValueError` at the first `next`;
    the machine then never yields.) -/
def Gen.init (items weights : List Nat) : Gen :=
  let ps := (items.zip weights).filter fun p => p.2 > 0
  let ws := ps.map (·.2)
  { items := ps.map (·.1), ws := ws, maxW := maxOf ws, i := 0,
    taken := ws.map fun _ => 0, pos := 0, adding := false }

/-- One micro-step: either one evaluation of the `if already_taken[item_i] < …` inside the
    `for`, or the end of a pass (`while adding` test, possibly `i += 1`).
    Returns the position yielded, if any. -/
def Gen.step (g : Gen) : Gen × Option Nat :=
  if g.pos < g.ws.length then
    if g.taken.getD g.pos 0 * g.maxW < g.i * g.ws.getD g.pos 0 then
      ({ g with taken := g.taken.set g.pos (g.taken.getD g.pos 0 + 1), adding := true,
                pos := g.pos + 1 },
       some g.pos)
    else ({ g with pos := g.pos + 1 }, none)
  else if g.adding then ({ g with pos := 0, adding := false }, none)
  else ({ g with i := g.i + 1, pos := 0, adding := false }, none)

/-- `next(generator)`: run micro-steps up to the next `yield`; `none` = fuel exhausted. -/
def Gen.next? : Nat → Gen → Option (Nat × Gen)
  | 0, _ => none
  | f + 1, g =>
    match g.step with
    | (g', some p) => some (g.items.getD p 0, g')
    | (g', none) => Gen.next? f g'

/-- the first `k` items of the stream (for the direct correspondence with the generator) -/
def Gen.takeN (fuel : Nat) : Nat → Gen → Option (List Nat)
  | 0, _ => some []
  | k + 1, g =>
    match g.next? fuel with
    | none => none
    | some (x, g') =>
      match Gen.takeN fuel k g' with
      | none => none
      | some xs => some (x :: xs)

/-! ### containers.py: `_child_generators`, `_grow_sizes`, the divide functions -/

/-- indices `i` of `weights` whose weight is (`pos = true`) positive / (`false`) zero -/
def groupIdx (weights : List Nat) (pos : Bool) : List Nat :=
  (List.range weights.length).filter fun i => (weights.getD i 0 > 0) == pos

/-- one group with its generator; a weight of 0 counts as `0 or 1 = 1` -/
def mkGroupGen (weights : List Nat) (g : List Nat) : List Nat × Gen :=
  (g, Gen.init g (g.map fun i => if weights.getD i 0 = 0 then 1 else weights.getD i 0))

/-- `_child_generators`: the group of weighted children with their weights, then the group of
    weight-0 children (all with weight 1); empty groups are dropped. -/
def childGenerators (dims : List Dim) : List (List Nat × Gen) :=
  let weights := dims.map (·.weight)
  ([groupIdx weights true, groupIdx weights false].filter fun g => !g.isEmpty).map
    (mkGroupGen weights)

/-- `if sizes[i] < limits[i]: sizes[i] += 1` -/
def bump (sizes limits : List Nat) (i : Nat) : List Nat :=
  if sizes.getD i 0 < limits.getD i 0 then sizes.set i (sizes.getD i 0 + 1) else sizes

/-- `while sum(sizes) < stop: i = next(generator); if sizes[i] < limits[i]: sizes[i] += 1`
    (`nf` = fuel of every `next`, first argument = fuel of the loop). -/
def growLoop (limits : List Nat) (stop nf : Nat) : Nat → List Nat → Gen → Option (List Nat × Gen)
  | 0, sizes, g => if sizes.sum < stop then none else some (sizes, g)
  | f + 1, sizes, g =>
    if sizes.sum < stop then
      match g.next? nf with
      | none => none
      | some (i, g') => growLoop limits stop nf f (bump sizes limits i) g'
    else some (sizes, g)

/-- room left in a group: `sum(limits[i] - sizes[i] for i in group)` -/
def capOf (sizes limits : List Nat) (grp : List Nat) : Nat :=
  (grp.map fun i => limits.getD i 0 - sizes.getD i 0).sum

/-- `_grow_sizes(sizes, limits, stop, child_generators)`; the generators keep their state. -/
def growSizes (fuel : Nat) (limits : List Nat) (stop : Nat) :
    List Nat → List (List Nat × Gen) → Option (List Nat × List (List Nat × Gen))
  | sizes, [] => some (sizes, [])
  | sizes, (grp, g) :: rest =>
    let gstop := Nat.min stop (sizes.sum + capOf sizes limits grp)
    match growLoop limits gstop fuel fuel sizes g with
    | none => none
    | some (sizes', g') =>
      match growSizes fuel limits stop sizes' rest with
      | none => none
      | some (sizes'', rest') => some (sizes'', (grp, g') :: rest')

inductive Outcome
  | tooSmall                 -- the function returns `None`
  | hang                     -- not finished within the fuel
  | error                    -- `ValueError`
  | ok (sizes : List Nat)
deriving Repr, DecidableEq

/-- second phase: "Increase until we use all the available space" — skipped when
    `toMax = false` (`get_app().is_done`, heights only). -/
def phase2 (fuel : Nat) (dims : List Dim) (stop2 : Nat) (toMax : Bool) (sizes : List Nat)
    (gens : List (List Nat × Gen)) : Outcome :=
  if toMax then
    match growSizes fuel (dims.map (·.max)) stop2 sizes gens with
    | none => .hang
    | some r => .ok r.1
  else .ok sizes

/-- The common body of `_divide_heights` / `_divide_widths` after the dimensions of
    `_all_children` have been collected. -/
def divide (fuel : Nat) (dims : List Dim) (avail : Nat) (toMax : Bool) : Outcome :=
  match sumDims dims with
  | none => .error
  | some sd =>
    if sd.min > avail then .tooSmall
    else
      -- first phase: "Increase until we meet at least the 'preferred' size"
      match growSizes fuel (dims.map (·.pref)) (Nat.min avail sd.pref) (dims.map (·.min))
          (childGenerators dims) with
      | none => .hang
      | some r => phase2 fuel dims (Nat.min avail sd.max) toMax r.1 r.2

/-! ### `_all_children`, the two entry points, `write_to_screen` -/

/-- `VerticalAlign` / `HorizontalAlign`: TOP|LEFT, CENTER, BOTTOM|RIGHT, JUSTIFY -/
inductive Align
  | start | center | stop | justify
deriving Repr, DecidableEq

/-- `_all_children` on the level of dimensions: `filler` is what the
    `Window(width=Dimension(preferred=0))` fillers report, `pad` what the padding windows report. -/
def allChildren (al : Align) (filler pad : Dim) (children : List Dim) : List Dim :=
  let pre := if al = .center ∨ al = .stop then [filler] else []
  let mid := pre ++ children.flatMap fun c => [c, pad]
  let mid := mid.dropLast            -- `if result: result.pop()`
  let post := if al = .center ∨ al = .start then [filler] else []
  mid ++ post

/-- `HSplit._divide_heights` (`done` = `get_app().is_done`) -/
def divideH (fuel : Nat) (al : Align) (filler pad : Dim) (children : List Dim) (avail : Nat)
    (done : Bool) : Outcome :=
  if children.isEmpty then .ok []
  else divide fuel (allChildren al filler pad children) avail (!done)

/-- `VSplit._divide_widths` -/
def divideV (fuel : Nat) (al : Align) (filler pad : Dim) (children : List Dim) (avail : Nat) :
    Outcome :=
  let all := allChildren al filler pad children
  if all.isEmpty then .ok [] else divide fuel all avail true

/-- offsets at which the children are written: `pos`, `pos + s0`, `pos + s0 + s1`, … -/
def offsets (start : Nat) : List Nat → List Nat
  | [] => []
  | s :: ss => start :: offsets (start + s) ss

/-- One region along the split axis: (offset, size). The result of `write_to_screen` along the
    axis: the regions of `_all_children` in order, and the remaining-space region if it is
    non-empty. -/
def layout (start avail : Nat) (sizes : List Nat) : List (Nat × Nat) × Option (Nat × Nat) :=
  let regs := (offsets start sizes).zip sizes
  let used := sizes.sum
  (regs, if start + avail > start + used then some (start + used, avail - used) else none)

end Ptk.C12
