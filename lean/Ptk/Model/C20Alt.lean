/-
  C20 (sixth part) — the alternate screen.  A full-screen application draws in the terminal's alternate screen
  buffer (`Renderer.render`: `if self.full_screen and not self._in_alternate_screen: enter_alternate_screen()`);
  what is written there is discarded when the buffer is left.  `in_terminal` hides the UI with
  `renderer.erase()` — `erase(leave_alternate_screen=True)` ends in `reset(leave_alternate_screen=True)`, which
  quits the alternate screen — so the text of a section goes to the NORMAL screen; the redraw enters the alternate
  screen again.  `Application._on_resize` uses `erase(leave_alternate_screen=False)`.

    start      `run_async` begins: first render
    section t  one `run_in_terminal(write_and_flush)` of the proxy: with a running application
               `erase(); write t; renderer.reset(); _redraw()`, without one a plain write
    resize     `_on_resize`: `erase(leave_alternate_screen=False); _redraw()`
    inval      a redraw
    stop       render in done state, `renderer.reset()`

  `eraseLeaves` is the value of `leave_alternate_screen` that `in_terminal`'s `erase()` call ends up with: `true` is
  the code (the default of the parameter); `false` is the seeded regression C20-l.
  Events are logged in call order: `draw` / `doneDraw` = `render` is entered (it may then enter the alternate
  screen), `erase` = `erase` is entered (it may then quit it).
-/
import Ptk.Py
namespace Ptk.C20Alt
open Ptk.Py

inductive Ev where
  | draw | erase | doneDraw
  | enterAlt | quitAlt
  /-- a text write of the proxy; `onAlt` = the terminal is in the alternate screen at that moment -/
  | out (onAlt : Bool) (t : Text)
deriving Repr, DecidableEq

structure St where
  fullScreen : Bool := false
  eraseLeaves : Bool := true
  appOn : Bool := false
  /-- `Renderer._in_alternate_screen` (= the terminal is in the alternate screen) -/
  alt : Bool := false
  log : List Ev := []
deriving Repr, DecidableEq

inductive Op where
  | start | stop | inval | resize
  | section (t : Text)
deriving Repr, DecidableEq

/-- `Renderer.render`: the full-screen prelude, then the drawing -/
def render (s : St) (done : Bool) : St :=
  let s1 := { s with log := s.log ++ [if done then .doneDraw else .draw] }
  if s1.fullScreen ∧ ¬ s1.alt then { s1 with alt := true, log := s1.log ++ [.enterAlt] } else s1

/-- `Renderer.reset(leave_alternate_screen)` -/
def reset (s : St) (leave : Bool) : St :=
  if s.alt ∧ leave then { s with alt := false, log := s.log ++ [.quitAlt] } else s

/-- `Renderer.erase(leave_alternate_screen)` -/
def erase (s : St) (leave : Bool) : St := reset { s with log := s.log ++ [.erase] } leave

def step (s : St) : Op → St
  | .start => if s.appOn then s else render { s with appOn := true } false
  | .stop => if s.appOn then { reset (render s true) true with appOn := false } else s
  | .inval => if s.appOn then render s false else s
  | .resize => if s.appOn then render (erase s false) false else s
  | .section t =>
    if s.appOn then
      let s1 := erase s s.eraseLeaves
      let s2 := { s1 with log := s1.log ++ [.out s1.alt t] }
      render (reset s2 true) false
    else { s with log := s.log ++ [.out s.alt t] }

def runOps (s : St) : List Op → St
  | [] => s
  | o :: os => runOps (step s o) os

/-- the text that is on the normal screen -/
def normalText : List Ev → Text
  | [] => []
  | .out false t :: es => t ++ normalText es
  | _ :: es => normalText es

def sectionTexts : List Op → Text
  | [] => []
  | .section t :: os => t ++ sectionTexts os
  | _ :: os => sectionTexts os

end Ptk.C20Alt
