/-
  C13 — model of `ThreadedHistory` (src/prompt_toolkit/history.py) WITH the repair of F5
  (proposed_fixes/C13-threaded-append.diff):

    * `append_string`      : insert at the front, count it (`_appended_count`) and `store_string`,
                             all inside ONE `with self._lock` block
    * `_in_load_thread`    : `_loaded_strings = []`, the call of the inner
                             `load_history_strings()` and the request of its first item inside ONE
                             `with self._lock` block (the inner history looks at its storage there)
    * `load()`             : remembers `appended_before = self._appended_count`; the locked read takes
                             `_loaded_strings[items_yielded + appended:]` with
                             `appended = _appended_count - appended_before`, and — when `_loaded` —
                             additionally `_loaded_strings[:appended]`

  Transition system `THF` / `stepF`: the atomic steps are the code sections between two
  synchronisation points, exactly as in `Ptk.Model.C13` (`TH` / `step`), plus
    * `.app s`     one complete `append_string(s)` (atomic now)
    * `.ccancel`   the `load()` call in progress is cancelled / `aclose()`d (`finally:` removes its
                   event); the loader thread keeps running; a later `.cstart` is a new `load()` call
    * `.lcall`     the call `iter(inner.load_history_strings())` as a step of its own — only in the
                   variant `hoist = true` (the call in front of the lock); TWO kinds of inner history:
                   `eager` (reads its storage when called: FileHistory) and lazy (when its first item
                   is requested: a generator).  In the code as it is (`hoist = false`) call, list reset
                   and first item are one locked block = the one step `.lreset`, for both kinds.
    * `.lfail`     the inner history raises (in `load_history_strings()` itself, or when the next
                   item is requested): the rest of its items is lost, `finally:` still sets `_loaded`
  One `load()` call at a time (any number of them one after the other); several simultaneous calls
  are `THn` in `Ptk.Model.C13`.

  `.cstart` is one step here although the code runs `Thread.start()`, `event.set()`, the
  registration of the event and the (lock-free) read of `_appended_count` one after the other: a
  `load()` call whose counter read comes after some loader / appender steps behaves like
  `[.cstart, .ccancel, …those steps…, .cstart]`, which is a schedule of this model.

  Ghost fields (not in the code, never read by `stepF` to decide anything; used to STATE theorems):
  `failed`, `complete`, `hist0`, `front`.
-/
import Ptk.Model.C13
namespace Ptk.C13
open Ptk.Py

structure THF where
  storage : List Text       -- the inner history's persistent store, oldest first
  strs : List Text          -- `_loaded_strings`
  loaded : Bool             -- `_loaded`
  lpc : LPc                 -- (`.called`: only when the call of the inner history is outside the lock)
  remaining : List Text     -- items of the inner generator's snapshot not yet produced
  inserted : Nat            -- `_appended_count`
  ev : Bool                 -- the consumer's `threading.Event` (while registered)
  cpc : CPc
  yielded : Nat             -- `items_yielded`
  seen : Nat                -- `appended_before`
  out : List Text           -- everything the current `load()` call has yielded
  batch : List Text         -- `new_items` of the last locked read, not yet yielded
  sawDone : Bool            -- `done` of the last locked read
  -- ghost
  failed : Bool             -- the inner history raised: items were lost
  complete : Bool           -- the last `load()` call ran to its end (was not cancelled)
  hist0 : List Text         -- the logical history (newest first) when the current `load()` call began
  front : List Text         -- the entries appended since then, as of the last locked read (newest first)
  -- configuration (never changes)
  eager : Bool := false     -- kind of inner history: `true` = it reads its storage when
                            -- `load_history_strings()` is CALLED (FileHistory: an ordinary function that
                            -- returns `reversed(strings)`), `false` = when its first item is requested
                            -- (a generator: InMemoryHistory, the documented way to write a backend)
  hoist : Bool := false     -- `false` = the code as it is: the call `iter(inner.load_history_strings())`
                            -- stands inside the locked block; `true` = the call stands in front of
                            -- `with self._lock:` (the list reset and the first item stay inside)
deriving Repr, DecidableEq

inductive StepF
  | cstart | cwait | cread | cyield | ccancel
  | lcall | lreset | lappend | lnotify | ldone | lfinal | lfail
  | app (s : Text)
deriving Repr, DecidableEq

/-- `ThreadedHistory(inner)` where the inner store holds `old`, followed by `append_string(p)`
    for every `p` in `pre` (before any `load()`). -/
def THF.init (old pre : List Text) (eager : Bool := false) (hoist : Bool := false) : THF :=
  { storage := old ++ pre, strs := pre.reverse, loaded := false, lpc := .notStarted,
    remaining := [], inserted := pre.length, ev := false, cpc := .idle, yielded := 0, seen := 0,
    out := [], batch := [], sawDone := false, failed := false, complete := false, hist0 := [],
    front := [], eager := eager, hoist := hoist }

/-- the logical history, newest first -/
def THF.view (st : THF) : List Text := st.storage.reverse

/-- `appended = self._appended_count - appended_before` -/
def THF.shift (st : THF) : Nat := st.inserted - st.seen

def THF.active (st : THF) : Prop := st.cpc = .waiting ∨ st.cpc = .reading ∨ st.cpc = .yielding

instance (st : THF) : Decidable st.active := by unfold THF.active; infer_instance

/-- one atomic step; a step that is not enabled leaves the state unchanged -/
def stepF (st : THF) : StepF → THF
  | .cstart =>
    -- `load()` up to the first `event.wait`: start the thread (first call only), create a set
    -- event and register it, `items_yielded = 0`, `appended_before = self._appended_count`
    if st.cpc = .idle ∨ st.cpc = .done then
      { st with lpc := if st.lpc = .notStarted then .started else st.lpc,
                ev := true, cpc := .waiting, yielded := 0, seen := st.inserted, out := [], batch := [],
                sawDone := false, complete := false, hist0 := st.view, front := [] }
    else st
  | .cwait =>
    -- `event.wait(timeout=0.5)`; a timeout just repeats the wait
    if st.cpc = .waiting ∧ st.ev then { st with cpc := .reading } else st
  | .cread =>
    -- `with lock: appended = …; new_items = strs[items_yielded + appended:]; done = _loaded;
    --             if done: new_items += strs[:appended]; event.clear()`
    if st.cpc = .reading then
      { st with ev := false,
                batch := st.strs.drop (st.yielded + st.shift)
                          ++ (if st.loaded then st.strs.take st.shift else []),
                sawDone := st.loaded, cpc := .yielding, front := st.view.take st.shift }
    else st
  | .cyield =>
    -- `items_yielded += len(new_items)`, yield them all, `if done: break` (else wait again);
    -- leaving the loop runs `finally: self._string_load_events.remove(event)`
    if st.cpc = .yielding then
      { st with yielded := st.yielded + st.batch.length, out := st.out ++ st.batch, batch := [],
                cpc := if st.sawDone then .done else .waiting,
                complete := st.sawDone }
    else st
  | .ccancel =>
    -- the task that iterates `load()` is cancelled / the generator is closed: `finally:` removes
    -- the event; a read that is still running in the executor has no effect on shared state
    if st.cpc = .waiting ∨ st.cpc = .reading ∨ st.cpc = .yielding then
      { st with cpc := .done, ev := false, batch := [], complete := false }
    else st
  | .lcall =>
    -- only when the call stands in front of the lock: `strings = iter(inner.load_history_strings())`
    -- as a step of its own; an eager inner history reads its storage HERE
    if st.hoist ∧ st.lpc = .started then
      { st with lpc := .called, remaining := if st.eager then st.storage.reverse else st.remaining }
    else st
  | .lreset =>
    -- the code as it is:
    -- `with lock: _loaded_strings = []; strings = iter(inner.load_history_strings());
    --             first = list(islice(strings, 1))`
    -- (the storage is read at the call or at the first item: the same moment either way);
    -- with the call in front of the lock: `with lock: _loaded_strings = []; first = …` — a lazy inner
    -- history reads its storage now, an eager one has read it at `.lcall`
    if st.lpc = .started ∧ st.hoist = false then
      { st with strs := [], remaining := st.storage.reverse, lpc := .iter }
    else if st.lpc = .called then
      { st with strs := [], remaining := if st.eager then st.remaining else st.storage.reverse,
                lpc := .iter }
    else st
  | .lappend =>
    if st.lpc = .iter then
      match st.remaining with
      | x :: r => { st with strs := st.strs ++ [x], remaining := r, lpc := .notify }
      | [] => st
    else st
  | .lnotify =>
    if st.lpc = .notify then { st with ev := true, lpc := .iter } else st
  | .ldone =>
    if st.lpc = .iter ∧ st.remaining = [] then { st with loaded := true, lpc := .notifyFinal }
    else st
  | .lfinal =>
    if st.lpc = .notifyFinal then { st with ev := true, lpc := .finished } else st
  | .lfail =>
    -- the inner history raises: inside the first locked block (the list has been emptied
    -- already), or when a further item is requested; `finally:` is the `.ldone` step
    -- (with the call in front of the lock a raise in the call skips the list reset)
    if st.lpc = .started then
      { st with strs := if st.hoist then st.strs else [], remaining := [], lpc := .iter, failed := true }
    else if st.lpc = .called then
      { st with strs := [], remaining := [], lpc := .iter, failed := true }
    else if st.lpc = .iter ∧ st.remaining ≠ [] then
      { st with remaining := [], failed := true }
    else st
  | .app s =>
    -- `with lock: _loaded_strings.insert(0, s); _appended_count += 1; store_string(s)`
    { st with strs := s :: st.strs, storage := st.storage ++ [s], inserted := st.inserted + 1 }

def runF (st : THF) (sched : List StepF) : THF := sched.foldl stepF st

/-- `ThreadedHistory.get_strings()` -/
def THF.getStrings (st : THF) : List Text := st.strs.reverse

end Ptk.C13

/-! ## the repaired ThreadedHistory with ANY NUMBER of simultaneous `load()` calls

  `THm` / `stepM`: like `THn` / `stepN` of `Ptk.Model.C13` (the loader stops after every single
  `event.set()`; its notify loops run over a copy of `_string_load_events`), plus `append_string`
  (atomic), cancellation of any call, and an inner history that raises — everything `stepF` has, for
  several calls at once.  Every call `i` is started at most once (a later call is another `i`). -/

namespace Ptk.C13
open Ptk.Py

/-- one `load()` call of the repaired code -/
structure ConsM where
  cpc : CPc := .idle
  ev : Bool := false
  yielded : Nat := 0
  seen : Nat := 0             -- `appended_before`
  out : List Text := []
  batch : List Text := []
  sawDone : Bool := false
  -- ghost
  complete : Bool := false
  hist0 : List Text := []
  front : List Text := []
deriving Repr, DecidableEq

def ConsM.active (c : ConsM) : Prop := c.cpc = .waiting ∨ c.cpc = .reading ∨ c.cpc = .yielding

instance (c : ConsM) : Decidable c.active := by unfold ConsM.active; infer_instance

structure THm where
  storage : List Text
  strs : List Text
  loaded : Bool
  lpc : NPc                 -- (`.called`: only when the call of the inner history is outside the lock)
  remaining : List Text
  inserted : Nat
  failed : Bool             -- ghost
  cons : Nat → ConsM
  events : List Nat         -- `_string_load_events`: the registered `load()` calls, in order
  ncopy : List Nat          -- rest of the copied list the notify loop still has to go through
  eager : Bool := false     -- configuration, as in `THF`
  hoist : Bool := false

inductive StepM
  | cstart (i : Nat) | cwait (i : Nat) | cread (i : Nat) | cyield (i : Nat) | ccancel (i : Nat)
  | lcall | lreset | lappend | lnotify | lset | ldone | lfinal | lfail
  | app (s : Text)
deriving Repr, DecidableEq

def THm.init (old pre : List Text) (eager : Bool := false) (hoist : Bool := false) : THm :=
  { storage := old ++ pre, strs := pre.reverse, loaded := false, lpc := .notStarted, remaining := [],
    inserted := pre.length, failed := false, cons := fun _ => {}, events := [], ncopy := [],
    eager := eager, hoist := hoist }

def THm.view (st : THm) : List Text := st.storage.reverse

def THm.setCons (st : THm) (i : Nat) (c : ConsM) : THm :=
  { st with cons := fun j => if j = i then c else st.cons j }

def THm.setEv (st : THm) (i : Nat) : THm := st.setCons i { st.cons i with ev := true }

/-- the loader enters a `for event in list(…): event.set()` loop: sets the first event (if any) and
    stops after it; with no events the loop is over at once -/
def loopStartM (st : THm) (inLoop after : NPc) : THm :=
  match st.events with
  | [] => { st with lpc := after }
  | e :: r => { st.setEv e with lpc := inLoop, ncopy := r }

def loopNextM (st : THm) (after : NPc) : THm :=
  match st.ncopy with
  | [] => { st with lpc := after }
  | e :: r => { st.setEv e with ncopy := r }

def stepM (st : THm) : StepM → THm
  | .cstart i =>
    if (st.cons i).cpc = .idle then
      { st with lpc := if st.lpc = .notStarted then .started else st.lpc,
                cons := fun j => if j = i then
                  { cpc := .waiting, ev := true, seen := st.inserted, hist0 := st.view } else st.cons j,
                events := st.events ++ [i] }
    else st
  | .cwait i =>
    let c := st.cons i
    if c.cpc = .waiting ∧ c.ev then st.setCons i { c with cpc := .reading } else st
  | .cread i =>
    let c := st.cons i
    if c.cpc = .reading then
      let k := st.inserted - c.seen
      st.setCons i { c with ev := false,
                            batch := st.strs.drop (c.yielded + k) ++ (if st.loaded then st.strs.take k else []),
                            sawDone := st.loaded, cpc := .yielding, front := st.view.take k }
    else st
  | .cyield i =>
    let c := st.cons i
    if c.cpc = .yielding then
      let c' := { c with yielded := c.yielded + c.batch.length, out := c.out ++ c.batch, batch := [],
                         cpc := if c.sawDone then .done else .waiting, complete := c.sawDone }
      { st.setCons i c' with events := if c.sawDone then st.events.erase i else st.events }
    else st
  | .ccancel i =>
    let c := st.cons i
    if c.cpc = .waiting ∨ c.cpc = .reading ∨ c.cpc = .yielding then
      { st.setCons i { c with cpc := .done, ev := false, batch := [], complete := false } with
        events := st.events.erase i }
    else st
  | .lcall =>
    if st.hoist ∧ st.lpc = .started then
      { st with lpc := .called, remaining := if st.eager then st.storage.reverse else st.remaining }
    else st
  | .lreset =>
    if st.lpc = .started ∧ st.hoist = false then
      { st with strs := [], remaining := st.storage.reverse, lpc := .iter }
    else if st.lpc = .called then
      { st with strs := [], remaining := if st.eager then st.remaining else st.storage.reverse,
                lpc := .iter }
    else st
  | .lappend =>
    if st.lpc = .iter then
      match st.remaining with
      | x :: r => { st with strs := st.strs ++ [x], remaining := r, lpc := .notify }
      | [] => st
    else st
  | .lnotify =>
    if st.lpc = .notify then loopStartM st .looping .iter else st
  | .ldone =>
    if st.lpc = .iter ∧ st.remaining = [] then { st with loaded := true, lpc := .notifyFinal }
    else st
  | .lfinal =>
    if st.lpc = .notifyFinal then loopStartM st .loopingFinal .finished else st
  | .lset =>
    if st.lpc = .looping then loopNextM st .iter
    else if st.lpc = .loopingFinal then loopNextM st .finished
    else st
  | .lfail =>
    if st.lpc = .started then
      { st with strs := if st.hoist then st.strs else [], remaining := [], lpc := .iter, failed := true }
    else if st.lpc = .called then
      { st with strs := [], remaining := [], lpc := .iter, failed := true }
    else if st.lpc = .iter ∧ st.remaining ≠ [] then
      { st with remaining := [], failed := true }
    else st
  | .app s =>
    { st with strs := s :: st.strs, storage := st.storage ++ [s], inserted := st.inserted + 1 }

def runM (st : THm) (sched : List StepM) : THm := sched.foldl stepM st

def THm.getStrings (st : THm) : List Text := st.strs.reverse

end Ptk.C13
