/-
  C09, extension layer — code that sits next to the kill ring and the register commands of
  `Model/C09.lean` / `Model/C09Vi.lean`:

    * `clipboard/pyperclip.py  PyperclipClipboard`: the system clipboard is an abstract string
      cell (`sys`); `set_data` remembers the `ClipboardData` and copies its text into the cell,
      `get_data` re-uses the remembered data when the cell still holds the same text and otherwise
      infers the type (LINES iff the text contains a newline);
    * `clipboard/base.py  DynamicClipboard` (forwards every call to the clipboard its callable
      returns, a `DummyClipboard` when it returns `None`) and `DummyClipboard`;
    * Emacs mode: `c-delete` (a second key bound to kill-word: a Binding of its own, so it is never a
      repeat of `M-d`, but it shares `EmacsState.last_kill_word_killed`), `C-w` / `M-w` on a
      selection of any `SelectionType` (started through `Buffer.start_selection`), and the
      shift-selection bindings of `load_emacs_shift_selection_bindings` (s-left / s-right start and
      extend a selection; then `C-w`, `M-w`, `backspace`, `C-y` or a typed character);
    * Vi mode: `cc` / `S` (`_change_current_line`).

  `stepX` / `vstepX` delegate every other command to `step` / `vstep`.
-/
import Ptk.Model.C09Vi
namespace Ptk.C09
open Ptk.Py

/-! ### binding pins: the keys the correspondence types are bound to the commands modelled here

    (regenerated from `load_basic_bindings` / `load_emacs_bindings` /
    `load_emacs_shift_selection_bindings` / `load_vi_bindings` on every run; a key that is rebound to
    another command breaks the build at these lines) -/
example : Gen.C09.emacsKeyCommands =
    [("c-k", "basic:kill-line"), ("c-u", "basic:unix-line-discard"), ("escape d", "emacs:kill-word"),
     ("c-delete", "basic:delete-char,emacs:kill-word"), ("c-w", "basic:unix-word-rubout,emacs:_cut"),
     ("escape c-h", "emacs:backward-kill-word"), ("c-y", "emacs:yank,shift:_yank"),
     ("escape y", "emacs:yank-pop"), ("c-f", "emacs:forward-char"), ("c-b", "emacs:backward-char"),
     ("c-@", "emacs:_start_selection"), ("escape w", "emacs:_copy"),
     ("s-left", "shift:_start_selection,shift:_extend_selection"),
     ("s-right", "shift:_start_selection,shift:_extend_selection"),
     ("c-h", "basic:backward-delete-char,shift:_delete"), ("escape", "emacs:_esc"),
     ("delete", "basic:delete-char,basic:_cut")] := by decide

example : Gen.C09.viKeyHandlers =
    [("x", "_cut,_delete"), ("X", "_delete_before_cursor"), ("s", "_substitute"),
     ("D", "_delete_until_end_of_line"), ("C", "_change_until_end_of_line"), ("d d", "_delete_line"),
     ("y y", "_yank_line"), ("Y", "_yank_line"), ("c c", "_change_current_line"), ("S", "_change_current_line"),
     ("p", "_paste"), ("P", "_paste_before"), ("\" <any> p", "_paste_register"),
     ("\" <any> P", "_paste_register_before"), ("v", "_visual,_visual2"), ("V", "_visual_line,_visual_line2"),
     ("c-v", "quoted-insert,_visual_block,_visual_block2")] := by decide

/-! ### PyperclipClipboard -/

/-- `PyperclipClipboard`: `self._data` and the system clipboard cell (`pyperclip.copy/paste`) -/
structure PyClip where
  data : Option Clip
  sys : Text
deriving Repr, DecidableEq

def PyClip.init (sys : Text) : PyClip := { data := none, sys := sys }

/-- `PyperclipClipboard.set_data` -/
def PyClip.setData (p : PyClip) (d : Clip) : PyClip := { data := some d, sys := d.text }

/-- the type given to text that was not copied by us: LINES iff it contains a newline -/
def inferClip (x : Text) : Clip := { text := x, ty := if x.contains '\n' then .lines else .chars }

/-- `PyperclipClipboard.get_data` -/
def PyClip.getData (p : PyClip) : Clip :=
  match p.data with
  | some d => if d.text = p.sys then d else inferClip p.sys
  | none => inferClip p.sys

/-- another program copies `x` to the system clipboard -/
def PyClip.external (p : PyClip) (x : Text) : PyClip := { p with sys := x }

/-- `Clipboard.rotate` (not overridden by `PyperclipClipboard`): nothing -/
def PyClip.rotate (p : PyClip) : PyClip := p

/-! ### DynamicClipboard over a family of in-memory clipboards -/

/-- the clipboards the callable can return (each with its `max_size`), and which one it returns
    now (`none` = the callable returns `None`: a fresh `DummyClipboard` is used) -/
structure DynClip where
  rings : List (Nat × Ring)
  cur : Option Nat
deriving Repr, DecidableEq

def DynClip.setData (c : DynClip) (d : Clip) : DynClip :=
  match c.cur with
  | none => c
  | some i => { c with rings := c.rings.modify i fun p => (p.1, C09.setData p.1 p.2 d) }

def DynClip.getData (c : DynClip) : Clip :=
  match c.cur with
  | none => Clip.empty
  | some i => match c.rings[i]? with
    | some p => C09.getData p.2
    | none => Clip.empty

def DynClip.rotate (c : DynClip) : DynClip :=
  match c.cur with
  | none => c
  | some i => { c with rings := c.rings.modify i fun p => (p.1, C09.rotate p.2) }

/-! ### Emacs: c-delete, typed regions, shift selection -/

inductive ShiftAct
  | cw | mw | bs | cy | ins (c : Char)
deriving Repr, DecidableEq

inductive ECmd
  | base (c : Cmd)
  /-- `c-delete` -/
  | killWordC
  /-- `delete` (delete-char): removes text without touching the ring -/
  | deleteChar
  /-- harness: cursor := a, `Buffer.start_selection(ty)`, cursor := b, then `C-w` / `M-w` -/
  | regionTy (a b : Nat) (kill : Bool) (ty : SelType)
  /-- harness: cursor := a, then `k` times s-right (`k > 0`) or `-k` times s-left, then the action -/
  | shiftSel (a : Nat) (k : Int) (act : ShiftAct)
deriving Repr, DecidableEq

/-- `n` presses of forward-char (`dir = 1`) / backward-char (`dir = -1`) -/
def moveN (b : Buf) (dir : Int) : Nat → Buf
  | 0 => b
  | n + 1 => moveN (moveRight b dir) dir n

/-- the selection that `k` shift-arrow presses from the cursor of `b0` leave: the cursor after the
    moves, and whether a (non-empty) selection anchored at `b0.cur` is active -/
def shiftMoves (b0 : Buf) (k : Int) : Buf := moveN b0 (if k < 0 then -1 else 1) k.natAbs

def stepX (reSpace : Char → Bool) (max : Nat) (s : St) (arg : Arg) (cmd : ECmd) : St :=
  match cmd with
  | .base c => step reSpace max s arg c
  | .killWordC =>
    let k := killWordK reSpace s.buf arg.val
    let isRep : Bool := arg = .none ∧ s.prev = .killWordC
    { applyKill max s k (if isRep ∧ s.kwKilled then .fwd else .no) .killWordC with kwKilled := k.push }
  | .deleteChar =>
    let n := arg.val
    let r := if n < 0 then deleteBefore s.buf (-n).toNat else delete s.buf n
    { s with buf := r.1, dbp := touch s.buf s.dbp r.1, prev := .other }
  | .regionTy a b kill ty =>
    let b1 := setCursor s.buf a
    let b2 := setCursor b1 b
    let r := cutSelection s.buf.text b2.cur b1.cur ty false
    let bEnd := if kill then r.1 else b2
    { s with
      buf := bEnd
      ring := setData max s.ring r.2
      dbp := if b1 = s.buf ∧ b2 = b1 ∧ bEnd = b2 then s.dbp else none
      prev := .other }
  | .shiftSel a k act =>
    let b0 := setCursor s.buf a
    let b1 := shiftMoves b0 k
    let s0 : St := { s with buf := b0, dbp := touch s.buf s.dbp b0, prev := if k = 0 then s.prev else .other }
    if b1.cur = b0.cur then
      -- no selection (empty text, or the cursor could not move): the keys have their usual meaning
      match act with
      | .cw => step reSpace max s0 .none .wordRubout
      | .mw => { s0 with buf := insertText b0 ['w'], dbp := none, prev := .other }
      | .bs =>
        let r := deleteBefore b0 1
        { s0 with buf := r.1, dbp := touch b0 s0.dbp r.1, prev := .other }
      | .cy => step reSpace max s0 .none .yank
      | .ins c => step reSpace max s0 .none (.ins c)
    else
      let r := cutRegion b0.text b0.cur b1.cur
      match act with
      | .cw => { s with buf := r.1, ring := setText max s.ring r.2, dbp := none, prev := .other }
      | .mw => { s with buf := b1, ring := setText max s.ring r.2, dbp := none, prev := .other }
      | .bs => { s with buf := r.1, dbp := none, prev := .other }
      | .cy => { s with buf := pasteBuf r.1 (getData s.ring) .emacs 1, dbp := some r.1, prev := .other }
      | .ins c => { s with buf := insertText r.1 [c], dbp := none, prev := .other }

def runX (reSpace : Char → Bool) (max : Nat) (s : St) (ops : List (Arg × ECmd)) : St :=
  ops.foldl (fun s op => stepX reSpace max s op.1 op.2) s

/-! ### Vi: cc / S -/

inductive VCmdX
  | base (c : VCmd)
  /-- `cc` / `S` followed by Escape -/
  | cc
deriving Repr, DecidableEq

/-- `s.lstrip()` for the runtime class `str.isspace` -/
def lstripSp (isSp : Char → Bool) : Text → Text
  | [] => []
  | c :: cs => if isSp c then lstripSp isSp cs else c :: cs

def vstepX (isSp : Char → Bool) (max : Nat) (s : VSt) (count : Option Nat) (cmd : VCmdX) : VSt :=
  match cmd with
  | .base c => vstep max s count c
  | .cc =>
    let b := if count.isSome then fixNav s.buf else s.buf
    let line := lineBefore b ++ lineAfter b
    -- "We copy the whole line."
    let ring := setData max s.ring { text := line, ty := .lines }
    -- "But we delete after the whitespace": cursor += get_start_of_line_position(after_whitespace=True)
    let ws := line.length - (lstripSp isSp line).length
    let b1 : Buf := { b with cur := b.cur - col b + ws }
    let r := delete b1 (lineAfter b1).length
    { s with buf := escInsert r.1, ring := ring }

/-! ### `Document.cut_selection` as an API call, followed by the paste-back at the cut cursor -/

/-- `list(Document.selection_ranges())` as Python prints it: the bounds are `int`s — the upper bound of
    a LINES range is `-1` for the empty text in Emacs mode (`len(text) - 1`); everywhere else they
    are the natural numbers of `selectionRanges` -/
def selectionRangesI (t : Text) (cur orig : Nat) (ty : SelType) (vi : Bool) : List (Int × Int) :=
  match ty with
  | .lines =>
    let lo := min cur orig
    [(((lo - col { text := t, cur := lo } : Nat) : Int), linesEndI t (max cur orig) vi)]
  | _ => (selectionRanges t cur orig ty vi).map fun p => ((p.1 : Int), (p.2 : Int))

def cutApi (t : Text) (cur orig : Nat) (ty : SelType) (vi : Bool) : Buf × Clip :=
  cutSelection t cur orig ty vi

end Ptk.C09
