/-
  C05 — the mode-skeleton model instantiated with the binding table regenerated from the running
  code (Ptk/Gen/C05Bindings.lean) and the hand-written atom / handler tables.
-/
import Ptk.Model.C05SkelTable
import Ptk.Gen.C05Bindings
namespace Ptk.C05
namespace Skel

/-- the table the theorems are instantiated with: the generated bindings; the i-th atom / handler of
    the generated (sorted) name lists is evaluated / classified by the i-th entry of the hand-written
    tables (`Props/C05Skel`: `atom_names_pin`, `handler_names_pin` prove that the names agree) -/
def genTbl : Tbl :=
  { bindings := Gen.C05.bindings, atoms := atomTable.map (·.2), classes := handlerTable.map (·.2.1),
    anyKey := Gen.C05.anyKey, enterKey := Gen.C05.enterKey }

def lookupD {α : Type} (d : α) (l : List (String × α)) (n : String) : α :=
  match l.find? (·.1 == n) with
  | some (_, v) => v
  | none => d

/-- the same table resolved by NAME (used by the driver, so that the correspondence stays aligned
    when the source gains or loses a handler; equal to `genTbl` when the two pins hold) -/
def genTblByName : Tbl :=
  { bindings := Gen.C05.bindings,
    atoms := Gen.C05.atomNames.map (lookupD Atom.env atomTable),
    classes := Gen.C05.handlerNames.map (fun n => (lookupD (HClass.unknown, "") handlerTable n).1),
    anyKey := Gen.C05.anyKey, enterKey := Gen.C05.enterKey }

end Skel
end Ptk.C05
