/-
  C17 (fifth layer) — the type-ahead store as a map keyed by `input.typeahead_hash()`, and several
  input objects (each with at most one running application) sharing it.

  Code followed (as it is now):
    * input/typeahead.py: `_buffer: dict[str, list[KeyPress]] = defaultdict(list)`,
      `store_typeahead(input_obj, key_presses)` (`_buffer[input_obj.typeahead_hash()].extend(…)`),
      `get_typeahead(input_obj)` (`result = _buffer[key]; _buffer[key] = []; return result`),
      `clear_typeahead`;
    * input/vt100.py `Vt100Input.typeahead_hash` (`f"fd-{self._fileno}"`), input/posix_pipe.py
      (`f"pipe-input-{self._id}"`), input/base.py `DummyInput` (`f"dummy-{id(self)}"`): the name under
      which an input object files its type-ahead — here an opaque `Hash`;
    * application.py `run_async` exactly as in `Ptk.Model.C17` (`get_typeahead(self.input)` at the
      start, `store_typeahead(self.input, key_processor.empty_queue())` at the end of the exit path),
      but with `self.input` one of several input objects.

  `Sys.step` is written out against the shared store; `Props.C17Store.proj_step_same/_other` prove
  that every input object, looked at on its own, runs exactly the one-input machine of
  `Ptk.Model.C17` and is not influenced by what happens on the others.
-/
import Ptk.Model.C17
namespace Ptk.C17.Store
open Ptk.C17

/-- `input.typeahead_hash()` -/
abbrev Hash := Nat

/-- a `dict` with a default for missing keys, in insertion order -/
abbrev Dict (α : Type) := List (Hash × α)

/-- `d[h]` of a `defaultdict` / `.get(h, dflt)` -/
def getD {α : Type} (d : Dict α) (h : Hash) (dflt : α) : α :=
  match d with
  | [] => dflt
  | e :: d => if e.1 = h then e.2 else getD d h dflt

/-- `d[h] = v` -/
def put {α : Type} (d : Dict α) (h : Hash) (v : α) : Dict α :=
  match d with
  | [] => [(h, v)]
  | e :: d => if e.1 = h then (h, v) :: d else e :: put d h v

/-- `typeahead._buffer` -/
abbrev Buf := Dict (List Key)

/-- `store_typeahead`: `_buffer[key].extend(key_presses)` -/
def storeTypeahead (b : Buf) (h : Hash) (ks : List Key) : Buf := put b h (getD b h [] ++ ks)

/-- `get_typeahead`: `result = _buffer[key]; _buffer[key] = []; return result` -/
def getTypeahead (b : Buf) (h : Hash) : List Key × Buf := (getD b h [], put b h [])

/-- `clear_typeahead` -/
def clearTypeahead (b : Buf) (h : Hash) : Buf := put b h []

/-- several input objects and the one store; the `typeahead` field of a slot is not used (it stays
    `[]`): the type-ahead of input `h` is `getD buf h []` -/
structure Sys where
  buf : Buf
  slots : Dict C17.St

def Sys.init : Sys := ⟨[], []⟩

/-- the input object `h` with its application (a fresh one with a `DummyOutput` if never used) -/
def Sys.slot (y : Sys) (h : Hash) : C17.St := getD y.slots h (C17.St.init false)

/-- the end of the exit path on input `h`: `store_typeahead(self.input, key_processor.empty_queue())` -/
def leaveOn (y : Sys) (h : Hash) (f : Key) : Sys :=
  let s := y.slot h
  { buf := storeTypeahead y.buf h (dropCpr s.kp.queue)
    slots := put y.slots h ({ s with running := false, exiting := false,
                                     results := s.results ++ [(s.kp.applied, f)], kp := idleKP }) }

/-- one event on input object `h` (the events of `Ptk.Model.C17`) -/
def Sys.step (y : Sys) (h : Hash) : C17.Ev → Sys
  | .write c =>
    let s := y.slot h
    { y with slots := put y.slots h ({ s with pipe := s.pipe ++ c }) }
  | .start =>
    let s := y.slot h
    if s.running || s.exiting then y
    else
      -- self.key_processor.feed_multiple(get_typeahead(self.input)); self.key_processor.process_keys()
      let g := getTypeahead y.buf h
      let kp0 := processKeys ⟨g.1, none, [], 0, 0⟩
      let ask := s.responds && kp0.queue.isEmpty && kp0.done.isNone
      { buf := g.2
        slots := put y.slots h ({ s with running := true, kp := { kp0 with waiting := if ask then 1 else 0 } }) }
  | .read n =>
    let s := y.slot h
    if !s.running && !(s.exiting && 0 < s.kp.waiting) then y
    else
      let s' : C17.St :=
        { s with pipe := s.pipe.drop n
                 kp := processKeys { s.kp with queue := s.kp.queue ++ s.pipe.take n } }
      { y with slots := put y.slots h s' }
  | .finish =>
    let s := y.slot h
    match s.running, s.kp.done with
    | true, some f =>
      if s.responds && 0 < s.kp.waiting then
        { y with slots := put y.slots h ({ s with running := false, exiting := true }) }
      else leaveOn y h f
    | _, _ => y
  | .endWait =>
    let s := y.slot h
    match s.exiting, s.kp.done with
    | true, some f => leaveOn y h f
    | _, _ => y

def Sys.run (y : Sys) : List (Hash × C17.Ev) → Sys
  | [] => y
  | e :: es => Sys.run (y.step e.1 e.2) es

/-- the events of a schedule that concern input `h` -/
def eventsOf (h : Hash) : List (Hash × C17.Ev) → List C17.Ev
  | [] => []
  | e :: es => if e.1 = h then e.2 :: eventsOf h es else eventsOf h es

/-- input object `h` seen on its own: its slot, with its entry of the store as `typeahead` -/
def Sys.proj (y : Sys) (h : Hash) : C17.St := { y.slot h with typeahead := getD y.buf h [] }

end Ptk.C17.Store
