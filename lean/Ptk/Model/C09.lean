/-
  C09 — kill / cut fidelity: model of

    * the kill ring  `clipboard/in_memory.py  InMemoryClipboard`  (set_data / get_data / rotate),
    * `Buffer.delete`, `Buffer.delete_before_cursor`                      (buffer.py),
    * `Document.paste_clipboard_data` for CHARACTERS / LINES / BLOCK data in the three paste
      modes, and `Buffer.paste_clipboard_data` with `document_before_paste` (document.py, buffer.py),
    * the word scanners `find_next_word_ending`, `find_previous_word_ending`,
      `find_start_of_previous_word`                                       (document.py),
    * the Emacs kill / yank commands of `key_binding/bindings/named_commands.py`
      (kill-line, unix-line-discard, kill-word, unix-word-rubout, backward-kill-word, yank,
      yank-pop) with `event.arg` and `event.is_repeat`, and the region commands of
      `key_binding/bindings/emacs.py` (C-@ … C-w / M-w).

  The Vi side (x X s D dd yy p P "ap, visual y/d/x, named registers) is in `Model/C09Vi.lean`.

  The model follows /repo including the fix commits found by this check:
    a2fc709  kill-word: a repeat appends only when the previous kill-word killed something
             (`EmacsState.last_kill_word_killed`, here `St.kwKilled`),
    3d7917f  vi `dd` keeps empty first / last lines; linewise operators store one empty line,
    0c4b424  `Document.cut_selection` strips only the newline that terminates the last selected line,
    45b8a77  operators on a visual BLOCK selection include the column under the cursor,
    0ae97d1  (found by C05) `paste_clipboard_data` with a count `≤ 0` returns the document unchanged.
  Kept as it is in the code (observed, not part of C09): kill-word with a NEGATIVE argument passes a
  negative count to `Buffer.delete`, which removes `text_after_cursor[:-k]` (forward) — unless the
  probe `Gen.C09.killWordNegFixed` finds the repair proposed by C01 in the tree (then it kills backward).

  Conventions: `reSpace` models regex `\s` (runtime, parameter).  Core Lean only.
-/
import Ptk.Py
import Ptk.Gen.C09
namespace Ptk.C09
open Ptk.Py

/-! ### pattern pins: the scanners below are written for exactly these patterns -/
example : Gen.C09.findWordRe = "([a-zA-Z0-9_]+|[^a-zA-Z0-9_\\s]+)" := by decide
example : Gen.C09.findBigWordRe = "([^\\s]+)" := by decide
example : Gen.C09.findWordReFlags = 32 ∧ Gen.C09.findBigWordReFlags = 32 := by decide

/-! ### clipboard data and the kill ring -/

/-- `selection.SelectionType` -/
inductive SelType
  | chars | lines | block
deriving Repr, DecidableEq

/-- `clipboard.base.ClipboardData` -/
structure Clip where
  text : Text
  ty : SelType
deriving Repr, DecidableEq

/-- `ClipboardData()` -/
def Clip.empty : Clip := { text := [], ty := .chars }

/-- `InMemoryClipboard._ring`, newest first -/
abbrev Ring := List Clip

/-- `InMemoryClipboard.set_data`: `appendleft`, then `pop()` from the right while too long. -/
def setData (max : Nat) (r : Ring) (d : Clip) : Ring := (d :: r).take max

/-- `Clipboard.set_text` -/
def setText (max : Nat) (r : Ring) (t : Text) : Ring := setData max r { text := t, ty := .chars }

/-- `InMemoryClipboard.get_data` -/
def getData : Ring → Clip
  | [] => Clip.empty
  | d :: _ => d

/-- `InMemoryClipboard.rotate`: the first item goes to the end. -/
def rotate : Ring → Ring
  | [] => []
  | d :: r => r ++ [d]

/-! ### buffer primitives -/

structure Buf where
  text : Text
  cur : Nat
deriving Repr, DecidableEq

/-- `c != '\\n'` (named so that `simp` does not rewrite the lambda) -/
def notNl (c : Char) : Bool := c != '\n'
def isNl (c : Char) : Bool := c == '\n'

def Buf.before (b : Buf) : Text := b.text.take b.cur
def Buf.after (b : Buf) : Text := b.text.drop b.cur

/-- `Document.current_line_before_cursor` / `current_line_after_cursor` -/
def lineBefore (b : Buf) : Text := (b.before.reverse.takeWhile notNl).reverse
def lineAfter (b : Buf) : Text := b.after.takeWhile notNl

/-- `Document.cursor_position_row` : number of newlines before the cursor -/
def row (b : Buf) : Nat := (b.before.filter isNl).length
/-- `Document.cursor_position_col` -/
def col (b : Buf) : Nat := (lineBefore b).length

/-- length of the Python slice `s[:count]` for `len(s) = n` (negative `count` wraps) -/
def sliceToLen (n : Nat) (count : Int) : Nat :=
  if count < 0 then n - (-count).toNat else min count.toNat n

/-- `Buffer.delete(count)`; `count` may be negative (kill-word passes a negative relative
    position when its numeric argument is negative), then `text_after_cursor[:count]` wraps. -/
def delete (b : Buf) (count : Int) : Buf × Text :=
  if b.cur < b.text.length then
    let deleted := b.after.take (sliceToLen b.after.length count)
    ({ text := b.before ++ b.text.drop (b.cur + deleted.length), cur := b.cur }, deleted)
  else (b, [])

/-- `Buffer.delete_before_cursor(count)` (with the clamp `count = min(count, cursor)`). -/
def deleteBefore (b : Buf) (count : Nat) : Buf × Text :=
  if 0 < b.cur then
    let count := min count b.cur
    let deleted := (b.text.take b.cur).drop (b.cur - count)
    ({ text := b.text.take (b.cur - count) ++ b.text.drop b.cur, cur := b.cur - deleted.length }, deleted)
  else (b, [])

/-- `Buffer.cursor_position = v` : clamped to `0..len(text)` -/
def setCursor (b : Buf) (v : Int) : Buf := { b with cur := min v.toNat b.text.length }

/-- `Buffer.insert_text(data)` (no overwrite, cursor moves) -/
def insertText (b : Buf) (data : Text) : Buf :=
  { text := b.before ++ data ++ b.after, cur := b.cur + data.length }

/-! ### paste -/

/-- `selection.PasteMode` -/
inductive PasteMode
  | emacs | viBefore | viAfter
deriving Repr, DecidableEq

/-- `s * count` (empty for `count ≤ 0`) -/
def rep (t : Text) (count : Int) : Text := repeatText t count.toNat

/-- `s.ljust(n)` -/
def ljust (t : Text) (n : Nat) : Text := t ++ List.replicate (n - t.length) ' '

/-- the loop of the BLOCK branch: data line `i` goes into buffer line `start_line + i` at
    `start_column` (the line is padded with spaces first; a missing line is appended) -/
def blockGo (scol : Nat) (count : Int) : List Text → Nat → List Text → List Text
  | [], _, lines => lines
  | dl :: rest, idx, lines =>
    let lines := if idx ≥ lines.length then lines ++ [[]] else lines
    let lines := lines.modify idx fun ln =>
      let ln := ljust ln scol
      ln.take scol ++ rep dl count ++ ln.drop scol
    blockGo scol count rest (idx + 1) lines

/-- sum of the lengths of the first `k` lines: `len("".join(lines[:k]))` -/
def lenSum (ls : List Text) : Nat := (ls.map List.length).sum

/-- `Document.paste_clipboard_data(data, paste_mode, count)`: the new text and the new cursor
    position handed to `Document(...)`.  A count `≤ 0` returns the document itself. -/
def pasteRaw (b : Buf) (d : Clip) (mode : PasteMode) (count : Int) : Text × Int :=
  -- "Nothing to paste for a zero or negative repetition argument": `return self`
  if count ≤ 0 then (b.text, (b.cur : Int)) else
  match d.ty with
  | .chars =>
    let ins := rep d.text count
    let newText :=
      if mode = .viAfter then b.text.take (b.cur + 1) ++ ins ++ b.text.drop (b.cur + 1)
      else b.before ++ ins ++ b.after
    let nc : Int := (b.cur : Int) + (d.text.length : Int) * count
    (newText, if mode = .viBefore then nc - 1 else nc)
  | .lines =>
    let lines := splitOn '\n' b.text
    let l := row b
    if mode = .viBefore then
      (join ['\n'] (lines.take l ++ List.replicate count.toNat d.text ++ lines.drop l),
       ((lenSum (lines.take l) + l : Nat) : Int))
    else
      (join ['\n'] (lines.take (l + 1) ++ List.replicate count.toNat d.text ++ lines.drop (l + 1)),
       ((lenSum (lines.take (l + 1)) + l + 1 : Nat) : Int))
  | .block =>
    let lines := splitOn '\n' b.text
    let scol := col b + (if mode = .viBefore then 0 else 1)
    let lines := blockGo scol count (splitOn '\n' d.text) (row b) lines
    (join ['\n'] lines, (b.cur : Int) + (if mode = .viBefore then 0 else 1))

/-- `Document.__init__` asserts `cursor_position <= len(text)` -/
def pasteOk (r : Text × Int) : Bool := r.2 ≤ (r.1.length : Int)

/-- the buffer after `buffer.document = document.paste_clipboard_data(...)`
    (`_set_cursor_position` clamps a negative position to 0) -/
def pasteBuf (b : Buf) (d : Clip) (mode : PasteMode) (count : Int) : Buf :=
  let r := pasteRaw b d mode count
  { text := r.1, cur := r.2.toNat }

/-! ### word scanners (`_FIND_WORD_RE` / `_FIND_BIG_WORD_RE` `.finditer`) -/

def isWordChar (c : Char) : Bool := c.isAlphanum || c = '_'

/-- character class under the pattern: 0 = reMatches nothing, 1 = first alternative
    (`[a-zA-Z0-9_]`, or `[^\s]` for WORD), 2 = second alternative (`[^a-zA-Z0-9_\s]`) -/
def cls (reSpace : Char → Bool) (WORD : Bool) (c : Char) : Nat :=
  if WORD then (if reSpace c then 0 else 1)
  else if isWordChar c then 1 else if reSpace c then 0 else 2

/-- all reMatches `(start, end)` of the pattern in `t` (leftmost, greedy, non-overlapping);
    `i` = index of the head of `t`, `open_` = class and start of the run being extended -/
def scan (cl : Char → Nat) : Text → Nat → Option (Nat × Nat) → List (Nat × Nat)
  | [], _, none => []
  | [], i, some (_, st) => [(st, i)]
  | c :: cs, i, none =>
    if cl c = 0 then scan cl cs (i + 1) none else scan cl cs (i + 1) (some (cl c, i))
  | c :: cs, i, some (k, st) =>
    if cl c = k then scan cl cs (i + 1) (some (k, st))
    else (st, i) :: (if cl c = 0 then scan cl cs (i + 1) none
                     else scan cl cs (i + 1) (some (cl c, i)))

def reMatches (reSpace : Char → Bool) (WORD : Bool) (t : Text) : List (Nat × Nat) :=
  scan (cls reSpace WORD) t 0 none

/-- `Document.find_previous_word_ending(count)` for `count > 0` -/
def findPrevWordEnding (reSpace : Char → Bool) (b : Buf) (count : Nat) (WORD : Bool) : Option Int :=
  let t := b.after.take 1 ++ b.before.reverse
  let ms := reMatches reSpace WORD t
  -- "take first match, unless it's the word on which we're right now": count += 1
  let count := match ms with
    | (0, _) :: _ => count + 1
    | _ => count
  match count with
  | 0 => none
  | k + 1 => ms[k]?.map fun m => -(m.1 : Int) + 1

/-- `Document.find_next_word_ending(count=count)` (include_current_position = False) -/
def findNextWordEnding (reSpace : Char → Bool) (b : Buf) (count : Int) (WORD : Bool := false) : Option Int :=
  if count < 0 then findPrevWordEnding reSpace b (-count).toNat WORD
  else
    match count.toNat with
    | 0 => none
    | k + 1 => (reMatches reSpace WORD (b.after.drop 1))[k]?.map fun m => (m.2 : Int) + 1

/-- `Document.find_start_of_previous_word(count, WORD)` -/
def findStartOfPrevWord (reSpace : Char → Bool) (b : Buf) (count : Int) (WORD : Bool) : Option Int :=
  if count ≤ 0 then none
  else match count.toNat with
    | 0 => none
    | k + 1 => (reMatches reSpace WORD b.before.reverse)[k]?.map fun m => -(m.2 : Int)

/-! ### the Emacs kill commands (named_commands.py) on the buffer

    A `Kill` records what the command did to the buffer: the buffer afterwards, the string
    returned by `Buffer.delete` / `delete_before_cursor`, and whether `clipboard.set_text`
    is reached. -/

structure Kill where
  buf : Buf
  removed : Text
  push : Bool
deriving Repr, DecidableEq

def Kill.ofDel (r : Buf × Text) (push : Bool := true) : Kill := { buf := r.1, removed := r.2, push := push }
def Kill.nothing (b : Buf) : Kill := { buf := b, removed := [], push := false }

/-- `kill-line` -/
def killLineK (b : Buf) (arg : Int) : Kill :=
  if arg < 0 then Kill.ofDel (deleteBefore b (lineBefore b).length)
  else if b.text[b.cur]? = some '\n' then Kill.ofDel (delete b 1)
  else Kill.ofDel (delete b (lineAfter b).length)

/-- `kill-word`.  With a negative argument `pos` is negative: the code as it is passes it to
    `Buffer.delete`; after proposed_fixes/C01-kill-word-negative-arg.diff it kills backward with
    `delete_before_cursor(-pos)`.  Which of the two the tree does is probed on every run
    (`Gen.C09.killWordNegFixed`). -/
def killWordK (reSpace : Char → Bool) (b : Buf) (arg : Int) : Kill :=
  match findNextWordEnding reSpace b arg with
  | some pos =>
    if pos ≠ 0 then
      if Gen.C09.killWordNegFixed = true ∧ pos < 0 then Kill.ofDel (deleteBefore b (-pos).toNat)
      else Kill.ofDel (delete b pos)
    else Kill.nothing b
  | none => Kill.nothing b

/-- `unix-word-rubout` (WORD = True) / `backward-kill-word` (WORD = False) -/
def ruboutK (reSpace : Char → Bool) (b : Buf) (arg : Int) (WORD : Bool) : Kill :=
  let pos : Int := (findStartOfPrevWord reSpace b arg WORD).getD (-(b.cur : Int))
  if pos ≠ 0 then Kill.ofDel (deleteBefore b (-pos).toNat) else Kill.nothing b

/-- `unix-line-discard`; at column 0 (not at the start of the buffer) it removes the newline
    before the cursor and does NOT touch the clipboard. -/
def lineDiscardK (b : Buf) : Kill :=
  if col b = 0 ∧ 0 < b.cur then Kill.ofDel (deleteBefore b 1) false
  else Kill.ofDel (deleteBefore b (lineBefore b).length)

/-! ### editor state for the Emacs commands -/

/-- identity of the handler that processed the previous key (`KeyProcessor._previous_handler`),
    as far as `event.is_repeat` of the word-kill commands can see it -/
inductive Handler
  | killWord | rubout | backKill | other
  /-- `c-delete`, the second key bound to kill-word (a Binding object of its own; `Model/C09Ext.lean`) -/
  | killWordC
deriving Repr, DecidableEq

structure St where
  buf : Buf
  ring : Ring
  /-- `Buffer.document_before_paste` -/
  dbp : Option Buf
  prev : Handler
  /-- `EmacsState.last_kill_word_killed`: the most recent kill-word put text on the clipboard -/
  kwKilled : Bool := false
deriving Repr, DecidableEq

/-- the readline numeric argument as typed: nothing, `M--`, or `M-<digits>` / `M-- <digits>` -/
inductive Arg
  | none | dash | num (i : Int)
deriving Repr, DecidableEq

/-- `KeyPressEvent.arg` -/
def Arg.val : Arg → Int
  | .none => 1
  | .dash => -1
  | .num i => if i ≥ 1000000 then 1 else i

/-- how a repeated kill combines with the top of the ring -/
inductive Acc
  | no | fwd | bwd
deriving Repr, DecidableEq

/-- `_text_changed` / `_cursor_position_changed` clear `document_before_paste` -/
def touch (old : Buf) (dbp : Option Buf) (new : Buf) : Option Buf :=
  if new = old then dbp else none

/-- the clipboard part of a kill command: `deleted` (combined with the current top when the
    command is a repeat) goes on the ring -/
def pushKill (max : Nat) (r : Ring) (k : Kill) (acc : Acc) : Ring :=
  if k.push then
    match acc with
    | .no => setText max r k.removed
    | .fwd => setText max r ((getData r).text ++ k.removed)
    | .bwd => setText max r (k.removed ++ (getData r).text)
  else r

def applyKill (max : Nat) (s : St) (k : Kill) (acc : Acc) (h : Handler) : St :=
  { s with buf := k.buf, ring := pushKill max s.ring k acc, dbp := touch s.buf s.dbp k.buf, prev := h }

/-- `Buffer.paste_clipboard_data(data, paste_mode, count)` -/
def pasteSt (s : St) (d : Clip) (mode : PasteMode) (count : Int) : St :=
  { s with buf := pasteBuf s.buf d mode count, dbp := some s.buf }

/-- `yank` -/
def yank (s : St) (arg : Int) : St :=
  { pasteSt s (getData s.ring) .emacs arg with prev := .other }

/-- `yank-pop` -/
def yankPop (s : St) : St :=
  match s.dbp with
  | none => { s with prev := .other }
  | some d =>
    let r := rotate s.ring
    { s with buf := pasteBuf d (getData r) .emacs 1, ring := r, dbp := some d, prev := .other }

/-- `Document.cut_selection` for an Emacs (CHARACTERS, upper bound excluded) selection
    between `a` and `b`: remaining document and the cut text -/
def cutRegion (t : Text) (a b : Nat) : Buf × Text :=
  let from_ := min a b
  let to := max a b
  ({ text := t.take from_ ++ t.drop to, cur := from_ }, (t.take to).drop from_)

/-- Keys of the Emacs correspondence. -/
inductive Cmd
  | killLine | lineDiscard | killWord | wordRubout | backKillWord | yank | yankPop
  | fwdChar | bwdChar
  | ins (c : Char)
  /-- harness: `buffer.cursor_position = n`, then a lone Escape (handled by `_esc`) -/
  | goto (n : Nat)
  /-- harness: cursor := a, `C-@`, cursor := b, then `C-w` (kill) or `M-w` (copy) -/
  | region (a b : Nat) (kill : Bool)
deriving Repr, DecidableEq

/-- `forward-char` / `backward-char`: stay on the current line -/
def moveRight (b : Buf) (count : Int) : Buf :=
  if count < 0 then { b with cur := b.cur - min (col b) (-count).toNat }
  else { b with cur := b.cur + min count.toNat (lineAfter b).length }

def step (reSpace : Char → Bool) (max : Nat) (s : St) (arg : Arg) (cmd : Cmd) : St :=
  let n := arg.val
  -- a numeric argument is typed through its own key bindings: the previous handler is then
  -- the digit handler, so `event.is_repeat` is False
  let isRep (h : Handler) : Bool := arg = .none ∧ s.prev = h
  match cmd with
  | .killLine => applyKill max s (killLineK s.buf n) .no .other
  | .lineDiscard => applyKill max s (lineDiscardK s.buf) .no .other
  | .killWord =>
    -- a repeated kill-word appends to the previous kill only when the previous kill-word killed
    let k := killWordK reSpace s.buf n
    { applyKill max s k (if isRep .killWord ∧ s.kwKilled then .fwd else .no) .killWord with
      kwKilled := k.push }
  | .wordRubout =>
    applyKill max s (ruboutK reSpace s.buf n true) (if isRep .rubout then .bwd else .no) .rubout
  | .backKillWord =>
    applyKill max s (ruboutK reSpace s.buf n false) (if isRep .backKill then .bwd else .no) .backKill
  | .yank => yank s n
  | .yankPop => yankPop s
  | .fwdChar =>
    let b := moveRight s.buf n
    { s with buf := b, dbp := touch s.buf s.dbp b, prev := .other }
  | .bwdChar =>
    let b := moveRight s.buf (-n)
    { s with buf := b, dbp := touch s.buf s.dbp b, prev := .other }
  | .ins c =>
    let b := insertText s.buf (rep [c] n)
    { s with buf := b, dbp := touch s.buf s.dbp b, prev := .other }
  | .goto k =>
    let b := setCursor s.buf k
    { s with buf := b, dbp := touch s.buf s.dbp b, prev := .other }
  | .region a b kill =>
    if s.buf.text = [] then
      -- `C-@` starts no selection in an empty buffer; `C-w` is then unix-word-rubout (nothing to
      -- delete) and `M-w` is Escape followed by a self-inserted `w`
      if kill then { s with prev := .rubout }
      else { s with buf := insertText s.buf ['w'], dbp := none, prev := .other }
    else
      let b1 := setCursor s.buf a
      let b2 := setCursor b1 b
      let (b3, cut) := cutRegion s.buf.text b1.cur b2.cur
      let bEnd := if kill then b3 else b2
      { s with
        buf := bEnd
        ring := setText max s.ring cut
        dbp := if b1 = s.buf ∧ b2 = b1 ∧ bEnd = b2 then s.dbp else none
        prev := .other }

def run (reSpace : Char → Bool) (max : Nat) (s : St) (ops : List (Arg × Cmd)) : St :=
  ops.foldl (fun s op => step reSpace max s op.1 op.2) s

end Ptk.C09
