/-
  C10 — displayed content cannot inject control sequences.

  Core model (no Mathlib):
    * `isControl`           the control characters of the property (C0, DEL, C1)
    * `mkCell`              `Char.__init__` of layout/screen.py over ANY display table and ANY
                            wcwidth function (both are parameters; the driver instantiates them
                            with the regenerated `Gen.C10.displayMappings` / `Gen.C10.wcwidth`)
    * `safeWrite`           `Vt100_Output.write` (output/vt100.py): ESC is replaced by '?'
    * `printFrags`          `renderer.print_formatted_text` as a list of tagged output segments

  Further model files: `C10Copy` (`Window._copy_body`), `C10Diff` (`_output_screen_diff`, emitters),
  `C10Tok` (tokenizer), `C10Grammar` (the output grammar as recognisers + greedy parser), `C10Bytes`
  (`_buffer` / `flush` / `flush_stdout` / `encode(…, "replace")`, UTF-8 and code-page codecs, the
  terminal's decoders), `C10Out` (all other emitters, `set_title`, `Renderer.reset/erase`, the
  dumb-terminal prompt, `patch_stdout`, `PlainTextOutput` printing), `C10Gen` (instantiation with the
  regenerated tables).
-/
import Ptk.Py
namespace Ptk.C10
open Ptk.Py

/-- A character of a Python `str` is a CODE POINT: any number below 0x110000, the lone surrogates
    U+D800–U+DFFF included (they reach the display through `os.fsdecode` / `surrogateescape`
    input; Lean's `Char` excludes them).  Displayed content is therefore modelled as a list of
    natural numbers; nothing in the model or the theorems needs the upper bound, so they hold for
    every `Nat`.  Style strings stay `Text` (they are never sent to the terminal). -/
scoped notation "CP" => Nat
scoped notation "CText" => List Nat

/-- is `c` a lone surrogate? -/
def isSurrogate (c : CP) : Bool := 0xD800 ≤ c && c ≤ 0xDFFF

/-- the characters the property calls control characters: C0 (0x00–0x1F), DEL, C1 (0x80–0x9F) -/
def isControl (c : CP) : Bool := c < 0x20 || (0x7f ≤ c && c ≤ 0x9f)

/-- a text without any control character -/
def Clean (t : CText) : Prop := ∀ c ∈ t, isControl c = false

def cleanB (t : CText) : Bool := t.all fun c => !isControl c

def ESC : CP := 27
def NBSP : CP := 160
/-- `'?'` -/
def QM : CP := 63

/-- `Char.display_mappings`: dict from str to str, in dict order -/
abbrev Table := List (CText × CText)

/-- `char in self.display_mappings` / `self.display_mappings[char]` (first match = the dict entry,
    keys of a dict literal are unique; uniqueness is a generated side condition) -/
def lookup : Table → CText → Option CText
  | [], _ => none
  | (k, v) :: rest, s => if k = s then some v else lookup rest s

/-- `get_cwidth(string)` (utils.py `_CharSizesCache.__missing__`): one character →
    `max(0, wcwidth(c))`, otherwise the sum over the characters (which is the same formula). -/
def cwidth (wc : CP → Int) : CText → Nat
  | [] => 0
  | c :: cs => (wc c).toNat + cwidth wc cs


/-! ### decidable side conditions on a display table (re-decided on the regenerated table) -/

/-- code points of the property's control characters: 0x00–0x1F, 0x7F–0x9F -/
def controlCodes : List Nat := List.range 0x20 ++ (List.range 0x21).map (· + 0x7f)

/-- every control character has an entry -/
def coversControls (m : Table) : Bool :=
  controlCodes.all fun n => (lookup m [n]).isSome

/-- no display string contains a control character -/
def valuesPrintable (m : Table) : Bool := m.all fun kv => cleanB kv.2

/-- every display string occupies at least one column (so a mapped character is never
    treated as zero-width and merged raw into the previous cell) -/
def valuesWidthPos (m : Table) (wc : CP → Int) : Bool := m.all fun kv => 0 < cwidth wc kv.2

/-- all keys are single characters (as `Char.display_mappings` is used: `char in mappings`) -/
def keysSingle (m : Table) : Bool := m.all fun kv => kv.1.length == 1

/-- dict keys are unique -/
def keysNodup : Table → Bool
  | [] => true
  | (k, _) :: rest => !(rest.any fun kv => kv.1 == k) && keysNodup rest

/-- a screen cell: `Char.char`, `Char.style`, `Char.width` -/
structure Cell where
  char : CText
  style : Text
  width : Nat
deriving DecidableEq, Repr, Inhabited

def nbspSuffix : Text := " class:nbsp ".toList
def controlSuffix : Text := " class:control-character ".toList

/-- `Char.__init__(char, style)` -/
def mkCell (m : Table) (wc : CP → Int) (s : CText) (style : Text) : Cell :=
  match lookup m s with
  | some v =>
    let style' := if s = [NBSP] then style ++ nbspSuffix else style ++ controlSuffix
    { char := v, style := style', width := cwidth wc v }
  | none => { char := s, style := style, width := cwidth wc s }

/-- `get_display_width(text)` (layout/screen.py): like `get_cwidth`, but control characters count
    with the width of their display string.  `printable` = `str.isprintable` per character (the
    fast path `text.isprintable()` returns `get_cwidth(text)` without consulting the table). -/
def displayWidth (m : Table) (wc : CP → Int) (printable : CP → Bool) (t : CText) : Nat :=
  if t.all printable then cwidth wc t
  else (t.map fun c => cwidth wc ((lookup m [c]).getD [c])).sum

/-- `Vt100_Output.write(data)`: `data.replace("\x1b", "?")` -/
def safeWrite (t : CText) : CText := t.map fun c => if c = ESC then QM else c

/-- `Vt100_Output.write_raw(data)` -/
def rawWrite (t : CText) : CText := t

/-- `str.replace(a, b)` for one-character `a` -/
def replaceChar (a : CP) (b : CText) : CText → CText
  | [] => []
  | c :: cs => (if c = a then b else [c]) ++ replaceChar a b cs

/-- `"[ZeroWidthEscape]" in style` -/
def zweMarker : Text := "[ZeroWidthEscape]".toList
def isZwe (style : Text) : Bool := (findSub? zweMarker style).isSome

/-- where a piece of the output stream comes from -/
inductive Origin
  | gen      -- produced by an emitter of the output object (renderer's own repertoire)
  | genw     -- "\r" / "\r\n"*k written by the renderer itself through `write`
  | content  -- text of a fragment / screen cell, through the escaping writer `write`
  | zwe      -- text explicitly marked `[ZeroWidthEscape]`, through `write_raw`
deriving DecidableEq, Repr

abbrev Seg := Origin × CText

def segsText (l : List Seg) : CText := (l.map (·.2)).flatten

/-- One fragment of `renderer.print_formatted_text`'s loop body.
    `attrsOf` = `attrs_for_style_string[style]` (an id of the `Attrs` tuple), `sgr` = the escape
    code `Vt100_Output.set_attributes` writes for it; `last` = `last_attrs`.
    (`if attrs:` is always true: `Attrs` is a non-empty NamedTuple.) -/
def CR : CP := 13
def LF : CP := 10

def printFrag (attrsOf : Text → Nat) (sgr : Nat → CText) (last : Option Nat)
    (style : Text) (text : CText) : List Seg × Option Nat :=
  let a := attrsOf style
  let pre : List Seg := if some a ≠ last then [(.gen, sgr a)] else []
  let body : Seg :=
    if isZwe style then (.zwe, rawWrite text)
    else (.content, safeWrite (replaceChar LF [CR, LF] (replaceChar CR [] text)))
  (pre ++ [body], some a)

def printLoop (attrsOf : Text → Nat) (sgr : Nat → CText) :
    Option Nat → List (Text × CText) → List Seg
  | _, [] => []
  | last, (style, text) :: rest =>
    let (segs, last') := printFrag attrsOf sgr last style text
    segs ++ printLoop attrsOf sgr last' rest

/-- `renderer.print_formatted_text(output, fragments, style)`: reset, enable autowrap, the loop,
    reset.  `reset` / `autowrap` are the strings the emitters write (generated). -/
def printFrags (attrsOf : Text → Nat) (sgr : Nat → CText) (reset autowrap : CText)
    (frs : List (Text × CText)) : List Seg :=
  [(.gen, reset), (.gen, autowrap)] ++ printLoop attrsOf sgr none frs ++ [(.gen, reset)]

end Ptk.C10
