/-
  C20 — model of `prompt_toolkit.patch_stdout.StdoutProxy` together with the hand-off
  into the application's event loop (`run_in_terminal` / `in_terminal`) and the start / shutdown
  of `Application.run_async` as far as the hand-off depends on it.

  The model is a transition system.  One `Op` = one atomic step of one thread, at the
  granularity of the synchronisation points of the real code:

    writer threads   `write t d`  = `StdoutProxy.write(d)`   (whole body under `self._lock`)
                     `writeBad t` = `StdoutProxy.write(x)` with `x` not a `str` (bytes, None, int ...):
                                    `"\n" in data` raises `TypeError` before anything is touched
                     `flush t`    = `StdoutProxy.flush()`    (whole body under `self._lock`)
                     `close`      = the `_flush_queue.put(_Done())` of `StdoutProxy.close()`
    flush thread     `fl`         = the next section of `_write_thread`:
                                      idle   : `_flush_queue.get()` + the `get_nowait()` drain
                                      batch  : `app_loop = self._get_app_loop()`
                                      ready  : `self._write_and_flush(app_loop, text)`
                                      relook : the `_get_app_loop()` inside the `except RuntimeError`
    event loop       `run`        = the oldest callback accepted by `call_soon_threadsafe` runs:
                                    `run_in_terminal(write_and_flush)` creates a task
                                    (`return ensure_future(run())`); nothing is written yet
                     `task`       = the first step of the oldest task made by `run_in_terminal` (a task's first
                                    step is a loop callback of its own: between `run` and `task` the loop may
                                    run whatever else it has accepted, e.g. the wake-up of `run_async`):
                                    `async with in_terminal(): func()` — with `app._is_running` that is
                                    `erase; write; redraw`, else a plain write
                     `start`      = `Application.run_async` begins: `_is_running = True`, `AppSession.app` and
                                    `app.loop` set, first render
                     `exit`       = `Application.exit()` sets the future's result (`is_done`), `run_async` has
                                    not resumed yet: "exit requested" phase, ended by `stop`
                     `stop`       = `run_async` wakes up from `await f` (after `exit`, or exit and wake-up in
                                    one go): render in done state, `_is_running = False`; then
                                    `cancel_and_wait_for_background_tasks()` cancels every task in
                                    `Application._background_tasks` and `run_async` suspends until they are done:
                                    the "winding down" phase, in which `AppSession.app` and `app.loop` are
                                    still set (`_get_app_loop()` still returns the loop, `in_terminal` sees
                                    `not app._is_running`)
                     `finish`     = `run_async` returns: `set_app` / `set_loop` are left (`AppSession.app = None`,
                                    `app.loop = None`)
                     `newLoop` / `closeLoop` = a fresh event loop is created / the loop is closed
                                              (callbacks that were accepted and tasks that were created but did
                                              not run are dropped)
                     `inval`      = `Application.invalidate()` + the redraw it schedules

  How `run_in_terminal` makes its task is a switch of the model (`St.regTasks`): `false` is the code
  (`ensure_future(run())`: only the loop knows the task); `true` is the variant in which a running
  application registers the task (`app.create_background_task(run())`), used only to show that the
  shutdown of the application then cancels text that was already handed over.

  The chain of `in_terminal` sections (`Application._running_in_terminal_f`) for sections that
  stay open across `await`s is modelled separately in `Ptk.Model.C20Chain`.

  Core Lean only (the driver links this file).
-/
import Ptk.Py
namespace Ptk.C20
open Ptk.Py

/-- what travels through `StdoutProxy._flush_queue` -/
inductive Item where
  | text (s : Text)
  | done
deriving Repr, DecidableEq

/-- everything the `Output` object / the renderer is asked to do, in order -/
inductive Ev where
  /-- `Renderer.render(app, layout)`: the prompt is (re)drawn -/
  | draw
  /-- `Renderer.erase()`: the prompt is removed from the screen -/
  | erase
  /-- `Renderer.render(..., is_done=True)` + `Renderer.reset()` when the application ends -/
  | doneDraw
  /-- one `write_and_flush()`: `enable_autowrap(); write(text) | write_raw(text); flush()` -/
  | out (raw : Bool) (s : Text)
deriving Repr, DecidableEq

/-- program counter and locals of `StdoutProxy._write_thread` -/
inductive Fl where
  /-- in (or before) `self._flush_queue.get()` -/
  | idle
  /-- the queue was drained into `text`; `done` = a `_Done` was seen while draining -/
  | batch (txt : Text) (dn : Bool)
  /-- `app_loop` was looked up (`none` = no application, `some g` = loop number `g`) -/
  | ready (loop : Option Nat) (txt : Text) (dn : Bool)
  /-- `loop.call_soon_threadsafe` raised `RuntimeError` for loop `g` (closed); about to call
      `_get_app_loop()` again -/
  | relook (g : Nat) (txt : Text) (dn : Bool)
  /-- the thread returned -/
  | exited
deriving Repr, DecidableEq

/-- a task made by `run_in_terminal` whose first step has not run yet -/
structure Task where
  /-- the text its `write_and_flush` will write -/
  txt : Text
  /-- the task is in `Application._background_tasks` (made by `app.create_background_task`) -/
  reg : Bool
deriving Repr, DecidableEq

structure St where
  /-- `StdoutProxy.raw` -/
  raw : Bool := false
  /-- switch: `run_in_terminal` registers its task with a running application (NOT the code; see above) -/
  regTasks : Bool := false
  /-- `StdoutProxy._buffer` (list of strings, joined when flushed) -/
  buffer : List Text := []
  /-- `StdoutProxy._flush_queue`, oldest item first -/
  queue : List Item := []
  fl : Fl := .idle
  /-- number of the newest event loop -/
  loopGen : Nat := 0
  /-- the newest event loop exists and is not closed -/
  loopOpen : Bool := false
  /-- `app._is_running` of the `Application` on loop `loopGen` (prompt rendered) -/
  appOn : Bool := false
  /-- `Application.exit()` has set the result of the application's future (`app.is_done`), but
      `run_async` has not woken up yet: `_is_running` is still True, the prompt is still drawn and the final
      ('done') rendering is pending.  (`appOn ∧ exiting` = the "exit requested" phase.) -/
  exiting : Bool := false
  /-- `run_async` has drawn the done state and reset `_is_running`, but has not returned yet (it waits for its
      background tasks): `AppSession.app` is still the application and `app.loop` still the loop -/
  winding : Bool := false
  /-- texts of the callbacks accepted by `loop.call_soon_threadsafe`, not yet run; oldest first -/
  pending : List Text := []
  /-- tasks made by `run_in_terminal` that have not had their first step; oldest first -/
  tasks : List Task := []
  /-- texts of callbacks / tasks that a closing loop dropped or that the application cancelled -/
  lost : List Text := []
  /-- what the terminal side was asked to do, oldest first -/
  log : List Ev := []
deriving Repr, DecidableEq

inductive Op where
  | write (t : Nat) (d : Text)
  | flush (t : Nat)
  | close
  | fl
  | run
  | start
  | stop
  | newLoop
  | closeLoop
  /-- `Application.invalidate()` followed by the scheduled `_redraw()`: the running application
      repaints its prompt (key press, resize, refresh ...) -/
  | inval
  /-- `Application.exit()`: the future gets its result; `run_async` resumes later (`stop`) -/
  | exit
  /-- first step of the oldest task made by `run_in_terminal` -/
  | task
  /-- `run_async` returns -/
  | finish
  /-- `write(x)` with a non-`str` argument -/
  | writeBad (t : Nat)
deriving Repr, DecidableEq

/-- `"".join(parts)` -/
def cat (parts : List Text) : Text := parts.flatten

/-- `data.rsplit("\n", 1)` for data containing a newline: (`before`, `after`);
    `none` iff there is no newline in `data`. -/
def rsplitNl : Text → Option (Text × Text)
  | [] => none
  | c :: cs =>
    match rsplitNl cs with
    | some (b, a) => some (c :: b, a)
    | none => if c = '\n' then some ([], cs) else none

/-- `StdoutProxy._write(data)` on (`_buffer`, `_flush_queue`) -/
def doWrite (s : St) (d : Text) : St :=
  match rsplitNl d with
  | some (before, after) =>
    -- to_write = self._buffer + [before, "\n"]; self._buffer = [after]
    { s with queue := s.queue ++ [.text (cat (s.buffer ++ [before, ['\n']]))], buffer := [after] }
  | none => { s with buffer := s.buffer ++ [d] }

/-- `StdoutProxy._flush()` -/
def doFlush (s : St) : St :=
  { s with queue := s.queue ++ [.text (cat s.buffer)], buffer := [] }

/-- the `get_nowait()` loop of `_write_thread`: every text still in the queue is appended,
    `_Done` only sets the flag (and does not stop the draining) -/
def drain : List Item → Text × Bool
  | [] => ([], false)
  | .text t :: q => let (r, d) := drain q; (t ++ r, d)
  | .done :: q => let (r, _) := drain q; (r, true)

/-- `StdoutProxy._get_app_loop()`: `app = self.app_session.app; None if app is None else app.loop` -/
def appLoop (s : St) : Option Nat := if s.appOn || s.winding then some s.loopGen else none

/-- where `_write_thread` continues after `_write_and_flush` returned -/
def afterEmit (dn : Bool) : Fl := if dn then .exited else .idle

/-- one section of the flush thread -/
def flStep (s : St) : St :=
  match s.fl with
  | .idle =>
    match s.queue with
    | [] => s                                        -- blocked in `get()`
    | .done :: q => { s with queue := q, fl := .exited }   -- `break`
    | .text [] :: q => { s with queue := q }               -- `if not item: continue`
    | .text t :: q =>
      let (r, d) := drain q
      { s with queue := [], fl := .batch (t ++ r) d }
  | .batch txt dn => { s with fl := .ready (appLoop s) txt dn }
  | .ready none txt dn =>
    -- `loop is None`: write immediately, from the flush thread
    { s with log := s.log ++ [.out s.raw txt], fl := afterEmit dn }
  | .ready (some g) txt dn =>
    if g = s.loopGen ∧ s.loopOpen then
      -- `loop.call_soon_threadsafe(write_and_flush_in_loop)` accepted
      { s with pending := s.pending ++ [txt], fl := afterEmit dn }
    else
      -- RuntimeError('Event loop is closed')
      { s with fl := .relook g txt dn }
  | .relook g txt dn =>
    -- new_loop = self._get_app_loop(); self._write_and_flush(None if new_loop is loop else new_loop, text)
    let nl := appLoop s
    { s with fl := .ready (if nl = some g then none else nl) txt dn }
  | .exited => s

/-- the oldest accepted callback runs in the loop: `run_in_terminal(write_and_flush)` makes the task
    `run()`; with the code as it is (`ensure_future`) the task is known to the loop only -/
def runStep (s : St) : St :=
  match s.pending with
  | [] => s
  | t :: ps => { s with pending := ps, tasks := s.tasks ++ [{ txt := t, reg := s.regTasks && s.appOn }] }

/-- first step of the oldest task: `async with in_terminal(): return func()` -/
def taskStep (s : St) : St :=
  match s.tasks with
  | [] => s
  | k :: ts =>
    if s.appOn then
      -- `in_terminal`: erase, body, redraw
      { s with tasks := ts, log := s.log ++ [.erase, .out s.raw k.txt, .draw] }
    else
      -- `app is None or not app._is_running`: plain call
      { s with tasks := ts, log := s.log ++ [.out s.raw k.txt] }

def taskTexts (ts : List Task) : List Text := ts.map (·.txt)

def isReg (k : Task) : Bool := k.reg
def notReg (k : Task) : Bool := !k.reg

def step (s : St) : Op → St
  | .write _ d => doWrite s d
  | .writeBad _ => s
  | .flush _ => doFlush s
  | .close => { s with queue := s.queue ++ [.done] }
  | .fl => flStep s
  | .run => runStep s
  | .task => taskStep s
  | .start =>
    if s.loopOpen ∧ ¬ s.appOn ∧ ¬ s.winding then
      { s with appOn := true, exiting := false, log := s.log ++ [.draw] } else s
  | .stop =>
    -- `run_async` wakes up: final rendering, `_is_running = False`, then
    -- `cancel_and_wait_for_background_tasks`: the registered tasks that did not start never run their body
    if s.appOn then
      { s with appOn := false, exiting := false, winding := true, log := s.log ++ [.doneDraw],
               tasks := s.tasks.filter notReg, lost := s.lost ++ taskTexts (s.tasks.filter isReg) }
    else s
  | .finish => if s.winding then { s with winding := false } else s
  | .exit =>
    -- only the future changes: `in_terminal` tests `app._is_running`, not `app.is_done`, so a section that
    -- runs in this phase still erases and redraws the prompt (see `taskStep`, which looks at `appOn` only)
    if s.appOn then { s with exiting := true } else s
  | .newLoop =>
    if s.loopOpen then s else { s with loopGen := s.loopGen + 1, loopOpen := true }
  | .closeLoop =>
    if s.loopOpen ∧ ¬ s.appOn ∧ ¬ s.winding then
      { s with loopOpen := false, lost := s.lost ++ taskTexts s.tasks ++ s.pending, pending := [], tasks := [] }
    else s
  | .inval =>
    -- `_redraw` renders `if self._is_running and not self._running_in_terminal`; the sections of the
    -- proxy are atomic, so `_running_in_terminal` is False whenever this step runs
    if s.appOn then { s with log := s.log ++ [.draw] } else s

def runOps (s : St) : List Op → St
  | [] => s
  | o :: os => runOps (step s o) os

def init (raw : Bool) : St := { raw := raw }

/-! ### observables -/

/-- text of all `out` events, in order: what the proxy handed to the `Output` -/
def outText : List Ev → Text
  | [] => []
  | .out _ t :: es => t ++ outText es
  | _ :: es => outText es

/-- text of the queue items, in order -/
def qText : List Item → Text
  | [] => []
  | .text t :: q => t ++ qText q
  | .done :: q => qText q

/-- text the flush thread holds in its locals -/
def held : Fl → Text
  | .batch t _ => t
  | .ready _ t _ => t
  | .relook _ t _ => t
  | _ => []

/-- `Vt100_Output.write`: `data.replace("\x1b", esc)`; the replacement character is regenerated from the
    code (`Ptk.Gen.C20.escRepl`, today `?`) -/
def sanitize (esc : Char) (t : Text) : Text := t.map fun c => if c = '\x1b' then esc else c

/-- what a `Vt100_Output` sends to its file for the `out` events (renderer output left out):
    `enable_autowrap()` (the sequence `aw`, regenerated: `Ptk.Gen.C20.autowrap`), then `write` / `write_raw` -/
def termText (aw : Text) (esc : Char) : List Ev → Text
  | [] => []
  | .out raw t :: es => aw ++ (if raw then t else sanitize esc t) ++ termText aw esc es
  | _ :: es => termText aw esc es

/-- nothing is in flight any more -/
def quiescent (s : St) : Bool :=
  cat s.buffer == [] && qText s.queue == [] && held s.fl == [] && s.pending == [] && s.tasks == []

/-- the flush thread can take a step that changes the state -/
def flEnabled (s : St) : Bool :=
  match s.fl with
  | .idle => !s.queue.isEmpty
  | .exited => false
  | _ => true

/-- drive the loop and the flush thread until nothing moves (driver macro): the loop first runs
    the tasks it has (they are older than the callbacks), then what it has accepted, then the flush thread
    takes its next section -/
def settle : Nat → St → St
  | 0, s => s
  | n + 1, s =>
    if !s.tasks.isEmpty then settle n (taskStep s)
    else if !s.pending.isEmpty then settle n (runStep s)
    else if flEnabled s then settle n (flStep s)
    else s

/-- the loop runs every task that is waiting for its first step (driver macro) -/
def drainTasks : Nat → St → St
  | 0, s => s
  | n + 1, s => if s.tasks.isEmpty then s else drainTasks n (taskStep s)

end Ptk.C20
