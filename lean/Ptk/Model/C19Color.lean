/-
  C19 — model of the colour search and the SGR encoder of
  src/prompt_toolkit/output/vt100.py: `_get_closest_ansi_color`, `_16ColorCache`,
  `_256ColorCache.__missing__`, `_EscapeCodeCache.__missing__/_colors_to_code/_color_name_to_rgb`.

  The caches are memoisation of pure functions; the model is the function.
  RGB components are natural numbers (the encoder produces them with `& 0xFF`).
-/
import Ptk.Model.C19Types
namespace Ptk.C19
open Ptk.Py

/-! ### nearest colour -/

/-- `(a - b) ** 2` -/
def sqDiff (a b : Nat) : Nat := if a ≤ b then (b - a) * (b - a) else (a - b) * (a - b)

/-- `(r - r2) ** 2 + (g - g2) ** 2 + (b - b2) ** 2` -/
def dist (c p : RGB) : Nat := sqDiff c.1 p.1 + sqDiff c.2.1 p.2.1 + sqDiff c.2.2 p.2.2

/-- `distance = 257 * 257 * 3  # "infinity"` -/
def infinity : Nat := 257 * 257 * 3

/-- the search loop `if d < distance: match = key; distance = d` over candidates `(key, d)` -/
def argminLoop (cands : List (κ × Nat)) (init : κ × Nat) : κ × Nat :=
  cands.foldl (fun acc kd => if kd.2 < acc.2 then kd else acc) init

def enumFrom (i : Nat) : List α → List (Nat × α)
  | [] => []
  | x :: xs => (i, x) :: enumFrom (i + 1) xs

/-- candidates of `_256ColorCache.__missing__`: `enumerate(self.colors)` with `i >= 16` -/
def cands256 (pal : List RGB) (c : RGB) : List (Nat × Nat) :=
  ((enumFrom 0 pal).filter fun ip => 16 ≤ ip.1).map fun ip => (ip.1, dist c ip.2)

/-- `_256_colors[(r, g, b)]` -/
def closest256 (pal : List RGB) (c : RGB) : Nat :=
  (argminLoop (cands256 pal c) (0, infinity)).1

def absDiff (a b : Nat) : Nat := if a ≤ b then b - a else a - b

/-- `saturation = abs(r - g) + abs(g - b) + abs(b - r)` -/
def saturation (c : RGB) : Nat := absDiff c.1 c.2.1 + absDiff c.2.1 c.2.2 + absDiff c.2.2 c.1

/-- the exclusion list after `exclude.extend([...])` (names exactly as in the source) -/
def exclude16 (c : RGB) (exclude : List Text) : List Text :=
  if saturation c > 30 then
    exclude ++ ["ansilightgray".toList, "ansidarkgray".toList, "ansiwhite".toList, "ansiblack".toList]
  else exclude

/-- candidates of `_get_closest_ansi_color` -/
def cands16 (tbl : List (Text × RGB)) (c : RGB) (exclude : List Text) : List (Text × Nat) :=
  (tbl.filter fun np => np.1 != "ansidefault".toList && !(exclude16 c exclude).contains np.1).map
    fun np => (np.1, dist c np.2)

/-- `_get_closest_ansi_color(r, g, b, exclude)` -/
def closest16 (tbl : List (Text × RGB)) (c : RGB) (exclude : List Text) : Text :=
  (argminLoop (cands16 tbl c exclude) ("ansidefault".toList, infinity)).1

/-- `_16ColorCache(bg).get_code(value, exclude)`; `none` = KeyError (name missing from the code table) -/
def code16 (T : Tables) (bg : Bool) (c : RGB) (exclude : List Text) : Option (Nat × Text) :=
  let name := closest16 T.ansiRgb c exclude
  (lookup name (if bg then T.bg else T.fg)).map fun code => (code, name)

/-! ### int(color, 16) -/

def hexVal? (c : Char) : Option Nat :=
  let n := c.toNat
  if 48 ≤ n ∧ n ≤ 57 then some (n - 48)
  else if 97 ≤ n ∧ n ≤ 102 then some (n - 87)
  else if 65 ≤ n ∧ n ≤ 70 then some (n - 55)
  else none

/-- digits with single underscores between them (`prevDigit` = the previous char was a digit) -/
def hexDigits? : Bool → Nat → Text → Option Nat
  | prev, acc, [] => if prev then some acc else none
  | prev, acc, c :: cs =>
    if c == '_' then (if prev && !cs.isEmpty then hexDigits? false acc cs else none)
    else match hexVal? c with
      | some v => hexDigits? true (acc * 16 + v) cs
      | none => none

def stripWs (sp : Char → Bool) (t : Text) : Text :=
  ((t.dropWhile sp).reverse.dropWhile sp).reverse

/-- `int(s, 16)` for ASCII input: optional surrounding whitespace, sign, `0x`/`0X` prefix
    (an underscore may follow the prefix), hex digits with single inner underscores.
    `none` = ValueError. -/
def pyIntHexCore (t : Text) : Option Int :=
  let neg := t.head? == some '-'
  let t1 := if t.head? == some '-' || t.head? == some '+' then t.drop 1 else t
  let hasPrefix := t1.head? == some '0' && (t1[1]? == some 'x' || t1[1]? == some 'X')
  let t2 :=
    if hasPrefix then (if (t1.drop 2).head? == some '_' then t1.drop 3 else t1.drop 2) else t1
  (hexDigits? false 0 t2).map fun n => if neg then -(n : Int) else (n : Int)

def pyIntHex (sp : Char → Bool) (s : Text) : Option Int := pyIntHexCore (stripWs sp s)

/-- `_color_name_to_rgb(color)`: `(rgb >> 16) & 0xFF, (rgb >> 8) & 0xFF, rgb & 0xFF` -/
def colorNameToRgb (sp : Char → Bool) (color : Text) : Option RGB :=
  (pyIntHex sp color).map fun rgb =>
    (((rgb / 65536) % 256).toNat, ((rgb / 256) % 256).toNat, (rgb % 256).toNat)

/-! ### escape codes -/

inductive Depth where
  | d1 | d4 | d8 | d24
deriving DecidableEq, Repr

/-- the nested `get(color, bg)` of `_colors_to_code`; returns the codes and the new `fg_ansi` -/
def colorCodes (T : Tables) (sp : Char → Bool) (depth : Depth) (fgColor bgColor : Text)
    (fgAnsi : Text) (color : Text) (bg : Bool) : List Nat × Text :=
  let table := if bg then T.bg else T.fg
  if color.isEmpty || depth == .d1 then ([], fgAnsi) else
  match lookup color table with
  | some code => ([code], fgAnsi)
  | none =>
    match colorNameToRgb sp color with
    | none => ([], fgAnsi)
    | some rgb =>
      match depth with
      | .d4 =>
        if bg then
          let exclude := if fgColor != bgColor then [fgAnsi] else []
          match code16 T true rgb exclude with
          | some (code, _) => ([code], fgAnsi)
          | none => ([], fgAnsi)      -- KeyError: not reachable with consistent tables
        else
          match code16 T false rgb [] with
          | some (code, name) => ([code], name)
          | none => ([], fgAnsi)
      | .d24 => ([if bg then 48 else 38, 2, rgb.1, rgb.2.1, rgb.2.2], fgAnsi)
      | _ => ([if bg then 48 else 38, 5, closest256 T.pal256 rgb], fgAnsi)

/-- `_colors_to_code(fg_color, bg_color)` as a list of numbers -/
def colorsToCode (T : Tables) (sp : Char → Bool) (depth : Depth) (fg bg : Text) : List Nat :=
  let r1 := colorCodes T sp depth fg bg [] fg false
  let r2 := colorCodes T sp depth fg bg r1.2 bg true
  r1.1 ++ r2.1

def truthy (b : Option Bool) : Bool := b.getD false

/-- the list of SGR parameters after the leading `0` -/
def sgrCodes (T : Tables) (sp : Char → Bool) (depth : Depth) (a : Attrs) : List Nat :=
  colorsToCode T sp depth (a.color.getD []) (a.bgcolor.getD []) ++
  (if truthy a.bold then [1] else []) ++
  (if truthy a.italic then [3] else []) ++
  (if truthy a.blink then [5] else []) ++
  (if truthy a.underline then [4] else []) ++
  (if truthy a.reverse then [7] else []) ++
  (if truthy a.hidden then [8] else []) ++
  (if truthy a.strike then [9] else [])

def digitChar (d : Nat) : Char := Char.ofNat (48 + d)

def natToDecFuel : Nat → Nat → Text
  | 0, n => [digitChar n]
  | f + 1, n => if n < 10 then [digitChar n] else natToDecFuel f (n / 10) ++ [digitChar (n % 10)]

/-- `str(n)` for a non-negative int -/
def natToDec (n : Nat) : Text := natToDecFuel n n

/-- `"\x1b[0;" + ";".join(parts) + "m"` resp. `"\x1b[0m"` -/
def renderEscape (codes : List Nat) : Text :=
  if codes.isEmpty then [Char.ofNat 27, '[', '0', 'm']
  else [Char.ofNat 27, '[', '0', ';'] ++ join [';'] (codes.map natToDec) ++ ['m']

/-- `_EscapeCodeCache(depth)[attrs]` -/
def escapeCode (T : Tables) (sp : Char → Bool) (depth : Depth) (a : Attrs) : Text :=
  renderEscape (sgrCodes T sp depth a)

end Ptk.C19
