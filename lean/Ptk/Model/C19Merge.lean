/-
  C19 — model of the OBJECT side of `merge_styles`: which Python list objects
  `_MergedStyle.style_rules` reads and writes (src/prompt_toolkit/styles/style.py).

      style_rules = []
      for s in self.styles:
          style_rules.extend(s.style_rules)
      return style_rules

  `Style.style_rules` returns the very list object stored at construction, so the rule lists are
  modelled by identity: a heap of lists, `alloc` = a fresh list object, `extend` = in-place
  `list.extend`.  A merged query builds `Style(self.style_rules)` from the list just produced.
-/
import Ptk.Model.C19
namespace Ptk.C19
open Ptk.Py

abbrev RawRule := Text × Text

/-- the Python list objects holding style rules; the index is the object's identity -/
structure Heap where
  lists : List (List RawRule) := []
deriving Repr

/-- contents of list object `r` -/
def Heap.get (h : Heap) (r : Nat) : List RawRule := h.lists.getD r []

/-- a fresh list object with contents `xs` (`[]`, `list(xs)`) -/
def Heap.alloc (h : Heap) (xs : List RawRule) : Heap × Nat := (⟨h.lists ++ [xs]⟩, h.lists.length)

def modifyAt (f : α → α) : List α → Nat → List α
  | [], _ => []
  | x :: xs, 0 => f x :: xs
  | x :: xs, i + 1 => x :: modifyAt f xs i

/-- `lst.extend(xs)`: list object `r` is changed in place -/
def Heap.extend (h : Heap) (r : Nat) (xs : List RawRule) : Heap := ⟨modifyAt (· ++ xs) h.lists r⟩

/-- `_MergedStyle.style_rules` for `merge_styles(parts)` (`None` entries were dropped by
    `merge_styles`); each part is the list object of a `Style`.  Returns the new heap and the
    list object handed back. -/
def mergedStyleRules (h : Heap) (parts : List (Option Nat)) : Heap × Nat :=
  let (h0, r) := h.alloc []
  ((parts.filterMap id).foldl (fun hh s => hh.extend r (hh.get s)) h0, r)

/-- `merge_styles(parts).get_attrs_for_style_str(s, d)` with the merged `Style` built now -/
def mergedQuery (T : Tables) (sp rsp : Char → Bool) (h : Heap) (parts : List (Option Nat))
    (s : Text) (d : Attrs) : Heap × Except Err Attrs :=
  let (h', r) := mergedStyleRules h parts
  (h', match compile T sp rsp (h'.get r) with
       | .error e => .error e
       | .ok rules => match getAttrs T sp rules s d with
         | some a => .ok a
         | none => .error .value)

/-- `sheet.get_attrs_for_style_str(s, d)` for a single `Style` whose rules are list object `r` -/
def sheetQuery (T : Tables) (sp rsp : Char → Bool) (h : Heap) (r : Nat) (s : Text) (d : Attrs) :
    Except Err Attrs :=
  match compile T sp rsp (h.get r) with
  | .error e => .error e
  | .ok rules => match getAttrs T sp rules s d with
    | some a => .ok a
    | none => .error .value

/-- one step of a session over shared style objects -/
inductive SessOp where
  | queryMerged (parts : List (Option Nat)) (s : Text) (d : Attrs)
  | rulesMerged (parts : List (Option Nat))
  | querySheet (r : Nat) (s : Text) (d : Attrs)
  | rulesSheet (r : Nat)

def sessStep (T : Tables) (sp rsp : Char → Bool) (h : Heap) : SessOp → Heap
  | .queryMerged parts s d => (mergedQuery T sp rsp h parts s d).1
  | .rulesMerged parts => (mergedStyleRules h parts).1
  | .querySheet _ _ _ => h
  | .rulesSheet _ => h

end Ptk.C19
