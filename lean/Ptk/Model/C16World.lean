/-
  C16 — several controls, several search fields (layout/layout.py `search_links`,
  layout/controls.py `BufferControl.search_buffer_control / search_state / create_content`,
  search.py `start_search / stop_search / do_incremental_search / accept_search`,
  application.py `current_search_state`, filters/app.py `is_searching / control_is_searchable`).

  A `World` is a layout with
    * buffers                       (`Buffer`s; two controls may show the same one),
    * controls                      (`BufferControl(buffer, search_buffer_control=…)`; `sf = none`
                                     is a control that is not searchable),
    * search fields                 (`SearchBufferControl`s, each with its own `Buffer`, its own
                                     `searcher_search_state` and its `ignore_case`; the entry
                                     `layout.search_links[field]` is kept in the field as `link`),
    * one more focusable control that is not a `BufferControl` at all (`Focus.other`),
    * the focus.
  Search keys act on the session that the focus selects: `sessOf` reads it out of the world,
  `stepX` of `Ptk.Model.C16` runs the key, `putSess` writes the result back and moves focus / link.
-/
import Ptk.Model.C16
namespace Ptk.C16
open Ptk.Py

/-- a `SearchBufferControl`: its buffer (working lines as a zipper + history), the `SearchState`
    it owns, its `ignore_case`, and `layout.search_links.get(this control)` -/
structure SField where
  field : Text
  fbefore : List Text := []
  fafter : List Text := []
  fhist : List Text := []
  floaded : Bool := false
  stext : Text := []
  sdir : Dir := .fwd
  ic : Bool := false
  link : Option Nat := none
deriving Repr, DecidableEq

/-- a `BufferControl`: which buffer it shows, which search field it points to (if any) -/
structure Ctrl where
  buf : Nat
  sf : Option Nat
deriving Repr, DecidableEq

inductive Focus where
  | ctrl (i : Nat)
  | field (k : Nat)
  | other                -- a focusable control that is not a BufferControl
deriving Repr, DecidableEq

structure World where
  bufs : List Buf
  ctrls : List Ctrl
  fields : List SField
  focus : Focus
deriving Repr, DecidableEq

def emptyBuf : Buf := { lines := [[]], widx := 0, cur := 0 }
def emptyField : SField := { field := [] }

def World.buf (w : World) (j : Nat) : Buf := w.bufs.getD j emptyBuf
def World.fld (w : World) (k : Nat) : SField := w.fields.getD k emptyField

/-- `layout.is_searching` : the current control is a key of `search_links` -/
def World.isSearching (w : World) : Bool :=
  match w.focus with
  | .field k => (w.fld k).link.isSome
  | _ => false

/-- `layout.search_target_buffer_control` : the control in which we are searching -/
def World.searchTarget (w : World) : Option Nat :=
  match w.focus with
  | .field k => (w.fld k).link
  | _ => none

/-- the session seen from control `c` through search field `f` -/
def mkSess (b : Buf) (f : SField) (searching : Bool) : Sess :=
  { buf := b, field := f.field, stext := f.stext, sdir := f.sdir, searching := searching,
    fbefore := f.fbefore, fafter := f.fafter, fhist := f.fhist, floaded := f.floaded }

/-- write a session back into its search field -/
def putField (f : SField) (s : Sess) (link : Option Nat) : SField :=
  { f with field := s.field, stext := s.stext, sdir := s.sdir, fbefore := s.fbefore,
           fafter := s.fafter, fhist := s.fhist, floaded := s.floaded, link := link }

inductive WKey where
  | focus (f : Focus)                 -- `layout.focus(control)` (a mouse click, an API call)
  | key (k : XKey)                    -- a key press, dispatched to the focused control
  | startFor (i : Nat) (d : Dir)      -- `search.start_search(buffer_control=ctrls[i], direction=d)`
deriving Repr, DecidableEq

/-- a key press while control `i` (searchable through field `k`) or its search field has the focus -/
def keyVia (eqOf : Bool → Char → Char → Bool) (isSp : Char → Bool) (vi : Bool) (w : World)
    (i k : Nat) (searching : Bool) (key : XKey) : World :=
  match w.ctrls[i]? with
  | none => w
  | some c =>
    let f := w.fld k
    let s := mkSess (w.buf c.buf) f searching
    let s' := stepX (eqOf f.ic) isSp vi false s key
    -- start_search: focus the field, `search_links[field] = control`;
    -- stop_search: focus the control again, `del search_links[field]`
    let link := if s'.searching then some i else (if searching then none else f.link)
    { w with bufs := w.bufs.set c.buf s'.buf,
             fields := w.fields.set k (putField f s' link),
             focus := if s'.searching then .field k else .ctrl i }

/-- one event -/
def wstep (eqOf : Bool → Char → Char → Bool) (isSp : Char → Bool) (vi : Bool) (w : World) :
    WKey → World
  | .focus f =>
    -- (Vi mode: leaving a focused search field by anything but accept / abort would leave the
    --  editor in insert mode: outside the model)
    if vi && w.isSearching then w
    else
      match f with
      | .ctrl i => if i < w.ctrls.length then { w with focus := f } else w
      | .other => { w with focus := f }
      | .field _ => w          -- a search field only gets the focus through start_search
  | .key key =>
    match w.focus with
    | .other => w              -- no BufferControl: `control_is_searchable`, `is_searching` are false
    | .field k =>
      match (w.fld k).link with
      | none => w
      | some i => keyVia eqOf isSp vi w i k true key
    | .ctrl i =>
      match w.ctrls[i]? with
      | none => w
      | some c =>
        match c.sf with
        | some k => keyVia eqOf isSp vi w i k false key
        | none =>
          -- not searchable: the start keys are not bound (`control_is_searchable`), the other
          -- search keys work on a throw-away `SearchState()` (`Application.current_search_state`)
          match key with
          | .base (.start _) => w
          | _ =>
            let s : Sess := { buf := w.buf c.buf, field := [], stext := [], sdir := .fwd,
                              searching := false }
            let s' := stepX (eqOf false) isSp vi false s key
            { w with bufs := w.bufs.set c.buf s'.buf }
  | .startFor i d =>
    if vi && w.isSearching then w
    else if i < w.ctrls.length then
      match (w.ctrls.getD i ⟨0, none⟩).sf with
      | none => w               -- `if search_buffer_control:` fails: nothing happens
      | some k => keyVia eqOf isSp vi { w with focus := .ctrl i } i k false (.base (.start d))
    else w

def wrun (eqOf : Bool → Char → Char → Bool) (isSp : Char → Bool) (vi : Bool) (w : World) :
    List WKey → World
  | [] => w
  | k :: ks => wrun eqOf isSp vi (wstep eqOf isSp vi w k) ks

/-- the Document control `i` displays (`BufferControl.create_content`, `preview_search=True`):
    the preview if something is typed in ITS search field and the search in progress targets
    THIS control, else the real document -/
def wpreview (eqOf : Bool → Char → Char → Bool) (w : World) (i : Nat) : Text × Nat :=
  match w.ctrls[i]? with
  | none => ([], 0)
  | some c =>
    let b := w.buf c.buf
    match c.sf with
    | none => (b.text, b.cur)
    | some k' =>
      let f := w.fld k'
      -- `… and get_app().layout.search_target_buffer_control == self`
      if !f.field.isEmpty && w.searchTarget == some i then docForSearch (eqOf f.ic) b f.field f.sdir
      else (b.text, b.cur)

end Ptk.C16
