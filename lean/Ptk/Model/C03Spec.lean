/-
  C03 — the declarative SPEC of terminal input decoding: maximal-munch tokenisation of the whole
  stream.

  `tokenize` is a plain recursive function on the complete character stream (no coroutine, no
  pending prefix, no retry loop, no flush flag, no read boundaries):

    * normal mode: the next token is the LONGEST prefix of the remaining stream that `_get_match`
      recognises (a table sequence, a CPR report, a mouse report); it becomes the key press(es) of
      its table value, the first one carrying the token text.  If no prefix is recognised, the next
      character becomes one raw key press.  Continue with the rest.
    * the token `ESC[200~` (value = the bracketed-paste key) switches to paste mode: everything up
      to the first `ESC[201~` is ONE paste press carrying that text verbatim; continue after the
      end mark in normal mode.  Without an end mark the text stays buffered (`openPaste`).

  `Props/C03Refine.lean` proves that the parser model (`feed`* then `flush`, for every chunking)
  computes exactly this function; the driver op `spec` lets the harness compare it with the real
  `Vt100Parser` as well.
-/
import Ptk.Model.C03
namespace Ptk.C03
open Ptk.Py

/-- the longest prefix of `p` of length ≤ `n` that `_get_match` recognises (`0` = none) -/
def longestMatch (cfg : Cfg) (p : Text) : Nat → Nat
  | 0 => 0
  | i + 1 => if !(getMatch cfg (p.take (i + 1))).isEmpty then i + 1 else longestMatch cfg p i

/-- length of the longest recognised prefix of `p` (`0` = no prefix is recognised) -/
def lm (cfg : Cfg) (p : Text) : Nat := longestMatch cfg p p.length

/-- result of decoding a complete stream: the key presses, and the text of a bracketed paste that
    was started but not terminated (`none` = not inside a paste) -/
structure Decoded where
  keys : List Press
  openPaste : Option Text
deriving DecidableEq, Repr

def Decoded.cons (ps : List Press) (d : Decoded) : Decoded := { d with keys := ps ++ d.keys }

/-- `tokenize` with an explicit bound on the number of tokens (every token consumes at least one
    character, so `length + 1` is never reached) -/
def tokenizeFuel (cfg : Cfg) : Nat → Option Text → Text → Decoded
  | 0, o, _ => ⟨[], o⟩
  | n + 1, some b, s =>
    match findSub? endMark (b ++ s) with
    | some j =>
      Decoded.cons [⟨cfg.pasteKey, (b ++ s).take j⟩]
        (tokenizeFuel cfg n none ((b ++ s).drop (j + endMark.length)))
    | none => ⟨[], some (b ++ s)⟩
  | _ + 1, none, [] => ⟨[], none⟩
  | n + 1, none, c :: t =>
    let i := lm cfg (c :: t)
    if i = 0 then Decoded.cons [⟨String.singleton c, [c]⟩] (tokenizeFuel cfg n none t)
    else
      let m := getMatch cfg ((c :: t).take i)
      if m = [cfg.pasteKey] then tokenizeFuel cfg n (some []) ((c :: t).drop i)
      else Decoded.cons (presses m ((c :: t).take i)) (tokenizeFuel cfg n none ((c :: t).drop i))

/-- **The spec.**  Decode the stream `s`, starting in normal mode (`o = none`) or inside a
    bracketed paste of which `b` has been collected so far (`o = some b`). -/
def tokenize (cfg : Cfg) (o : Option Text) (s : Text) : Decoded :=
  tokenizeFuel cfg ((o.getD []).length + s.length + 1) o s

/-- the spec from the initial state -/
def spec (cfg : Cfg) (s : Text) : Decoded := tokenize cfg none s

/-- paste state of a parser at rest, as the spec sees it -/
def St.pasteState (s : St) : Option Text := if s.inPaste then some s.paste else none

/-- the parser state the spec prescribes after `s0` (at rest, nothing pending) has received a
    stream that decodes to `d`, followed by a flush -/
def St.after (s0 : St) (d : Decoded) : St :=
  { pre := [], out := s0.out ++ d.keys, inPaste := d.openPaste.isSome, paste := d.openPaste.getD [] }

/-- the spec for a stream cut by flush timeouts into segments: each segment is decoded on its own,
    the paste state is carried over -/
def specSegs (cfg : Cfg) (s : St) (segs : List Text) : St :=
  segs.foldl (fun s d => St.after s (tokenize cfg s.pasteState d)) s

end Ptk.C03
