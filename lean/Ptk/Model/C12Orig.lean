/-
  C12 — the divide loops as they were BEFORE the weight-0 fix (containers.py at the pinned
  snapshot): one `take_using_weights` generator over all children (weight-0 children are
  dropped by the generator), the next child is fetched ahead (`i = next(child_generator)` before
  the first loop and at the end of every iteration), and the loops wait for `sum(sizes)` to reach
  the stop value no matter whether a child of positive weight can still grow.

  Kept for two theorems in `Ptk.Props.C12Orig`: the original loops do not terminate on the
  reported witness, and for positive weights the fixed code computes exactly what the original
  code computed.  The correspondence uses it on positive-weight inputs only.
-/
import Ptk.Model.C12
namespace Ptk.C12

/-- `while sum(sizes) < stop: if sizes[i] < limits[i]: sizes[i] += 1; i = next(child_generator)` -/
def growLoopOrig (limits : List Nat) (stop nf : Nat) :
    Nat → List Nat → Nat → Gen → Option (List Nat × Nat × Gen)
  | 0, sizes, i, g => if sizes.sum < stop then none else some (sizes, i, g)
  | f + 1, sizes, i, g =>
    if sizes.sum < stop then
      match g.next? nf with
      | none => none
      | some (i', g') => growLoopOrig limits stop nf f (bump sizes limits i) i' g'
    else some (sizes, i, g)

def phase2Orig (fuel : Nat) (dims : List Dim) (stop2 : Nat) (toMax : Bool) (sizes : List Nat)
    (i : Nat) (g : Gen) : Outcome :=
  if toMax then
    match growLoopOrig (dims.map (·.max)) stop2 fuel fuel sizes i g with
    | none => .hang
    | some r => .ok r.1
  else .ok sizes

/-- the common body of the original `_divide_heights` / `_divide_widths` -/
def divideOrig (fuel : Nat) (dims : List Dim) (avail : Nat) (toMax : Bool) : Outcome :=
  match sumDims dims with
  | none => .error
  | some sd =>
    if sd.min > avail then .tooSmall
    else
      let g0 := Gen.init (List.range dims.length) (dims.map (·.weight))
      -- `take_using_weights`: "Did't got any items with a positive weight."
      if g0.ws.isEmpty then .error
      else
        match g0.next? fuel with
        | none => .hang
        | some (i, g) =>
          match growLoopOrig (dims.map (·.pref)) (Nat.min avail sd.pref) fuel fuel
              (dims.map (·.min)) i g with
          | none => .hang
          | some r => phase2Orig fuel dims (Nat.min avail sd.max) toMax r.1 r.2.1 r.2.2

end Ptk.C12
