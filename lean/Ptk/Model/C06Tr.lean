/-
  C06 — style transformations as values with an invalidation hash
  (src/prompt_toolkit/styles/style_transformation.py: `StyleTransformation.invalidation_hash`,
  `DummyStyleTransformation`, `ConditionalStyleTransformation`, `DynamicStyleTransformation`,
  `_MergedStyleTransformation` / `merge_style_transformations`; the classes that keep the base-class hash —
  `SwapLightAndDarkStyleTransformation`, `ReverseStyleTransformation`, `SetDefaultColorStyleTransformation`,
  `AdjustBrightnessStyleTransformation` — are leaves: an object identity and a function `Attrs → Attrs`).

  `Renderer.render` compares `app.style_transformation.invalidation_hash()` with `_last_transformation_hash`;
  `Tr.hash` is that hash as the code computes it, for the CURRENT values of the filters / dynamic targets.

  Python's hashes here are strings and tuples; the model keeps them apart by constructor:
    "dummy-style-transformation"        ↦ `TrHash.dummy`
    f"{ClassName}-{id(self)}"           ↦ `TrHash.obj i`       (`i` identifies the live object)
    (filter(), inner_hash)              ↦ `TrHash.pair b h`
    tuple(h₁, …, hₙ)                    ↦ `tcons h₁ (… (tcons hₙ tnil))`
  (a merged 2-tuple never equals a conditional pair: its first component is a string or a tuple, not a bool).
-/
import Ptk.Model.C06
namespace Ptk.C06
open Ptk.Py

inductive Tr
  /-- `DummyStyleTransformation()` -/
  | dummy
  /-- an object of a class with the base-class `invalidation_hash` -/
  | leaf (i : Nat)
  /-- `ConditionalStyleTransformation(t, filter)` with `filter() = b` now -/
  | cond (b : Bool) (t : Tr)
  /-- `DynamicStyleTransformation(get)` with `get() = None` now -/
  | dynNone
  /-- `DynamicStyleTransformation(get)` with `get() = t` now -/
  | dyn (t : Tr)
  /-- `merge_style_transformations([])` -/
  | mnil
  /-- `merge_style_transformations([t] + rest)` -/
  | mcons (t : Tr) (rest : Tr)
deriving DecidableEq, Repr, Inhabited

inductive TrHash
  | dummy
  | obj (i : Nat)
  | pair (b : Bool) (h : TrHash)
  | tnil
  | tcons (h : TrHash) (rest : TrHash)
deriving DecidableEq, Repr, Inhabited

/-- `invalidation_hash()` -/
def Tr.hash : Tr → TrHash
  | .dummy => .dummy
  | .leaf i => .obj i
  | .cond b t => .pair b t.hash
  | .dynNone => .dummy                      -- `get() or DummyStyleTransformation()`
  | .dyn t => t.hash
  | .mnil => .tnil
  | .mcons t rest => .tcons t.hash rest.hash

/-- `transform_attrs(attrs)`; `lf i` is what leaf object `i` computes -/
def Tr.apply (lf : Nat → Attrs → Attrs) : Tr → Attrs → Attrs
  | .dummy, a => a
  | .leaf i, a => lf i a
  | .cond b t, a => if b then t.apply lf a else a
  | .dynNone, a => a
  | .dyn t, a => t.apply lf a
  | .mnil, a => a
  | .mcons t rest, a => rest.apply lf (t.apply lf a)

/-- the transformation a hash stands for -/
def TrHash.apply (lf : Nat → Attrs → Attrs) : TrHash → Attrs → Attrs
  | .dummy, a => a
  | .obj i, a => lf i a
  | .pair b h, a => if b then h.apply lf a else a
  | .tnil, a => a
  | .tcons h rest, a => rest.apply lf (h.apply lf a)

end Ptk.C06
