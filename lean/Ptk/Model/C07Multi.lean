/-
  C07 — several buffers in one application (focus changes).

  Anchors: key_binding/key_processor.py `_call_handler`: `event.app.current_buffer.save_to_undo_stack()` —
  the snapshot is taken on the buffer that has the focus WHEN THE COMMAND STARTS, there is ONE
  `_previous_handler` per key processor (not per buffer), and every `Buffer` has its own two stacks.
  A handler may call any buffer (accept-search: `apply_search` on the main buffer, `reset()` on the
  search buffer) and may move the focus (`start_search`, `stop_search`, the system prompt, an
  `on_text_insert` callback of a form that advances to the next field).

  Buffers are numbered; in the correspondence 0 = DEFAULT_BUFFER, 1 = SEARCH_BUFFER, 2 = SYSTEM_BUFFER.
-/
import Ptk.Model.C07
namespace Ptk.C07

structure MSt where
  bufs : Nat → St
  focus : Nat            -- the buffer `app.current_buffer` is
  prev : Option Nat      -- `KeyProcessor._previous_handler`

def setBuf (bufs : Nat → St) (b : Nat) (s : St) : Nat → St := fun i => if i = b then s else bufs i

/-- what a handler did: per buffer the Buffer calls made on it (the buffers are independent objects, so only
    the order per buffer matters), and where the focus is afterwards -/
structure MBody where
  on : Nat → List Act
  focus : Option Nat

/-- a fresh application: every buffer reset to its document -/
def mInit (docs : Nat → Buf) (focus : Nat) : MSt :=
  { bufs := fun i => reset (docs i), focus := focus, prev := none }

/-- `KeyProcessor._call_handler` with several buffers -/
def callHandlerM (o : Outcome) (h : Nat) (rule : Bool → Bool) (body : MBody) (m : MSt) : MSt :=
  let isRepeat := decide (m.prev = some h)
  let bufs1 := if rule isRepeat then setBuf m.bufs m.focus (saveToUndo true (m.bufs m.focus)) else m.bufs
  { bufs := fun i => (body.on i).foldl act (bufs1 i),
    focus := body.focus.getD m.focus,
    prev := prevAfter o h }

/-- `KeyProcessor.reset()` -/
def kpResetM (m : MSt) : MSt := { m with prev := none }

/-- a change of one buffer outside `_call_handler` -/
def extEditM (b : Nat) (f : Buf → Buf) (m : MSt) : MSt :=
  { m with bufs := setBuf m.bufs b { (m.bufs b) with buf := f (m.bufs b).buf } }

/-- a focus change outside `_call_handler` (application code, a callback of a background task) -/
def extFocusM (b : Nat) (m : MSt) : MSt := { m with focus := b }

end Ptk.C07
