/-
  C18 — sessions: sequences of calls on `HTML` / `ANSI` objects inside ONE process.

  What the anchored modules keep between calls is part of the state.  As the code is now,
  `formatted_text/html.py`, `ansi.py` and `base.py` have no mutable module-level state at all (the
  module-level objects are `FORMATTER`, `_XML_ILLEGAL_CHARS_RE`, the three read-only SGR tables; the
  list is pinned by `Gen.C18.moduleState`, see Props/C18Sess.lean), and an `HTML` / `ANSI` object is
  never modified after `__init__`.  So the session state consists of the objects the caller holds:

      HTML.format(self, *args, **kwargs) = HTML(FORMATTER.vformat(self.value, args, kwargs))
      HTML.__mod__(self, value)          = HTML(self.value % tuple(html_escape(i) for i in value))
      ANSI.format / ANSI.__mod__         likewise with ansi_escape
      to_formatted_text(obj)             = obj.formatted_text / obj._formatted_text

  A cache between calls would have to be added as a field of `Sess` and threaded through `sessStep`;
  the theorems of Props/C18Sess.lean (every result is a function of the object's template text and
  of this call's own values) would then have to be re-proved for it.
-/
import Ptk.Model.C18Html
namespace Ptk.C18
open Ptk.Py

inductive Kind | html | ansi
deriving Repr, DecidableEq

/-- an `HTML` / `ANSI` object; `value` is `self.value` (immutable after `__init__`) -/
structure Obj where
  kind : Kind
  value : Text
deriving Repr, DecidableEq

/-- the state of one process: the objects alive, by the caller's name for them (latest first) -/
structure Sess where
  objs : List (Nat × Obj) := []
deriving Repr, DecidableEq

inductive SOp
  | new (id : Nat) (k : Kind) (v : Text)                         -- `x = HTML(v)` / `x = ANSI(v)`
  | fmt (id : Nat) (args : List Val) (kw : List (Text × Val))    -- `x.format(*args, **kw)`
  | mod (id : Nat) (args : List Val)                             -- `x % args`
  | get (id : Nat)                                               -- `to_formatted_text(x)`
deriving Repr, DecidableEq

inductive SRes
  | ok
  | frags (fs : Frags)
  | herr (e : HErr)
  | err (e : Err)
  | unsupported
  | noObj
deriving Repr, DecidableEq

/-- `HTML(v).formatted_text` / `ANSI(v)._formatted_text` -/
def objFrags (tb : Tables) : Kind → Text → Except HErr Frags
  | .html, v => html v
  | .ansi, v => .ok (ansi tb v)

def ofParse : Except HErr Frags → SRes
  | .ok fs => .frags fs
  | .error .unsupported => .unsupported
  | .error e => .herr e

/-- `to_formatted_text(K(text))` for an already rendered template -/
def ofRendered (tb : Tables) (k : Kind) : Option (Except Err Text) → SRes
  | none => .unsupported
  | some (.error .unsupported) => .unsupported
  | some (.error e) => .err e
  | some (.ok t) => ofParse (objFrags tb k t)

def escOf : Kind → Text → Text
  | .html => htmlEscape
  | .ansi => ansiEscape

/-- `to_formatted_text(obj.format(*args, **kw))`: a function of the object's template text and of
    this call's values -/
def fmtCall (tb : Tables) (pr : Char → Bool) (o : Obj) (args : List Val) (kw : List (Text × Val)) :
    SRes :=
  ofRendered tb o.kind (vformat (escOf o.kind) pr o.value args kw)

/-- `to_formatted_text(obj % args)` -/
def modCall (tb : Tables) (pr : Char → Bool) (o : Obj) (args : List Val) : SRes :=
  ofRendered tb o.kind (pformat (escOf o.kind) pr o.value args)

def Sess.find (s : Sess) (id : Nat) : Option Obj := (s.objs.find? fun p => p.1 == id).map (·.2)

/-- one call -/
def sessStep (tb : Tables) (pr : Char → Bool) (s : Sess) : SOp → Sess × SRes
  | .new id k v =>
    match objFrags tb k v with
    | .ok _ => ({ objs := (id, { kind := k, value := v }) :: s.objs }, .ok)
    | .error .unsupported => (s, .unsupported)
    | .error e => (s, .herr e)
  | .fmt id args kw =>
    match s.find id with
    | none => (s, .noObj)
    | some o => (s, fmtCall tb pr o args kw)
  | .mod id args =>
    match s.find id with
    | none => (s, .noObj)
    | some o => (s, modCall tb pr o args)
  | .get id =>
    match s.find id with
    | none => (s, .noObj)
    | some o => (s, ofParse (objFrags tb o.kind o.value))

/-- a whole session: the final state and the results in order -/
def sessRun (tb : Tables) (pr : Char → Bool) : Sess → List SOp → Sess × List SRes
  | s, [] => (s, [])
  | s, op :: ops =>
    ((sessRun tb pr (sessStep tb pr s op).1 ops).1,
     (sessStep tb pr s op).2 :: (sessRun tb pr (sessStep tb pr s op).1 ops).2)

end Ptk.C18
