/-
  C13 — model of `prompt_toolkit.history` (src/prompt_toolkit/history.py).

  Part (a): the byte level file format of `FileHistory`
    * `record`     = what one `FileHistory.store_string` call appends to the file
    * `loadFile`   = `FileHistory.load_history_strings` on a byte string
    * `Codec`      = `str.encode("utf-8")` / `bytes.decode("utf-8", errors="replace")`
                     as a parameter; `utf8` is the concrete codec used by the driver
                     (encoder + CPython-compatible replacing decoder)
    * `FS`         = several `FileHistory` instances (base class `History` cache:
                     `_loaded`, `_loaded_strings`) sharing one file
  Part (b): `ThreadedHistory` as a transition system whose atomic steps are the
    code sections between two synchronisation points (lock blocks, event set/wait,
    the call of the inner `load_history_strings`, `store_string`):
    * `TH`/`step`  = one `load()` consumer at a time + loader thread + `append_string`
    * `THn`/`stepN` = any number of simultaneous `load()` calls + loader thread stopping
                     after every single `event.set()` (no `append_string`)

  Bytes are natural numbers (`< 256` for everything the encoder produces).
-/
import Ptk.Py
namespace Ptk.C13
open Ptk.Py

abbrev Byte := Nat
abbrev Bytes := List Byte

/-! ## codec -/

/-- `enc c` = `c.encode("utf-8")`, `dec bs` = `bs.decode("utf-8", errors="replace")` -/
structure Codec where
  enc : Char → Bytes
  dec : Bytes → Text

/-- `t.encode("utf-8")` -/
def Codec.encText (C : Codec) (t : Text) : Bytes := t.flatMap C.enc

/-! ### concrete UTF-8 -/

def utf8EncNat (n : Nat) : Bytes :=
  if n < 0x80 then [n]
  else if n < 0x800 then [0xC0 + n / 64, 0x80 + n % 64]
  else if n < 0x10000 then [0xE0 + n / 4096, 0x80 + (n / 64) % 64, 0x80 + n % 64]
  else [0xF0 + n / 262144, 0x80 + (n / 4096) % 64, 0x80 + (n / 64) % 64, 0x80 + n % 64]

def utf8Enc (c : Char) : Bytes := utf8EncNat c.toNat

/-- U+FFFD, what `errors="replace"` substitutes -/
def repl : Char := Char.ofNat 0xFFFD

/-- decoder state: `need` continuation bytes are still expected (0 = between
    characters), `acc` = bits collected so far, the next byte must lie in `lo..hi`. -/
structure DSt where
  need : Nat
  acc : Nat
  lo : Nat
  hi : Nat
deriving Repr, DecidableEq

def idle : DSt := ⟨0, 0, 0x80, 0xBF⟩

/-- a byte seen between characters -/
def startByte (b : Byte) : DSt × Text :=
  if b < 0x80 then (idle, [Char.ofNat b])
  else if b < 0xC2 then (idle, [repl])
  else if b < 0xE0 then (⟨1, b % 32, 0x80, 0xBF⟩, [])
  else if b < 0xF0 then
    (⟨2, b % 16, if b = 0xE0 then 0xA0 else 0x80, if b = 0xED then 0x9F else 0xBF⟩, [])
  else if b < 0xF5 then
    (⟨3, b % 8, if b = 0xF0 then 0x90 else 0x80, if b = 0xF4 then 0x8F else 0xBF⟩, [])
  else (idle, [repl])

/-- one byte; an unexpected byte inside a sequence replaces the maximal valid prefix
    by one U+FFFD and is then looked at again as a start byte (CPython behaviour). -/
def decStep (s : DSt) (b : Byte) : DSt × Text :=
  if s.need = 0 then startByte b
  else if s.lo ≤ b ∧ b ≤ s.hi then
    if s.need = 1 then (idle, [Char.ofNat (s.acc * 64 + b % 64)])
    else (⟨s.need - 1, s.acc * 64 + b % 64, 0x80, 0xBF⟩, [])
  else ((startByte b).1, repl :: (startByte b).2)

def decRun : DSt → Bytes → Text
  | s, [] => if s.need = 0 then [] else [repl]
  | s, b :: bs => (decStep s b).2 ++ decRun (decStep s b).1 bs

def utf8Dec (bs : Bytes) : Text := decRun idle bs

def utf8 : Codec := ⟨utf8Enc, utf8Dec⟩

/-! ## FileHistory.store_string -/

/-- `write(f"+{line}\n")` -/
def plusLine (C : Codec) (l : Text) : Bytes := C.encText ('+' :: (l ++ ['\n']))

/-- `write(f"\n# {datetime.datetime.now()}\n")`; `ts` = `str(datetime.now())` -/
def header (C : Codec) (ts : Text) : Bytes := C.encText (['\n', '#', ' '] ++ ts ++ ['\n'])

/-- all bytes one `store_string(s)` appends (file opened with "ab") -/
def record (C : Codec) (ts s : Text) : Bytes :=
  header C ts ++ (splitOn '\n' s).flatMap (plusLine C)

/-- the file after storing the entries in order, each with its own timestamp -/
def stores (C : Codec) : List (Text × Text) → Bytes
  | [] => []
  | (ts, s) :: es => record C ts s ++ stores C es

/-! ## FileHistory.load_history_strings -/

/-- `for line_bytes in f` on a file opened with "rb": lines end after every 0x0A,
    the last one may be unterminated; there is no empty last line. -/
def splitLines : Bytes → List Bytes
  | [] => []
  | b :: bs =>
    if b = 10 then [10] :: splitLines bs
    else match splitLines bs with
      | [] => [[b]]
      | l :: ls => (b :: l) :: ls

/-- the two local lists of `load_history_strings` -/
structure LoadSt where
  strings : List Text
  lines : List Text
deriving Repr, DecidableEq

/-- `add()` : `if lines: strings.append("".join(lines)[:-1])` — returns the new `strings` -/
def LoadSt.add (st : LoadSt) : List Text :=
  if st.lines.isEmpty then st.strings else st.strings ++ [st.lines.flatten.dropLast]

/-- the body of the `for line_bytes in f` loop -/
def loadStep (C : Codec) (st : LoadSt) (lb : Bytes) : LoadSt :=
  match C.dec lb with
  | '+' :: rest => { st with lines := st.lines ++ [rest] }
  | _ => { strings := st.add, lines := [] }

def loadRun (C : Codec) (st : LoadSt) (file : Bytes) : LoadSt :=
  (splitLines file).foldl (loadStep C) st

/-- `list(FileHistory(path).load_history_strings())` for a file with content `file`
    (a missing file behaves like an empty one): newest first. -/
def loadFile (C : Codec) (file : Bytes) : List Text :=
  (loadRun C ⟨[], []⟩ file).add.reverse

/-! ## several `FileHistory` instances on one file (`History` base class caching) -/

structure Inst where
  loaded : Bool := false
  strs : List Text := []          -- `_loaded_strings`, newest first
deriving Repr, DecidableEq

structure FS where
  file : Bytes
  insts : Nat → Inst

def FS.empty : FS := ⟨[], fun _ => {}⟩

def FS.setInst (fs : FS) (i : Nat) (x : Inst) : FS :=
  { fs with insts := fun j => if j = i then x else fs.insts j }

/-- `History.append_string` on instance `i` -/
def FS.append (C : Codec) (fs : FS) (i : Nat) (ts s : Text) : FS :=
  let x := fs.insts i
  { file := fs.file ++ record C ts s,
    insts := fun j => if j = i then { x with strs := s :: x.strs } else fs.insts j }

/-- `[item async for item in History.load()]` on instance `i` -/
def FS.load (C : Codec) (fs : FS) (i : Nat) : FS × List Text :=
  let x := fs.insts i
  if x.loaded then (fs, x.strs)
  else
    let l := loadFile C fs.file
    (fs.setInst i ⟨true, l⟩, l)

/-- `History.get_strings()` on instance `i` -/
def FS.getStrings (fs : FS) (i : Nat) : List Text := (fs.insts i).strs.reverse

/-- `ThreadedHistory(inst).append_string(s)` through a wrapper that has not loaded yet
    (`History.append_string` on the wrapper: its own list, then the proxied `store_string`):
    the file grows by one record; the wrapped instance's `_loaded_strings` is NOT touched
    (only the wrapped instance's own `append_string` does that). -/
def FS.wrapAppend (C : Codec) (fs : FS) (ts s : Text) : FS :=
  { fs with file := fs.file ++ record C ts s }

/-- `[x async for x in ThreadedHistory(inst i).load()]` with nothing concurrent: the loader
    thread calls the wrapped `load_history_strings()`, which reads the file again - the wrapped
    instance's `History` cache (`_loaded`, `_loaded_strings`) is neither consulted nor updated,
    whether or not instance `i` was loaded inline before. -/
def FS.wrapLoad (C : Codec) (fs : FS) (_i : Nat) : FS × List Text :=
  (fs, loadFile C fs.file)

/-- a crash during a write: only the first `k` bytes of the file survive -/
def FS.cut (fs : FS) (k : Nat) : FS := { fs with file := fs.file.take k }

/-! ## ThreadedHistory -/

/-- program counter of the loader thread (`_in_load_thread`) -/
inductive LPc
  | notStarted          -- no `load()` call yet
  | started             -- thread created; next: `self._loaded_strings = []`
  | called              -- list reset; next: inner `load_history_strings()` takes its snapshot
  | iter                -- at the top of the `for item in …` loop
  | notify              -- item appended (in lock); next: `event.set()` for every event
  | notifyFinal         -- `_loaded = True` (in lock); next: `event.set()` for every event
  | finished
deriving Repr, DecidableEq

/-- program counter of one `load()` call (the async consumer) -/
inductive CPc
  | idle                -- `load()` not called yet
  | waiting             -- in `event.wait`
  | reading             -- `event.wait` returned True; next: the locked read
  | yielding            -- lock released with `new_items`, `done`; next: yield them, loop or finish
  | done                -- saw `_loaded`, generator finished, event removed
deriving Repr, DecidableEq

structure TH where
  storage : List Text       -- the inner history's persistent store, oldest first
  strs : List Text          -- `_loaded_strings`
  loaded : Bool             -- `_loaded`
  lpc : LPc
  remaining : List Text     -- items of the inner generator's snapshot not yet produced
  ev : Bool                 -- the consumer's `threading.Event` (while registered)
  cpc : CPc
  yielded : Nat             -- `items_yielded`
  out : List Text           -- everything the current `load()` call has yielded
  batch : List Text         -- `new_items` of the last locked read, not yet yielded
  sawDone : Bool            -- `done` of the last locked read
  pend : Option Text        -- `append_string` between its locked insert and `store_string`
deriving Repr, DecidableEq

inductive Step
  | cstart | cwait | cread | cyield
  | lreset | lsnap | lappend | lnotify | ldone | lfinal
  | ains (s : Text) | astore
deriving Repr, DecidableEq

/-- `ThreadedHistory(inner)` where the inner store holds `old`, followed by
    `append_string(p)` for every `p` in `pre` (before any `load()`). -/
def TH.init (old pre : List Text) : TH :=
  { storage := old ++ pre, strs := pre.reverse, loaded := false, lpc := .notStarted,
    remaining := [], ev := false, cpc := .idle, yielded := 0, out := [], batch := [],
    sawDone := false, pend := none }

/-- one atomic step; a step that is not enabled leaves the state unchanged -/
def step (st : TH) : Step → TH
  | .cstart =>
    -- `load()` up to the first `event.wait`: start the thread (first call only),
    -- create a set event, `items_yielded = 0`
    if st.cpc = .idle ∨ st.cpc = .done then
      { st with lpc := if st.lpc = .notStarted then .started else st.lpc,
                ev := true, cpc := .waiting, yielded := 0, out := [] }
    else st
  | .cwait =>
    -- `event.wait(timeout=0.5)`; a timeout just repeats the wait
    if st.cpc = .waiting ∧ st.ev then { st with cpc := .reading } else st
  | .cread =>
    -- `with lock: new_items = strs[items_yielded:]; done = _loaded; event.clear()`
    if st.cpc = .reading then
      { st with ev := false, batch := st.strs.drop st.yielded, sawDone := st.loaded,
                cpc := .yielding }
    else st
  | .cyield =>
    -- `items_yielded += len(new_items)`, yield them all, `if done: break` (else wait again)
    if st.cpc = .yielding then
      { st with yielded := st.yielded + st.batch.length, out := st.out ++ st.batch, batch := [],
                cpc := if st.sawDone then .done else .waiting }
    else st
  | .lreset =>
    if st.lpc = .started then { st with strs := [], lpc := .called } else st
  | .lsnap =>
    if st.lpc = .called then { st with remaining := st.storage.reverse, lpc := .iter } else st
  | .lappend =>
    if st.lpc = .iter then
      match st.remaining with
      | x :: r => { st with strs := st.strs ++ [x], remaining := r, lpc := .notify }
      | [] => st
    else st
  | .lnotify =>
    if st.lpc = .notify then { st with ev := true, lpc := .iter } else st
  | .ldone =>
    if st.lpc = .iter ∧ st.remaining = [] then { st with loaded := true, lpc := .notifyFinal }
    else st
  | .lfinal =>
    if st.lpc = .notifyFinal then { st with ev := true, lpc := .finished } else st
  | .ains s =>
    if st.pend = none then { st with strs := s :: st.strs, pend := some s } else st
  | .astore =>
    match st.pend with
    | some s => { st with storage := st.storage ++ [s], pend := none }
    | none => st

def run (st : TH) (sched : List Step) : TH := sched.foldl step st

/-- `ThreadedHistory.get_strings()` -/
def TH.getStrings (st : TH) : List Text := st.strs.reverse

/-! ## ThreadedHistory with several simultaneous `load()` calls

  Same step granularity, no `append_string`; the loader additionally stops after every single
  `event.set()`.  `copy` says whether the loader's `for event in …` loops run over a copy of
  `_string_load_events` (generated from the source: `Gen.C13.notifyCopies`) or over the live
  list — a Python list iterator is an index into the live list, so an element removed in front
  of the index makes it skip one. -/

/-- one `load()` call -/
structure Cons where
  cpc : CPc := .idle
  ev : Bool := false
  yielded : Nat := 0
  out : List Text := []
  batch : List Text := []
  sawDone : Bool := false
deriving Repr, DecidableEq

inductive NPc
  | notStarted | started | called | iter
  | notify              -- item appended; next: start the `for event in …` loop
  | looping             -- inside that loop, after an `event.set()`
  | notifyFinal         -- `_loaded = True`; next: start the final loop
  | loopingFinal
  | finished
deriving Repr, DecidableEq

structure THn where
  storage : List Text
  strs : List Text
  loaded : Bool
  lpc : NPc
  remaining : List Text
  cons : Nat → Cons
  events : List Nat         -- `_string_load_events`: the registered `load()` calls, in order
  nidx : Nat                -- index of the live-list iterator (`copy = false`)
  ncopy : List Nat          -- rest of the copied list (`copy = true`)

inductive StepN
  | cstart (i : Nat) | cwait (i : Nat) | cread (i : Nat) | cyield (i : Nat)
  | lreset | lsnap | lappend | lnotify | lset | ldone | lfinal
deriving Repr, DecidableEq

def THn.init (old pre : List Text) : THn :=
  { storage := old ++ pre, strs := pre.reverse, loaded := false, lpc := .notStarted,
    remaining := [], cons := fun _ => {}, events := [], nidx := 0, ncopy := [] }

def THn.setCons (st : THn) (i : Nat) (c : Cons) : THn :=
  { st with cons := fun j => if j = i then c else st.cons j }

/-- `event.set()` on the event of `load()` call `i` -/
def THn.setEv (st : THn) (i : Nat) : THn := st.setCons i { st.cons i with ev := true }

/-- the loader enters a `for event in …: event.set()` loop: sets the first event (if any) and
    stops after it; with no events the loop is over at once (`after` = where it continues) -/
def loopStart (copy : Bool) (st : THn) (inLoop after : NPc) : THn :=
  match st.events with
  | [] => { st with lpc := after }
  | e :: r =>
    if copy then { st.setEv e with lpc := inLoop, ncopy := r }
    else { st.setEv e with lpc := inLoop, nidx := 1 }

/-- the next iteration of the loop: one more `event.set()`, or the loop ends -/
def loopNext (copy : Bool) (st : THn) (after : NPc) : THn :=
  if copy then
    match st.ncopy with
    | [] => { st with lpc := after }
    | e :: r => { st.setEv e with ncopy := r }
  else
    match st.events[st.nidx]? with
    | none => { st with lpc := after }
    | some e => { st.setEv e with nidx := st.nidx + 1 }

def stepN (copy : Bool) (st : THn) : StepN → THn
  | .cstart i =>
    if (st.cons i).cpc = .idle then
      { st with lpc := if st.lpc = .notStarted then .started else st.lpc,
                cons := fun j => if j = i then { cpc := .waiting, ev := true } else st.cons j,
                events := st.events ++ [i] }
    else st
  | .cwait i =>
    let c := st.cons i
    if c.cpc = .waiting ∧ c.ev then st.setCons i { c with cpc := .reading } else st
  | .cread i =>
    let c := st.cons i
    if c.cpc = .reading then
      st.setCons i { c with ev := false, batch := st.strs.drop c.yielded, sawDone := st.loaded,
                            cpc := .yielding }
    else st
  | .cyield i =>
    let c := st.cons i
    if c.cpc = .yielding then
      let c' := { c with yielded := c.yielded + c.batch.length, out := c.out ++ c.batch, batch := [],
                         cpc := if c.sawDone then .done else .waiting }
      -- `finally: self._string_load_events.remove(event)` when the generator finishes
      { st.setCons i c' with events := if c.sawDone then st.events.erase i else st.events }
    else st
  | .lreset =>
    if st.lpc = .started then { st with strs := [], lpc := .called } else st
  | .lsnap =>
    if st.lpc = .called then { st with remaining := st.storage.reverse, lpc := .iter } else st
  | .lappend =>
    if st.lpc = .iter then
      match st.remaining with
      | x :: r => { st with strs := st.strs ++ [x], remaining := r, lpc := .notify }
      | [] => st
    else st
  | .lnotify =>
    if st.lpc = .notify then loopStart copy st .looping .iter else st
  | .ldone =>
    if st.lpc = .iter ∧ st.remaining = [] then { st with loaded := true, lpc := .notifyFinal }
    else st
  | .lfinal =>
    if st.lpc = .notifyFinal then loopStart copy st .loopingFinal .finished else st
  | .lset =>
    if st.lpc = .looping then loopNext copy st .iter
    else if st.lpc = .loopingFinal then loopNext copy st .finished
    else st

def runN (copy : Bool) (st : THn) (sched : List StepN) : THn := sched.foldl (stepN copy) st

end Ptk.C13
