/-
  C14 — model of history browsing and the accept path of
  `prompt_toolkit.buffer.Buffer` (src/prompt_toolkit/buffer.py) together with
  `history.py` (`History` / `InMemoryHistory`) and the validator protocol of
  `validation.py`.

  State that is modelled (one `Buffer` + its `History`):
    storage   InMemoryHistory._storage               (oldest first)
    hloaded   History._loaded
    hist      History.get_strings()                   (oldest first; = reversed `_loaded_strings`)
    work      Buffer._working_lines
    idx       Buffer.working_index
    cur       Buffer.cursor_position
    search    Buffer.history_search_text
    ehs       current value of the `enable_history_search` filter
    vwt       current value of `validate_while_typing` (with a validator present)
    ml        current value of the PromptSession's `multiline` filter (key level only: Enter
              inserts a line break instead of accepting)
    vstate    Buffer.validation_state
    verr      Buffer.validation_error (its `cursor_position`; `none` = None)
    vtasks    number of `_async_validator()` background tasks created by `_text_changed` that did
              not get their first step yet
    vrun      the `running` flag of `_only_one_at_a_time(async_validator)`; while it is set the
              coroutine is suspended in `await self.validator.validate_async(self.document)` of
              `_validate_async`, and the value is the `document` local captured before the await
    vasync    the validator's `validate_async` really suspends (ThreadedValidator, any
              asynchronous validator); `false` = `Validator.validate_async` (calls `validate` inline)
    pref      Buffer.preferred_column
    yank      Buffer.yank_nth_arg_state (history_position, n, previous_inserted_word)
    preRun    `Application.pre_run_callables` registered by `operate-and-get-next`: each entry is
              the `working_index` at the time of the key press (the callable sets
              `working_index = that + 1` at the start of the next run, if such an entry exists then)
    loading   Buffer._load_history_task is not None
    pending   what the running `history.load()` generator will still yield (newest first)

  The validator is a parameter `v : Text → Option Int` (`none` = passes,
  `some p` = raises `ValidationError(cursor_position=p)`); it sees the text only.
  Not modelled: completion state, selection, undo stack, yank-nth-arg.
-/
import Ptk.Py
import Ptk.Gen.C14
namespace Ptk.C14
open Ptk.Py

inductive VState
  | unknown | valid | invalid
deriving Repr, DecidableEq

/-- `YankNthArgState` -/
structure Yank where
  pos : Int
  n : Int
  prev : Text
deriving Repr, DecidableEq

structure St where
  storage : List Text
  hloaded : Bool
  hist : List Text
  work : List Text
  idx : Nat
  cur : Nat
  search : Option Text
  ehs : Bool
  vwt : Bool
  ml : Bool
  vstate : VState
  verr : Option Int
  vtasks : Nat
  vrun : Option (Text × Nat)
  vasync : Bool
  pref : Option Nat
  yank : Option Yank
  preRun : List Nat
  loading : Bool
  pending : List Text
deriving Repr, DecidableEq

abbrev Validator := Text → Option Int

/-- `c != '\\n'` -/
def notNl (c : Char) : Bool := c != '\n'

/-- `Buffer.text` = `_working_lines[working_index]` (IndexError is unreachable under `WF`) -/
def St.text (s : St) : Text := s.work.getD s.idx []

/-- `History()` + `InMemoryHistory(strs)` + `Buffer(history=h)` right after construction. -/
def St.fresh (strs : List Text) (ehs vwt : Bool) (vasync : Bool := false) (ml : Bool := false) : St :=
  { storage := strs, hloaded := false, hist := [], work := [[]], idx := 0, cur := 0,
    search := none, ehs := ehs, vwt := vwt, ml := ml, vstate := .unknown, verr := none, vtasks := 0,
    vrun := none, vasync := vasync, pref := none, yank := none, preRun := [], loading := false, pending := [] }

/-! ### Document queries on the current text -/

def lineBefore (t : Text) (cur : Nat) : Text := ((t.take cur).reverse.takeWhile notNl).reverse
def lineAfter (t : Text) (cur : Nat) : Text := (t.drop cur).takeWhile notNl
/-- `Document.cursor_position_row` -/
def row (t : Text) (cur : Nat) : Nat := ((t.take cur).filter (· == '\n')).length
/-- `Document.cursor_position_col` -/
def col (t : Text) (cur : Nat) : Nat := (lineBefore t cur).length
/-- `Document.line_count` -/
def lineCount (t : Text) : Nat := (splitOn '\n' t).length

/-- `Document.translate_row_col_to_index(row, col)` for `row, col ≥ 0`
    (a row past the end is the IndexError branch: last line). -/
def rowColToIndex (t : Text) (r c : Nat) : Nat :=
  let lines := splitOn '\n' t
  let r' := if r < lines.length then r else lines.length - 1
  let start := ((lines.take r').map (·.length + 1)).sum
  let line := lines.getD r' []
  min (start + min c line.length) t.length

/-! ### setters of `Buffer` -/

/-- `Buffer.cursor_position = v` (clamped to `0..len(text)`; a change resets `preferred_column`). -/
def setCursorPos (s : St) (v : Int) : St :=
  let c := min v.toNat s.text.length
  if c = s.cur then s else { s with cur := c, pref := none, yank := none }

/-- `Buffer._text_changed` -/
def textChanged (s : St) : St :=
  { s with vstate := .unknown, verr := none, pref := none, yank := none,
           vtasks := if s.vwt then s.vtasks + 1 else s.vtasks }

/-- `Buffer.working_index = i` -/
def setWorkingIndex (s : St) (i : Nat) : St :=
  if s.idx = i then s else textChanged (setCursorPos { s with idx := i } 0)

/-- `Buffer.text = t` -/
def setText (s : St) (t : Text) : St :=
  let s1 := if s.cur > t.length then setCursorPos s t.length else s
  let changed := decide (t ≠ s1.text)
  let s2 := { s1 with work := s1.work.set s1.idx t }
  if changed then { textChanged s2 with search := none } else s2

/-- `Buffer.document = Document(t, c)` with `0 ≤ c ≤ len(t)` (the caller guarantees the assertion). -/
def setDocument (s : St) (t : Text) (c : Nat) : St :=
  let tchanged := decide (t ≠ s.text)
  let cchanged := decide (c ≠ s.cur)
  let s1 := { s with work := s.work.set s.idx t, cur := c }
  let s2 := if tchanged then { textChanged s1 with search := none } else s1
  if cchanged then { s2 with pref := none, yank := none } else s2

/-- `Buffer.insert_text(data)` (insert mode, cursor moves) -/
def insertText (s : St) (data : Text) : St :=
  setDocument s (s.text.take s.cur ++ data ++ s.text.drop s.cur) (s.cur + data.length)

/-- `Document.current_line` -/
def currentLine (t : Text) (cur : Nat) : Text := lineBefore t cur ++ lineAfter t cur

/-- `Document.leading_whitespace_in_current_line`: `current_line[:len(current_line) - len(current_line.lstrip())]`;
    `isSp` is Python's `str.isspace` (a class of the runtime: parameter) -/
def leadingWs (isSp : Char → Bool) (t : Text) (cur : Nat) : Text := (currentLine t cur).takeWhile isSp

/-- what `Buffer.newline(copy_margin)` inserts -/
def newlineData (isSp : Char → Bool) (s : St) (copyMargin : Bool) : Text :=
  '\n' :: (if copyMargin then leadingWs isSp s.text s.cur else [])

/-- `Buffer.delete_before_cursor(count)` -/
def deleteBefore (s : St) (count : Nat) : St :=
  if 0 < s.cur then
    let count := min count s.cur
    setDocument s (s.text.take (s.cur - count) ++ s.text.drop s.cur) (s.cur - count)
  else s

/-- `Buffer.cursor_left()` / `cursor_right()` (count 1) and the readline line-boundary moves -/
def cursorLeft (s : St) : St := setCursorPos s ((s.cur : Int) - min (col s.text s.cur) 1)
def cursorRight (s : St) : St := setCursorPos s ((s.cur : Int) + min 1 (lineAfter s.text s.cur).length)
def home (s : St) : St := setCursorPos s ((s.cur : Int) - (lineBefore s.text s.cur).length)
def endl (s : St) : St := setCursorPos s ((s.cur : Int) + (lineAfter s.text s.cur).length)

/-- `self.preferred_column or self.document.cursor_position_col` (0 is falsy) -/
def origColumn (s : St) : Nat :=
  match s.pref with
  | some p => if p = 0 then col s.text s.cur else p
  | none => col s.text s.cur

/-- `Buffer.cursor_up(count)`; `none` = AssertionError (`count >= 1`) -/
def cursorUp (s : St) (count : Int) : Option St :=
  if count < 1 then none else
  let oc := origColumn s
  let r := ((row s.text s.cur : Int) - count).toNat
  let s1 := setCursorPos s (rowColToIndex s.text r oc)
  some { s1 with pref := some oc }

def cursorDown (s : St) (count : Int) : Option St :=
  if count < 1 then none else
  let oc := origColumn s
  let r := row s.text s.cur + count.toNat
  let s1 := setCursorPos s (rowColToIndex s.text r oc)
  some { s1 with pref := some oc }

/-! ### history navigation -/

/-- `Buffer._set_history_search` -/
def setHistorySearch (s : St) : St :=
  if s.ehs then
    (if s.search.isNone then { s with search := some (s.text.take s.cur) } else s)
  else { s with search := none }

/-- `Buffer._history_matches(i)` -/
def historyMatches (s : St) (i : Nat) : Bool :=
  match s.search with
  | none => true
  | some p => p.isPrefixOf (s.work.getD i [])

/-- the body of `for i in range(working_index - 1, -1, -1)`: `n` = number of indices still to
    visit (the next one is `n - 1`); `count` is decremented on every match and the loop
    breaks when it reaches 0. -/
def bwdGo (s : St) : Nat → Int → Bool → St × Bool
  | 0, _, found => (s, found)
  | n + 1, count, found =>
    let hit := historyMatches s n
    let s' := if hit then setWorkingIndex s n else s
    let count' := if hit then count - 1 else count
    let found' := if hit then true else found
    if count' = 0 then (s', found') else bwdGo s' n count' found'

/-- `Buffer.history_backward(count)` -/
def historyBackward (s : St) (count : Int) : St :=
  let s0 := setHistorySearch s
  let (s1, found) := bwdGo s0 s0.idx count false
  if found then setCursorPos s1 s1.text.length else s1

/-- the body of `for i in range(working_index + 1, len(working_lines))`: `fuel` indices are
    still to be visited, starting at `i`. -/
def fwdGo (s : St) : Nat → Nat → Int → Bool → St × Bool
  | 0, _, _, found => (s, found)
  | fuel + 1, i, count, found =>
    let hit := historyMatches s i
    let s' := if hit then setWorkingIndex s i else s
    let count' := if hit then count - 1 else count
    let found' := if hit then true else found
    if count' = 0 then (s', found') else fwdGo s' fuel (i + 1) count' found'

/-- `Buffer.history_forward(count)` -/
def historyForward (s : St) (count : Int) : St :=
  let s0 := setHistorySearch s
  let (s1, found) := fwdGo s0 (s0.work.length - (s0.idx + 1)) (s0.idx + 1) count false
  if found then
    let s2 := setCursorPos s1 0
    setCursorPos s2 ((s2.cur : Int) + (lineAfter s2.text s2.cur).length)
  else s1

/-- `Buffer.go_to_history(index)` for `index ≥ 0` -/
def goToHistory (s : St) (index : Nat) : St :=
  if index < s.work.length then
    let s1 := setWorkingIndex s index
    setCursorPos s1 s1.text.length
  else s

/-- `Buffer.go_to_history(index)` with the proposed repair
    (proposed_fixes/C14-go-to-history-resets-search.diff): the jump also forgets the remembered
    search prefix.  Which of the two variants the tree contains is probed on every run
    (`Ptk.Gen.C14.goToHistoryResetsSearch`). -/
def goToHistoryFixed (s : St) (index : Nat) : St :=
  if index < s.work.length then { goToHistory s index with search := none } else s

/-- named command `end-of-history` (`history_forward(count=10**100)`: the count is re-read from the
    source on every run, `Ptk.Gen.C14.endHistCount`) -/
def endOfHistory (s : St) : St :=
  let s1 := historyForward s Ptk.Gen.C14.endHistCount
  goToHistory s1 (s1.work.length - 1)

def endOfHistoryFixed (s : St) : St :=
  let s1 := historyForward s Ptk.Gen.C14.endHistCount
  goToHistoryFixed s1 (s1.work.length - 1)

/-- the body of `Buffer.auto_up` for `count ≥ 1`, without completion menu and without
    selection; `none` = AssertionError from `cursor_up` (unreachable for `count ≥ 1`) -/
def autoUpPos (s : St) (count : Int) (goStart : Bool) : Option St :=
  if row s.text s.cur > 0 then cursorUp s count
  else
    let s1 := historyBackward s count
    some (if goStart then home s1 else s1)

/-- the body of `Buffer.auto_down` for `count ≥ 1` -/
def autoDownPos (s : St) (count : Int) (goStart : Bool) : Option St :=
  if row s.text s.cur + 1 < lineCount s.text then cursorDown s count
  else
    let s1 := historyForward s count
    some (if goStart then home s1 else s1)

/-- `Buffer.auto_up(count, go_to_start_of_line_if_history_changes)`: a negative count moves in
    the other direction, zero does nothing -/
def autoUp (s : St) (count : Int) (goStart : Bool) : Option St :=
  if count ≤ 0 then (if count < 0 then autoDownPos s (-count) goStart else some s)
  else autoUpPos s count goStart

/-- `Buffer.auto_down(count, go_to_start_of_line_if_history_changes)` -/
def autoDown (s : St) (count : Int) (goStart : Bool) : Option St :=
  if count ≤ 0 then (if count < 0 then autoUpPos s (-count) goStart else some s)
  else autoDownPos s count goStart

/-! ### yank-nth-arg / yank-last-arg: read the history, insert into the current working copy -/

/-- `_QUOTED_WORDS_RE = (\s+|".*?"|'.*?')`: does a quoted string start here?  `q` is the quote;
    `.*?` is the shortest run without a line break up to the next `q`.  Returns the length of the
    match (both quotes included). -/
def quotedLen (q : Char) : Text → Option Nat
  | [] => none
  | c :: rest =>
    if c ≠ q then none else
    let body := rest.takeWhile (fun x => x != q && x != '\n')
    match rest.drop body.length with
    | d :: _ => if d = q then some (body.length + 2) else none
    | [] => none

/-- `_QUOTED_WORDS_RE.split(line)` (a pattern with one capturing group: the separators are kept):
    `fuel` bounds the recursion (the length of the text suffices), `chunk` collects the text since
    the last match, reversed. `reSp` = regex `\s` -/
def splitQuoted (reSp : Char → Bool) : Nat → Text → Text → List Text
  | 0, _, chunk => [chunk.reverse]
  | _ + 1, [], chunk => [chunk.reverse]
  | fuel + 1, c :: rest, chunk =>
    if reSp c then
      let run := (c :: rest).takeWhile reSp
      chunk.reverse :: run :: splitQuoted reSp fuel ((c :: rest).drop run.length) []
    else
      match (quotedLen '"' (c :: rest)).orElse (fun _ => quotedLen '\'' (c :: rest)) with
      | some n => chunk.reverse :: (c :: rest).take n :: splitQuoted reSp fuel ((c :: rest).drop n) []
      | none => splitQuoted reSp fuel rest (c :: chunk)

/-- `str.strip()` -/
def strip (isSp : Char → Bool) (t : Text) : Text :=
  ((t.dropWhile isSp).reverse.dropWhile isSp).reverse

/-- `words = [w.strip() for w in _QUOTED_WORDS_RE.split(line)]; words = [w for w in words if w]` -/
def quotedWords (reSp isSp : Char → Bool) (line : Text) : List Text :=
  ((splitQuoted reSp line.length line []).map (strip isSp)).filter (· ≠ [])

/-- the reading half of `Buffer.yank_nth_arg(n, _yank_last_arg)`: which history entry and which of
    its words; `none` when `get_strings()` is empty (the method returns at once).
    Result: (new history_position, n, word). -/
def yankLookup (words : Text → List Text) (s : St) (n : Option Int) (last : Bool) : Option (Int × Int × Text) :=
  if s.hist = [] then none else
  let st0 : Yank := s.yank.getD { pos := 0, n := if last then -1 else 1, prev := [] }
  let k := match n with | some k => k | none => st0.n
  let newPos0 := st0.pos - 1
  let newPos := if -newPos0 > (s.hist.length : Int) then -1 else newPos0
  let line := (index? s.hist newPos).getD []
  let word := (index? (words line) k).getD []
  some (newPos, k, word)

/-- the writing half: the previously inserted word (if any) is deleted before the cursor, the
    new one inserted, the state saved again -/
def yankPrev (s : St) : Text :=
  match s.yank with
  | some y => y.prev
  | none => []

/-- the state `yank_nth_arg` inserts into: the previously inserted word removed -/
def yankBase (s : St) : St :=
  if yankPrev s ≠ [] then deleteBefore s (yankPrev s).length else s

def yankApply (s : St) (pos n : Int) (word : Text) : St :=
  { insertText (yankBase s) word with yank := some { pos := pos, n := n, prev := word } }

/-! ### validation, accept, reset -/

/-- `Buffer.validate(set_cursor)`; the Bool is the return value -/
def validate (v : Validator) (s : St) (setCursor : Bool) : St × Bool :=
  if s.vstate ≠ .unknown then (s, s.vstate = .valid) else
  match v s.text with
  | some e =>
    let s1 := if setCursor then setCursorPos s (min (max 0 e) s.text.length) else s
    ({ s1 with vstate := .invalid, verr := some e }, false)
  | none => ({ s with vstate := .valid, verr := none }, true)

/-! #### `_validate_async` under `_only_one_at_a_time`, cut at its only await

The coroutine `async_validator` = `_only_one_at_a_time(lambda: self._validate_async())`:

    if running: return                      -- swallowed
    running = True
    try:  while True:                       -- `_validate_async`
            if self.validation_state != UNKNOWN: return
            error = None; document = self.document
            try: await self.validator.validate_async(self.document)     -- <- the cut
            except ValidationError as e: error = e
            if self.document != document: continue
            self.validation_state = INVALID if error else VALID
            self.validation_error = error
    finally: running = False

Between two cuts the coroutine runs atomically (asyncio).  `Document.__eq__` compares text and
cursor position (no selection in this model). -/

/-- "Handle validation result." -/
def setVerdict (s : St) (r : Option Int) : St :=
  match r with
  | some e => { s with vstate := .invalid, verr := some e }
  | none => { s with vstate := .valid, verr := none }

/-- `_validate_async` from the top of its `while True` with `running = True`: up to the await
    (then `vrun` holds the captured document) or to its `return` (`finally: running = False`). -/
def vLoopTop (v : Validator) (s : St) : St :=
  if s.vstate ≠ .unknown then { s with vrun := none }
  else if s.vasync then { s with vrun := some (s.text, s.cur) }
  else
    -- `Validator.validate_async` does not suspend: the document cannot have changed, the verdict
    -- is stored and the next iteration returns
    { setVerdict s (v s.text) with vrun := none }

/-- one created `_async_validator()` task gets its first step -/
def vStart (v : Validator) (s : St) : St :=
  if s.vtasks = 0 then s else
  let s1 := { s with vtasks := s.vtasks - 1 }
  if s1.vrun.isSome then s1 else vLoopTop v s1

/-- the validation in flight finishes (returns or raises `ValidationError`): the coroutine runs
    on to its next await or to its end -/
def vFinish (v : Validator) (s : St) : St :=
  match s.vrun with
  | none => s
  | some (t, c) =>
    if s.text = t ∧ s.cur = c then { setVerdict s (v t) with vrun := none }
    else vLoopTop v s

def drainGo (v : Validator) : Nat → St → St
  | 0, s => s
  | n + 1, s => drainGo v n (vStart v s)

/-- one turn of the event loop: every created `_async_validator()` task gets its first step, in
    creation order (with a validator that does not suspend they all run to completion) -/
def asyncValidate (v : Validator) (s : St) : St := drainGo v s.vtasks s

/-- `Buffer.append_to_history` (`History.append_string` + `InMemoryHistory.store_string`) -/
def appendToHistory (s : St) : St :=
  let t := s.text
  if t ≠ [] then
    (if s.hist = [] ∨ s.hist.getLast? ≠ some t then
      { s with hist := s.hist ++ [t], storage := s.storage ++ [t] }
     else s)
  else s

/-- `Buffer.reset(Document(t, c))`: a running `_async_validator` is not touched -/
def reset (s : St) (t : Text) (c : Nat) : St :=
  { s with cur := c, vstate := .unknown, verr := none, pref := none, yank := none, search := none,
           loading := false, pending := [], work := [t], idx := 0 }

/-- `Buffer.reset(Document(t, c), append_to_history=True)` -/
def resetAppend (s : St) (t : Text) (c : Nat) : St := reset (appendToHistory s) t c

/-- `Buffer.validate_and_handle()` with an accept handler that records the text it was given
    and returns `keep`; the `Option Text` is what the handler received (= the prompt's result) -/
def validateAndHandle (v : Validator) (s : St) (keep : Bool) : St × Option Text :=
  let (s1, ok) := validate v s true
  if ok then
    let res := s1.text
    let s2 := appendToHistory s1
    (if keep then s2 else reset s2 [] 0, some res)
  else (s1, none)

/-- `Buffer.load_history_if_not_yet_loaded()` followed by the first step of the task:
    `History.load()` up to its first `yield` (snapshot of the loaded strings, newest first) -/
def startLoad (s : St) : St :=
  if s.loading then s else
  let h := if s.hloaded then s.hist else s.storage
  { s with hloaded := true, hist := h, loading := true, pending := h.reverse }

/-- the loader delivers one more item: `_working_lines.appendleft(item); __working_index += 1` -/
def loadOne (s : St) : St :=
  match s.pending with
  | [] => s
  | item :: rest => { s with work := item :: s.work, idx := s.idx + 1, pending := rest }

/-- the loader runs to completion -/
def loadAll (s : St) : St :=
  { s with work := s.pending.reverse ++ s.work, idx := s.idx + s.pending.length, pending := [] }

/-- `Application.run_async` finishes (`cancel_and_wait_for_background_tasks`): validator tasks
    that did not start yet never run, the one suspended in `validate_async` is cancelled and
    leaves through `finally: running = False` -/
def appExit (s : St) : St := { s with vtasks := 0, vrun := none }

/-- named command `operate-and-get-next` (emacs `c-o`) on the PromptSession's default buffer:
    `new_index = working_index + 1`, `validate_and_handle()` (the session's accept handler keeps
    the text), and — accepted or not — a callable is appended to `app.pre_run_callables` -/
def operateNext (v : Validator) (s : St) : St × Option Text :=
  let (s1, r) := validateAndHandle v s true
  ({ s1 with preRun := s1.preRun ++ [s.idx] }, r)

/-- `Application._pre_run`: the registered callables run in order
    (`if new_index < len(buff._working_lines): buff.working_index = new_index`), then the list is
    cleared -/
def runPreRun (s : St) : St :=
  let s1 := s.preRun.foldl (fun t i => if i + 1 < t.work.length then setWorkingIndex t (i + 1) else t) s
  { s1 with preRun := [] }

/-! ### operations -/

inductive Op
  | insert (d : Text)
  | delBefore (n : Nat)
  | setText (t : Text)
  | setCursor (c : Int)
  | left | right | home | endl
  | histBack (c : Int)
  | histFwd (c : Int)
  | goTo (i : Nat)
  | endHist
  | autoUp (c : Int) (gs : Bool)
  | autoDown (c : Int) (gs : Bool)
  | setEhs (b : Bool)
  | setVwt (b : Bool)
  | validate (setc : Bool)
  | asyncValidate
  | vStart
  | vFinish
  | accept (keep : Bool)
  | append
  | reset (t : Text) (c : Nat)
  | resetAppend (t : Text) (c : Nat)
  | startLoad
  | loadOne
  | appExit
  | operateNext
  | yankApply (pos n : Int) (word : Text)
  | goToFixed (i : Nat)
  | endHistFixed
deriving Repr

inductive Out
  | none                -- the call returned None
  | bool (b : Bool)     -- return value of `validate`
  | accepted (t : Text) -- the accept handler ran with this text
  | rejected            -- `validate_and_handle` did not accept
  | assertErr           -- AssertionError (`cursor_up/down` with `count < 1`), state unchanged
deriving Repr, DecidableEq

def step (v : Validator) (s : St) : Op → St × Out
  | .insert d => (insertText s d, .none)
  | .delBefore n => (deleteBefore s n, .none)
  | .setText t => (setText s t, .none)
  | .setCursor c => (setCursorPos s c, .none)
  | .left => (cursorLeft s, .none)
  | .right => (cursorRight s, .none)
  | .home => (home s, .none)
  | .endl => (endl s, .none)
  | .histBack c => (historyBackward s c, .none)
  | .histFwd c => (historyForward s c, .none)
  | .goTo i => (goToHistory s i, .none)
  | .endHist => (endOfHistory s, .none)
  | .autoUp c gs => match autoUp s c gs with
    | some s' => (s', .none)
    | none => (s, .assertErr)
  | .autoDown c gs => match autoDown s c gs with
    | some s' => (s', .none)
    | none => (s, .assertErr)
  | .setEhs b => ({ s with ehs := b }, .none)
  | .setVwt b => ({ s with vwt := b }, .none)
  | .validate sc => let (s', b) := validate v s sc; (s', .bool b)
  | .asyncValidate => (asyncValidate v s, .none)
  | .vStart => (vStart v s, .none)
  | .vFinish => (vFinish v s, .none)
  | .accept keep => match validateAndHandle v s keep with
    | (s', some t) => (s', .accepted t)
    | (s', none) => (s', .rejected)
  | .append => (appendToHistory s, .none)
  | .reset t c => (reset s t c, .none)
  | .resetAppend t c => (resetAppend s t c, .none)
  | .startLoad => (startLoad s, .none)
  | .loadOne => (loadOne s, .none)
  | .appExit => (appExit s, .none)
  | .operateNext => match operateNext v s with
    | (s', some t) => (s', .accepted t)
    | (s', none) => (s', .rejected)
  | .yankApply p n w => (yankApply s p n w, .none)
  | .goToFixed i => (goToHistoryFixed s i, .none)
  | .endHistFixed => (endOfHistoryFixed s, .none)

def run (v : Validator) (s : St) (ops : List Op) : St :=
  ops.foldl (fun s op => (step v s op).1) s

/-! ### thin glue of `PromptSession.prompt()` and the emacs key bindings -/

/-- `PromptSession.prompt(default=d)` up to and including the first render and the first
    step of the loop: `default_buffer.reset(Document(d))`, the previous run's background
    tasks are gone (`Application.run_async` cancels them when it finishes: tasks that did not
    start yet never run, the one suspended in `validate_async` leaves through
    `finally: running = False`), `BufferControl.create_content` starts the loader, which (plain
    `History.load`, no awaits between items) runs to completion before the first key. -/
def promptStart (s : St) (d : Text) : St :=
  loadAll (startLoad (runPreRun (reset (appExit s) d d.length)))

/-- `prompt(default=d, accept_default=True)`: `validate_and_handle` is scheduled with
    `call_soon` in `pre_run`, i.e. it runs *before* the loader task created by the first
    render gets its first step; the loader then runs to completion while the application
    finishes (or keeps waiting for keys when the default was rejected). -/
def promptAcceptDefault (v : Validator) (s : St) (d : Text) : St × Option Text :=
  let (s1, r) := validateAndHandle v (runPreRun (reset (appExit s) d d.length)) true
  (loadAll (startLoad s1), r)

/-- what the key bindings take from the Python runtime / from regular expressions: parameters of
    the key level -/
structure Env where
  /-- `str.isspace` -/
  isSp : Char → Bool
  /-- `[w.strip() for w in _QUOTED_WORDS_RE.split(line)]` without the empty ones -/
  words : Text → List Text
  /-- `go_to_history` forgets the search prefix (the repaired variant) -/
  fixG : Bool := false

inductive Key
  | char (c : Char)      -- self-insert (arg 1)
  | backspace            -- backward-delete-char (arg 1)
  | left | right | home | endl
  | up (arg : Int)       -- <up>: auto_up(count=arg)
  | down (arg : Int)     -- <down>: auto_down(count=arg)
  | ctrlP (arg : Int)    -- emacs c-p: auto_up(count=arg)
  | ctrlN                -- emacs c-n: auto_down()
  | prevHist (arg : Int) -- c-up / pageup: previous-history
  | nextHist (arg : Int) -- c-down / pagedown: next-history
  | beginHist            -- escape <
  | endHist              -- escape >
  | enter                -- single-line prompt: accept; multiline prompt: newline(copy_margin=True)
  | escEnter             -- escape enter: accept-line (also in a multiline prompt)
  | ctrlO                -- c-o: operate-and-get-next
  | yankNth (arg : Option Int)   -- escape c-y: yank-nth-arg (`arg` = event.arg if event.arg_present)
  | yankLast (arg : Option Int)  -- escape . / escape _: yank-last-arg
  | valDone              -- not a key: the validation in flight finishes (gated / threaded validator)
deriving Repr

/-- the buffer operation behind a key; only Enter depends on the state (the `multiline` filter and,
    for the margin it copies, the current line) -/
def yankOp (env : Env) (s : St) (n : Option Int) (last : Bool) : Op :=
  match yankLookup env.words s n last with
  | some (p, k, w) => .yankApply p k w
  | none => .setEhs s.ehs      -- `yank_nth_arg` returns at once: nothing happens

def keyOp (env : Env) (s : St) : Key → Op
  | .char c => .insert [c]
  | .backspace => .delBefore 1
  | .left => .left
  | .right => .right
  | .home => .home
  | .endl => .endl
  | .up a => .autoUp a false
  | .down a => .autoDown a false
  | .ctrlP a => .autoUp a false
  | .ctrlN => .autoDown 1 false
  | .prevHist a => .histBack a
  | .nextHist a => .histFwd a
  | .beginHist => if env.fixG then .goToFixed 0 else .goTo 0
  | .endHist => if env.fixG then .endHistFixed else .endHist
  | .enter => if s.ml then .insert (newlineData env.isSp s true) else .accept true
  | .escEnter => .accept true
  | .ctrlO => .operateNext
  | .yankNth a => yankOp env s a false
  | .yankLast a => yankOp env s a true
  | .valDone => .vFinish

/-- after the key handler: one turn of the event loop (created validator tasks get their first
    step); when the handler accepted the input the application then finishes -/
def afterKey (v : Validator) (s : St) (o : Out) : St :=
  match o with
  | .accepted _ => appExit (asyncValidate v s)
  | _ => asyncValidate v s

/-- one key press followed by one turn of the event loop -/
def keyStep (v : Validator) (env : Env) (s : St) (k : Key) : St × Out :=
  let (s1, o) := step v s (keyOp env s k)
  (afterKey v s1 o, o)

/-! ### thin glue of the vi key bindings -/

/-- `Document.is_cursor_at_the_end_of_line`: the character under the cursor is `"\n"` or missing -/
def atEndOfLine (t : Text) (cur : Nat) : Bool :=
  match t[cur]? with
  | none => true
  | some c => c == '\n'

/-- `KeyProcessor._fix_vi_cursor_position` in navigation mode: never rest after the last
    character of a non-empty line (the preferred column is put back afterwards) -/
def viFix (s : St) : St :=
  if atEndOfLine s.text s.cur && decide ((lineBefore s.text s.cur ++ lineAfter s.text s.cur).length > 0) then
    { setCursorPos s ((s.cur : Int) - 1) with pref := s.pref }
  else s

/-- a PromptSession in vi mode: the buffer plus `vi_state.input_mode == NAVIGATION` -/
structure ViSt where
  st : St
  nav : Bool
deriving Repr, DecidableEq

inductive ViKey
  | char (c : Char)      -- insert mode: self-insert
  | backspace            -- insert mode: backward-delete-char
  | escape               -- to navigation mode (from insert mode the cursor steps left)
  | insertI              -- navigation mode `i`
  | appendA              -- navigation mode `a`
  | k (arg : Int)        -- navigation mode `k`: auto_up(count, go_to_start_of_line_if_history_changes=True)
  | j (arg : Int)        -- navigation mode `j`
  | up (arg : Int)       -- <up> (both modes): auto_up(count)
  | down (arg : Int)     -- <down>
  | gotoG (n : Nat)      -- navigation mode `<n>G`: go_to_history(n - 1), n ≥ 1
  | enter                -- navigation mode or single-line prompt: accept-line; insert mode of a
                         -- multiline prompt: newline(copy_margin=True)
  | valDone              -- not a key: the validation in flight finishes
deriving Repr

/-- the handler of one vi key: new buffer state, new mode, result -/
def viHandler (v : Validator) (env : Env) (vs : ViSt) : ViKey → St × Bool × Out
  | .char c => (insertText vs.st [c], vs.nav, .none)
  | .backspace => (deleteBefore vs.st 1, vs.nav, .none)
  | .escape => (if vs.nav then vs.st else cursorLeft vs.st, true, .none)
  | .insertI => (vs.st, false, .none)
  | .appendA => (cursorRight vs.st, false, .none)
  | .k a => let (s, o) := step v vs.st (.autoUp a true); (s, vs.nav, o)
  | .j a => let (s, o) := step v vs.st (.autoDown a true); (s, vs.nav, o)
  | .up a => let (s, o) := step v vs.st (.autoUp a false); (s, vs.nav, o)
  | .down a => let (s, o) := step v vs.st (.autoDown a false); (s, vs.nav, o)
  | .gotoG n => (if env.fixG then goToHistoryFixed vs.st (n - 1) else goToHistory vs.st (n - 1), vs.nav, .none)
  | .enter =>
    if vs.st.ml && !vs.nav then (insertText vs.st (newlineData env.isSp vs.st true), vs.nav, .none)
    else let (s, o) := step v vs.st (.accept true); (s, vs.nav, o)
  | .valDone => (vFinish v vs.st, vs.nav, .none)

/-- one vi key press: handler, cursor fix when in navigation mode afterwards, then one turn of
    the event loop -/
def viKeyStep (v : Validator) (env : Env) (vs : ViSt) (k : ViKey) : ViSt × Out :=
  let (s1, nav1, o) := viHandler v env vs k
  let s2 := if nav1 then viFix s1 else s1
  ({ st := afterKey v s2 o, nav := nav1 }, o)

/-- `prompt()` in vi mode: `vi_state.reset()` puts the session back into insert mode -/
def viPromptStart (vs : ViSt) (d : Text) : ViSt := { st := promptStart vs.st d, nav := false }

end Ptk.C14
