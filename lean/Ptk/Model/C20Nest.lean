/-
  C20 (fifth part) — the AppSession's "current application" cell with NESTED applications.

  `Application.run_async` registers itself with `set_app(self)`:

      previous_app = session.app;  session.app = app;  try: yield  finally: session.app = previous_app

  i.e. a stack discipline: entering pushes, leaving restores the application that was active before.  A running
  application can show a nested one while it is suspended in `async with in_terminal():` (the "Press ENTER to
  continue" prompt of `run_system_command`, a confirmation prompt, ...).  `StdoutProxy._get_app_loop()` and
  `in_terminal()` (`get_app_or_none()`) both read that cell to decide whether a prompt has to be erased.

    start   a new application starts: with no application running, or nested inside the open section of the
            innermost running one (`set_app` saves the cell, first render)
    stop    the innermost application (no section of its own open) finishes: render done, `set_app` is left
    enter   the innermost application opens an `in_terminal` section that stays open (erase, `_running_in_terminal`)
    leave   that section ends: redraw; the `run_in_terminal` tasks that waited for it (`await previous_run_in_terminal_f`)
            then run one after the other: erase, text, redraw
    write   a batch goes through the proxy, condensed to one step (the hand-off windows are the subject of
            `Ptk.Model.C20`): look the cell up; no application -> the text is written directly; an application ->
            `run_in_terminal` in its loop: `in_terminal` erases, writes, redraws - or waits for the open section

  `restorePrev` is a switch: `true` is the code; `false` is `finally: session.app = None` (seeded regression C20-i).
-/
import Ptk.Py
namespace Ptk.C20Nest
open Ptk.Py

inductive Ev where
  | draw (k : Nat)
  | erase (k : Nat)
  | doneDraw (k : Nat)
  | out (t : Text)
deriving Repr, DecidableEq

/-- a running application -/
structure Frame where
  id : Nat
  /-- what its `set_app` saved: `previous_app` -/
  prev : Option Nat
  /-- an `in_terminal` section of this application is open -/
  inSec : Bool
  /-- texts whose `run_in_terminal` task waits for that section to end -/
  waiting : List Text
deriving Repr, DecidableEq

structure St where
  restorePrev : Bool := true
  /-- `AppSession.app` -/
  cell : Option Nat := none
  /-- the running applications, innermost first -/
  stack : List Frame := []
  next : Nat := 0
  log : List Ev := []
deriving Repr, DecidableEq

inductive Op where
  | start
  | stop
  | enter
  | leave
  | write (t : Text)
deriving Repr, DecidableEq

/-- the sections of the waiting tasks, after the section they waited for has ended -/
def flushWaiting (k : Nat) : List Text → List Ev
  | [] => []
  | t :: ts => [.erase k, .out t, .draw k] ++ flushWaiting k ts

def addWaiting (k : Nat) (t : Text) : List Frame → List Frame
  | [] => []
  | f :: fs => if f.id = k then { f with waiting := f.waiting ++ [t] } :: fs else f :: addWaiting k t fs

def findFrame (k : Nat) : List Frame → Option Frame
  | [] => none
  | f :: fs => if f.id = k then some f else findFrame k fs

def step (s : St) : Op → St
  | .start =>
    let ok := match s.stack with
      | [] => true
      | f :: _ => f.inSec
    if ok then
      { s with cell := some s.next, next := s.next + 1, log := s.log ++ [.draw s.next],
               stack := { id := s.next, prev := s.cell, inSec := false, waiting := [] } :: s.stack }
    else s
  | .stop =>
    match s.stack with
    | f :: fs =>
      if f.inSec then s
      else { s with stack := fs, cell := if s.restorePrev then f.prev else none, log := s.log ++ [.doneDraw f.id] }
    | [] => s
  | .enter =>
    match s.stack with
    | f :: fs => if f.inSec then s else { s with stack := { f with inSec := true } :: fs, log := s.log ++ [.erase f.id] }
    | [] => s
  | .leave =>
    match s.stack with
    | f :: fs =>
      if f.inSec then
        { s with stack := { f with inSec := false, waiting := [] } :: fs,
                 log := s.log ++ [.draw f.id] ++ flushWaiting f.id f.waiting }
      else s
    | [] => s
  | .write t =>
    match s.cell with
    | none => { s with log := s.log ++ [.out t] }          -- `_get_app_loop()` is None: direct write
    | some k =>
      match findFrame k s.stack with
      | none => { s with log := s.log ++ [.out t] }        -- `not app._is_running`: plain call
      | some f =>
        if f.inSec then { s with stack := addWaiting k t s.stack }
        else { s with log := s.log ++ [.erase k, .out t, .draw k] }

def runOps (s : St) : List Op → St
  | [] => s
  | o :: os => runOps (step s o) os

/-- which prompt is on the screen after these events; `none` = text was written while a prompt was drawn -/
def screen : Option Nat → List Ev → Option (Option Nat)
  | sh, [] => some sh
  | _, .draw k :: es => screen (some k) es
  | _, .erase _ :: es => screen none es
  | _, .doneDraw _ :: es => screen none es
  | none, .out _ :: es => screen none es
  | some _, .out _ :: _ => none

/-- the prompt that should be on the screen: the innermost application's, unless its section is open -/
def shownOf : List Frame → Option Nat
  | [] => none
  | f :: _ => if f.inSec then none else some f.id

end Ptk.C20Nest
