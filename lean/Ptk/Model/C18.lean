/-
  C18 — model of the formatted-text conversions of prompt_toolkit

    src/prompt_toolkit/formatted_text/ansi.py   ANSI._parse_corot, _select_graphic_rendition,
                                                _create_style_string, ansi_escape, ANSI.format / __mod__
    src/prompt_toolkit/formatted_text/html.py   html_escape as fixed in cfcf123 (HTML.__init__, HTML.format / __mod__:
                                                see Model/C18Html.lean)
    src/prompt_toolkit/formatted_text/base.py   to_formatted_text, Template.format, merge_formatted_text
    src/prompt_toolkit/formatted_text/utils.py  fragment_list_to_text/len/width, split_lines, to_plain_text
    src/prompt_toolkit/layout/utils.py          explode_text_fragments

  Conventions
  * a fragment is `(style, text[, mouse_handler])`; the optional handler is an opaque id.
  * the coroutine `_parse_corot` is an explicit state machine: `Mode` is the `yield` the coroutine
    is suspended at, `step` consumes one character and returns the fragments appended to
    `_formatted_text` by that character.  `int(current or 0)` is total on ASCII digits except for
    CPython's int-string-conversion limit: `runFails` / `ansiE` say where the code as it is raises.
  * the SGR code tables (`_fg_colors`, `_bg_colors`, `_256_colors`) are a parameter `Tables`
    (regenerated from /repo into `Ptk/Gen/C18.lean`; the theorems hold for every table).
  * `wcwidth` and `str.isprintable` (runtime) are parameters `cw`, `pr`.
  * `string.Formatter.vformat` / `str.__mod__` (CPython) are modelled by scanners for the sub-grammar
    documented at `scanFormat` / `scanPercent` (automatic, numbered and keyword fields, `!r !s !a`,
    `[[fill]align][width][.prec][s]`); everything else is `none` / `Err.unsupported` (= not modelled).
    A value is what `str()` / `repr()` / `format()` can see of it (`Val`).
  * sessions (several calls in one process), `_ExplodedList` mutators, `to_formatted_text` with
    `auto_convert`, `PygmentsTokens`: Model/C18Sess.lean, Model/C18Expl.lean.
-/
import Ptk.Py
set_option linter.unusedVariables false
namespace Ptk.C18
open Ptk.Py

/-! ### fragments -/

structure Frag where
  style : Text
  text : Text
  handler : Option Nat := none
deriving Repr, DecidableEq

abbrev Frags := List Frag

def zwMarker : Text := "[ZeroWidthEscape]".toList

/-- `ZeroWidthEscape not in item[0]` (substring test) -/
def visibleFrag (f : Frag) : Bool := (findSub? zwMarker f.style).isNone

/-- `fragment_list_to_text` -/
def fragText (fs : Frags) : Text := ((fs.filter visibleFrag).map (·.text)).flatten

/-- `fragment_list_len` -/
def fragLen (fs : Frags) : Nat := ((fs.filter visibleFrag).map (·.text.length)).sum

/-- `fragment_list_width`; `cw c = get_cwidth(c) = max(0, wcwidth(c))` -/
def fragWidth (cw : Char → Nat) (fs : Frags) : Nat :=
  ((fs.filter visibleFrag).map fun f => (f.text.map cw).sum).sum

/-- all text, zero-width fragments included (`"".join(item[1] for item in fragments)`) -/
def allText (fs : Frags) : Text := (fs.map (·.text)).flatten

/-- `explode_text_fragments` on a plain list -/
def explode (fs : Frags) : Frags :=
  fs.flatMap fun f => f.text.map fun c => { f with text := [c] }

/-- inner loop of `split_lines` for one fragment: `parts` is what is left of
    `string.split("\n")`, `line` the line under construction.  Returns the finished lines and
    the new line under construction. -/
def feedParts (f : Frag) : Frags → List Text → List Frags × Frags
  | line, [] => ([], line)            -- unreachable: split never returns an empty list
  | line, [last] => ([], line ++ [{ f with text := last }])
  | line, part :: rest =>
    let line1 := if part.isEmpty then line else line ++ [{ f with text := part }]
    let (ls, l') := feedParts f [] rest
    (line1 :: ls, l')

def splitGo : Frags → Frags → List Frags
  | line, [] => [line]
  | line, f :: fs =>
    let (ls, line') := feedParts f line (splitOn '\n' f.text)
    ls ++ splitGo line' fs

/-- `list(split_lines(fragments))` -/
def splitLines (fs : Frags) : List Frags := splitGo [] fs

/-! ### to_formatted_text -/

/-- the values `to_formatted_text` accepts (callables: a thunk returning a value) -/
inductive AnyFT
  | none
  | str (t : Text)
  | list (fs : Frags)
  | magic (fs : Frags)            -- result of `__pt_formatted_text__()` (ANSI / HTML / FormattedText)
  | call (v : AnyFT)
deriving Repr

/-- `to_formatted_text(value, style)` -/
def toFormattedText : AnyFT → Text → Frags
  | .call v, style => toFormattedText v style
  | v, style =>
    let result := match v with
      | .none => []
      | .str t => [{ style := [], text := t }]
      | .list fs => fs
      | .magic fs => fs
      | .call _ => []   -- unreachable
    if style.isEmpty then result
    else result.map fun f => { f with style := style ++ [' '] ++ f.style }

/-- `to_plain_text(value)` -/
def toPlainText (v : AnyFT) : Text := fragText (toFormattedText v [])

/-- `s.split(sep)` for a non-empty literal separator; `skip` = characters of an already matched
    separator still to be skipped. -/
def splitOnSubGo (sep : Text) : Nat → Text → List Text
  | _, [] => [[]]
  | skip + 1, _ :: xs => splitOnSubGo sep skip xs
  | 0, x :: xs =>
    if isPrefixOf' sep (x :: xs) && !sep.isEmpty then [] :: splitOnSubGo sep (sep.length - 1) xs
    else match splitOnSubGo sep 0 xs with
      | [] => [[x]]            -- unreachable
      | l :: ls => (x :: l) :: ls

def splitOnSub (sep : Text) (t : Text) : List Text := splitOnSubGo sep 0 t

def bracePair : Text := ['{', '}']

/-- `Template(text).format(*values)()`; `none` = AssertionError -/
def templateFormat (text : Text) (values : List AnyFT) : Option Frags :=
  if (findSub? "{0}".toList text).isSome then none else
  let parts := splitOnSub bracePair text
  if parts.length - 1 ≠ values.length then none else
  let body := (parts.zip values).flatMap fun pv =>
    ({ style := [], text := pv.1 } : Frag) :: toFormattedText pv.2 []
  some (body ++ [{ style := [], text := parts.getLast?.getD [] }])

/-- `merge_formatted_text(items)()` -/
def mergeFormattedText (items : List AnyFT) : Frags :=
  items.flatMap fun v => toFormattedText v []

/-! ### ANSI parser -/

structure Tables where
  fg : List (Nat × Text)
  bg : List (Nat × Text)
  c256 : List (Nat × Text)

def lookup (tbl : List (Nat × Text)) (k : Nat) : Option Text :=
  (tbl.find? fun p => p.1 == k).map (·.2)

structure Attrs where
  color : Option Text := none
  bgcolor : Option Text := none
  bold : Bool := false
  underline : Bool := false
  strike : Bool := false
  italic : Bool := false
  blink : Bool := false
  reverse : Bool := false
  hidden : Bool := false
deriving Repr, DecidableEq

/-- `f"{n:02x}"` -/
def hex2 (n : Nat) : Text :=
  let d := Nat.toDigits 16 n
  if d.length < 2 then '0' :: d else d

/-- the `elif attr == 1: … elif not attr:` chain of `_select_graphic_rendition`
    (`none` = no branch taken) -/
def sgrFlag (a : Attrs) (attr : Nat) : Option Attrs :=
  match attr with
  | 1 => some { a with bold := true }
  | 3 => some { a with italic := true }
  | 4 => some { a with underline := true }
  | 5 => some { a with blink := true }
  | 6 => some { a with blink := true }
  | 7 => some { a with reverse := true }
  | 8 => some { a with hidden := true }
  | 9 => some { a with strike := true }
  | 22 => some { a with bold := false }
  | 23 => some { a with italic := false }
  | 24 => some { a with underline := false }
  | 25 => some { a with blink := false }
  | 27 => some { a with reverse := false }
  | 28 => some { a with hidden := false }
  | 29 => some { a with strike := false }
  | 0 => some {}
  | _ => none

/-- `if n == 5 and len(attrs) >= 1:` — 256 colours (`n` already popped, `rest1` is what is left) -/
def sgr256 (tb : Tables) (a : Attrs) (attr n : Nat) (rest1 : List Nat) : Attrs × List Nat :=
  if n = 5 ∧ rest1.length ≥ 1 then
    match rest1 with
    | [] => (a, rest1)   -- unreachable
    | m :: r2 =>
      if attr = 38 then ({ a with color := lookup tb.c256 m }, r2)
      else ({ a with bgcolor := lookup tb.c256 m }, r2)
  else (a, rest1)

/-- `if n == 2 and len(attrs) >= 3:` — true colours -/
def sgrTrue (a : Attrs) (attr n : Nat) (rest2 : List Nat) : Attrs × List Nat :=
  if n = 2 ∧ rest2.length ≥ 3 then
    match rest2 with
    | r :: g :: b :: r3 =>
      let cs := '#' :: (hex2 r ++ hex2 g ++ hex2 b)
      if attr = 38 then ({ a with color := some cs }, r3)
      else ({ a with bgcolor := some cs }, r3)
    | _ => (a, rest2)   -- unreachable
  else (a, rest2)

/-- the branch `elif attr in (38, 48) and len(attrs) > 1:` -/
def sgrExt (tb : Tables) (a : Attrs) (attr : Nat) (rest : List Nat) : Attrs × List Nat :=
  match rest with
  | [] => (a, rest)   -- unreachable
  | n :: rest1 =>
    let p := sgr256 tb a attr n rest1
    sgrTrue p.1 attr n p.2

/-- One iteration of the `while attrs:` loop of `_select_graphic_rendition`:
    `attr` has been popped, `rest` is what is left; returns the new attributes and what is
    left afterwards. -/
def sgrOne (tb : Tables) (a : Attrs) (attr : Nat) (rest : List Nat) : Attrs × List Nat :=
  match lookup tb.fg attr with
  | some c => ({ a with color := some c }, rest)
  | none =>
  match lookup tb.bg attr with
  | some c => ({ a with bgcolor := some c }, rest)
  | none =>
  match sgrFlag a attr with
  | some a' => (a', rest)
  | none =>
  if (attr = 38 ∨ attr = 48) ∧ rest.length > 1 then sgrExt tb a attr rest
  else (a, rest)

/-- the `while attrs:` loop; `fuel` bounds the number of iterations (each pops ≥ 1 element) -/
def sgrLoop (tb : Tables) : Nat → Attrs → List Nat → Attrs
  | 0, a, _ => a
  | _ + 1, a, [] => a
  | fuel + 1, a, attr :: rest =>
    let (a', rest') := sgrOne tb a attr rest
    sgrLoop tb fuel a' rest'

/-- `_select_graphic_rendition(attrs)` -/
def sgr (tb : Tables) (a : Attrs) (attrs : List Nat) : Attrs :=
  let attrs := if attrs.isEmpty then [0] else attrs
  sgrLoop tb attrs.length a attrs

/-- Python truthiness of `self._color` -/
def truthy : Option Text → Option Text
  | some c => if c.isEmpty then none else some c
  | none => none

/-- `_create_style_string()` -/
def styleString (a : Attrs) : Text :=
  let parts : List Text :=
    (match truthy a.color with | some c => [c] | none => []) ++
    (match truthy a.bgcolor with | some c => ["bg:".toList ++ c] | none => []) ++
    (if a.bold then ["bold".toList] else []) ++
    (if a.underline then ["underline".toList] else []) ++
    (if a.strike then ["strike".toList] else []) ++
    (if a.italic then ["italic".toList] else []) ++
    (if a.blink then ["blink".toList] else []) ++
    (if a.reverse then ["reverse".toList] else []) ++
    (if a.hidden then ["hidden".toList] else [])
  join [' '] parts

/-- where the coroutine is suspended -/
inductive Mode
  | ground                                   -- `c = yield` at the top of the loop
  | zw (escaped : Text)                      -- inside `\001 … `, waiting for `\002`
  | zwAfter                                  -- the `c = yield` right after the `\002`
  | esc                                      -- `square_bracket = yield`
  | csi (current : Text) (params : List Nat) -- `char = yield` in the parameter loop
deriving Repr, DecidableEq

structure St where
  mode : Mode := .ground
  attrs : Attrs := {}
  style : Text := []
deriving Repr, DecidableEq

def ESC : Char := Char.ofNat 0x1b
def CSI8 : Char := Char.ofNat 0x9b
def SOH : Char := Char.ofNat 1
def STX : Char := Char.ofNat 2
def BS : Char := Char.ofNat 8

def isAsciiDigit (c : Char) : Bool := '0' ≤ c && c ≤ '9'

/-- `int(current or 0)` for a string of ASCII digits -/
def digitsToNat (t : Text) : Nat := t.foldl (fun n c => 10 * n + (c.toNat - '0'.toNat)) 0

/-- the code after the zero-width block: `if c == "\x1b" … elif c == "\x9b" … else append` -/
def dispatch (s : St) (c : Char) : St × Frags :=
  if c = ESC then ({ s with mode := .esc }, [])
  else if c = CSI8 then ({ s with mode := .csi [] [] }, [])
  else ({ s with mode := .ground }, [{ style := s.style, text := [c] }])

/-- one `parser.send(c)` -/
def step (tb : Tables) (s : St) (c : Char) : St × Frags :=
  match s.mode with
  | .ground =>
    if c = SOH then ({ s with mode := .zw [] }, [])
    else dispatch s c
  | .zw escaped =>
    if c = STX then
      ({ s with mode := .zwAfter }, [{ style := zwMarker, text := escaped }])
    else ({ s with mode := .zw (escaped ++ [c]) }, [])
  | .zwAfter => dispatch s c
  | .esc =>
    if c = '[' then ({ s with mode := .csi [] [] }, [])
    else ({ s with mode := .ground }, [])
  | .csi current params =>
    if isAsciiDigit c then ({ s with mode := .csi (current ++ [c]) params }, [])
    else
      let params := params ++ [min (digitsToNat current) 9999]
      if c = ';' then ({ s with mode := .csi [] params }, [])
      else if c = 'm' then
        let a := sgr tb s.attrs params
        ({ mode := .ground, attrs := a, style := styleString a }, [])
      else if c = 'C' then
        ({ s with mode := .ground },
         List.replicate (params.headD 0) { style := s.style, text := [' '] })
      else ({ s with mode := .ground }, [])

/-- feed a string; returns the final state and everything appended -/
def run (tb : Tables) : St → Text → St × Frags
  | s, [] => (s, [])
  | s, c :: cs =>
    let (s1, o1) := step tb s c
    let (s2, o2) := run tb s1 cs
    (s2, o1 ++ o2)

/-- `ANSI(value).__pt_formatted_text__()` -/
def ansi (tb : Tables) (value : Text) : Frags := (run tb {} value).2

/-! #### `int(current or 0)` and CPython's int-string-conversion limit

`int(s)` raises ValueError when `s` has more than `sys.get_int_max_str_digits()` digits (4300 by
default; 0 = no limit).  `step` above is the parser wherever `int` returns; `runFails` says where,
as the code is now, it does not. -/

/-- `int(current)` raises: more digits than the limit (`none` = no limit) -/
def intFails (limit : Option Nat) (current : Text) : Bool :=
  match limit with
  | some l => decide (current.length > l)
  | none => false

/-- this `parser.send(c)` evaluates `int(current or 0)` on a string over the limit -/
def stepFails (limit : Option Nat) (s : St) (c : Char) : Bool :=
  match s.mode with
  | .csi current _ => !isAsciiDigit c && intFails limit current
  | _ => false

def runFails (limit : Option Nat) (tb : Tables) : St → Text → Bool
  | _, [] => false
  | s, c :: cs => stepFails limit s c || runFails limit tb (step tb s c).1 cs

inductive AnsiErr | value
deriving Repr, DecidableEq

/-- `ANSI(value).__pt_formatted_text__()` as the code is now: ValueError when a control-sequence
    parameter is longer than the interpreter's limit -/
def ansiE (limit : Option Nat) (tb : Tables) (value : Text) : Except AnsiErr Frags :=
  if runFails limit tb {} value then .error .value else .ok (ansi tb value)

/-- the parameter value as the PROPOSED FIX computes it
    (`min(int(current.lstrip("0")[:5] or 0), 9999)`): `int` sees at most five digits -/
def clampParam (current : Text) : Nat := min (digitsToNat ((lstripChar '0' current).take 5)) 9999

/-- `ansi_escape(text)` for a `str` -/
def ansiEscape (t : Text) : Text :=
  t.map fun c => if c = ESC ∨ c = CSI8 ∨ c = SOH ∨ c = STX ∨ c = BS then '?' else c

/-- XML 1.0 `Char` production (`_XML_ILLEGAL_CHARS_RE` is its complement) -/
def xmlLegal (c : Char) : Bool :=
  let n := c.toNat
  n == 9 || n == 10 || n == 13 || (0x20 ≤ n && n ≤ 0xD7FF) || (0xE000 ≤ n && n ≤ 0xFFFD) ||
    (0x10000 ≤ n && n ≤ 0x10FFFF)

/-- `html_escape(text)` for a `str`: the six `replace` calls (none of the replacement texts
    contains a character replaced later, except `&`, which is replaced first), then
    `_XML_ILLEGAL_CHARS_RE.sub("?", …)` -/
def htmlEscape (t : Text) : Text :=
  t.flatMap fun c =>
    if c = '&' then "&amp;".toList
    else if c = '<' then "&lt;".toList
    else if c = '>' then "&gt;".toList
    else if c = '"' then "&quot;".toList
    else if c = '\'' then "&#39;".toList
    else if c = '\r' then "&#13;".toList
    else if !xmlLegal c then ['?']
    else [c]

/-! ### `str.format` / `%` templates (CPython; sub-grammar) -/

inductive Align | left | right | center
deriving Repr, DecidableEq

/-- the supported part of the format-spec mini-language for `str` values:
    `[[fill]align][width][.precision][s]`, align one of `< > ^` -/
structure Spec where
  fill : Char := ' '
  align : Align := .left
  width : Nat := 0
  prec : Option Nat := none
deriving Repr, DecidableEq

/-- `unsupported` = the call leaves the modelled part of CPython (never generated by the harness) -/
inductive Err | index | value | type | key | unsupported
deriving Repr, DecidableEq

/-- which argument a replacement field names: `{}` / `{3}` / `{name}` -/
inductive Arg
  | auto
  | pos (n : Nat)
  | kw (name : Text)
deriving Repr, DecidableEq

/-- `!s` `!r` `!a` -/
inductive Conv | none | s | r | a
deriving Repr, DecidableEq

structure Hole where
  arg : Arg := .auto
  conv : Conv := .none
  spec : Spec := {}
  /-- the text after `:` is empty (then `format(v, "")` is `str(v)` for every `v`) -/
  specEmpty : Bool := true
deriving Repr, DecidableEq

inductive Item
  | lit (t : Text)
  | hole (h : Hole)
deriving Repr, DecidableEq

/-- a Python value as far as `format` / `str` / `repr` can see it.  `s` = `str(v)`;
    `r` = `repr(v)` for values that are not `str` (for a `str` the model computes the repr itself);
    kind `plain` = a type that inherits `object.__format__` (None, list, a user class),
    kind `num` = a number (own format-spec language: only the empty spec is modelled). -/
inductive VKind | str | plain | num
deriving Repr, DecidableEq

structure Val where
  kind : VKind := .str
  s : Text
  r : Text := []
deriving Repr, DecidableEq

def isAlignTok (c : Char) : Option Align :=
  if c = '<' then some .left else if c = '>' then some .right
  else if c = '^' then some .center else none

/-- leading ASCII digits and the rest -/
def spanDigits : Text → Text × Text
  | [] => ([], [])
  | c :: cs => if isAsciiDigit c then
      let (d, r) := spanDigits cs
      (c :: d, r)
    else ([], c :: cs)

/-- `[width][.precision][s]` after the alignment part; `none` = not in the sub-grammar.
    A width starting with `0` is the zero flag (not modelled). -/
def scanSpecTail (fill : Char) (align : Align) (t : Text) : Option Spec :=
  let (w, r) := spanDigits t
  if w.head? = some '0' then none else
  let width := digitsToNat w
  let done (prec : Option Nat) (r : Text) : Option Spec :=
    if r = [] ∨ r = ['s'] then some { fill, align, width, prec } else none
  match r with
  | '.' :: r1 =>
    let (p, r2) := spanDigits r1
    if p.isEmpty then none else done (some (digitsToNat p)) r2
  | _ => done none r

/-- a format spec without nested fields -/
def scanSpec (t : Text) : Option Spec :=
  match t with
  | f :: a :: rest =>
    match isAlignTok a with
    | some al => scanSpecTail f al rest
    | none =>
      match isAlignTok f with
      | some al => scanSpecTail ' ' al (a :: rest)
      | none => scanSpecTail ' ' .left t
  | [a] =>
    match isAlignTok a with
    | some al => scanSpecTail ' ' al []
    | none => scanSpecTail ' ' .left t
  | [] => some {}

/-- characters up to the first `}` (exclusive) and the rest after it; `none` if there is no `}`
    or a `{` comes first (nested fields are not modelled) -/
def spanField : Text → Option (Text × Text)
  | [] => none
  | c :: cs =>
    if c = '}' then some ([], cs)
    else if c = '{' then none
    else (spanField cs).map fun (f, r) => (c :: f, r)

def pushLit (c : Char) : List Item → List Item
  | .lit t :: rest => .lit (c :: t) :: rest
  | items => .lit [c] :: items

def isIdentStart (c : Char) : Bool := c.isAlpha || c == '_'
def isIdentChar (c : Char) : Bool := c.isAlphanum || c == '_'

/-- the `arg_name` of a replacement field: empty, ASCII digits (at most 9: larger numbers can hit
    CPython's "too many decimal digits" error), or an ASCII identifier; attribute / index lookups
    (`a.b`, `a[0]`) and every other name are not modelled -/
def scanArg (a : Text) : Option Arg :=
  match a with
  | [] => some .auto
  | c :: cs =>
    if a.all isAsciiDigit then (if a.length ≤ 9 then some (.pos (digitsToNat a)) else none)
    else if isIdentStart c && cs.all isIdentChar then some (.kw a)
    else none

/-- the part of a field before the first `!` or `:` and the rest -/
def spanArgName : Text → Text × Text
  | [] => ([], [])
  | c :: cs =>
    if c = '!' ∨ c = ':' then ([], c :: cs)
    else (c :: (spanArgName cs).1, (spanArgName cs).2)

def scanConv (c : Char) : Option Conv :=
  if c = 'r' then some .r else if c = 's' then some .s else if c = 'a' then some .a else none

/-- `[:spec]` at the end of a field -/
def scanFieldSpec (arg : Arg) (conv : Conv) : Text → Option Item
  | [] => some (.hole { arg, conv })
  | ':' :: sp => (scanSpec sp).map fun s => .hole { arg, conv, spec := s, specEmpty := sp.isEmpty }
  | _ => none

/-- the replacement field between `{` and `}`: `[arg_name][!conv][:spec]` -/
def scanFieldBody (f : Text) : Option Item :=
  match scanArg (spanArgName f).1 with
  | none => none
  | some arg =>
    match (spanArgName f).2 with
    | '!' :: c :: rest =>
      match scanConv c with
      | some cv => scanFieldSpec arg cv rest
      | none => none
    | '!' :: [] => none
    | rest => scanFieldSpec arg .none rest

/-- `string.Formatter.parse(format_string)` on the sub-grammar
    literal | `{{` | `}}` | `{` [digits | identifier] [`!` (`r`|`s`|`a`)] [`:` spec] `}` ;
    `none` = not modelled (single braces, nested fields, attribute / index lookups, other
    conversions).  `fuel` bounds the number of iterations (each consumes at least one character). -/
def scanFormatGo : Nat → Text → Option (Except Err (List Item))
  | 0, _ => none
  | _ + 1, [] => some (.ok [])
  | fuel + 1, '{' :: '{' :: rest =>
    match scanFormatGo fuel rest with
    | some (.ok items) => some (.ok (pushLit '{' items))
    | r => r
  | fuel + 1, '}' :: '}' :: rest =>
    match scanFormatGo fuel rest with
    | some (.ok items) => some (.ok (pushLit '}' items))
    | r => r
  | _ + 1, '}' :: _ => none
  | fuel + 1, '{' :: rest =>
    match spanField rest with
    | none => none
    | some (f, r) =>
      match scanFieldBody f with
      | none => none
      | some it =>
        match scanFormatGo fuel r with
        | some (.ok items) => some (.ok (it :: items))
        | x => x
  | fuel + 1, c :: rest =>
    match scanFormatGo fuel rest with
    | some (.ok items) => some (.ok (pushLit c items))
    | r => r

def scanFormat (t : Text) : Option (Except Err (List Item)) := scanFormatGo (t.length + 1) t

/-- `format(value, spec)` for a `str` value -/
def fmtStr (v : Text) (s : Spec) : Text :=
  let v := match s.prec with
    | some p => v.take p
    | none => v
  let pad := s.width - v.length
  let l := match s.align with
    | .left => 0
    | .right => pad
    | .center => pad / 2
  List.replicate l s.fill ++ v ++ List.replicate (pad - l) s.fill

/-- lower-case hexadecimal, zero-padded to `w` digits (`"%0wx"`) -/
def hexPad (w n : Nat) : Text :=
  let d := Nat.toDigits 16 n
  List.replicate (w - d.length) '0' ++ d

/-- `\xNN` / `\uNNNN` / `\UNNNNNNNN` -/
def hexEscape (c : Char) : Text :=
  if c.toNat ≤ 0xff then '\\' :: 'x' :: hexPad 2 c.toNat
  else if c.toNat ≤ 0xffff then '\\' :: 'u' :: hexPad 4 c.toNat
  else '\\' :: 'U' :: hexPad 8 c.toNat

/-- one character of `repr(str)` (CPython `unicode_repr`); `pr` = `str.isprintable` of the running
    interpreter (a parameter; the driver instantiates it with a generated table) -/
def reprChar (pr : Char → Bool) (quote : Char) (c : Char) : Text :=
  if c = quote ∨ c = '\\' then ['\\', c]
  else if c = '\t' then ['\\', 't']
  else if c = '\n' then ['\\', 'n']
  else if c = '\r' then ['\\', 'r']
  else if c.toNat < 0x20 ∨ c.toNat = 0x7f then hexEscape c
  else if c.toNat < 0x7f then [c]
  else if pr c then [c]
  else hexEscape c

/-- `repr(t)` for a `str`: double quotes only when the text has an apostrophe and no double quote -/
def pyRepr (pr : Char → Bool) (t : Text) : Text :=
  let quote : Char := if t.contains '\'' && !t.contains '"' then '"' else '\''
  quote :: (t.flatMap (reprChar pr quote) ++ [quote])

/-- `ascii(x)` from `repr(x)`: every non-ASCII character escaped -/
def asciiEscape (t : Text) : Text := t.flatMap fun c => if c.toNat < 0x80 then [c] else hexEscape c

def reprOf (pr : Char → Bool) (v : Val) : Text :=
  match v.kind with
  | .str => pyRepr pr v.s
  | _ => v.r

/-- `Formatter.convert_field(value, conversion)` -/
def convert (pr : Char → Bool) (v : Val) : Conv → Val
  | .none => v
  | .s => { kind := .str, s := v.s }
  | .r => { kind := .str, s := reprOf pr v }
  | .a => { kind := .str, s := asciiEscape (reprOf pr v) }

/-- `format(value, format_spec)` -/
def fmtVal (v : Val) (h : Hole) : Except Err Text :=
  match v.kind with
  | .str => .ok (fmtStr v.s h.spec)
  | .plain => if h.specEmpty then .ok v.s else .error .type      -- object.__format__
  | .num => if h.specEmpty then .ok v.s else .error .unsupported

/-- field numbering of `Formatter._vformat`: the state is `none` before the first numbered field,
    `some (some k)` = automatic with next index k, `some none` = manual.  Returns the resolved
    argument (never `auto`) and the new state; ValueError when switching between the two.
    Keyword fields leave the numbering alone. -/
def selectArg : Arg → Option (Option Nat) → Except Err (Arg × Option (Option Nat))
  | .kw n, st => .ok (.kw n, st)
  | .auto, some none => .error .value          -- manual → automatic
  | .auto, some (some k) => .ok (.pos k, some (some (k + 1)))
  | .auto, none => .ok (.pos 0, some (some 1))
  | .pos _, some (some _) => .error .value     -- automatic → manual
  | .pos i, _ => .ok (.pos i, some none)

def lookupKw (kw : List (Text × Val)) (n : Text) : Option Val := (kw.find? fun p => p.1 == n).map (·.2)

/-- `Formatter.get_value(key, args, kwargs)` -/
def getValue (args : List Val) (kw : List (Text × Val)) : Arg → Except Err Val
  | .pos i => match args[i]? with
    | some v => .ok v
    | none => .error .index
  | .kw n => match lookupKw kw n with
    | some v => .ok v
    | none => .error .key
  | .auto => .error .unsupported     -- unreachable: `selectArg` never returns `auto`

/-- one replacement field: numbering, lookup, conversion, `format_field = esc ∘ format` -/
def renderHole (esc : Text → Text) (pr : Char → Bool) (args : List Val) (kw : List (Text × Val))
    (st : Option (Option Nat)) (h : Hole) : Except Err (Text × Option (Option Nat)) :=
  match selectArg h.arg st with
  | .error e => .error e
  | .ok (key, st') =>
    match getValue args kw key with
    | .error e => .error e
    | .ok v =>
      match fmtVal (convert pr v h.conv) h with
      | .error e => .error e
      | .ok t => .ok (esc t, st')

/-- `Formatter._vformat` (fields left to right: the first error wins) -/
def renderFormat (esc : Text → Text) (pr : Char → Bool) (args : List Val) (kw : List (Text × Val)) :
    Option (Option Nat) → List Item → Except Err Text
  | _, [] => .ok []
  | st, .lit t :: rest =>
    match renderFormat esc pr args kw st rest with
    | .ok r => .ok (t ++ r)
    | .error e => .error e
  | st, .hole h :: rest =>
    match renderHole esc pr args kw st h with
    | .error e => .error e
    | .ok (t, st') =>
      match renderFormat esc pr args kw st' rest with
      | .ok r => .ok (t ++ r)
      | .error e => .error e

/-- `FORMATTER.vformat(template, args, kwargs)` with `format_field = esc ∘ format` -/
def vformat (esc : Text → Text) (pr : Char → Bool) (tmpl : Text) (args : List Val)
    (kw : List (Text × Val)) : Option (Except Err Text) :=
  match scanFormat tmpl with
  | none => none
  | some (.error e) => some (.error e)
  | some (.ok items) => some (renderFormat esc pr args kw none items)

/-- the conversions of `%` that accept a `str` argument (`HTML.__mod__` / `ANSI.__mod__` hand
    `str.__mod__` a tuple of ESCAPED STRINGS, whatever the caller passed) -/
inductive PConv | s | r | a | c
deriving Repr, DecidableEq

/-- `%[flags][width][.prec][hlL](s|r|a|c)`; of the flags only `-` has an effect on these conversions -/
structure PSpec where
  leftAdj : Bool := false
  width : Nat := 0
  prec : Option Nat := none
  conv : PConv := .s
deriving Repr, DecidableEq

/-- `%`-template items.  The last three end the scan: `str.__mod__` raises when it reaches them.
    * `typeErr`: a numeric conversion (`%d %i %u %o %x %X %e %E %f %F %g %G`: "a real number is
      required, not str"), a `*` width / precision ("* wants int"), a mapping key `%(name)…`
      ("format requires a mapping") — TypeError with or without an argument left;
    * `badChar`: any other conversion character (incl. `%` after flags): the argument is fetched
      first (TypeError if none is left), then ValueError "unsupported format character";
    * `incomplete`: the template ends inside a conversion — ValueError "incomplete format". -/
inductive PItem
  | lit (t : Text)
  | hole (spec : PSpec)
  | typeErr
  | badChar
  | incomplete
deriving Repr, DecidableEq

def pushPLit (c : Char) : List PItem → List PItem
  | .lit t :: rest => .lit (c :: t) :: rest
  | items => .lit [c] :: items

def isPFlag (c : Char) : Bool := c == '-' || c == '+' || c == ' ' || c == '#' || c == '0'

/-- leading flag characters and the rest -/
def spanFlags : Text → Text × Text
  | [] => ([], [])
  | c :: cs => if isPFlag c then ((c :: (spanFlags cs).1), (spanFlags cs).2) else ([], c :: cs)

def isNumConv (c : Char) : Bool :=
  c == 'd' || c == 'i' || c == 'u' || c == 'o' || c == 'x' || c == 'X' || c == 'e' || c == 'E' ||
  c == 'f' || c == 'F' || c == 'g' || c == 'G'

/-- what one conversion is, and the rest of the template after it (`none` for the three items that
    end the scan) -/
inductive PScan
  | item (it : PItem) (rest : Text)
  | stop (it : PItem)
deriving Repr, DecidableEq

/-- the conversion character (after flags, width, precision and an optional length modifier) -/
def scanPConv (la : Bool) (width : Nat) (prec : Option Nat) : Text → PScan
  | [] => .stop .incomplete
  | c :: r =>
    if c = 's' then .item (.hole { leftAdj := la, width, prec, conv := .s }) r
    else if c = 'r' then .item (.hole { leftAdj := la, width, prec, conv := .r }) r
    else if c = 'a' then .item (.hole { leftAdj := la, width, prec, conv := .a }) r
    else if c = 'c' then .item (.hole { leftAdj := la, width, prec := none, conv := .c }) r
    else if isNumConv c then .stop .typeErr
    else .stop .badChar

/-- an optional length modifier `h` / `l` / `L` -/
def skipLenMod : Text → Text
  | c :: r => if c = 'h' ∨ c = 'l' ∨ c = 'L' then r else c :: r
  | [] => []

/-- after the width: `[.prec][hlL]conv` -/
def scanPPrec (la : Bool) (width : Nat) : Text → PScan
  | '.' :: '*' :: _ => .stop .typeErr
  | '.' :: r => scanPConv la width (some (digitsToNat (spanDigits r).1)) (skipLenMod (spanDigits r).2)
  | t => scanPConv la width none (skipLenMod t)

/-- after `%` (not `%%`): `[(key)][flags][width | *]…` -/
def scanPSpec (t : Text) : PScan :=
  match t with
  | '(' :: _ => .stop .typeErr
  | _ =>
    let fl := (spanFlags t).1
    match (spanFlags t).2 with
    | '*' :: _ => .stop .typeErr
    | r => scanPPrec (fl.contains '-') (digitsToNat (spanDigits r).1) (spanDigits r).2

/-- the template of `str.__mod__`; `fuel` bounds the number of iterations -/
def scanPercentGo : Nat → Text → List PItem
  | 0, _ => []
  | _ + 1, [] => []
  | fuel + 1, '%' :: '%' :: rest => pushPLit '%' (scanPercentGo fuel rest)
  | fuel + 1, '%' :: rest =>
    match scanPSpec rest with
    | .stop it => [it]
    | .item it r => it :: scanPercentGo fuel r
  | fuel + 1, c :: rest => pushPLit c (scanPercentGo fuel rest)

def scanPercent (t : Text) : Option (Except Err (List PItem)) := some (.ok (scanPercentGo (t.length + 1) t))

/-- `'%[-][w][.p]s' % v` (also the padding / truncation of `%r %a %c`) -/
def pfmtStr (v : Text) (s : PSpec) : Text :=
  let v := match s.prec with
    | some p => v.take p
    | none => v
  let pad := List.replicate (s.width - v.length) ' '
  if s.leftAdj then v ++ pad else pad ++ v

/-- the text a conversion makes of its (string) argument; `%c` wants exactly one character -/
def convArg (pr : Char → Bool) (c : PConv) (e : Text) : Except Err Text :=
  match c with
  | .s => .ok e
  | .r => .ok (pyRepr pr e)
  | .a => .ok (asciiEscape (pyRepr pr e))
  | .c => if e.length = 1 then .ok e else .error .type

/-- `template % args` for a tuple of (already escaped) strings, left to right; the first error wins;
    TypeError for too few / too many arguments -/
def renderPercent (pr : Char → Bool) : List Text → List PItem → Except Err Text
  | [], [] => .ok []
  | _ :: _, [] => .error .type
  | args, .lit t :: rest =>
    match renderPercent pr args rest with
    | .ok r => .ok (t ++ r)
    | .error e => .error e
  | _, .typeErr :: _ => .error .type
  | [], .badChar :: _ => .error .type
  | _ :: _, .badChar :: _ => .error .value
  | _, .incomplete :: _ => .error .value
  | [], .hole _ :: _ => .error .type
  | v :: args, .hole s :: rest =>
    match convArg pr s.conv v with
    | .error e => .error e
    | .ok t =>
      match renderPercent pr args rest with
      | .ok r => .ok (pfmtStr t s ++ r)
      | .error e => .error e

/-- `self.value % tuple(esc(i) for i in value)`; both escape functions start with `str(i)`, so every
    component — number, object, string — reaches `%` as an escaped string -/
def pformat (esc : Text → Text) (pr : Char → Bool) (tmpl : Text) (args : List Val) :
    Option (Except Err Text) :=
  match scanPercent tmpl with
  | none => none
  | some (.error e) => some (.error e)
  | some (.ok items) => some (renderPercent pr (args.map fun v => esc v.s) items)

/-- `ANSI(tmpl).format(*args, **kw).__pt_formatted_text__()` -/
def ansiFormat (tb : Tables) (pr : Char → Bool) (tmpl : Text) (args : List Val)
    (kw : List (Text × Val)) : Option (Except Err Frags) :=
  (vformat ansiEscape pr tmpl args kw).map fun r => r.map (ansi tb)

/-- `(ANSI(tmpl) % args).__pt_formatted_text__()` -/
def ansiMod (tb : Tables) (pr : Char → Bool) (tmpl : Text) (args : List Val) :
    Option (Except Err Frags) :=
  (pformat ansiEscape pr tmpl args).map fun r => r.map (ansi tb)

end Ptk.C18
