/-
  C13 — model of the `History` base class with the two in-memory backends
  (src/prompt_toolkit/history.py: `History.load`, `get_strings`, `append_string`,
  `InMemoryHistory`, `DummyHistory`), including the INLINE async generator `History.load()`
  stepped item by item (a consumer may `await` — and append — between two items), and of the
  `write()` calls of `FileHistory.store_string` (several processes appending to one file).
-/
import Ptk.Model.C13
namespace Ptk.C13
open Ptk.Py

/-! ## History / InMemoryHistory / DummyHistory -/

inductive Backend
  | memory      -- `InMemoryHistory`: `store_string` appends to `_storage`, `load_history_strings` yields it reversed
  | dummy       -- `DummyHistory`: stores nothing, loads nothing, `append_string` is `pass`
deriving Repr, DecidableEq

/-- program counter of one `History.load()` async generator -/
inductive GPc
  | none        -- no generator (or the last one is exhausted)
  | fresh       -- created, not yet resumed (`load()` was called, nothing ran)
  | iter        -- inside `for item in self._loaded_strings: yield item`
deriving Repr, DecidableEq

structure Hist where
  backend : Backend
  storage : List Text       -- `InMemoryHistory._storage`, oldest first
  loaded : Bool             -- `_loaded`
  strs : List Text          -- `_loaded_strings`, newest first
  -- the generator of the `load()` call in progress
  gpc : GPc := .none
  idx : Nat := 0            -- index of the list iterator (`copy = false`: into the live list)
  snap : List Text := []    -- the list it iterates (`copy = true`: a copy taken when the loop starts)
  out : List Text := []     -- what this call has yielded
deriving Repr, DecidableEq

/-- `InMemoryHistory(init)` -/
def Hist.mem (init : List Text) : Hist := { backend := .memory, storage := init, loaded := false, strs := [] }

/-- `DummyHistory()` -/
def Hist.dummy : Hist := { backend := .dummy, storage := [], loaded := false, strs := [] }

/-- `append_string(s)` -/
def Hist.append (h : Hist) (s : Text) : Hist :=
  match h.backend with
  | .memory => { h with strs := s :: h.strs, storage := h.storage ++ [s] }
  | .dummy => h

/-- `list(self.load_history_strings())` -/
def Hist.loadStrings (h : Hist) : List Text :=
  match h.backend with
  | .memory => h.storage.reverse
  | .dummy => []

/-- the first part of `load()`: `if not self._loaded: self._loaded_strings = list(…); self._loaded = True` -/
def Hist.ensure (h : Hist) : Hist :=
  if h.loaded then h else { h with loaded := true, strs := h.loadStrings }

/-- `[x async for x in h.load()]` without anything happening in between -/
def Hist.load (h : Hist) : Hist × List Text := (h.ensure, h.ensure.strs)

/-- `get_strings()` -/
def Hist.getStrings (h : Hist) : List Text := h.strs.reverse

inductive HOp
  | append (s : Text)
  | load
  | get
  | gnew          -- `g = h.load()` (nothing runs yet)
  | gnext         -- `await g.__anext__()`
deriving Repr, DecidableEq

/-- one `__anext__()` of the generator.  `copy` = the `for` loop runs over a copy of
    `_loaded_strings` (proposed hardening); the current code iterates the live list, and a Python
    list iterator is an index into the live list. -/
def Hist.gnext (copy : Bool) (h : Hist) : Hist :=
  match h.gpc with
  | .none => h
  | .fresh =>
    let h1 := h.ensure
    let l := h1.strs
    match l with
    | [] => { h1 with gpc := .none, idx := 0, snap := [] }
    | x :: _ => { h1 with gpc := .iter, idx := 1, snap := if copy then l else [], out := h1.out ++ [x] }
  | .iter =>
    let l := if copy then h.snap else h.strs
    match l[h.idx]? with
    | none => { h with gpc := .none }
    | some x => { h with idx := h.idx + 1, out := h.out ++ [x] }

def Hist.apply (copy : Bool) (h : Hist) : HOp → Hist
  | .append s => h.append s
  | .load => h.load.1
  | .get => h
  | .gnew => { h with gpc := .fresh, idx := 0, snap := [], out := [] }
  | .gnext => h.gnext copy

def Hist.runOps (copy : Bool) (h : Hist) (ops : List HOp) : Hist := ops.foldl (Hist.apply copy) h

/-! ## the `write()` calls of `FileHistory.store_string` -/

/-- the arguments of the `f.write(…)` calls of one `store_string(s)`.  `single` = the whole record is
    handed over in one call (proposed hardening); the current code writes the header and every
    `+line` separately. -/
def writeCalls (single : Bool) (C : Codec) (ts s : Text) : List Bytes :=
  if single then [record C ts s] else header C ts :: (splitOn '\n' s).map (plusLine C)

/-- several writers (processes), each with the queue of items it still has to issue; `order` says
    whose turn it is; a turn of a writer with nothing left is skipped.  Result: the items in the
    order in which they were issued. -/
def interleave {α : Type} : List (List α) → List Nat → List α
  | _, [] => []
  | qs, i :: rest =>
    match qs[i]? with
    | some (w :: q) => w :: interleave (qs.set i q) rest
    | _ => interleave qs rest

/-- the file after the writers issued their `write()` calls in this order (append mode: every call
    lands at the end of the file) -/
def interleaveWrites (qs : List (List Bytes)) (order : List Nat) : Bytes := (interleave qs order).flatten

/-- the `write()` calls of a process that stores the entries `es` one after the other -/
def procWrites (single : Bool) (C : Codec) (es : List (Text × Text)) : List Bytes :=
  es.flatMap fun e => writeCalls single C e.1 e.2

end Ptk.C13
