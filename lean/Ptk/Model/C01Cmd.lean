/-
  C01 — model of the readline named commands that edit text
  (src/prompt_toolkit/key_binding/bindings/named_commands.py), built from the Buffer operations of
  `Ptk.Model.C01`, and of the numeric argument they receive (`KeyPressEvent.arg`,
  `KeyPressEvent.append_to_arg_count`, key_binding/key_processor.py).

  Each command is a function of (text, cursor, arg, ...) that follows the handler line by line.
  `reSpace` models regex `\s` (runtime, parameter); the strip sets / comment prefix / argument clamp
  are parameters instantiated by the driver from the regenerated `Ptk.Gen.C01`.
-/
import Ptk.Model.C01
namespace Ptk.C01
open Ptk.Py

/-! ### the numeric argument -/

/-- `KeyProcessor.arg` as typed: `None`, or a string consisting of an optional leading `-`
    followed by decimal digits -/
structure ArgStr where
  neg : Bool
  digits : List Nat
deriving Repr, DecidableEq

/-- keys that extend the argument (`Esc -`, `Esc <digit>` / `<digit>` while an argument is present) -/
inductive ArgKey
  | dash
  | digit (d : Nat)
deriving Repr, DecidableEq

/-- `KeyPressEvent.append_to_arg_count(data)`, exactly as the code has it: the outer `none` is an
    `AssertionError` (then `key_processor.arg = result` is never reached).
    `assert data in "-0123456789"`; for `-`: `assert current is None or current == "-"`. -/
def argAppend (cur : Option ArgStr) : ArgKey → Option (Option ArgStr)
  | .dash =>
    match cur with
    | none => some (some { neg := true, digits := [] })                    -- result = "-"
    | some a =>
      if a.neg && a.digits.isEmpty then some (some { neg := true, digits := [] })   -- current == "-"
      else none                                                             -- AssertionError
  | .digit d =>
    if d < 10 then
      match cur with
      | none => some (some { neg := false, digits := [d] })          -- result = data
      | some a => some (some { a with digits := a.digits ++ [d] })   -- result = f"{current}{data}"
    else none                                                        -- not a digit character

/-- `KeyProcessor.arg` after the handler ran: unchanged when the handler raised -/
def argFeed (cur : Option ArgStr) (k : ArgKey) : Option ArgStr := (argAppend cur k).getD cur

/-- `int(digits)` -/
def digitsVal (ds : List Nat) : Nat := ds.foldl (fun a d => a * 10 + d) 0

/-- `KeyPressEvent.arg` : `"-"` is -1, nothing is 1, otherwise `int(...)`, and a value `>= clamp`
    ("don't exceed a million") becomes `clampTo` -/
def argVal (clamp clampTo : Int) : Option ArgStr → Int
  | none => 1
  | some a =>
    if a.neg && a.digits.isEmpty then -1
    else
      let r : Int := if a.digits.isEmpty then 1          -- `int(self._arg or 1)`
                     else if a.neg then -(digitsVal a.digits : Int) else (digitsVal a.digits : Int)
      if r ≥ clamp then clampTo else r

/-- the argument seen by the command after typing the keys `ks` -/
def argOfKeys (clamp clampTo : Int) (ks : List ArgKey) : Int :=
  argVal clamp clampTo (ks.foldl argFeed none)

/-! ### word scanners (`_FIND_WORD_RE` / `_FIND_BIG_WORD_RE` `.finditer`) -/

/-- character class under the pattern: 0 = matches nothing (`\s`), 1 = first alternative
    (`[a-zA-Z0-9_]`, or `[^\s]` for WORD), 2 = second alternative (`[^a-zA-Z0-9_\s]`) -/
def wcls (reSpace : Char → Bool) (WORD : Bool) (c : Char) : Nat :=
  if WORD then (if reSpace c then 0 else 1)
  else if isWordChar c then 1 else if reSpace c then 0 else 2

/-- all matches `(start, end)` of the pattern in `t` (leftmost, greedy, non-overlapping: maximal
    runs of one non-zero class); `i` = index of the head of `t`, `run` = class and start of the
    run being extended -/
def wscan (cl : Char → Nat) : Text → Nat → Option (Nat × Nat) → List (Nat × Nat)
  | [], _, none => []
  | [], i, some (_, st) => [(st, i)]
  | c :: cs, i, none =>
    if cl c = 0 then wscan cl cs (i + 1) none else wscan cl cs (i + 1) (some (cl c, i))
  | c :: cs, i, some (k, st) =>
    if cl c = k then wscan cl cs (i + 1) (some (k, st))
    else (st, i) :: (if cl c = 0 then wscan cl cs (i + 1) none
                     else wscan cl cs (i + 1) (some (cl c, i)))

def wordMatches (reSpace : Char → Bool) (WORD : Bool) (t : Text) : List (Nat × Nat) :=
  wscan (wcls reSpace WORD) t 0 none

/-- `Document.find_previous_word_ending(count)` for `count > 0`: scans
    `text_after_cursor[:1] + text_before_cursor[::-1]`; "take first match, unless it's the word on
    which we're right now" (`count += 1`); returns `-match.start(1) + 1` -/
def findPrevWordEndingN (reSpace : Char → Bool) (b : Buf) (count : Nat) (WORD : Bool) : Option Int :=
  let t := b.after.take 1 ++ b.before.reverse
  let ms := wordMatches reSpace WORD t
  let count := match ms with
    | (0, _) :: _ => count + 1
    | _ => count
  match count with
  | 0 => none
  | k + 1 => ms[k]?.map fun m => -(m.1 : Int) + 1

/-- `Document.find_next_word_ending(count=count)` (include_current_position = False): a negative
    count is delegated to `find_previous_word_ending(-count)`; count 0 finds nothing -/
def findNextWordEndingN (reSpace : Char → Bool) (b : Buf) (count : Int) (WORD : Bool) : Option Int :=
  if count < 0 then findPrevWordEndingN reSpace b (-count).toNat WORD
  else
    match count.toNat with
    | 0 => none
    | k + 1 => (wordMatches reSpace WORD (b.after.drop 1))[k]?.map fun m => (m.2 : Int) + 1

/-- `Document.find_start_of_previous_word(count, WORD)`: `-match.end(0)` of the count-th match in
    the reversed text before the cursor (`None` for count ≤ 0 or too few words) -/
def findStartOfPrevWord (reSpace : Char → Bool) (b : Buf) (count : Int) (WORD : Bool) : Option Int :=
  if count ≤ 0 then none
  else match count.toNat with
    | 0 => none
    | k + 1 => (wordMatches reSpace WORD b.before.reverse)[k]?.map fun m => -(m.2 : Int)

/-! ### the kill / delete commands; the `Text` is what the handler hands to the clipboard
    (the return value of `Buffer.delete` / `delete_before_cursor`) -/

/-- `kill-word`.  `negFixed = false` is the code before proposed_fixes/C01-kill-word-negative-arg.diff:
    the (negative) relative position found for a negative argument goes straight into
    `Buffer.delete(count=pos)`; `negFixed = true`: it goes into `delete_before_cursor(count=-pos)`. -/
def killWord (negFixed : Bool) (reSpace : Char → Bool) (b : Buf) (arg : Int) : Buf × Text :=
  match findNextWordEndingN reSpace b arg false with
  | none => (b, [])
  | some pos =>
    if pos = 0 then (b, [])                       -- `if pos:`
    else if negFixed && pos < 0 then deleteBefore b (-pos).toNat
    else deleteI b pos

/-- `unix-word-rubout` (WORD = True) / `backward-kill-word` (WORD = False) -/
def rubout (reSpace : Char → Bool) (b : Buf) (arg : Int) (WORD : Bool) : Buf × Text :=
  -- "Nothing found? delete until the start of the document."
  let pos : Int := (findStartOfPrevWord reSpace b arg WORD).getD (-(b.cur : Int))
  if pos ≠ 0 then deleteBefore b (-pos).toNat else (b, [])

/-- `kill-line`: negative argument kills back to the start of the line; on a line ending it kills
    that line ending; otherwise to the end of the line -/
def killLine (b : Buf) (arg : Int) : Buf × Text :=
  if arg < 0 then deleteBefore b (lineBefore b).length
  else if b.text[b.cur]? = some '\n' then deleteI b 1
  else deleteI b (lineAfter b).length

/-- `unix-line-discard`: at column 0 (not at the start of the buffer) the line ending before the
    cursor goes, otherwise everything back to the start of the line -/
def unixLineDiscard (b : Buf) : Buf × Text :=
  if cursorCol b = 0 ∧ 0 < b.cur then deleteBefore b 1
  else deleteBefore b (lineBefore b).length

/-- `s.lstrip(chars)` / the length removed by `s.rstrip(chars)` -/
def inSet (cs : List Char) (c : Char) : Bool := cs.contains c

/-- `delete-horizontal-space` with the strip sets `hb` (`rstrip(hb)` before the cursor) and `ha`
    (`lstrip(ha)` after it); the `Text` is what the two delete calls returned, concatenated -/
def deleteHorizontalSpace (hb ha : List Char) (b : Buf) : Buf × Text :=
  let deleteBefore_ := (b.before.reverse.takeWhile (inSet hb)).length
  let deleteAfter := (b.after.takeWhile (inSet ha)).length
  let r1 := deleteBefore b deleteBefore_
  let r2 := deleteI r1.1 deleteAfter
  (r2.1, r1.2 ++ r2.2)

/-- `quoted-insert` followed by a key with data `data`: `insert_text(event.data, overwrite=False)` -/
def quotedInsert (b : Buf) (data : Text) : Buf := insertText b data false true

/-- `line.startswith(prefix)` then `line[1:]`, else the line (the "uncomment" callback) -/
def uncommentLine (pre : Text) (l : Text) : Text := if isPrefixOf' pre l then l.drop 1 else l

/-- `insert-comment` (the text part; the command then accepts the input): with the argument that
    means "comment" (1) every line of `text.splitlines()` gets the prefix, otherwise one leading
    prefix character is removed from the lines that start with it; cursor 0 -/
def insertComment (isBreak : Char → Bool) (pre : Text) (commentArg : Int) (b : Buf) (arg : Int) : Buf :=
  let lines := splitLinesPy isBreak b.text
  let change : Text → Text := if arg ≠ commentArg then uncommentLine pre else fun l => pre ++ l
  setDoc b (join ['\n'] (lines.map change)) 0

/-! ### read-only buffers: the `text` setter and `set_document(value, bypass_readonly)` -/

/-- `Buffer.text = value` on a buffer whose `read_only()` filter is `ro`: the cursor is clamped to
    `len(value)` FIRST, then a read-only buffer raises `EditReadOnlyBuffer` (`true` in the result) -/
def setTextRO (ro : Bool) (b : Buf) (t : Text) : Buf × Bool :=
  let b1 : Buf := if b.cur > t.length then setCursor b (t.length : Int) else b
  if ro then (b1, true) else ({ text := t, cur := b1.cur }, false)

/-- `Buffer.set_document(Document(t, c), bypass_readonly)`; `Document(t, c)` itself asserts
    `c <= len(t)` (nothing happens then); a read-only buffer raises unless bypassed -/
def setDocumentRO (ro bypass : Bool) (b : Buf) (t : Text) (c : Int) : Buf × Bool :=
  if c ≤ (t.length : Int) then
    if !bypass && ro then (b, true) else ({ text := t, cur := c.toNat }, false)
  else (b, false)

end Ptk.C01
