/-
  C08 — Vi operators in SELECTION (visual) mode.

    `v` / `V` / `c-v`  (`_visual`, `_visual_line`, `_visual_block`)   Buffer.start_selection(type)
    motions            `_move_in_selection_mode` of `create_text_object_decorator`
    `j` / `k`          `_down_in_selection` / `_up_in_selection` = Buffer.cursor_down / cursor_up
                       (with `Buffer.preferred_column`)
    operator           `_operator_in_selection` of `create_operator_decorator`: the selection becomes
                       `TextObject(original_cursor_position - cursor_position, type=INCLUSIVE |
                       LINEWISE | BLOCK)`, the operator body is the one of navigation mode, the
                       selection ends
    Escape             `_back_to_navigation`: `buffer.exit_selection()`

  CHARACTERS / LINES selections go through the model of `Ptk.Model.C08` unchanged (`applyOp` with an
  INCLUSIVE / LINEWISE text object).  A BLOCK text object is treated like an INCLUSIVE one by
  `operator_range`, `spans_nothing` and `get_line_numbers` (so the case and indent operators act on
  the CONTIGUOUS range between the corners / on its rows), but `cut` goes through the BLOCK branch
  of `Document.selection_ranges` / `cut_selection`: one range per line, modelled here.
-/
import Ptk.Model.C08Session
namespace Ptk.C08
open Ptk.Py

inductive SelType | chars | lines | block
deriving Repr, DecidableEq

/-- `ClipboardData(text, type)` with all three selection types -/
structure VClip where
  text : Text
  ty : SelType
deriving Repr, DecidableEq

def Clip.toV (c : Clip) : VClip := { text := c.text, ty := if c.lines then .lines else .chars }

/-- editor state whose clipboard / registers may hold BLOCK data -/
structure VSt where
  text : Text
  cur : Nat
  clip : VClip
  regs : List (Char × VClip)
  insert : Bool
deriving Repr, DecidableEq

def St.toV (s : St) : VSt :=
  { text := s.text, cur := s.cur, clip := s.clip.toV, regs := s.regs.map fun p => (p.1, p.2.toV),
    insert := s.insert }

/-! ### BLOCK selections: `selection_ranges` / `cut_selection` -/

/-- the rows of the BLOCK branch of `Document.selection_ranges()`: walking the lines with their
    start offsets (`_line_start_indexes`), a row `fl ≤ row ≤ tl` whose line reaches column `c1`
    yields `(translate_row_col_to_index(row, c1), translate_row_col_to_index(row, min(len, c2)))` -/
def blockRangesGo (c1 c2 fl tl : Nat) : List Text → Nat → Nat → List (Nat × Nat)
  | [], _, _ => []
  | line :: rest, row, off =>
    (if fl ≤ row ∧ row ≤ tl ∧ c1 ≤ line.length then [(off + c1, off + min line.length c2)] else []) ++
      blockRangesGo c1 c2 fl tl rest (row + 1) (off + line.length + 1)

/-- the BLOCK branch of `Document.selection_ranges()` in Vi mode for the sorted corner indices
    `a ≤ b` (`from_column, to_column = sorted(...)`; `if vi_mode(): to_column += 1`) -/
def blockRanges (t : Text) (a b : Nat) : List (Nat × Nat) :=
  let fc := a - lineStart t a
  let tc := b - lineStart t b
  blockRangesGo (min fc tc) (max fc tc + 1) (rowOf t a) (rowOf t b) (lines t) 0 0

/-- the loop of `Document.cut_selection()` over the ranges: remaining parts, cut parts, new cursor
    (`if last_to == 0: new_cursor_position = from_`) -/
def cutLoop (t : Text) : List (Nat × Nat) → Nat → Nat → List Text → List Text → Text × List Text × Nat
  | [], lastTo, cur, rem, parts => (join [] (rem.reverse ++ [t.drop lastTo]), parts.reverse, cur)
  | (f, to) :: rs, lastTo, cur, rem, parts =>
    cutLoop t rs to (if lastTo = 0 then f else cur)
      (((t.take f).drop lastTo) :: rem) (((t.take to).drop f) :: parts)

/-- `TextObject(orig - cursor, type=BLOCK).cut(buffer)`: `operator_range` gives
    `(s, e + 1)`, never empty; `Document(text, to - 1, SelectionState(from_, BLOCK)).cut_selection()` -/
def cutBlock (t : Text) (cur orig : Nat) : VSt → VSt × VClip := fun s =>
  let a := min cur orig
  let b := max cur orig
  let r := cutLoop t (blockRanges t a b) 0 b [] []       -- the document's cursor is `to - 1` = b
  ({ s with text := r.1, cur := min r.2.2 r.1.length }, { text := join ['\n'] r.2.1, ty := .block })

def vRegSet (rs : List (Char × VClip)) (n : Char) (v : VClip) : List (Char × VClip) :=
  (n, v) :: rs.filter (fun p => p.1 != n)

/-- store cut data (`clipboard_data.text or clipboard_data.type == LINES`) -/
def vStore (s : VSt) (reg : Option Char) (c : VClip) : VSt :=
  if c.text.isEmpty && c.ty != .lines then s
  else match reg with
    | some r => if isRegName r then { s with regs := vRegSet s.regs r c } else s
    | none => { s with clip := c }

/-- `_operator_in_selection`: the operator `op` on the selection `(orig, ty)`; `count` = `event.arg` -/
def visualOp (env : Env) (s : St) (orig : Nat) (ty : SelType) (op : Op) (count : Nat) : Option VSt :=
  let rel : Int := (orig : Int) - s.cur
  match ty with
  | .chars => (applyOp env s op { start := rel, type := .inclusive } count).map St.toV
  | .lines => (applyOp env s op { start := rel, type := .linewise } count).map St.toV
  | .block =>
    match op with
    -- `operator_range`, `spans_nothing`, `get_line_numbers`: BLOCK is handled like INCLUSIVE
    | .transform k => (opTransform (env.tf k) s { start := rel, type := .inclusive }).map St.toV
    | .indent => (opIndent env.isSpace s { start := rel, type := .inclusive } count false).map St.toV
    | .unindent => (opIndent env.isSpace s { start := rel, type := .inclusive } count true).map St.toV
    | .delete reg =>
      if badReg reg then some s.toV      -- unknown register name: nothing happens
      else
        let r := cutBlock s.text s.cur orig s.toV
        some (vStore r.1 reg r.2)
    | .change reg =>
      if badReg reg then some s.toV
      else
        let r := cutBlock s.text s.cur orig s.toV
        some { vStore r.1 reg r.2 with insert := true }
    | .yank reg =>
      match reg with
      | some r => if isRegName r then some (vStore s.toV reg (cutBlock s.text s.cur orig s.toV).2) else some s.toV
      | none => some (vStore s.toV none (cutBlock s.text s.cur orig s.toV).2)

/-! ### the keys of selection mode -/

/-- the selection: `SelectionState(original_cursor_position, type)` + `Buffer.preferred_column` -/
structure VSel where
  orig : Nat
  ty : SelType
  pref : Option Nat := none
deriving Repr, DecidableEq

structure VSess where
  st : St
  sel : VSel
  lastFind : Option (Char × Bool) := none
  arg : Option Nat := none
deriving Repr, DecidableEq

inductive VKey
  | digit (d : Fin 10)
  | motion (m : Motion)
  /-- `j` (`down = true`) / `k` in selection mode -/
  | line (down : Bool)
deriving Repr, DecidableEq

/-- the cursor setter: a changed cursor resets `preferred_column` -/
def VSess.setCur (vs : VSess) (c : Nat) : VSess :=
  let c' := min c vs.st.text.length
  { vs with st := { vs.st with cur := c' },
            sel := { vs.sel with pref := if c' = vs.st.cur then vs.sel.pref else none } }

/-- `_move_in_selection_mode` -/
def vMove (env : Env) (vs : VSess) (a : Option Nat) (m : Motion) : VSess :=
  let d := vs.st.doc
  let o := textObject env.isSpace env.reSpace d (evArg a) (resolve vs.lastFind a.isSome m)
  let vs1 := { vs with lastFind := newLastFind vs.lastFind m }
  if o.stop ≠ 0 then
    -- a text object with both ends (`iw`, `i(` …) becomes the selection
    let r := operatorRange d o
    let vs2 := { vs1 with sel := { vs1.sel with orig := ((d.cur : Int) + r.1).toNat,
                                                ty := if o.type = TOType.linewise then SelType.lines else SelType.chars } }
    vs2.setCur ((d.cur : Int) + r.2).toNat
  else vs1.setCur ((d.cur : Int) + o.start).toNat

/-- `Buffer.cursor_down(count)` / `cursor_up(count)` -/
def vLine (vs : VSess) (a : Option Nat) (down : Bool) : VSess :=
  let d := vs.st.doc
  let count := evArg a
  -- original_column = self.preferred_column or self.document.cursor_position_col
  let col := match vs.sel.pref with
    | some p => if p ≠ 0 then p else d.col
    | none => d.col
  let tgt := if down then rowColToIndex d.text (d.row + count) col
             else rowColToIndex d.text (d.row - count) col
  let vs1 := vs.setCur tgt
  { vs1 with sel := { vs1.sel with pref := some col } }

def vStep (env : Env) (vs : VSess) (k : VKey) : Option VSess :=
  let a := vs.arg
  let vs0 := { vs with arg := none }
  match k with
  | .digit d =>
    if d.val = 0 ∧ a = none then some (vMove env vs0 a .zero)
    else some { vs0 with arg := some (match a with | none => d.val | some n => n * 10 + d.val) }
  | .motion m =>
    -- text objects registered with `no_selection_handler` (`j`, `k`) have their own bindings
    if isKeyMotion m && m != .j && m != .k then some (vMove env vs0 a m) else none
  | .line down => some (vLine vs0 a down)

def vRun (env : Env) : VSess → List VKey → Option VSess
  | vs, [] => some vs
  | vs, k :: ks =>
    match vStep env vs k with
    | some vs' => vRun env vs' ks
    | none => none

/-- the navigation-mode cursor fix after the operator handler (the selection is gone) -/
def VSt.fix (s : VSt) : VSt := if s.insert then s else { s with cur := fixViCursor s.text s.cur }

/-- a whole visual excursion from navigation mode: `v` / `V` / `c-v`, keys of selection mode,
    `[count] operator` -/
def visualKeys (env : Env) (s : St) (lf : Option (Char × Bool)) (ty : SelType) (ks : List VKey)
    (op : Op) : Option VSt :=
  match vRun env { st := s, sel := { orig := s.cur, ty := ty }, lastFind := lf } ks with
  | some vs => (visualOp env vs.st vs.sel.orig vs.sel.ty op (evArg vs.arg)).map VSt.fix
  | none => none

/-- the same ended by Escape instead of an operator: only the cursor may have moved -/
def visualEscape (env : Env) (s : St) (lf : Option (Char × Bool)) (ty : SelType) (ks : List VKey) :
    Option St :=
  (vRun env { st := s, sel := { orig := s.cur, ty := ty }, lastFind := lf } ks).map fun vs =>
    { vs.st with cur := fixViCursor vs.st.text vs.st.cur }

end Ptk.C08
