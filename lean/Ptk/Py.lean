/-
  "Python prelude": the few str / list operations of CPython that the anchored
  code uses, as total functions over `List Char`.  Core Lean only (no Mathlib),
  so that the drivers link as `lean_exe`.
-/
namespace Ptk.Py

abbrev Text := List Char

/-- CPython's normalisation of one slice bound for a sequence of length `n`
    (`PySlice_AdjustIndices`, step 1): negative bounds wrap once, then clamp. -/
def normIdx (n : Nat) (i : Int) : Nat :=
  if i < 0 then (i + (n : Int)).toNat else min i.toNat n

/-- `l[a:b]` with `None` bounds as `none`. -/
def slice (l : List α) (a b : Option Int) : List α :=
  let n := l.length
  let lo := match a with | none => 0 | some i => normIdx n i
  let hi := match b with | none => n | some i => normIdx n i
  (l.take hi).drop lo

/-- `l[a:]` -/
def sliceFrom (l : List α) (a : Int) : List α := slice l (some a) none
/-- `l[:b]` -/
def sliceTo (l : List α) (b : Int) : List α := slice l none (some b)

/-- `l[i]` for a possibly negative index; `none` = IndexError. -/
def index? (l : List α) (i : Int) : Option α :=
  if i < 0 then
    (if i + (l.length : Int) < 0 then none else l[(i + (l.length : Int)).toNat]?)
  else l[i.toNat]?

/-- `s.split(c)` for a one-character separator. Always non-empty. -/
def splitOn (c : Char) : Text → List Text
  | [] => [[]]
  | x :: xs =>
    if x = c then [] :: splitOn c xs
    else match splitOn c xs with
      | [] => [[x]]            -- unreachable
      | l :: ls => (x :: l) :: ls

/-- `sep.join(parts)` -/
def join (sep : Text) : List Text → Text
  | [] => []
  | [l] => l
  | l :: ls => l ++ sep ++ join sep ls

/-- `s.lstrip(c)` for a one-character set. -/
def lstripChar (c : Char) : Text → Text
  | [] => []
  | x :: xs => if x = c then lstripChar c xs else x :: xs

/-- `s.find(c)` for one character: index of the first occurrence. -/
def findChar? (c : Char) : Text → Option Nat
  | [] => none
  | x :: xs => if x = c then some 0 else (findChar? c xs).map (· + 1)

/-- `sub in s` / `s.find(sub)` for a literal substring, scanning from `i`. -/
def isPrefixOf' [BEq α] : List α → List α → Bool
  | [], _ => true
  | _ :: _, [] => false
  | a :: as, b :: bs => a == b && isPrefixOf' as bs

def findSub? (sub : Text) : Text → Option Nat
  | [] => if sub.isEmpty then some 0 else none
  | x :: xs =>
    if isPrefixOf' sub (x :: xs) then some 0
    else (findSub? sub xs).map (· + 1)

def repeatText (t : Text) : Nat → Text
  | 0 => []
  | n + 1 => t ++ repeatText t n

end Ptk.Py
