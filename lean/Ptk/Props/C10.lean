/-
  C10 — displayed content can never inject control sequences into the terminal.

  Part 1: the cell constructor `Char.__init__`, the escaping writer `Vt100_Output.write`,
  the safe print path `print_formatted_text`, and the side conditions on the regenerated
  `Char.display_mappings`.

  (Part 2 `Props/C10Copy.lean`: `Window._copy_body` keeps every screen cell control-free;
   Part 3 `Props/C10Diff.lean`: `_output_screen_diff` write discipline;
   Part 4 `Props/C10Tok.lean`: the tokenised output stream.)

  All theorems about cells hold for ANY display table `m` satisfying the decidable side
  conditions and ANY width function `wc`; `gen_ok` re-decides the side conditions on the
  table regenerated from /repo on every run.
-/
import Ptk.Model.C10
import Ptk.Gen.C10Display
namespace Ptk.C10
open Ptk.Py

/-! ### helper lemmas -/

theorem cleanB_iff (t : CText) : cleanB t = true ↔ Clean t := by
  simp [cleanB, Clean]

theorem clean_append {a b : CText} (ha : Clean a) (hb : Clean b) : Clean (a ++ b) := by
  intro c hc
  rcases List.mem_append.mp hc with h | h
  · exact ha c h
  · exact hb c h

theorem clean_nil : Clean [] := by intro c hc; simp at hc

theorem lookup_mem {m : Table} {s v : CText} (h : lookup m s = some v) : (s, v) ∈ m := by
  induction m with
  | nil => simp [lookup] at h
  | cons kv rest ih =>
    obtain ⟨k, w⟩ := kv
    simp only [lookup] at h
    split at h
    · rename_i hk; cases h; simp [hk]
    · simp [ih h]

theorem isControl_mem_codes {c : CP} (h : isControl c = true) : c ∈ controlCodes := by
  simp only [isControl, Bool.or_eq_true, decide_eq_true_eq, Bool.and_eq_true] at h
  simp only [controlCodes, List.mem_append, List.mem_range, List.mem_map]
  rcases h with h | ⟨h1, h2⟩
  · exact Or.inl h
  · exact Or.inr ⟨c - 0x7f, by omega, by omega⟩

theorem covered_of_control {m : Table} (hc : coversControls m = true) {c : CP}
    (h : isControl c = true) : (lookup m [c]).isSome = true := by
  exact List.all_eq_true.mp hc _ (isControl_mem_codes h)

theorem value_clean {m : Table} (hp : valuesPrintable m = true) {s v : CText}
    (h : lookup m s = some v) : Clean v := by
  have := List.all_eq_true.mp hp _ (lookup_mem h)
  exact (cleanB_iff v).mp this

/-! ### the cell constructor -/

/-- **Main cell theorem.** For every Unicode scalar value `c` (all 1 112 064 of them at once)
    and every style, the text of the screen cell `Char(c, style)` contains no control
    character. -/
theorem cell_no_control {m : Table} (wc : CP → Int) (hc : coversControls m = true)
    (hp : valuesPrintable m = true) (c : CP) (style : Text) :
    Clean (mkCell m wc [c] style).char := by
  unfold mkCell
  split
  · rename_i v h; exact value_clean hp h
  · rename_i h
    intro x hx
    simp only [List.mem_singleton] at hx
    subst hx
    cases hx : isControl x with
    | false => rfl
    | true => have := covered_of_control hc hx; simp [h] at this

example : (mkCell Gen.C10.displayMappings Gen.C10.wcwidth [ESC] ['x']).char = [0x5e, 0x5b] := by decide +kernel
example : (mkCell Gen.C10.displayMappings Gen.C10.wcwidth [0x9b] []).char = [0x3c, 0x39, 0x62, 0x3e] := by
  decide +kernel
-- a lone surrogate (what `os.fsdecode` makes of the byte 0x9b) is an ordinary width-1 character here
example : (mkCell Gen.C10.displayMappings Gen.C10.wcwidth [0xDC9B] []) = ⟨[0xDC9B], [], 1⟩ := by decide +kernel
example : (mkCell Gen.C10.displayMappings Gen.C10.wcwidth [0x61] []).char = [0x61] := by decide +kernel

/-- `Char(s, style).char` is control-free whenever the string `s` (of any length: merged
    cells, re-styled cells) is. -/
theorem mkCell_clean {m : Table} (wc : CP → Int) (hp : valuesPrintable m = true)
    {s : CText} (hs : Clean s) (style : Text) : Clean (mkCell m wc s style).char := by
  unfold mkCell
  split
  · rename_i v h; exact value_clean hp h
  · exact hs

example : Clean [0x65, 0x301] := (cleanB_iff _).mp (by decide)

/-- The cell text is either the table's display string or the character itself: nothing else
    is ever substituted (printable characters are shown as they are). -/
theorem cell_text_cases (m : Table) (wc : CP → Int) (c : CP) (style : Text) :
    (mkCell m wc [c] style).char = [c] ∨ ∃ v, ([c], v) ∈ m ∧ (mkCell m wc [c] style).char = v := by
  unfold mkCell
  split
  · rename_i v h; exact Or.inr ⟨v, lookup_mem h, rfl⟩
  · exact Or.inl rfl

/-- A character whose cell has width 0 — the only characters `_copy_body` merges RAW into the
    previous cell — is never a control character. -/
theorem merge_no_control {m : Table} {wc : CP → Int} (hc : coversControls m = true)
    (hw : valuesWidthPos m wc = true) {c : CP} {style : Text}
    (h0 : (mkCell m wc [c] style).width = 0) : isControl c = false := by
  cases hx : isControl c with
  | false => rfl
  | true =>
    have hs := covered_of_control hc hx
    obtain ⟨v, hv⟩ := Option.isSome_iff_exists.mp hs
    have hpos := List.all_eq_true.mp hw _ (lookup_mem hv)
    simp [mkCell, hv] at h0
    simp [h0] at hpos

-- the hypothesis is satisfiable: a combining accent has width 0
example : (mkCell Gen.C10.displayMappings Gen.C10.wcwidth [0x301] []).width = 0 := by decide +kernel

/-- The merged cell `Char(prev.char + c, prev.style)` is control-free when the previous cell was. -/
theorem merged_cell_clean {m : Table} {wc : CP → Int} (hc : coversControls m = true)
    (hp : valuesPrintable m = true) (hw : valuesWidthPos m wc = true) {c : CP} {style : Text}
    (h0 : (mkCell m wc [c] style).width = 0) {prev : Cell} (hprev : Clean prev.char) :
    Clean (mkCell m wc (prev.char ++ [c]) prev.style).char := by
  apply mkCell_clean wc hp
  apply clean_append hprev
  intro x hx
  simp only [List.mem_singleton] at hx
  subst hx
  exact merge_no_control hc hw h0


/-- `Char.__init__` only looks up the WHOLE string: with single-character keys, a string of any
    other length is stored as it is.  (So the constructor alone does not sanitise multi-character
    strings; the sites that build such cells — the zero-width merge, and re-styling an existing
    cell — are covered by `merged_cell_clean` / `mkCell_clean`.) -/
theorem mkCell_multichar_passthrough {m : Table} (wc : CP → Int) (hk : keysSingle m = true)
    {s : CText} (hs : s.length ≠ 1) (style : Text) :
    (mkCell m wc s style).char = s ∧ (mkCell m wc s style).style = style := by
  have hl : lookup m s = none := by
    induction m with
    | nil => rfl
    | cons kv rest ih =>
      obtain ⟨k, v⟩ := kv
      simp only [keysSingle, List.all_cons, Bool.and_eq_true, beq_iff_eq] at hk
      simp only [lookup]
      split
      · rename_i h; subst h; exact absurd hk.1 hs
      · exact ih hk.2
  simp [mkCell, hl]

-- witness on the real table: a two-character string containing ESC is stored raw
example : (mkCell Gen.C10.displayMappings Gen.C10.wcwidth [ESC, 0x78] []).char = [ESC, 0x78] := by decide +kernel

/-- Re-styling a cell (`fill_area`, `append_style_to_content`, cursor line/column highlighting:
    `_CHAR_CACHE[cell.char, new_style]`) keeps it control-free. -/
theorem restyle_clean {m : Table} (wc : CP → Int) (hp : valuesPrintable m = true)
    {cell : Cell} (hc : Clean cell.char) (style' : Text) : Clean (mkCell m wc cell.char style').char :=
  mkCell_clean wc hp hc style'

example : Clean (mkCell Gen.C10.displayMappings Gen.C10.wcwidth [0x5e, 0x5b] ['x']).char :=
  (cleanB_iff _).mp (by decide +kernel)

/-- A control character is always displayed with width ≥ 1. -/
theorem control_cell_width_pos {m : Table} {wc : CP → Int} (hc : coversControls m = true)
    (hw : valuesWidthPos m wc = true) {c : CP} (style : Text) (hx : isControl c = true) :
    0 < (mkCell m wc [c] style).width := by
  rcases Nat.eq_zero_or_pos (mkCell m wc [c] style).width with h | h
  · have := merge_no_control hc hw h; simp [hx] at this
  · exact h

example : isControl ESC = true := by decide

/-! ### the regenerated table -/

/-- `^X` (caret) form of a C0 control / DEL, `<hh>` (hex) form of a C1 control -/
def caretOrHex (n : Nat) : CText :=
  if n < 0x80 then [0x5e, n ^^^ 0x40]
  else [0x3c, (Nat.digitChar (n / 16)).toNat, (Nat.digitChar (n % 16)).toNat, 0x3e]

/-- every control character is shown in caret or (lower-case) hex notation -/
def displayForms (m : Table) : Bool :=
  controlCodes.all fun n => lookup m [n] == some (caretOrHex n)

/-- distinct control characters have distinct display strings -/
def displayInjective (m : Table) : Bool :=
  controlCodes.all fun a => controlCodes.all fun b =>
    a == b || lookup m [a] != lookup m [b]

/-- **Side conditions re-decided by the kernel on the table regenerated from /repo.**
    A change of `Char.display_mappings` that drops a control character, maps one to a string
    containing a control character, or to a zero-width string, fails the build here. -/
theorem gen_ok :
    coversControls Gen.C10.displayMappings = true ∧
    valuesPrintable Gen.C10.displayMappings = true ∧
    valuesWidthPos Gen.C10.displayMappings Gen.C10.wcwidth = true ∧
    keysSingle Gen.C10.displayMappings = true ∧
    keysNodup Gen.C10.displayMappings = true := by
  decide +kernel

/-- "each is shown in visible caret or hex notation", on the regenerated table. -/
theorem gen_display_forms :
    displayForms Gen.C10.displayMappings = true ∧ displayInjective Gen.C10.displayMappings = true := by
  decide +kernel

/-- The cell theorem instantiated on the real table and the real `wcwidth`. -/
theorem real_cell_no_control (c : CP) (style : Text) :
    Clean (mkCell Gen.C10.displayMappings Gen.C10.wcwidth [c] style).char :=
  cell_no_control _ gen_ok.1 gen_ok.2.1 c style


/-! ### `get_display_width` (scroll measure, since /repo 9db5f12) -/

/-- no key of the table is a printable character (so the `text.isprintable()` fast path of
    `get_display_width` cannot skip a mapped character) -/
def keysNonPrintable (m : Table) (printable : CP → Bool) : Bool :=
  m.all fun kv => kv.1.all fun c => !printable c

theorem lookup_none_of_printable {m : Table} {printable : CP → Bool}
    (hk : keysNonPrintable m printable = true) {c : CP} (hc : printable c = true) :
    lookup m [c] = none := by
  induction m with
  | nil => rfl
  | cons kv rest ih =>
    obtain ⟨k, v⟩ := kv
    simp only [keysNonPrintable, List.all_cons, Bool.and_eq_true] at hk
    simp only [lookup]
    split
    · rename_i h; subst h; simp [hc] at hk
    · exact ih hk.2

/-- **The scroll code measures a character exactly as `_copy_body` draws it**: for every scalar
    `c`, `get_display_width(c)` is the width of the cell `Char(c, style)`. -/
theorem displayWidth_eq_cell_width {m : Table} (wc : CP → Int) {printable : CP → Bool}
    (hk : keysNonPrintable m printable = true) (c : CP) (style : Text) :
    displayWidth m wc printable [c] = (mkCell m wc [c] style).width := by
  unfold displayWidth mkCell
  cases hp : printable c with
  | true => simp [hp, lookup_none_of_printable hk hp]
  | false =>
    simp only [List.all_cons, hp, List.all_nil, Bool.and_true, Bool.false_eq_true, if_false,
      List.map_cons, List.map_nil, List.sum_cons, List.sum_nil, Nat.add_zero]
    cases lookup m [c] <;> rfl

theorem gen_keys_nonprintable :
    keysNonPrintable Gen.C10.displayMappings Gen.C10.isPrintable = true := by decide +kernel

example : displayWidth Gen.C10.displayMappings Gen.C10.wcwidth Gen.C10.isPrintable [ESC, 0x61, 0x9b] = 7 := by
  decide +kernel

/-! ### the escaping writer -/

/-- **`Vt100_Output.write` never emits ESC**, whatever it is given. -/
theorem safe_write_no_esc (t : CText) : ESC ∉ safeWrite t := by
  induction t with
  | nil => simp [safeWrite]
  | cons c cs ih =>
    simp only [safeWrite, List.map_cons, List.mem_cons, not_or] at *
    refine ⟨?_, ih⟩
    split
    · decide
    · rename_i h; exact fun e => h e.symm

example : safeWrite [0x61, ESC, 0x5b, 0x32, 0x4a] = [0x61, QM, 0x5b, 0x32, 0x4a] := by decide

/-- the writer replaces characters one for one (cursor bookkeeping stays valid) -/
theorem safe_write_length (t : CText) : (safeWrite t).length = t.length := by
  simp [safeWrite]

/-- the writer introduces no control character of its own -/
theorem safe_write_no_new_control (t : CText) :
    ∀ c ∈ safeWrite t, isControl c = true → c ∈ t := by
  intro c hc hctl
  simp only [safeWrite, List.mem_map] at hc
  obtain ⟨a, ha, rfl⟩ := hc
  split at hctl
  · exact absurd hctl (by decide)
  · rename_i h; simpa [h] using ha

/-- control-free text passes unchanged -/
theorem safe_write_of_clean {t : CText} (h : Clean t) : safeWrite t = t := by
  induction t with
  | nil => rfl
  | cons c cs ih =>
    have hc := h c (by simp)
    have hcs : Clean cs := fun x hx => h x (by simp [hx])
    simp only [safeWrite, List.map_cons] at *
    rw [ih hcs]
    split
    · rename_i he; subst he; exact absurd hc (by decide)
    · rfl

theorem safe_write_clean {t : CText} (h : Clean t) : Clean (safeWrite t) := by
  rw [safe_write_of_clean h]; exact h

/-- **Cell text through the escaping writer**: for every scalar `c`, what reaches the terminal
    for the cell `Char(c, style)` is its display text, unchanged and control-free. -/
theorem cell_output_clean {m : Table} (wc : CP → Int) (hc : coversControls m = true)
    (hp : valuesPrintable m = true) (c : CP) (style : Text) :
    Clean (safeWrite (mkCell m wc [c] style).char) ∧
    safeWrite (mkCell m wc [c] style).char = (mkCell m wc [c] style).char :=
  ⟨safe_write_clean (cell_no_control wc hc hp c style), safe_write_of_clean (cell_no_control wc hc hp c style)⟩

/-! ### the safe print path -/

/-- classification of one output segment of `print_formatted_text` -/
def PrintSegOk (sgr : Nat → CText) (reset autowrap : CText) (frs : List (Text × CText)) (sg : Seg) : Prop :=
  match sg.1 with
  | .gen => sg.2 = reset ∨ sg.2 = autowrap ∨ ∃ a, sg.2 = sgr a
  | .genw => False
  | .content => ESC ∉ sg.2
  | .zwe => ∃ f ∈ frs, isZwe f.1 = true ∧ sg.2 = f.2

theorem printSegOk_mono {sgr reset autowrap} {f : Text × CText} {frs : List (Text × CText)} {sg : Seg}
    (h : PrintSegOk sgr reset autowrap frs sg) : PrintSegOk sgr reset autowrap (f :: frs) sg := by
  unfold PrintSegOk at *
  split <;> simp_all

theorem printLoop_ok (attrsOf : Text → Nat) (sgr : Nat → CText) (reset autowrap : CText)
    (frs : List (Text × CText)) (last : Option Nat) :
    ∀ sg ∈ printLoop attrsOf sgr last frs, PrintSegOk sgr reset autowrap frs sg := by
  induction frs generalizing last with
  | nil => simp [printLoop]
  | cons f rest ih =>
    obtain ⟨style, text⟩ := f
    intro sg hsg
    simp only [printLoop, printFrag, List.mem_append] at hsg
    rcases hsg with (hsg | hsg) | hsg
    · split at hsg
      · simp only [List.mem_singleton] at hsg; subst hsg
        simp only [PrintSegOk]; exact Or.inr (Or.inr ⟨_, rfl⟩)
      · simp at hsg
    · simp only [List.mem_singleton] at hsg
      subst hsg
      split
      · rename_i hz; simp [PrintSegOk, rawWrite, hz]
      · simp only [PrintSegOk]; exact safe_write_no_esc _
    · exact printSegOk_mono (ih _ sg hsg)

/-- **Safe print path.** Every piece `print_formatted_text` sends to the output is either an
    emitter string (reset / autowrap / an SGR code), or fragment text that went through the
    escaping writer and contains no ESC, or the text of a fragment explicitly marked
    `[ZeroWidthEscape]`.  Hence every ESC in the printed stream is renderer-generated or
    explicitly marked. -/
theorem print_segments_ok (attrsOf : Text → Nat) (sgr : Nat → CText) (reset autowrap : CText)
    (frs : List (Text × CText)) :
    ∀ sg ∈ printFrags attrsOf sgr reset autowrap frs, PrintSegOk sgr reset autowrap frs sg := by
  intro sg hsg
  simp only [printFrags, List.mem_append, List.mem_cons, List.not_mem_nil, or_false] at hsg
  rcases hsg with (hsg | hsg) | hsg
  · rcases hsg with h | h <;> subst h <;> simp [PrintSegOk]
  · exact printLoop_ok attrsOf sgr reset autowrap frs none sg hsg
  · subst hsg; simp [PrintSegOk]

-- non-vacuity: a hostile fragment and a marked fragment
example :
    printFrags (fun _ => 0) (fun _ => [0x53]) [0x52] [0x57]
      [([], [0x61, ESC, 0x5b, 0x6d, CR, LF]), (zweMarker, [ESC, 0x5d])] =
    [(.gen, [0x52]), (.gen, [0x57]), (.gen, [0x53]), (.content, [0x61, QM, 0x5b, 0x6d, CR, LF]),
     (.zwe, [ESC, 0x5d]), (.gen, [0x52])] := by decide

/-- With no fragment marked `[ZeroWidthEscape]`, nothing is written raw except emitter strings. -/
theorem print_unmarked_no_raw (attrsOf : Text → Nat) (sgr : Nat → CText) (reset autowrap : CText)
    (frs : List (Text × CText)) (hun : ∀ f ∈ frs, isZwe f.1 = false) :
    ∀ sg ∈ printFrags attrsOf sgr reset autowrap frs, sg.1 ≠ .zwe := by
  intro sg hsg hz
  have := print_segments_ok attrsOf sgr reset autowrap frs sg hsg
  simp only [PrintSegOk, hz] at this
  obtain ⟨f, hf, hzw, _⟩ := this
  simp [hun f hf] at hzw

end Ptk.C10
