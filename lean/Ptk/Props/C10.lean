import Ptk.Model.C10
import Ptk.Gen.C10Display
namespace Ptk.C10
open Ptk.Py

/-- `Vt100_Output.write` never emits ESC. -/
theorem safe_write_no_esc (t : Text) : ESC ∉ safeWrite t := by
  induction t with
  | nil => simp [safeWrite]
  | cons c cs ih =>
    simp only [safeWrite, List.map_cons, List.mem_cons, not_or] at *
    refine ⟨?_, ih⟩
    split
    · decide
    · rename_i h; exact fun e => h e.symm

end Ptk.C10
