/-
  C13 — lines of a history file that do not start with `+` are separators and nothing else: foreign
  comment lines / blank lines / other text between complete records never change what is loaded.
-/
import Ptk.Props.C13File
import Ptk.Props.C13Utf8
namespace Ptk.C13
open Ptk.Py

/-! ## foreign lines between records -/

/-- a line (without its terminator) that `load_history_strings` treats as a separator: it contains no
    LF and its decoding does not start with `+` -/
def ForeignLine (C : Codec) (l : Bytes) : Prop := 10 ∉ l ∧ ∀ rest, C.dec (l ++ [10]) ≠ '+' :: rest

/-- the bytes of a block of complete lines -/
def foreignBlock (ls : List Bytes) : Bytes := ls.flatMap (· ++ [10])

theorem loadStep_foreign (C : Codec) (st : LoadSt) (l : Bytes) (h : ForeignLine C l) :
    loadStep C st (l ++ [10]) = ⟨st.add, []⟩ := by
  unfold loadStep
  split
  · rename_i rest heq
    exact absurd heq (h.2 rest)
  · rfl

theorem loadRun_foreignBlock (C : Codec) (ls : List Bytes) (h : ∀ l ∈ ls, ForeignLine C l)
    (st : LoadSt) (rest : Bytes) :
    ∃ st', st'.add = st.add ∧ loadRun C st (foreignBlock ls ++ rest) = loadRun C st' rest := by
  induction ls generalizing st with
  | nil => exact ⟨st, rfl, by simp [foreignBlock]⟩
  | cons l ls ih =>
    have hl := h l (by simp)
    obtain ⟨st', h1, h2⟩ := ih (fun l' hl' => h l' (by simp [hl'])) ⟨st.add, []⟩
    refine ⟨st', by rw [h1, add_nil_lines], ?_⟩
    have : foreignBlock (l :: ls) ++ rest = l ++ 10 :: (foreignBlock ls ++ rest) := by
      simp [foreignBlock]
    rw [this, loadRun_line C st l hl.1, loadStep_foreign C st l hl, h2]

/-- a file is a sequence of segments: complete records, or blocks of foreign lines -/
inductive Seg
  | recs (es : List (Text × Text))
  | foreign (ls : List Bytes)

def segBytes (C : Codec) : Seg → Bytes
  | .recs es => stores C es
  | .foreign ls => foreignBlock ls

def segEntries : Seg → List Text
  | .recs es => es.map (·.2)
  | .foreign _ => []

def SegOk (C : Codec) : Seg → Prop
  | .recs es => TsOk es
  | .foreign ls => ∀ l ∈ ls, ForeignLine C l

theorem loadRun_stores_rest {C : Codec} (hC : C.Good) (es : List (Text × Text)) (hts : TsOk es)
    (st : LoadSt) (rest : Bytes) :
    ∃ st', st'.add = st.add ++ es.map (·.2) ∧ loadRun C st (stores C es ++ rest) = loadRun C st' rest := by
  induction es generalizing st with
  | nil => exact ⟨st, by simp, by simp [stores]⟩
  | cons e es ih =>
    obtain ⟨ts, s⟩ := e
    have h1 : '\n' ∉ ts := hts (ts, s) (by simp)
    obtain ⟨st', h2, h3⟩ := ih (fun e he => hts e (by simp [he])) ⟨st.add, linesOf s⟩
    refine ⟨st', by rw [h2, add_linesOf]; simp, ?_⟩
    simp only [stores, List.append_assoc]
    rw [loadRun_record hC st ts s h1, h3]

theorem loadRun_segs {C : Codec} (hC : C.Good) (segs : List Seg) (hok : ∀ g ∈ segs, SegOk C g)
    (st : LoadSt) :
    (loadRun C st (segs.flatMap (segBytes C))).add = st.add ++ segs.flatMap segEntries := by
  induction segs generalizing st with
  | nil => simp [loadRun_nil]
  | cons g segs ih =>
    have hg := hok g (by simp)
    have hr := fun st' => ih (fun g' hg' => hok g' (by simp [hg'])) st'
    simp only [List.flatMap_cons]
    cases g with
    | recs es =>
      obtain ⟨st', h1, h2⟩ := loadRun_stores_rest hC es hg st (segs.flatMap (segBytes C))
      simp only [segBytes, segEntries]
      rw [h2, hr, h1, List.append_assoc]
    | foreign ls =>
      obtain ⟨st', h1, h2⟩ := loadRun_foreignBlock C ls hg st (segs.flatMap (segBytes C))
      simp only [segBytes, segEntries, List.nil_append]
      rw [h2, hr, h1]

/-- for the UTF-8 codec: every line that starts with an ASCII byte other than `+` (a `#` comment, a
    blank line, text of another program …) is foreign -/
theorem foreign_ascii (l : Bytes) (hnl : 10 ∉ l)
    (hb : (l ++ [10]).headD 0 < 0x80 ∧ (l ++ [10]).headD 0 ≠ 0x2B) : ForeignLine utf8 l := by
  refine ⟨hnl, fun rest => ?_⟩
  cases hl : l ++ [10] with
  | nil => simp at hl
  | cons b r =>
    rw [hl] at hb
    obtain ⟨h1, h2⟩ := hb
    have hc : ∀ b : Nat, b < 0x80 → b ≠ 0x2B → Char.ofNat b ≠ '+' := by decide
    show utf8Dec (b :: r) ≠ '+' :: rest
    simp only [utf8Dec, decRun_cons, decStep_idle, startByte_1 b h1, List.singleton_append]
    intro heq
    exact hc b h1 h2 (List.cons.inj heq).1

end Ptk.C13
