/-
  C03 — the second set of side conditions (`wf2`, see `Props/C03Struct.lean`), re-decided by the
  kernel on the table regenerated from /repo.  (In a file of its own: the pairwise "no sequence of
  two or more characters is a proper prefix of another" check costs ~25 s of kernel time.)
-/
import Ptk.Props.C03Struct
namespace Ptk.C03

/-- `ANSI_SEQUENCES` and the `\\d` class of the current tree: every multi-character sequence starts
    with the only ESC it contains and is not a proper prefix of anything longer; no proper prefix
    of a sequence is a CPR / mouse report; `ESC \\n` is not a sequence; a lone ESC is held back;
    ESC, `R`, `M`, `m`, `<` are not digits. -/
theorem gen_ok2 : WF2 genCfg := (wf2_iff genCfg).1 (by decide +kernel)

end Ptk.C03
