/-
  C17 (fifth layer) — the type-ahead store keyed by `typeahead_hash()` and several input objects
  sharing it (`Ptk.Model.C17Store`).

    store_store / get_after_store            FIFO: later type-ahead of the same input is appended
    store_other / get_other / clear_other    isolation of the store entries
    proj_step_same / proj_step_other / proj_run
                                             every input runs the one-input machine, undisturbed
    no_loss_no_dup_per_input / results_are_segments_per_input / results_independent_of_other_inputs
                                             the first-layer theorems, per input, for every interleaving
-/
import Ptk.Props.C17
import Ptk.Model.C17Store
namespace Ptk.C17.Store
open Ptk.C17

variable {α : Type}

theorem getD_put_same (d : Dict α) (h : Hash) (v dflt : α) : getD (put d h v) h dflt = v := by
  induction d with
  | nil => simp [put, getD]
  | cons e d ih =>
    by_cases he : e.1 = h
    · simp [put, getD, he]
    · simp [put, getD, he, ih]

theorem getD_put_other (d : Dict α) (h h' : Hash) (v dflt : α) (hne : h' ≠ h) :
    getD (put d h v) h' dflt = getD d h' dflt := by
  induction d with
  | nil => simp [put, getD, Ne.symm hne]
  | cons e d ih =>
    by_cases he : e.1 = h
    · have : ¬ e.1 = h' := by rw [he]; exact Ne.symm hne
      simp [put, getD, he, Ne.symm hne]
    · by_cases he' : e.1 = h'
      · have hh : ¬ h' = h := hne
        obtain ⟨e1, e2⟩ := e
        simp only at he' ; subst he'
        simp [put, getD, hh]
      · simp [put, getD, he, he', ih]

/-! ### the store: isolation and order -/

/-- **FIFO append**: what is stored later for the same input comes after what was stored before -/
theorem store_store (b : Buf) (h : Hash) (a c : List Key) :
    getD (storeTypeahead (storeTypeahead b h a) h c) h [] = getD b h [] ++ a ++ c := by
  simp [storeTypeahead, getD_put_same]

/-- `get_typeahead` returns everything stored for this input, in order, and empties the entry -/
theorem get_after_store (b : Buf) (h : Hash) (a : List Key) :
    (getTypeahead (storeTypeahead b h a) h).1 = getD b h [] ++ a ∧
    getD (getTypeahead (storeTypeahead b h a) h).2 h [] = [] := by
  simp [getTypeahead, storeTypeahead, getD_put_same]

/-- **Isolation**: storing, getting or clearing the type-ahead of one input never changes the
    entry of an input with another hash -/
theorem store_other (b : Buf) (h h' : Hash) (ks : List Key) (hne : h' ≠ h) :
    getD (storeTypeahead b h ks) h' [] = getD b h' [] := getD_put_other _ _ _ _ _ hne
theorem get_other (b : Buf) (h h' : Hash) (hne : h' ≠ h) :
    getD (getTypeahead b h).2 h' [] = getD b h' [] := getD_put_other _ _ _ _ _ hne
theorem clear_other (b : Buf) (h h' : Hash) (hne : h' ≠ h) :
    getD (clearTypeahead b h) h' [] = getD b h' [] := getD_put_other _ _ _ _ _ hne
theorem clear_same (b : Buf) (h : Hash) : getD (clearTypeahead b h) h [] = [] := getD_put_same _ _ _ _

/-! ### every input object runs the one-input machine, undisturbed by the others -/

theorem slot_put_same (y : Sys) (b : Buf) (h : Hash) (s : C17.St) :
    (Sys.mk b (put y.slots h s)).slot h = s := getD_put_same _ _ _ _

theorem proj_leaveOn (y : Sys) (h : Hash) (f : Key) :
    (leaveOn y h f).proj h = leave (y.proj h) f := by
  simp [Sys.proj, leaveOn, Sys.slot, getD_put_same, storeTypeahead, leave]

theorem proj_mk_put (y : Sys) (b : Buf) (h : Hash) (s : C17.St) :
    (Sys.mk b (put y.slots h s)).proj h = { s with typeahead := getD b h [] } := by
  simp [Sys.proj, Sys.slot, getD_put_same]

theorem proj_slot (y : Sys) (h : Hash) :
    (y.proj h).pipe = (y.slot h).pipe ∧ (y.proj h).kp = (y.slot h).kp ∧
    (y.proj h).running = (y.slot h).running ∧ (y.proj h).exiting = (y.slot h).exiting ∧
    (y.proj h).responds = (y.slot h).responds ∧ (y.proj h).results = (y.slot h).results ∧
    (y.proj h).typeahead = getD y.buf h [] := by simp [Sys.proj]

/-- an event on input `h`, seen from input `h`: exactly the step of the one-input machine -/
theorem proj_step_same (y : Sys) (h : Hash) (e : C17.Ev) :
    (y.step h e).proj h = C17.step (y.proj h) e := by
  obtain ⟨p1, p2, p3, p4, p5, p6, p7⟩ := proj_slot y h
  cases e with
  | write c =>
    simp only [Sys.step, C17.step, proj_mk_put]
    simp [Sys.proj]
  | start =>
    simp only [Sys.step, C17.step, p3, p4]
    split
    · rfl
    · simp only [proj_mk_put, getTypeahead, getD_put_same]
      simp [Sys.proj]
  | read n =>
    simp only [Sys.step, C17.step, p3, p4, p2]
    split
    · rfl
    · simp only [proj_mk_put]
      simp [Sys.proj]
  | finish =>
    simp only [Sys.step, C17.step, p3, p2, p5]
    cases hr : (y.slot h).running with
    | false => simp
    | true =>
      cases hd : (y.slot h).kp.done with
      | none => simp
      | some f =>
        simp only []
        split
        · simp only [proj_mk_put]; simp [Sys.proj]
        · exact proj_leaveOn y h f
  | endWait =>
    simp only [Sys.step, C17.step, p4, p2]
    cases hr : (y.slot h).exiting with
    | false => simp
    | true =>
      cases hd : (y.slot h).kp.done with
      | none => simp
      | some f => exact proj_leaveOn y h f

/-- what an event on input `h` may touch: the entry of `h` in the store and the slot of `h` -/
def FrameOK (y y' : Sys) (h : Hash) : Prop :=
  ∀ h', h' ≠ h → getD y'.buf h' [] = getD y.buf h' [] ∧ y'.slot h' = y.slot h'

theorem frame_refl (y : Sys) (h : Hash) : FrameOK y y h := fun _ _ => ⟨rfl, rfl⟩

theorem frame_put (y : Sys) (h : Hash) (b : Buf) (s : C17.St)
    (hb : ∀ h', h' ≠ h → getD b h' [] = getD y.buf h' []) : FrameOK y ⟨b, put y.slots h s⟩ h :=
  fun h' hne => ⟨hb h' hne, getD_put_other _ _ _ _ _ hne⟩

theorem frame_leaveOn (y : Sys) (h : Hash) (f : Key) : FrameOK y (leaveOn y h f) h :=
  frame_put y h _ _ (fun _ hne => store_other _ _ _ _ hne)

theorem step_frame (y : Sys) (h : Hash) (e : C17.Ev) : FrameOK y (y.step h e) h := by
  cases e with
  | write c => exact frame_put y h _ _ (fun _ _ => rfl)
  | start =>
    simp only [Sys.step]
    split
    · exact frame_refl y h
    · exact frame_put y h _ _ (fun _ hne => get_other _ _ _ hne)
  | read n =>
    simp only [Sys.step]
    split
    · exact frame_refl y h
    · exact frame_put y h _ _ (fun _ _ => rfl)
  | finish =>
    simp only [Sys.step]
    split
    · split
      · exact frame_put y h _ _ (fun _ _ => rfl)
      · exact frame_leaveOn y h _
    · exact frame_refl y h
  | endWait =>
    simp only [Sys.step]
    split
    · exact frame_leaveOn y h _
    · exact frame_refl y h

/-- **Isolation**: an event on input `h` changes nothing that another input `h'` (with another
    hash) can see — neither its application, nor its pipe, nor its type-ahead -/
theorem proj_step_other (y : Sys) (h h' : Hash) (e : C17.Ev) (hne : h' ≠ h) :
    (y.step h e).proj h' = y.proj h' := by
  obtain ⟨h1, h2⟩ := step_frame y h e h' hne
  simp [Sys.proj, h1, h2]

/-- **Every input object runs the one-input machine on its own events**, whatever happens on the
    other inputs in between -/
theorem proj_run (y : Sys) (h : Hash) (evs : List (Hash × C17.Ev)) :
    (y.run evs).proj h = C17.run (y.proj h) (eventsOf h evs) := by
  induction evs generalizing y with
  | nil => rfl
  | cons e es ih =>
    simp only [Sys.run, eventsOf]
    rw [ih]
    by_cases he : e.1 = h
    · subst he; simp [C17.run, proj_step_same]
    · have : h ≠ e.1 := fun x => he x.symm
      simp [he, proj_step_other _ _ _ _ this]

theorem proj_init (h : Hash) : Sys.init.proj h = C17.St.init false := rfl

/-- **Two sessions on different inputs never see each other's keys**: for every interleaving of the
    events of any number of inputs, the prompts finished on input `h`, the keys its current prompt
    has taken, its type-ahead entry, its queue and its pipe are exactly the key stream written to
    input `h` (CPR reports removed), in order — nothing from another input, nothing missing. -/
theorem no_loss_no_dup_per_input (h : Hash) (evs : List (Hash × C17.Ev)) :
    ∀ s, s = (Sys.init.run evs).proj h →
    flat s.results ++ cur s.kp ++ norm s.typeahead ++ norm s.kp.queue ++ norm s.pipe
      = norm (C17.written (eventsOf h evs)) := by
  intro s hs
  rw [proj_run, proj_init] at hs
  exact no_loss_no_dup false (eventsOf h evs) s hs

/-- the lines returned on input `h` do not depend on what the other inputs do, nor on how their
    events are interleaved with those of `h` -/
theorem results_independent_of_other_inputs (h : Hash) (evs₁ evs₂ : List (Hash × C17.Ev))
    (he : eventsOf h evs₁ = eventsOf h evs₂) :
    ((Sys.init.run evs₁).proj h).results = ((Sys.init.run evs₂).proj h).results := by
  rw [proj_run, proj_run, he]

/-- the lines returned on input `h` are the first lines of what was typed on `h` -/
theorem results_are_segments_per_input (h : Hash) (evs : List (Hash × C17.Ev)) :
    ∃ more, segments (norm (C17.written (eventsOf h evs))) = ((Sys.init.run evs).proj h).results ++ more := by
  have := results_are_segments false (eventsOf h evs) _ rfl
  rw [proj_run, proj_init]; exact this

/-! ## Non-vacuity -/
section examples

/-- two inputs (hashes 3 and 7); `a Enter b` on 3 and `x Enter y` on 7, interleaved -/
def exM : List (Hash × C17.Ev) :=
  [(3, .start), (7, .start), (3, .write [.other 97, .accept, .other 98]), (7, .write [.other 120, .accept, .other 121]),
   (7, .read 9), (3, .read 9), (3, .finish), (7, .finish), (7, .start), (3, .start)]

example : (Sys.init.run (exM.take 8)).buf = [(3, [.other 98]), (7, [.other 121])] := by decide
example : ((Sys.init.run exM).proj 3).results = [([.other 97], .accept)] ∧
    ((Sys.init.run exM).proj 3).kp.applied = [.other 98] ∧
    ((Sys.init.run exM).proj 7).kp.applied = [.other 121] := by decide
example : eventsOf 3 exM = [.start, .write [.other 97, .accept, .other 98], .read 9, .finish, .start] := by decide
-- same hash: a second store call appends (FIFO)
example : getD (storeTypeahead (storeTypeahead [] 3 [.other 1]) 3 [.other 2]) 3 [] = [.other 1, .other 2] := by
  decide

end examples

end Ptk.C17.Store
