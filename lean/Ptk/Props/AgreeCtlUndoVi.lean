/-
  Cross-model agreement, cluster "undo stack, validation, coroutine guard, typeahead, parser glue".

  Part 1b — the command boundary of `KeyProcessor._call_handler` in Vi mode: C07 vs C05 with
  `_fix_vi_cursor_position` after the handler.  Uses the agreement of the cursor fix itself from the
  key-processor cluster (`Ptk.AgreeKey.Fix.fixVi_C08_C05`, `fixVi_C08_C07`: both equal C08's).
-/
import Ptk.Props.AgreeCtlUndo
import Ptk.Props.AgreeKeyFix
namespace Ptk.AgreeCtl.Undo
open Ptk.Py

/-- `_fix_vi_cursor_position` on the undo state: C05's fix = C07's `viFix` edit when
    `vi_navigation_mode()` holds, nothing otherwise -/
theorem fixVi_tr (a : C05.App) (hc : a.buf.cur ≤ a.buf.text.length) :
    tr (C05.fixViCursor a).buf =
      (if C05.viNavigationMode a then C07.act (tr a.buf) (.edit C07.viFix) else tr a.buf) := by
  have h5 := AgreeKey.Fix.fixVi_C08_C05 a hc
  have h7 := AgreeKey.Fix.fixVi_C08_C07 ⟨a.buf.text, a.buf.cur⟩ hc
  have hst : (C05.fixViCursor a).buf.undo = a.buf.undo ∧ (C05.fixViCursor a).buf.redo = a.buf.redo := by
    unfold C05.fixViCursor
    split
    · simp [C05.moveCursor, C05.setCursor]
    · exact ⟨rfl, rfl⟩
  simp only [tr, hst.1, hst.2, h5.1, h5.2]
  split
  · simp only [C07.act, h7]
  · rfl


/-- key_processor.py::KeyProcessor._call_handler in BOTH editing modes — as `callHandler_C07_C05`, with
    `_fix_vi_cursor_position` after the handler: C05 applies it when `vi_navigation_mode()` holds
    for the state the handler left (`a2`), C07 lists it as the explicit last edit `.edit viFix` of
    the body -/
theorem callHandler_vi_C07_C05 (a : C05.App) (h : C05.Inv a.buf)
    (hro : a.buf.readOnly = false) (us : List UOp) (hv : ∀ u ∈ us, u.Valid)
    (hid : Nat) (rule : Bool → Bool) (prev : Option Nat) :
    let snap := if rule (decide (prev = some hid)) then C05.saveUndo a.buf true else a.buf
    let a2 : C05.App := { a with arg := none, buf := (C05.run snap (us.map UOp.op05)).1 }
    let r := C05.callHandler (fun x => C05.hrun x (us.map (fun u => C05.HOp.buf u.op05)))
      (rule (decide (prev = some hid))) a
    r.2 = .ok ∧
    (⟨tr r.1.buf, some hid⟩ : C07.KSt) =
      C07.callHandler hid rule
        (us.map UOp.act07 ++ (if C05.viNavigationMode a2 then [.edit C07.viFix] else []))
        ⟨tr a.buf, prev⟩ := by
  intro snap a2 r
  have hmap : us.map (fun u => C05.HOp.buf u.op05) = (us.map UOp.op05).map C05.HOp.buf := by
    simp [List.map_map, Function.comp_def]
  have tempBuf : ∀ x : C05.App, (C05.leaveTempNav x).buf = x.buf := by
    intro x; unfold C05.leaveTempNav; split
    · split <;> rfl
    · rfl
  have hsnapInv : C05.Inv snap := by
    simp only [snap]; split
    · exact C05.saveUndo_inv a.buf true h
    · exact h
  have hsnapRo : snap.readOnly = false := by
    simp only [snap]; split
    · exact hro
    · exact hro
  have hsnapTr : tr snap = (if rule (decide (prev = some hid)) then C07.saveToUndo true (tr a.buf) else tr a.buf) := by
    simp only [snap]; split
    · exact save_C07_C05 a.buf true
    · rfl
  have hrun := run_C07_C05 us snap hsnapInv hsnapRo hv
  have hh : C05.hrun { ({ a with arg := none } : C05.App) with buf := snap }
      (us.map (fun u => C05.HOp.buf u.op05)) = (a2, (C05.run snap (us.map UOp.op05)).2) := by
    rw [hmap, hrun_buf]
  have hcall : r = C05.callHandler (fun x => C05.hrun x (us.map (fun u => C05.HOp.buf u.op05)))
      (rule (decide (prev = some hid))) a := rfl
  have hr : r = ((if a.vi.tempNav then C05.leaveTempNav (C05.fixViCursor a2) else C05.fixViCursor a2), .ok) := by
    rw [hcall]
    unfold C05.callHandler
    have harg : (if rule (decide (prev = some hid)) = true
        then { ({ a with arg := none } : C05.App) with buf := C05.saveUndo ({ a with arg := none } : C05.App).buf true }
        else ({ a with arg := none } : C05.App)) = { ({ a with arg := none } : C05.App) with buf := snap } := by
      simp only [snap]; split <;> rfl
    simp only [harg, hh, hrun.1]
  have hfix := fixVi_tr a2 hrun.2.2.1.cur
  have hbuf : tr r.1.buf = tr (C05.fixViCursor a2).buf := by
    rw [hr]; simp only []; split
    · rw [tempBuf]
    · rfl
  refine ⟨by rw [hr], ?_⟩
  rw [hbuf, hfix]
  simp only [C07.callHandler, List.foldl_append, ← hsnapTr, ← hrun.2.2.2]
  have ha2 : a2.buf = (C05.run snap (us.map UOp.op05)).1 := rfl
  rw [ha2]
  split <;> rfl


/-- non-vacuity: Vi navigation mode, a handler that leaves the cursor after the last character of
    `ab`: snapshot first, then the edit, then the fix moves the cursor back onto `b` -/
example :
    let b : C05.Buf := { lines := [[]], idx := 0, cur := 0, sel := none, multi := [], undo := [],
                         redo := [], readOnly := false, hsearch := none, enableHS := false }
    let vi : C05.Vi := { mode := .navigation, opPending := false, opArg := none, waitingDigraph := false,
                         digraph1 := none, tempNav := false, recording := none, curRecording := [] }
    let a : C05.App := { buf := b, vi := vi, viMode := true, arg := none }
    let us : List UOp := [.setDoc ['a', 'b'] 2]
    let r := C05.callHandler (fun x => C05.hrun x (us.map (fun u => C05.HOp.buf u.op05))) true a
    tr r.1.buf = (C07.callHandler 7 (fun _ => true) (us.map UOp.act07 ++ [.edit C07.viFix]) ⟨tr a.buf, none⟩).st ∧
    (tr r.1.buf).buf = ⟨['a', 'b'], 1⟩ ∧ (tr r.1.buf).undo = [⟨[], 0⟩] := by decide

end Ptk.AgreeCtl.Undo
