/-
  C13 — lemmas about the ThreadedHistory transition system (`Ptk.Model.C13`, part b).
  The property theorems are in `Props/C13.lean`.
-/
import Ptk.Model.C13
namespace Ptk.C13
open Ptk.Py

/-- the logical history, newest first: everything stored, plus the entry of an
    `append_string` that has inserted but not yet stored -/
def view (st : TH) : List Text :=
  match st.pend with
  | some s => s :: st.storage.reverse
  | none => st.storage.reverse

/-- NO OVERLAP: `append_string` is only called while no `load()` call is in progress, and the
    first `load()` does not begin in the middle of an `append_string`. -/
def allowed (st : TH) : Step → Prop
  | .ains _ => st.cpc = .idle ∨ st.cpc = .done
  | .cstart => st.cpc = .idle → st.pend = none
  | _ => True

/-- every step of the schedule is allowed in the state where it is taken -/
def okRun : TH → List Step → Prop
  | _, [] => True
  | st, a :: r => allowed st a ∧ okRun (step st a) r

/-- schedules without any `append_string` step -/
def noAppend : List Step → Prop
  | [] => True
  | .ains _ :: _ => False
  | .astore :: _ => False
  | _ :: r => noAppend r

structure Inv (st : TH) : Prop where
  pre : st.strs <+: view st
  iter : (st.lpc = .iter ∨ st.lpc = .notify) → st.strs ++ st.remaining = view st
  loadedIff : st.loaded = true ↔ (st.lpc = .notifyFinal ∨ st.lpc = .finished)
  full : st.loaded = true → st.strs = view st
  cons : (st.cpc = .waiting ∨ st.cpc = .reading ∨ st.cpc = .yielding) →
    st.out = (view st).take st.yielded
  ybatch : st.cpc = .yielding → st.out ++ st.batch = (view st).take (st.yielded + st.batch.length)
  ydone : st.cpc = .yielding → st.sawDone = true → st.out ++ st.batch = view st ∧ st.loaded = true
  ywake : st.cpc = .yielding → st.sawDone = false → st.ev = false → st.lpc ≠ .finished
  idle : st.cpc = .idle → st.lpc = .notStarted
  done : st.cpc = .done → st.loaded = true
  running : (st.lpc = .started ∨ st.lpc = .called ∨ st.lpc = .iter ∨ st.lpc = .notify) →
    st.pend = none
  called : st.lpc = .called → st.strs = []
  wake : st.cpc = .waiting → st.ev = false → st.lpc ≠ .finished
  started : st.lpc = .notStarted → st.cpc = .idle

theorem take_append_drop_prefix {α} (p V : List α) (h : p <+: V) (y : Nat) :
    V.take y ++ p.drop y = V.take (y + (p.drop y).length) := by
  obtain ⟨t, rfl⟩ := h
  by_cases hy : y ≤ p.length
  · rw [List.take_append_of_le_length hy, List.take_append_drop, List.length_drop]
    have : y + (p.length - y) = p.length := by omega
    rw [this, List.take_left']
    rfl
  · have : p.drop y = [] := List.drop_eq_nil_of_le (by omega)
    simp [this]

theorem inv_init (old pre : List Text) : Inv (TH.init old pre) := by
  constructor <;> simp [TH.init, view]

theorem inv_lreset (st : TH) (h : Inv st) : Inv (step st .lreset) := by
  simp only [step]
  split
  · rename_i hl
    have hp := h.running (Or.inl hl)
    have h1 := h.loadedIff
    have h2 := h.cons
    have h3 := h.idle
    have h4 := h.done
    have h5 := h.wake
    have h10 := h.started
    have h11 := h.ybatch
    have h12 := h.ydone
    have h13 := h.ywake
    constructor <;> simp_all [view]
  · exact h

theorem inv_lsnap (st : TH) (h : Inv st) : Inv (step st .lsnap) := by
  simp only [step]
  split
  · rename_i hl
    have h0 := h.pre
    have h1 := h.loadedIff
    have h2 := h.cons
    have h3 := h.idle
    have h4 := h.done
    have h5 := h.wake
    have h6 := h.running
    have h7 := h.called
    have h8 := h.iter
    have h9 := h.full
    have h10 := h.started
    have h11 := h.ybatch
    have h12 := h.ydone
    have h13 := h.ywake
    constructor <;> simp_all [view]
  · exact h

theorem inv_lnotify (st : TH) (h : Inv st) : Inv (step st .lnotify) := by
  simp only [step]
  split
  · rename_i hl
    have h0 := h.pre
    have h1 := h.loadedIff
    have h2 := h.cons
    have h3 := h.idle
    have h4 := h.done
    have h5 := h.wake
    have h6 := h.running
    have h7 := h.called
    have h8 := h.iter
    have h9 := h.full
    have h10 := h.started
    have h11 := h.ybatch
    have h12 := h.ydone
    have h13 := h.ywake
    constructor <;> simp_all [view]
  · exact h

theorem inv_ldone (st : TH) (h : Inv st) : Inv (step st .ldone) := by
  simp only [step]
  split
  · rename_i hl
    have h0 := h.pre
    have h1 := h.loadedIff
    have h2 := h.cons
    have h3 := h.idle
    have h4 := h.done
    have h5 := h.wake
    have h6 := h.running
    have h7 := h.called
    have h8 := h.iter
    have h9 := h.full
    have h10 := h.started
    have h11 := h.ybatch
    have h12 := h.ydone
    have h13 := h.ywake
    constructor <;> simp_all [view]
  · exact h

theorem inv_lfinal (st : TH) (h : Inv st) : Inv (step st .lfinal) := by
  simp only [step]
  split
  · rename_i hl
    have h0 := h.pre
    have h1 := h.loadedIff
    have h2 := h.cons
    have h3 := h.idle
    have h4 := h.done
    have h5 := h.wake
    have h6 := h.running
    have h7 := h.called
    have h8 := h.iter
    have h9 := h.full
    have h10 := h.started
    have h11 := h.ybatch
    have h12 := h.ydone
    have h13 := h.ywake
    constructor <;> simp_all [view]
  · exact h

theorem inv_cwait (st : TH) (h : Inv st) : Inv (step st .cwait) := by
  simp only [step]
  split
  · rename_i hl
    have h0 := h.pre
    have h1 := h.loadedIff
    have h2 := h.cons
    have h3 := h.idle
    have h4 := h.done
    have h5 := h.wake
    have h6 := h.running
    have h7 := h.called
    have h8 := h.iter
    have h9 := h.full
    have h10 := h.started
    have h11 := h.ybatch
    have h12 := h.ydone
    have h13 := h.ywake
    constructor <;> simp_all [view]
  · exact h

theorem inv_lappend (st : TH) (h : Inv st) : Inv (step st .lappend) := by
  simp only [step]
  split
  · rename_i hl
    split
    · rename_i x r hr
      have h0 := h.pre
      have h1 := h.loadedIff
      have h2 := h.cons
      have h3 := h.idle
      have h4 := h.done
      have h5 := h.wake
      have h6 := h.running
      have h7 := h.called
      have h8 := h.iter
      have h9 := h.full
      have h10 := h.started
      have h11 := h.ybatch
      have h12 := h.ydone
      have h13 := h.ywake
      have hp : st.strs ++ [x] <+: view st := by
        rw [← h8 (Or.inl hl), hr]
        exact ⟨r, by simp⟩
      constructor <;> simp_all [view]
    · exact h
  · exact h

theorem inv_cstart (st : TH) (h : Inv st) (ha : allowed st .cstart) : Inv (step st .cstart) := by
  simp only [step]
  simp only [allowed] at ha
  split
  · rename_i hl
    have h0 := h.pre
    have h1 := h.loadedIff
    have h2 := h.cons
    have h3 := h.idle
    have h4 := h.done
    have h5 := h.wake
    have h6 := h.running
    have h7 := h.called
    have h8 := h.iter
    have h9 := h.full
    have h10 := h.started
    have h11 := h.ybatch
    have h12 := h.ydone
    have h13 := h.ywake
    cases hlpc : st.lpc <;> cases hcpc : st.cpc <;> (constructor <;> simp_all [view])
  · exact h

theorem inv_ains (st : TH) (h : Inv st) (s : Text) (ha : allowed st (.ains s)) :
    Inv (step st (.ains s)) := by
  simp only [step]
  simp only [allowed] at ha
  split
  · rename_i hl
    have h0 := h.pre
    have h1 := h.loadedIff
    have h2 := h.cons
    have h3 := h.idle
    have h4 := h.done
    have h5 := h.wake
    have h6 := h.running
    have h7 := h.called
    have h8 := h.iter
    have h9 := h.full
    have h10 := h.started
    have h11 := h.ybatch
    have h12 := h.ydone
    have h13 := h.ywake
    cases hlpc : st.lpc <;> cases hcpc : st.cpc <;> (constructor <;> simp_all [view])
  · exact h

theorem inv_astore (st : TH) (h : Inv st) : Inv (step st .astore) := by
  simp only [step]
  split
  · rename_i s hs
    have h0 := h.pre
    have h1 := h.loadedIff
    have h2 := h.cons
    have h3 := h.idle
    have h4 := h.done
    have h5 := h.wake
    have h6 := h.running
    have h7 := h.called
    have h8 := h.iter
    have h9 := h.full
    have h10 := h.started
    have h11 := h.ybatch
    have h12 := h.ydone
    have h13 := h.ywake
    constructor <;> simp_all [view]
  · exact h

theorem inv_cread (st : TH) (h : Inv st) : Inv (step st .cread) := by
  simp only [step]
  split
  · rename_i hl
    have h0 := h.pre
    have h1 := h.loadedIff
    have h2 := h.cons
    have h9 := h.full
    have key := take_append_drop_prefix st.strs (view st) h0 st.yielded
    constructor
    · exact h0
    · exact h.iter
    · exact h1
    · exact h9
    · intro _; exact h2 (Or.inr (Or.inl hl))
    · intro _
      show st.out ++ st.strs.drop st.yielded = (view st).take (st.yielded + (st.strs.drop st.yielded).length)
      rw [h2 (Or.inr (Or.inl hl)), key]
    · intro _ hd
      have hd' : st.loaded = true := hd
      refine ⟨?_, hd'⟩
      show st.out ++ st.strs.drop st.yielded = view st
      rw [h2 (Or.inr (Or.inl hl)), ← h9 hd', List.take_append_drop]
    · intro _ hd _ hf
      have hd' : st.loaded = false := hd
      have := h1.mpr (Or.inr hf)
      simp [hd'] at this
    · intro hc; simp at hc
    · intro hc; simp at hc
    · exact h.running
    · exact h.called
    · intro hc; simp at hc
    · intro hn
      have := h.started hn
      simp [hl] at this
  · exact h

theorem inv_cyield (st : TH) (h : Inv st) : Inv (step st .cyield) := by
  simp only [step]
  split
  · rename_i hl
    have hb := h.ybatch hl
    have hd := h.ydone hl
    have hw := h.ywake hl
    constructor
    · exact h.pre
    · exact h.iter
    · exact h.loadedIff
    · exact h.full
    · intro _; exact hb
    · intro hc
      cases hs : st.sawDone <;> simp [hs] at hc
    · intro hc
      cases hs : st.sawDone <;> simp [hs] at hc
    · intro hc
      cases hs : st.sawDone <;> simp [hs] at hc
    · intro hc
      cases hs : st.sawDone <;> simp [hs] at hc
    · intro hc
      cases hs : st.sawDone with
      | false => simp [hs] at hc
      | true => exact (hd hs).2
    · exact h.running
    · exact h.called
    · intro hc hev
      cases hs : st.sawDone with
      | false => exact hw hs hev
      | true => simp [hs] at hc
    · intro hn
      have := h.started hn
      simp [hl] at this
  · exact h

theorem inv_step (st : TH) (h : Inv st) (a : Step) (ha : allowed st a) : Inv (step st a) := by
  cases a with
  | cstart => exact inv_cstart st h ha
  | cwait => exact inv_cwait st h
  | cread => exact inv_cread st h
  | cyield => exact inv_cyield st h
  | lreset => exact inv_lreset st h
  | lsnap => exact inv_lsnap st h
  | lappend => exact inv_lappend st h
  | lnotify => exact inv_lnotify st h
  | ldone => exact inv_ldone st h
  | lfinal => exact inv_lfinal st h
  | ains s => exact inv_ains st h s ha
  | astore => exact inv_astore st h

theorem inv_run (st : TH) (h : Inv st) (sched : List Step) (hs : okRun st sched) :
    Inv (run st sched) := by
  induction sched generalizing st with
  | nil => exact h
  | cons a r ih =>
    simp only [run, List.foldl_cons]
    exact ih (step st a) (inv_step st h a hs.1) hs.2

/-- the read that sees `_loaded`, followed by the delivery of its items, completes the `load()`
    call with exactly the logical history -/
theorem final_read (st : TH) (h : Inv st) (hc : st.cpc = .yielding) (hl : st.sawDone = true) :
    (step st .cyield).out = view st ∧ (step st .cyield).cpc = .done := by
  simp only [step, hc, hl, if_true]
  exact ⟨(h.ydone hc hl).1, trivial⟩

/-- while a `load()` call is in progress it has yielded a prefix of the logical history -/
theorem out_prefix (st : TH) (h : Inv st)
    (hc : st.cpc = .waiting ∨ st.cpc = .reading ∨ st.cpc = .yielding) :
    st.out <+: view st := by
  rw [h.cons hc]; exact List.take_prefix _ _

/-! ### schedules without appends -/

def isLoadStep : Step → Prop
  | .ains _ => False
  | .astore => False
  | .cstart => False
  | _ => True

structure Inv2 (st : TH) : Prop where
  inv : Inv st
  nopend : st.pend = none
  doneOut : st.cpc = .done → st.out = st.storage.reverse

theorem inv2_step (st : TH) (h : Inv2 st) (a : Step) (ha : noAppend [a]) :
    Inv2 (step st a) ∧ (step st a).storage = st.storage := by
  have hal : allowed st a := by
    cases a <;> simp_all [allowed, noAppend, h.nopend]
  have hi := inv_step st h.inv a hal
  have hv : view st = st.storage.reverse := by simp [view, h.nopend]
  cases a with
  | ains s => simp [noAppend] at ha
  | astore => simp [noAppend] at ha
  | cread =>
    refine ⟨⟨hi, ?_, ?_⟩, ?_⟩
    · simp only [step]; split <;> simp [h.nopend]
    · simp only [step]
      split
      · simp
      · exact h.doneOut
    · simp only [step]; split <;> rfl
  | cyield =>
    refine ⟨⟨hi, ?_, ?_⟩, ?_⟩
    · simp only [step]; split <;> simp [h.nopend]
    · by_cases hc : st.cpc = .yielding
      · by_cases hl : st.sawDone = true
        · intro _
          rw [(final_read st h.inv hc hl).1, hv]
          simp only [step, hc, if_true]
        · simp only [step, hc, hl, if_true]
          simp
      · simp only [step, hc, if_false]
        exact h.doneOut
    · simp only [step]; split <;> rfl
  | cstart =>
    refine ⟨⟨hi, ?_, ?_⟩, ?_⟩
    · simp only [step]; split <;> simp [h.nopend]
    · simp only [step]
      split
      · simp
      · exact h.doneOut
    · simp only [step]; split <;> rfl
  | cwait =>
    refine ⟨⟨hi, ?_, ?_⟩, ?_⟩
    · simp only [step]; split <;> simp [h.nopend]
    · simp only [step]
      split
      · simp
      · exact h.doneOut
    · simp only [step]; split <;> rfl
  | lreset =>
    refine ⟨⟨hi, ?_, ?_⟩, ?_⟩
    · simp only [step]; split <;> simp [h.nopend]
    · simp only [step]; split <;> exact h.doneOut
    · simp only [step]; split <;> rfl
  | lsnap =>
    refine ⟨⟨hi, ?_, ?_⟩, ?_⟩
    · simp only [step]; split <;> simp [h.nopend]
    · simp only [step]; split <;> exact h.doneOut
    · simp only [step]; split <;> rfl
  | lappend =>
    refine ⟨⟨hi, ?_, ?_⟩, ?_⟩
    · simp only [step]; split <;> (try split) <;> simp [h.nopend]
    · simp only [step]; split <;> (try split) <;> exact h.doneOut
    · simp only [step]; split <;> (try split) <;> rfl
  | lnotify =>
    refine ⟨⟨hi, ?_, ?_⟩, ?_⟩
    · simp only [step]; split <;> simp [h.nopend]
    · simp only [step]; split <;> exact h.doneOut
    · simp only [step]; split <;> rfl
  | ldone =>
    refine ⟨⟨hi, ?_, ?_⟩, ?_⟩
    · simp only [step]; split <;> simp [h.nopend]
    · simp only [step]; split <;> exact h.doneOut
    · simp only [step]; split <;> rfl
  | lfinal =>
    refine ⟨⟨hi, ?_, ?_⟩, ?_⟩
    · simp only [step]; split <;> simp [h.nopend]
    · simp only [step]; split <;> exact h.doneOut
    · simp only [step]; split <;> rfl

theorem noAppend_cons (a : Step) (r : List Step) (h : noAppend (a :: r)) :
    noAppend [a] ∧ noAppend r := by
  cases a <;> simp_all [noAppend]

theorem inv2_run (st : TH) (h : Inv2 st) (sched : List Step) (hs : noAppend sched) :
    Inv2 (run st sched) ∧ (run st sched).storage = st.storage := by
  induction sched generalizing st with
  | nil => exact ⟨h, rfl⟩
  | cons a r ih =>
    have ⟨h1, h2⟩ := noAppend_cons a r hs
    have ⟨h3, h4⟩ := inv2_step st h a h1
    simp only [run, List.foldl_cons]
    have ⟨h5, h6⟩ := ih (step st a) h3 h2
    exact ⟨h5, by rw [show run (step st a) r = List.foldl step (step st a) r from rfl] at h6; rw [h6, h4]⟩

theorem inv2_init (old pre : List Text) : Inv2 (TH.init old pre) :=
  ⟨inv_init old pre, rfl, by simp [TH.init]⟩

/-! ### termination -/

def lrank (st : TH) : Nat :=
  match st.lpc with
  | .notStarted => 0
  | .started => 2 * st.storage.length + 4
  | .called => 2 * st.storage.length + 3
  | .iter => 2 * st.remaining.length + 2
  | .notify => 2 * st.remaining.length + 3
  | .notifyFinal => 1
  | .finished => 0

def crank (st : TH) : Nat :=
  match st.cpc with
  | .waiting => if st.ev then 3 else 0
  | .reading => 2
  | .yielding => if st.ev then 4 else 1
  | _ => 0

/-- number of effective loader / consumer steps that can still happen -/
def budget (st : TH) : Nat := 4 * lrank st + crank st

/-- every loader / consumer step that changes the state uses up budget -/
theorem budget_decreases (st : TH) (a : Step) (ha : isLoadStep a) (hne : step st a ≠ st) :
    budget (step st a) < budget st := by
  cases a with
  | ains s => simp [isLoadStep] at ha
  | astore => simp [isLoadStep] at ha
  | cstart => simp [isLoadStep] at ha
  | cwait =>
    simp only [step] at hne ⊢
    split at hne
    · rename_i h
      simp only [h, and_self, if_true]
      simp [budget, lrank, crank, h.1, h.2]
    · exact absurd rfl hne
  | cread =>
    simp only [step] at hne ⊢
    split at hne
    · rename_i h
      simp only [h, if_true]
      simp [budget, lrank, crank, h]
    · exact absurd rfl hne
  | cyield =>
    simp only [step] at hne ⊢
    split at hne
    · rename_i h
      simp only [h, if_true]
      cases hld : st.sawDone <;> cases hev : st.ev <;> simp [budget, lrank, crank, h, hev]
    · exact absurd rfl hne
  | lreset =>
    simp only [step] at hne ⊢
    split at hne
    · rename_i h
      simp only [h, if_true]
      simp only [budget, lrank, crank, h]
      omega
    · exact absurd rfl hne
  | lsnap =>
    simp only [step] at hne ⊢
    split at hne
    · rename_i h
      simp only [h, if_true]
      simp only [budget, lrank, crank, h, List.length_reverse]
      omega
    · exact absurd rfl hne
  | lappend =>
    simp only [step] at hne ⊢
    split at hne
    · rename_i h
      split at hne
      · rename_i x r hr
        simp only [h, if_true]
        simp only [budget, lrank, crank, h, hr, List.length_cons]
        omega
      · exact absurd rfl hne
    · exact absurd rfl hne
  | lnotify =>
    simp only [step] at hne ⊢
    split at hne
    · rename_i h
      simp only [h, if_true]
      simp only [budget, lrank, crank, h]
      cases st.cpc <;> simp <;> (try split) <;> omega
    · exact absurd rfl hne
  | ldone =>
    simp only [step] at hne ⊢
    split at hne
    · rename_i h
      simp only [h, and_self, if_true]
      simp only [budget, lrank, crank, h.1]
      omega
    · exact absurd rfl hne
  | lfinal =>
    simp only [step] at hne ⊢
    split at hne
    · rename_i h
      simp only [h, if_true]
      simp only [budget, lrank, crank, h]
      cases st.cpc <;> simp <;> (try split) <;> omega
    · exact absurd rfl hne

/-- no lost wake-up: while a `load()` call is in progress some loader / consumer step can
    change the state -/
theorem no_deadlock (st : TH) (h : Inv st)
    (hc : st.cpc = .waiting ∨ st.cpc = .reading ∨ st.cpc = .yielding) :
    ∃ a, isLoadStep a ∧ step st a ≠ st := by
  have lpc_ne : ∀ a, (step st a).lpc ≠ st.lpc → step st a ≠ st := fun a hn he => hn (by rw [he])
  have cpc_ne : ∀ a, (step st a).cpc ≠ st.cpc → step st a ≠ st := fun a hn he => hn (by rw [he])
  rcases hc with hc | hc
  · by_cases hev : st.ev = true
    · refine ⟨.cwait, trivial, cpc_ne _ ?_⟩
      simp [step, hc, hev]
    · have hev' : st.ev = false := by simpa using hev
      have hnf := h.wake hc hev'
      have hns : st.lpc ≠ .notStarted := fun hn => by
        have := h.started hn; simp [hc] at this
      cases hl : st.lpc with
      | notStarted => exact absurd hl hns
      | finished => exact absurd hl hnf
      | started => exact ⟨.lreset, trivial, lpc_ne _ (by simp [step, hl])⟩
      | called => exact ⟨.lsnap, trivial, lpc_ne _ (by simp [step, hl])⟩
      | notify => exact ⟨.lnotify, trivial, lpc_ne _ (by simp [step, hl])⟩
      | notifyFinal => exact ⟨.lfinal, trivial, lpc_ne _ (by simp [step, hl])⟩
      | iter =>
        cases hr : st.remaining with
        | nil => exact ⟨.ldone, trivial, lpc_ne _ (by simp [step, hl, hr])⟩
        | cons x r => exact ⟨.lappend, trivial, lpc_ne _ (by simp [step, hl, hr])⟩
  · rcases hc with hc | hc
    · refine ⟨.cread, trivial, cpc_ne _ ?_⟩
      simp [step, hc]
    · refine ⟨.cyield, trivial, cpc_ne _ ?_⟩
      simp only [step, hc, if_true]
      split <;> simp

/-- a schedule in which every step changes the state -/
def effective : TH → List Step → Prop
  | _, [] => True
  | st, a :: r => step st a ≠ st ∧ effective (step st a) r

theorem sched_bounded (st : TH) (sched : List Step) (hl : ∀ a ∈ sched, isLoadStep a)
    (he : effective st sched) : sched.length + budget (run st sched) ≤ budget st := by
  induction sched generalizing st with
  | nil => simp [run]
  | cons a r ih =>
    have h1 := budget_decreases st a (hl a (by simp)) he.1
    have h2 := ih (step st a) (fun b hb => hl b (by simp [hb])) he.2
    simp only [run, List.foldl_cons, List.length_cons] at h2 ⊢
    omega

end Ptk.C13
