/-
  C13 — SAFETY of the repaired ThreadedHistory with any number of simultaneous `load()` calls,
  concurrent `append_string` calls, cancellations and an inner history that raises
  (`THm` / `stepM` in `Ptk.Model.C13Fixed`), for EVERY interleaving at per-`event.set()` granularity.
-/
import Ptk.Props.C13Fixed
namespace Ptk.C13
open Ptk.Py

/-! ## SAFETY of the repaired code with any number of simultaneous `load()` calls -/

/-- what has to hold of one `load()` call, given the shared state (`V` = logical history, newest first) -/
structure ConsOk (V : List Text) (ins : Nat) (loaded failed : Bool) (c : ConsM) : Prop where
  seenLe : c.seen ≤ ins
  hist : c.active → V.drop (ins - c.seen) = c.hist0
  cons : c.active → c.out = c.hist0.take c.yielded
  ybatch : c.cpc = .yielding → c.sawDone = false →
    c.out ++ c.batch = c.hist0.take (c.yielded + c.batch.length)
  ydone : c.cpc = .yielding → c.sawDone = true →
    loaded = true ∧ (failed = false → c.out ++ c.batch = c.hist0 ++ c.front)
  frontOk : (c.cpc = .yielding ∨ (c.cpc = .done ∧ c.complete = true)) →
    ∃ later, V = later ++ (c.front ++ c.hist0)
  done : c.cpc = .done → c.complete = true →
    loaded = true ∧ (failed = false → c.out = c.hist0 ++ c.front)

/-- the shared part -/
structure ShOk (st : THm) : Prop where
  pre : st.strs <+: st.view
  iter : (st.lpc = .iter ∨ st.lpc = .notify ∨ st.lpc = .looping) → st.failed = false →
    st.strs ++ st.remaining = st.view
  failPc : st.failed = true →
    (st.lpc = .iter ∨ st.lpc = .notifyFinal ∨ st.lpc = .loopingFinal ∨ st.lpc = .finished) ∧ st.remaining = []
  loadedIff : st.loaded = true ↔ (st.lpc = .notifyFinal ∨ st.lpc = .loopingFinal ∨ st.lpc = .finished)
  full : st.loaded = true → st.failed = false → st.strs = st.view
  called : st.lpc = .called → st.hoist = true
  cfg : st.hoist = false ∨ st.eager = false

structure SafeM (st : THm) : Prop where
  sh : ShOk st
  co : ∀ i, ConsOk st.view st.inserted st.loaded st.failed (st.cons i)

theorem safeM_init (old pre : List Text) (eager hoist : Bool := false)
    (hcfg : hoist = false ∨ eager = false := by decide) : SafeM (THm.init old pre eager hoist) := by
  refine ⟨?_, fun i => ?_⟩
  · constructor <;> simp [THm.init, THm.view, hcfg]
  · constructor <;> simp [THm.init, ConsM.active]

/-- the event flag plays no role for safety -/
theorem consOk_ev {V : List Text} {ins : Nat} {l f : Bool} {c : ConsM} (h : ConsOk V ins l f c) (b : Bool) :
    ConsOk V ins l f { c with ev := b } :=
  ⟨h.seenLe, h.hist, h.cons, h.ybatch, h.ydone, h.frontOk, h.done⟩

theorem consOk_loaded {V : List Text} {ins : Nat} {f : Bool} {c : ConsM} (h : ConsOk V ins false f c) :
    ConsOk V ins true f c := by
  refine ⟨h.seenLe, h.hist, h.cons, h.ybatch, ?_, h.frontOk, ?_⟩
  · intro h1 h2; have := (h.ydone h1 h2).1; simp at this
  · intro h1 h2; have := (h.done h1 h2).1; simp at this

theorem consOk_failed {V : List Text} {ins : Nat} {l f : Bool} {c : ConsM} (h : ConsOk V ins l f c) :
    ConsOk V ins l true c := by
  refine ⟨h.seenLe, h.hist, h.cons, h.ybatch, ?_, h.frontOk, ?_⟩
  · intro h1 h2; exact ⟨(h.ydone h1 h2).1, fun hf => by simp at hf⟩
  · intro h1 h2; exact ⟨(h.done h1 h2).1, fun hf => by simp at hf⟩

theorem consOk_app {V : List Text} {ins : Nat} {l f : Bool} {c : ConsM} (h : ConsOk V ins l f c) (s : Text) :
    ConsOk (s :: V) (ins + 1) l f c := by
  have hle := h.seenLe
  have hsh : ins + 1 - c.seen = (ins - c.seen) + 1 := by omega
  refine ⟨by omega, ?_, h.cons, h.ybatch, h.ydone, ?_, h.done⟩
  · intro ha; rw [hsh, List.drop_succ_cons]; exact h.hist ha
  · intro hc
    obtain ⟨later, hl⟩ := h.frontOk hc
    exact ⟨s :: later, by rw [hl]; rfl⟩

/-- a step that only touches the loader's own fields and event flags -/
theorem safeM_setEv (st : THm) (h : SafeM st) (e : Nat) : SafeM (st.setEv e) := by
  refine ⟨⟨h.sh.pre, h.sh.iter, h.sh.failPc, h.sh.loadedIff, h.sh.full, h.sh.called, h.sh.cfg⟩, fun i => ?_⟩
  show ConsOk st.view st.inserted st.loaded st.failed (if i = e then { st.cons e with ev := true } else st.cons i)
  split
  · exact consOk_ev (h.co e) true
  · exact h.co i

theorem safeM_loopStart (st : THm) (h : SafeM st) (inLoop after : NPc)
    (hsh : ∀ st' : THm, st'.storage = st.storage → st'.strs = st.strs → st'.loaded = st.loaded →
      st'.remaining = st.remaining → st'.failed = st.failed → st'.hoist = st.hoist → st'.eager = st.eager →
      (st'.lpc = inLoop ∨ st'.lpc = after) → ShOk st') :
    SafeM (loopStartM st inLoop after) := by
  unfold loopStartM
  split
  · exact ⟨hsh _ rfl rfl rfl rfl rfl rfl rfl (Or.inr rfl), h.co⟩
  · rename_i e r _
    have := safeM_setEv st h e
    exact ⟨hsh _ rfl rfl rfl rfl rfl rfl rfl (Or.inl rfl), this.co⟩

theorem safeM_loopNext (st : THm) (h : SafeM st) (after : NPc)
    (hsh : ∀ st' : THm, st'.storage = st.storage → st'.strs = st.strs → st'.loaded = st.loaded →
      st'.remaining = st.remaining → st'.failed = st.failed → st'.hoist = st.hoist → st'.eager = st.eager →
      (st'.lpc = st.lpc ∨ st'.lpc = after) → ShOk st') :
    SafeM (loopNextM st after) := by
  unfold loopNextM
  split
  · exact ⟨hsh _ rfl rfl rfl rfl rfl rfl rfl (Or.inr rfl), h.co⟩
  · rename_i e r _
    have := safeM_setEv st h e
    exact ⟨hsh _ rfl rfl rfl rfl rfl rfl rfl (Or.inl rfl), this.co⟩


theorem safeM_setCons (st : THm) (h : SafeM st) (i : Nat) (c : ConsM)
    (hc : ConsOk st.view st.inserted st.loaded st.failed c) : SafeM (st.setCons i c) := by
  refine ⟨⟨h.sh.pre, h.sh.iter, h.sh.failPc, h.sh.loadedIff, h.sh.full, h.sh.called, h.sh.cfg⟩, fun j => ?_⟩
  show ConsOk st.view st.inserted st.loaded st.failed (if j = i then c else st.cons j)
  split
  · exact hc
  · exact h.co j

/-- changing only the list of registered events -/
theorem safeM_events (st : THm) (h : SafeM st) (ev : List Nat) : SafeM { st with events := ev } :=
  ⟨⟨h.sh.pre, h.sh.iter, h.sh.failPc, h.sh.loadedIff, h.sh.full, h.sh.called, h.sh.cfg⟩, h.co⟩

theorem safeM_cread (st : THm) (h : SafeM st) (i : Nat) : SafeM (stepM st (.cread i)) := by
  simp only [stepM]
  split
  · rename_i hl
    apply safeM_setCons st h
    have hci := h.co i
    have ha : (st.cons i).active := Or.inr (Or.inl hl)
    have hh := hci.hist ha
    have hc := hci.cons ha
    have hp := prefix_drop _ _ h.sh.pre (st.inserted - (st.cons i).seen)
    rw [hh] at hp
    have hdd : st.strs.drop ((st.cons i).yielded + (st.inserted - (st.cons i).seen))
        = (st.strs.drop (st.inserted - (st.cons i).seen)).drop (st.cons i).yielded := by
      rw [List.drop_drop, Nat.add_comm]
    have key := take_append_drop_prefix (st.strs.drop (st.inserted - (st.cons i).seen)) (st.cons i).hist0 hp
      (st.cons i).yielded
    constructor
    · exact hci.seenLe
    · intro _; exact hh
    · intro _; exact hc
    · intro _ hd
      have hd' : st.loaded = false := hd
      simp only [hd', Bool.false_eq_true, if_false, List.append_nil]
      rw [hc, hdd, key]
    · intro _ hd
      have hd' : st.loaded = true := hd
      refine ⟨hd', fun hf => ?_⟩
      simp only [hd', if_true]
      rw [hc, hdd, h.sh.full hd' hf, hh, ← List.append_assoc, List.take_append_drop]
    · intro _
      refine ⟨[], ?_⟩
      show st.view = [] ++ (st.view.take (st.inserted - (st.cons i).seen) ++ (st.cons i).hist0)
      rw [← hh, List.nil_append, List.take_append_drop]
    · intro hcd; simp at hcd
  · exact h

theorem safeM_cyield (st : THm) (h : SafeM st) (i : Nat) : SafeM (stepM st (.cyield i)) := by
  simp only [stepM]
  split
  · rename_i hl
    apply safeM_events
    apply safeM_setCons st h
    have hci := h.co i
    have ha : (st.cons i).active := Or.inr (Or.inr hl)
    have hb := hci.ybatch hl
    have hd := hci.ydone hl
    have hfr := hci.frontOk (Or.inl hl)
    constructor
    · exact hci.seenLe
    · intro _; exact hci.hist ha
    · intro hact
      cases hs : (st.cons i).sawDone with
      | false => exact hb hs
      | true => simp [ConsM.active, hs] at hact
    · intro hc; cases hs : (st.cons i).sawDone <;> simp [hs] at hc
    · intro hc; cases hs : (st.cons i).sawDone <;> simp [hs] at hc
    · intro _; exact hfr
    · intro hc _
      cases hs : (st.cons i).sawDone with
      | false => simp [hs] at hc
      | true => exact hd hs
  · exact h

theorem safeM_step (st : THm) (h : SafeM st) (a : StepM) : SafeM (stepM st a) := by
  have hsh := h.sh
  cases a with
  | cread i => exact safeM_cread st h i
  | cyield i => exact safeM_cyield st h i
  | cwait i =>
    simp only [stepM]
    split
    · rename_i hl
      apply safeM_setCons st h
      have hci := h.co i
      have ha : (st.cons i).active := Or.inl hl.1
      refine ⟨hci.seenLe, fun _ => hci.hist ha, fun _ => hci.cons ha, ?_, ?_, ?_, ?_⟩ <;>
        (intro hc; simp at hc)
    · exact h
  | ccancel i =>
    simp only [stepM]
    split
    · apply safeM_events
      apply safeM_setCons st h
      have hci := h.co i
      refine ⟨hci.seenLe, ?_, ?_, ?_, ?_, ?_, ?_⟩
      · intro hc; simp [ConsM.active] at hc
      · intro hc; simp [ConsM.active] at hc
      · intro hc; simp at hc
      · intro hc; simp at hc
      · intro hc; simp at hc
      · intro _ hc; simp at hc
    · exact h
  | cstart i =>
    simp only [stepM]
    split
    · rename_i hl
      refine ⟨?_, fun j => ?_⟩
      · have h1 := hsh.pre
        have h2 := hsh.iter
        have h3 := hsh.failPc
        have h4 := hsh.loadedIff
        have h5 := hsh.full
        have h6 := hsh.called
        have h7 := hsh.cfg
        by_cases hn : st.lpc = .notStarted
        · constructor <;> simp_all [THm.view]
        · constructor <;> simp_all [THm.view]
      · show ConsOk st.view st.inserted st.loaded st.failed (if j = i then _ else st.cons j)
        split
        · constructor <;> simp [ConsM.active]
        · exact h.co j
    · exact h
  | lcall =>
    simp only [stepM]
    split
    · rename_i hl
      refine ⟨?_, h.co⟩
      have h1 := hsh.pre
      have h3 := hsh.failPc
      have h4 := hsh.loadedIff
      have h7 := hsh.cfg
      constructor <;> simp_all [THm.view]
    · exact h
  | lreset =>
    simp only [stepM]
    split
    · rename_i hl
      refine ⟨?_, h.co⟩
      have h3 := hsh.failPc
      have h4 := hsh.loadedIff
      have h7 := hsh.cfg
      constructor <;> simp_all [THm.view]
    · split
      · rename_i hl
        refine ⟨?_, h.co⟩
        have h3 := hsh.failPc
        have h4 := hsh.loadedIff
        have h7 := hsh.cfg
        have hho := hsh.called hl
        have hea : st.eager = false := by
          rcases h7 with h7 | h7
          · simp [hho] at h7
          · exact h7
        constructor <;> simp_all [THm.view]
      · exact h
  | lappend =>
    simp only [stepM]
    split
    · rename_i hl
      split
      · rename_i x r hr
        refine ⟨?_, h.co⟩
        have h1 := hsh.pre
        have h2 := hsh.iter
        have h3 := hsh.failPc
        have h4 := hsh.loadedIff
        have h5 := hsh.full
        have h6 := hsh.called
        have h7 := hsh.cfg
        have hnf : st.failed = false := by
          cases hf : st.failed with
          | false => rfl
          | true => have := (h3 hf).2; simp [hr] at this
        have hp : st.strs ++ [x] <+: st.view := by
          rw [← h2 (Or.inl hl) hnf, hr]
          exact ⟨r, by simp⟩
        constructor <;> simp_all [THm.view]
      · exact h
    · exact h
  | lnotify =>
    simp only [stepM]
    split
    · rename_i hl
      apply safeM_loopStart st h
      intro st' e1 e2 e3 e4 e5 e6 e7 hpc
      have h2 := hsh.iter
      have h3 := hsh.failPc
      have h4 := hsh.loadedIff
      have h5 := hsh.full
      have h6 := hsh.called
      have h7 := hsh.cfg
      have h1 := hsh.pre
      rcases hpc with hpc | hpc <;> (constructor <;> simp_all [THm.view])
    · exact h
  | lfinal =>
    simp only [stepM]
    split
    · rename_i hl
      apply safeM_loopStart st h
      intro st' e1 e2 e3 e4 e5 e6 e7 hpc
      have h2 := hsh.iter
      have h3 := hsh.failPc
      have h4 := hsh.loadedIff
      have h5 := hsh.full
      have h6 := hsh.called
      have h7 := hsh.cfg
      have h1 := hsh.pre
      rcases hpc with hpc | hpc <;> (constructor <;> simp_all [THm.view])
    · exact h
  | lset =>
    simp only [stepM]
    split
    · rename_i hl
      apply safeM_loopNext st h
      intro st' e1 e2 e3 e4 e5 e6 e7 hpc
      have h2 := hsh.iter
      have h3 := hsh.failPc
      have h4 := hsh.loadedIff
      have h5 := hsh.full
      have h6 := hsh.called
      have h7 := hsh.cfg
      have h1 := hsh.pre
      rcases hpc with hpc | hpc <;> (constructor <;> simp_all [THm.view])
    · split
      · rename_i hl
        apply safeM_loopNext st h
        intro st' e1 e2 e3 e4 e5 e6 e7 hpc
        have h2 := hsh.iter
        have h3 := hsh.failPc
        have h4 := hsh.loadedIff
        have h5 := hsh.full
        have h6 := hsh.called
        have h7 := hsh.cfg
        have h1 := hsh.pre
        rcases hpc with hpc | hpc <;> (constructor <;> simp_all [THm.view])
      · exact h
  | ldone =>
    simp only [stepM]
    split
    · rename_i hl
      have hlf : st.loaded = false := by
        cases hld : st.loaded with
        | false => rfl
        | true => have := hsh.loadedIff.mp hld; simp [hl.1] at this
      refine ⟨?_, fun i => ?_⟩
      · have h1 := hsh.pre
        have h2 := hsh.iter
        have h3 := hsh.failPc
        have h4 := hsh.loadedIff
        have h5 := hsh.full
        have h6 := hsh.called
        have h7 := hsh.cfg
        constructor <;> simp_all [THm.view]
      · have := h.co i
        rw [hlf] at this
        exact consOk_loaded this
    · exact h
  | lfail =>
    simp only [stepM]
    split
    · rename_i hl
      refine ⟨?_, fun i => consOk_failed (h.co i)⟩
      have h1 := hsh.pre
      have h4 := hsh.loadedIff
      have h7 := hsh.cfg
      cases hh : st.hoist <;> (constructor <;> simp_all [THm.view])
    · split
      · rename_i hl
        refine ⟨?_, fun i => consOk_failed (h.co i)⟩
        have h4 := hsh.loadedIff
        have h7 := hsh.cfg
        have h6 := hsh.called
        constructor <;> simp_all [THm.view]
      · split
        · rename_i hl
          refine ⟨?_, fun i => consOk_failed (h.co i)⟩
          have h1 := hsh.pre
          have h4 := hsh.loadedIff
          have h6 := hsh.called
          have h7 := hsh.cfg
          constructor <;> simp_all [THm.view]
        · exact h
  | app s =>
    simp only [stepM]
    refine ⟨?_, fun i => ?_⟩
    · have h1 := hsh.pre
      have h2 := hsh.iter
      have h3 := hsh.failPc
      have h4 := hsh.loadedIff
      have h5 := hsh.full
      have h6 := hsh.called
      have h7 := hsh.cfg
      constructor <;> simp_all [THm.view]
    · have := consOk_app (h.co i) s
      simpa [THm.view] using this

theorem safeM_run (st : THm) (h : SafeM st) (sched : List StepM) : SafeM (runM st sched) := by
  induction sched generalizing st with
  | nil => exact h
  | cons a r ih =>
    simp only [runM, List.foldl_cons]
    exact ih (stepM st a) (safeM_step st h a)


/-- APPENDED MEANWHILE ⇒ EXACTLY ONCE, for every `load()` call `i` of ANY NUMBER of simultaneous calls,
    under EVERY interleaving of the loader thread (stopping after every single `event.set()`), all
    consumers, any number of `append_string` calls and cancellations:
    (1) a call in progress has yielded a prefix of the history as of its own call (`hist0`);
    (2) a call that ran to its end (inner history did not raise) has yielded exactly `hist0`, newest
        first, followed by the entries appended between its call and its final locked read, each once;
    (3) once loading is done the cache holds the whole history, every entry once, in order.
    For BOTH kinds of inner history (`eager`: reads its storage when called, FileHistory; lazy: when
    its first item is requested) with the code as it is (`hoist = false`: call, list reset and first
    item in one locked block), and for a lazy one also with the call in front of the lock. -/
theorem multi_fixed_exactly_once (old pre : List Text) (sched : List StepM) (i : Nat)
    (eager hoist : Bool := false) (hcfg : hoist = false ∨ eager = false := by decide) :
    let st := runM (THm.init old pre eager hoist) sched
    let c := st.cons i
    (c.active → c.out <+: c.hist0 ∧
      st.view = st.view.take (st.inserted - c.seen) ++ c.hist0) ∧
    (c.cpc = .done → c.complete = true → st.failed = false →
      c.out = c.hist0 ++ c.front ∧ c.out.Perm (c.front ++ c.hist0) ∧
      ∃ later, st.view = later ++ (c.front ++ c.hist0)) ∧
    (st.loaded = true → st.failed = false → st.getStrings = st.storage) := by
  intro st c
  have h : SafeM st := safeM_run _ (safeM_init old pre eager hoist hcfg) sched
  have hc := h.co i
  refine ⟨fun ha => ⟨?_, ?_⟩, fun hd hcm hf => ⟨?_, ?_, ?_⟩, fun hl hf => ?_⟩
  · rw [hc.cons ha]; exact List.take_prefix _ _
  · rw [← hc.hist ha, List.take_append_drop]
  · exact (hc.done hd hcm).2 hf
  · rw [(hc.done hd hcm).2 hf]; exact List.perm_append_comm
  · exact hc.frontOk (Or.inr ⟨hd, hcm⟩)
  · simp [THm.getStrings, h.sh.full hl hf, THm.view]

-- two calls, an append while both are in progress, one of them cancelled, a third call afterwards
example :
    let st := runM (THm.init ["o1".toList, "o2".toList] [])
      [.cstart 0, .cstart 1, .lreset, .lappend, .lnotify, .cwait 0, .cread 0, .cyield 0, .app "N".toList,
       .lset, .lset, .ccancel 1, .lappend, .lnotify, .lset, .ldone, .lfinal, .lset, .cwait 0, .cread 0, .cyield 0,
       .cstart 2, .cwait 2, .cread 2, .cyield 2]
    (st.cons 0).out = ["o2".toList, "o1".toList, "N".toList] ∧ (st.cons 0).complete = true ∧
    (st.cons 1).cpc = .done ∧ (st.cons 1).complete = false ∧
    (st.cons 2).out = ["N".toList, "o2".toList, "o1".toList] ∧ st.events = [] := by decide

-- the call in front of the lock, an eager inner history, two calls: the entry appended in the window is lost
example :
    let st := runM (THm.init ["o1".toList] [] true true)
      [.cstart 0, .cstart 1, .lcall, .app "NEW".toList, .lreset, .lappend, .lnotify, .lset, .lset, .ldone,
       .lfinal, .lset, .lset, .cwait 0, .cread 0, .cyield 0, .cwait 1, .cread 1, .cyield 1]
    (st.cons 0).out = ["o1".toList] ∧ (st.cons 1).out = ["o1".toList] ∧ st.getStrings = ["o1".toList] ∧
    st.storage = ["o1".toList, "NEW".toList] := by decide

end Ptk.C13
