/-
  C11 — exactness of the wrapped height for ARBITRARY cell widths (wide, zero-width, control
  characters), about the model variant `exact := true` (proposed fix C11-wide-wrap-height.diff, NOT
  APPLIED to /repo): the cell-by-cell `wrappedHeight` is exactly the number of rows the body copy uses
  (`fold_wrap_rows_gen`, `copyLine_wrap_rows_gen`, `wrap_height_exact_fixed`), and it agrees with the
  existing arithmetic on all-narrow lines (`wrappedHeight_ones`, `heightForLine_exact`).  These
  theorems say why the proposed repair is right; the theorems about the code as it is are in
  C11Window (one-column cells).
-/
import Ptk.Props.C11Lines
namespace Ptk.C11
open Ptk.Py

/-- the cell-by-cell height of the proposed fix agrees with the arithmetic of the existing code on
    lines whose cells are all one column wide (so the fix only changes lines with wide / zero-width /
    control characters) -/
theorem wrappedHeight_ones (pw : Nat → Nat) (w : Nat) (hpw : ∀ k, pw k < w) (n : Nat) :
    ∀ (x h fuel : Nat), x ≤ w → x + n ≤ fuel →
      wrappedHeight pw w (List.replicate n 1) x h = heightLoop pw w fuel (x + n) h := by
  induction n with
  | zero =>
    intro x h fuel hx _
    simp only [List.replicate, wrappedHeight, Nat.add_zero]
    rw [heightLoop_le_w _ _ _ _ _ hx]
  | succ n ih =>
    intro x h fuel hx hf
    simp only [List.replicate_succ, wrappedHeight]
    have hp := hpw h
    by_cases hfit : x + 1 > w
    · have hxw : x = w := by omega
      subst hxw
      rw [if_pos hfit, if_neg (by omega)]
      obtain ⟨f, rfl⟩ : ∃ f, fuel = f + 1 := ⟨fuel - 1, by omega⟩
      rw [heightLoop_gt_w _ _ _ _ _ hpw (by omega)]
      rw [ih (pw h + 1) (h + 1) f (by omega) (by omega)]
      congr 1; omega
    · rw [if_neg hfit, ih (x + 1) h fuel (by omega) (by omega)]
      congr 1; omega


theorem wrappedHeight_ge (pw : Nat → Nat) (w : Nat) (hpw : ∀ k, pw k < w) (cws : List Nat) :
    ∀ x h, h ≤ wrappedHeight pw w cws x h := by
  induction cws with
  | nil => intro x h; exact Nat.le_refl _
  | cons c cs ih =>
    intro x h
    simp only [wrappedHeight]
    split
    · rw [if_neg (by have := hpw h; omega)]
      have := ih (pw h + c) (h + 1); omega
    · exact ih _ _

theorem putChar_geom_gen (e : Env) (i : Bool) (l s : Nat) (st : CS) (c : Char) :
    let r := putChar e i l s st c
    r.x = st.x + cellW e.W c ∧ r.y = st.y ∧ r.wc = st.wc ∧ r.col = st.col + 1 ∧ r.ret = st.ret := by
  unfold putChar
  split <;> simp

/-- **for ANY cell widths** (wide, zero-width, control characters): the copy loop of a wrapped line
    moves down exactly `wrappedHeight − 1` rows, where `wrappedHeight` is the cell-by-cell height of
    the proposed fix C11-wide-wrap-height — the fix measures what the body copy does -/
theorem fold_wrap_rows_gen {e : Env} (hwrap : e.wrap = true) (w : Nat) (hw : e.width = w)
    (pw : Nat → Nat) (hpw : ∀ k, pw k < w) (i : Bool) (l s : Nat) (hook : CS → CS)
    (hg : HookGeom pw hook) (cs : Text) :
    ∀ (st : CS) (xn : Nat), st.ret = false → st.x = xn →
      st.y + (wrappedHeight pw w (cs.map (cellW e.W)) xn (st.wc + 1) : Nat) < e.height + ((st.wc + 1 : Nat) : Int) →
      let r := cs.foldl (step e i l s hook) st
      r.ret = false ∧
      r.y + ((st.wc + 1 : Nat) : Int) = st.y + (wrappedHeight pw w (cs.map (cellW e.W)) xn (st.wc + 1) : Nat) := by
  induction cs with
  | nil =>
    intro st xn hr _ _
    simp only [List.foldl_nil, List.map_nil, wrappedHeight]
    exact ⟨hr, by trivial⟩
  | cons c cs ih =>
    intro st xn hr hx hy
    simp only [List.foldl_cons, List.map_cons, wrappedHeight] at hy ⊢
    by_cases hfit : xn + cellW e.W c > w
    · rw [if_pos hfit, if_neg (by have := hpw (st.wc + 1); omega)] at hy ⊢
      have hge := wrappedHeight_ge pw w hpw (cs.map (cellW e.W)) (pw (st.wc + 1) + cellW e.W c) (st.wc + 1 + 1)
      obtain ⟨q1, q2, q3, q4, q5⟩ := hg (wrapSt l st) rfl hr
      have q2' : (hook (wrapSt l st)).y = st.y + 1 := by rw [q2]; rfl
      have q3' : (hook (wrapSt l st)).wc = st.wc + 1 := by rw [q3]; rfl
      have q1' : (hook (wrapSt l st)).x = pw (st.wc + 1) := by rw [q1]; rfl
      have hstep : step e i l s hook st c = putChar e i l s (hook (wrapSt l st)) c := by
        unfold step
        rw [if_neg (by simp [hr]), if_pos]
        · simp only []
          rw [if_neg]
          rw [q2']; push_cast at hy ⊢; omega
        · refine ⟨hwrap, ?_⟩
          rw [hx, hw]; exact_mod_cast hfit
      obtain ⟨gx, gy, gw, _, gr⟩ := putChar_geom_gen e i l s (hook (wrapSt l st)) c
      rw [hstep]
      have := ih (putChar e i l s (hook (wrapSt l st)) c) (pw (st.wc + 1) + cellW e.W c) (by rw [gr, q5])
        (by rw [gx, q1']; push_cast; rfl)
        (by rw [gy, gw, q2', q3']; push_cast at hy ⊢; omega)
      obtain ⟨r1, r2⟩ := this
      refine ⟨r1, ?_⟩
      rw [gy, gw, q2', q3'] at r2; push_cast at r2 ⊢; omega
    · rw [if_neg hfit] at hy ⊢
      have hstep : step e i l s hook st c = putChar e i l s st c := by
        unfold step
        rw [if_neg (by simp [hr]), if_neg]
        intro ⟨_, h2⟩
        rw [hx, hw] at h2
        apply hfit; exact_mod_cast h2
      obtain ⟨gx, gy, gw, _, gr⟩ := putChar_geom_gen e i l s st c
      rw [hstep]
      have := ih (putChar e i l s st c) (xn + cellW e.W c) (by rw [gr, hr]) (by rw [gx, hx]; push_cast; rfl)
        (by rw [gy, gw]; exact hy)
      obtain ⟨r1, r2⟩ := this
      exact ⟨r1, by rw [gy, gw] at r2; exact r2⟩

/-- display width of a text: sum of the cell widths -/
def cellsWidth (W : Widths) : Text → Nat
  | [] => 0
  | c :: cs => cellW W c + cellsWidth W cs

/-- no wrap can trigger (any widths): the loop walks right by the cell widths -/
theorem fold_flat_gen (e : Env) (i : Bool) (l s : Nat) (hook : CS → CS) (cs : Text) :
    ∀ (st : CS), st.ret = false → (e.wrap = true → st.x + cellsWidth e.W cs ≤ e.width) →
      let r := cs.foldl (step e i l s hook) st
      r.x = st.x + cellsWidth e.W cs ∧ r.y = st.y ∧ r.wc = st.wc ∧ r.ret = false := by
  induction cs with
  | nil => intro st hr _; simp [hr, cellsWidth]
  | cons c cs ih =>
    intro st hr hnw
    have hstep : step e i l s hook st c = putChar e i l s st c := by
      unfold step
      rw [if_neg (by simp [hr]), if_neg]
      intro ⟨h1, h2⟩
      have := hnw h1
      simp only [cellsWidth] at this
      push_cast at this; omega
    obtain ⟨gx, gy, gw, _, gr⟩ := putChar_geom_gen e i l s st c
    simp only [List.foldl_cons, hstep]
    have := ih (putChar e i l s st c) (by rw [gr, hr]) (by
      intro h1; have := hnw h1; rw [gx]; simp only [cellsWidth] at this; push_cast at this ⊢; omega)
    obtain ⟨a1, a2, a3, a4⟩ := this
    refine ⟨by rw [a1, gx]; simp only [cellsWidth]; push_cast; omega, by rw [a2, gy], by rw [a3, gw], a4⟩

/-- display width of `get_line_prefix(l, k)` (0 without a prefix function) -/
def pwD (e : Env) (l : Nat) : Nat → Nat := fun k =>
  match e.pfx with
  | none => 0
  | some f => cellsWidth e.W (f l k)

theorem prefixHook_geom_gen (e : Env) (l : Nat)
    (hfit : e.wrap = true → ∀ k, (pwD e l k : Int) ≤ e.width) : HookGeom (pwD e l) (prefixHook e l) := by
  intro st hx hr
  unfold prefixHook pwD
  cases hp : e.pfx with
  | none => simp [hx, hr]
  | some f =>
    simp only []
    unfold copyPlain
    have := fold_flat_gen e false l 0 id (f l st.wc) { st with col := 0, wc := 0, ret := false } rfl (by
      intro hwr
      have := hfit hwr st.wc
      simp [pwD, hp] at this
      simp [hx]; exact this)
    obtain ⟨a1, a2, _, _⟩ := this
    simp only [] at a1 a2 ⊢
    refine ⟨by rw [a1, hx]; simp, a2, by trivial, by trivial, by trivial⟩

/-- **wrap_height_exact for ANY cell widths**: a wrapped line occupies exactly
    `wrappedHeight (prefix widths) width (cell widths) (first prefix) 1` screen rows — the quantity the
    proposed fix C11-wide-wrap-height makes `get_height_for_line` return. -/
theorem copyLine_wrap_rows_gen {e : Env} (hwrap : e.wrap = true) (w : Nat) (hw : e.width = w)
    (l : Nat) (hpw : ∀ k, pwD e l k < w) (line : Text) (st : CS) (hx : st.x = 0)
    (hy : st.y + (wrappedHeight (pwD e l) w (line.map (cellW e.W)) (pwD e l 0) 1 : Nat) ≤ e.height) :
    let r := copyLine e 0 l line st
    r.ret = false ∧
      r.y + 1 = st.y + (wrappedHeight (pwD e l) w (line.map (cellW e.W)) (pwD e l 0) 1 : Nat) := by
  rw [copyLine_wrap_unfold]
  have hg := prefixHook_geom_gen e l (fun _ k => by rw [hw]; exact_mod_cast Nat.le_of_lt (hpw k))
  obtain ⟨q1, q2, q3, _, q5⟩ := hg (lineInit st) hx rfl
  simp only [lineInit_y, lineInit_wc] at q1 q2 q3
  have := fold_wrap_rows_gen hwrap w hw (pwD e l) hpw true l 0 (prefixHook e l) hg line
    (prefixHook e l (lineInit st)) (pwD e l 0) q5 (by rw [q1])
    (by rw [q2, q3]; push_cast at hy ⊢; omega)
  obtain ⟨r1, r2⟩ := this
  refine ⟨r1, ?_⟩
  rw [q2, q3] at r2
  push_cast at r2 ⊢; omega

theorem map_all_one (f : Char → Nat) (t : Text) (h : (t.map f).any (· != 1) = false) :
    t.map f = List.replicate t.length 1 := by
  induction t with
  | nil => rfl
  | cons c cs ih =>
    simp only [List.map_cons, List.any_cons, Bool.or_eq_false_iff] at h
    have h1 : f c = 1 := by simpa using h.1
    simp only [List.map_cons, List.length_cons, List.replicate_succ, h1, ih h.2]

theorem measWidth_all_one (W : Widths) (t : Text) (h : (t.map (measure W)).any (· != 1) = false) :
    measWidth W t = t.length := by
  induction t with
  | nil => rfl
  | cons c cs ih =>
    simp only [List.map_cons, List.any_cons, Bool.or_eq_false_iff] at h
    have h1 : measure W c = 1 := by simpa using h.1
    simp only [measWidth, h1, ih h.2, List.length_cons]; omega

/-- with the proposed fixes (`dm`, `exact`) `get_height_for_line` returns, for EVERY line (any cell
    widths), the cell-by-cell wrapped height — on all-narrow lines through the unchanged arithmetic -/
theorem heightForLine_exact (W : Widths) (hdm : W.dm = true) (hex : W.exact = true) (line : Text) (w : Nat)
    (hw : 1 ≤ w) (pfx : Option (Nat → Nat)) (hpw : ∀ pw, pfx = some pw → ∀ k, pw k < w) :
    heightForLine W line w pfx none =
      wrappedHeight (pfx.getD fun _ => 0) w (line.map (cellW W)) ((pfx.getD fun _ => 0) 0) 1 := by
  have hm : measure W = cellW W := by funext c; simp [measure, hdm]
  unfold heightForLine
  rw [if_neg (by omega)]
  simp only [hex, true_and]
  by_cases hany : (line.map (measure W)).any (· != 1) = true
  · rw [if_pos hany, hm]
    cases pfx <;> rfl
  · have hany' : (line.map (measure W)).any (· != 1) = false := by simpa using hany
    rw [if_neg hany, measWidth_all_one W line hany']
    rw [← hm, map_all_one _ _ hany']
    cases pfx with
    | none =>
      simp only [Option.getD_none]
      rw [wrappedHeight_ones (fun _ => 0) w (fun _ => hw) line.length 0 1 line.length (by omega) (by omega)]
      rw [Nat.zero_add]
      exact fast_eq_loop w hw line.length line.length (Nat.le_refl _)
    | some pw =>
      simp only [Option.getD_some]
      have hp := hpw pw rfl
      rw [wrappedHeight_ones pw w hp line.length (pw 0) 1 (line.length + pw 0) (Nat.le_of_lt (hp 0)) (by omega)]
      rw [Nat.add_comm (pw 0)]

/-- **wrap_height_exact for the fixed code, ANY cell widths** (wide, zero-width, control characters):
    with the two proposed fixes in place (`dm`, `exact`) a wrapped line occupies exactly
    `get_height_for_line` screen rows, as long as it fits above the bottom of the window.  The prefixes
    are assumed to be measured as they are drawn (no control characters in prompts) and narrower than
    the window. -/
theorem wrap_height_exact_fixed (W : Widths) (hdm : W.dm = true) (hex : W.exact = true) (c : Cfg)
    (w height mw : Nat) (hw : 1 ≤ w) (l : Nat)
    (hcons : ∀ f, c.prefixFn = some f → ∀ k, textWidth W (f l k) = cellsWidth W (f l k))
    (hpfx : ∀ f, c.prefixFn = some f → ∀ k, cellsWidth W (f l k) < w)
    (line : Text) (st : CS) (hx : st.x = 0)
    (hy : st.y + (heightForLine W line w (prefixWidths W c.prefixFn l) none : Nat) ≤ (height : Int)) :
    let r := copyLine (envFor W c w height true mw) 0 l line st
    r.ret = false ∧ r.y + 1 = st.y + (heightForLine W line w (prefixWidths W c.prefixFn l) none : Nat) := by
  let e := envFor W c w height true mw
  have hpd : pwD e l = (prefixWidths W c.prefixFn l).getD fun _ => 0 := by
    funext k
    show pwD (envFor W c w height true mw) l k = _
    unfold pwD prefixWidths envFor
    cases h : c.prefixFn with
    | none => rfl
    | some f => simp [(hcons f h k)]
  have hpw : ∀ k, pwD e l k < w := by
    intro k
    show pwD (envFor W c w height true mw) l k < w
    unfold pwD envFor
    cases h : c.prefixFn with
    | none => exact hw
    | some f => exact hpfx f h k
  have hH := heightForLine_exact W hdm hex line w hw (prefixWidths W c.prefixFn l) (by
    intro pw hpwe k
    have : (prefixWidths W c.prefixFn l).getD (fun _ => 0) = pw := by rw [hpwe]; rfl
    rw [← this, ← hpd]; exact hpw k)
  rw [hH, ← hpd] at hy ⊢
  exact copyLine_wrap_rows_gen (e := e) rfl w rfl l hpw line st hx hy


end Ptk.C11
