/-
  Cross-model agreement, cluster "Buffer edit and state API" (src/prompt_toolkit/buffer.py):
  `Buffer.insert_text`, `Buffer.delete`, `Buffer.delete_before_cursor`, `Buffer.newline`.

  Canonical model `Ptk.C01` (`insertText`, `delete` / `deleteI`, `deleteBefore`, `newline`) against
  C05, C09, C14, C15.  Projections `p05 … p15` from `AgreeBufBase`.

  Domain hypotheses that appear below:
    * `b.idx < b.lines.length`  — `working_index` valid (C05 / C14 keep working lines);
    * `b.readOnly = false`      — C01's edit operations are those of a writable buffer;
    * `cur ≤ len(text)`         — the Buffer invariant.  `C01.insertText` clamps the new cursor where
      the code's `Document(text, cpos)` raises AssertionError (C05: `.assertion`); the two differ only
      when the cursor is already outside the text, which no correspondence exercises.
-/
import Ptk.Props.AgreeBufBase
namespace Ptk.AgreeBuf
open Ptk.Py

theorem notNl_05 : C05.notNl = C01.notNl := rfl
theorem notNl_09 : C09.notNl = C01.notNl := rfl
theorem notNl_14 : C14.notNl = C01.notNl := rfl
theorem notNl_15 : C15.notNl = C01.notNl := rfl

/-! ### what `set_document` stores, per model -/

theorem c05_sd_ok (b : C05.Buf) (t : Text) (c : Int) (hi : b.idx < b.lines.length) (hr : b.readOnly = false)
    (hc : c ≤ (t.length : Int)) :
    p05 (C05.setDocument b t c false).1 = ⟨t, c.toNat⟩ ∧ (C05.setDocument b t c false).2 = .ok := by
  have : ¬ c > (t.length : Int) := by omega
  simp only [C05.setDocument, this, hr, if_false, Bool.not_false, Bool.and_false, Bool.false_eq_true]
  refine ⟨?_, by first | rfl | trivial⟩
  show C01.Buf.mk _ _ = _
  rw [c05_wt_text _ _ _ hi, c05_wt_cur]
  congr 1; omega
theorem c14_sd (s : C14.St) (t : Text) (c : Nat) (hi : s.idx < s.work.length) :
    p14 (C14.setDocument s t c) = ⟨t, c⟩ := by
  have ht : ({ s with work := s.work.set s.idx t, cur := c } : C14.St).text = t := by
    simp [C14.St.text, List.getD_eq_getElem?_getD, hi]
  simp only [C14.setDocument]
  split <;> split <;> simp only [p14, C14.textChanged] <;> (congr 1)
theorem c15_sd (cfg : C15.Config) (s : C15.St) (t : Text) (c : Nat) :
    p15 (C15.setDocument cfg s t c) = ⟨t, c⟩ := by
  simp only [C15.setDocument]
  split <;> split <;> simp [p15, C15.textChanged, C15.cursorChanged]
theorem c15_sd_tasks_text (cfg : C15.Config) (s : C15.St) (t : Text) (c : Nat) (tk : List C15.Task) :
    p15 { C15.setDocument cfg s t c with tasks := tk } = ⟨t, c⟩ := by
  have := c15_sd cfg s t c
  simpa [p15] using this

/-! ### `Buffer.insert_text(data, overwrite, move_cursor)` -/

/-- the text built by `insert_text` is at least as long as the new cursor position -/
theorem insert_len (t data : Text) (cur : Nat) (ov mv : Bool) (hw : cur ≤ t.length) :
    (if mv then cur + data.length else cur) ≤
      (if ov then t.take cur ++ data ++ t.drop (cur + (((t.drop cur).take data.length).takeWhile C01.notNl).length)
       else t.take cur ++ data ++ t.drop cur).length := by
  have h1 : (((t.drop cur).take data.length).takeWhile C01.notNl).length ≤ t.length - cur := by
    have := (List.takeWhile_sublist C01.notNl (l := (t.drop cur).take data.length)).length_le
    have h2 : ((t.drop cur).take data.length).length ≤ t.length - cur := by simp; omega
    omega
  cases ov <;> cases mv <;> simp <;> omega

/-- what `C01.insertText` stores, inside the invariant: the clamp is the identity -/
theorem insertText_01_eq (b : C01.Buf) (data : Text) (ov mv : Bool) (hw : b.cur ≤ b.text.length) :
    C01.insertText b data ov mv =
      ⟨(if ov then b.text.take b.cur ++ data ++
            b.text.drop (b.cur + (((b.text.drop b.cur).take data.length).takeWhile C01.notNl).length)
        else b.text.take b.cur ++ data ++ b.text.drop b.cur),
       (if mv then b.cur + data.length else b.cur)⟩ := by
  have := insert_len b.text data b.cur ov mv hw
  simp only [C01.insertText]
  congr 1
  omega

/-- buffer.py::Buffer.insert_text — `C01.insertText` vs `C05.insertText` (all of `data`, `overwrite`,
    `move_cursor`; writable buffer, invariant) -/
theorem insertText_05 (b : C05.Buf) (data : Text) (ov mv : Bool) (hi : b.idx < b.lines.length)
    (hr : b.readOnly = false) (hw : b.cur ≤ b.text.length) :
    p05 (C05.insertText b data ov mv).1 = C01.insertText (p05 b) data ov mv ∧
    (C05.insertText b data ov mv).2 = .ok := by
  have hlen := insert_len b.text data b.cur ov mv hw
  rw [insertText_01_eq (p05 b) data ov mv hw]
  simp only [C05.insertText, notNl_05]
  have hc : (((if mv then b.cur + data.length else b.cur : Nat)) : Int) ≤
      (((if ov then b.text.take b.cur ++ data ++
            b.text.drop (b.cur + (((b.text.drop b.cur).take data.length).takeWhile C01.notNl).length)
        else b.text.take b.cur ++ data ++ b.text.drop b.cur).length : Nat) : Int) := by
    exact_mod_cast hlen
  have key := c05_sd_ok b _ _ hi hr hc
  simp only [p05] at key ⊢
  constructor
  · rw [key.1]; simp
  · exact key.2
/-- the excluded region of `insertText_05`, on a witness: cursor outside the text -/
theorem insertText_05_outside_disagree :
    (C05.insertText ⟨[[]], 0, 1, none, [], [], [], false, none, false, [], none, none⟩ ['a'] false true).2
      = .assertion ∧
    C01.insertText ⟨[], 1⟩ ['a'] false true = ⟨['a'], 1⟩ := by decide

/-- buffer.py::Buffer.insert_text — `C01.insertText … false true` vs `C09.insertText` (C09 models only
    insert mode with a moving cursor) -/
theorem insertText_09 (b : C09.Buf) (data : Text) (hw : b.cur ≤ b.text.length) :
    p09 (C09.insertText b data) = C01.insertText (p09 b) data false true := by
  rw [insertText_01_eq (p09 b) data false true hw]
  simp [p09, C09.insertText, C09.Buf.before, C09.Buf.after]
/-- buffer.py::Buffer.insert_text — `C01.insertText … false true` vs `C14.insertText` -/
theorem insertText_14 (s : C14.St) (data : Text) (hi : s.idx < s.work.length) (hw : s.cur ≤ s.text.length) :
    p14 (C14.insertText s data) = C01.insertText (p14 s) data false true := by
  rw [insertText_01_eq (p14 s) data false true hw]
  rw [C14.insertText, c14_sd _ _ _ hi]
  simp [p14]
/-- buffer.py::Buffer.insert_text — `C01.insertText … false true` vs `C15.insertText` (the completer /
    suggester tasks it creates are outside the projection) -/
theorem insertText_15 (cfg : C15.Config) (s : C15.St) (data : Text) (hw : s.cur ≤ s.text.length) :
    p15 (C15.insertText cfg s data) = C01.insertText (p15 s) data false true := by
  rw [insertText_01_eq (p15 s) data false true hw]
  simp only [C15.insertText]
  rw [c15_sd_tasks_text]
  simp [p15]

/-! ### `Buffer.delete(count)` -/

/-- inside its `if`, `delete` leaves the cursor where it is: both C01 text setters agree -/
theorem delete_01_eq (b : C01.Buf) (n : Nat) (h : b.cur < b.text.length) :
    (C01.delete b n).1 = ⟨b.text.take b.cur ++ b.text.drop (b.cur + (b.after.take n).length), b.cur⟩ := by
  simp only [C01.delete, h, if_true, C01.setText]
  congr 1
  simp [C01.Buf.after]; omega

/-- buffer.py::Buffer.delete — `C01.delete` vs `C05.delete` (count ≥ 0 in both; C05 does not keep the
    returned string) -/
theorem delete_05 (b : C05.Buf) (n : Nat) (hi : b.idx < b.lines.length) (hr : b.readOnly = false) :
    p05 (C05.delete b n).1 = (C01.delete (p05 b) n).1 ∧ (C05.delete b n).2 = .ok := by
  by_cases h : b.cur < b.text.length
  · have h' : (p05 b).cur < (p05 b).text.length := h
    rw [delete_01_eq _ _ h']
    simp only [C05.delete, h, if_true]
    have hlen : ¬ b.cur > (b.text.take b.cur ++ b.text.drop (b.cur + (b.after.take n).length)).length := by
      simp [C05.Buf.after]; omega
    simp only [C05.setText, hlen, if_false, hr, Bool.false_eq_true]
    refine ⟨?_, by first | rfl | trivial⟩
    show C01.Buf.mk _ _ = _
    rw [c05_wt_text _ _ _ hi, c05_wt_cur]
    rfl
  · have h' : ¬ (p05 b).cur < (p05 b).text.length := h
    simp [C05.delete, C01.delete, h, h']

theorem sliceTo_eq (l : Text) (count : Int) : sliceTo l count = l.take (C09.sliceToLen l.length count) := by
  simp only [sliceTo, slice, normIdx, C09.sliceToLen, List.drop_zero]
  congr 1
  split <;> omega

/-- buffer.py::Buffer.delete — `C01.deleteI` (any integer count, Python slice wrap-around) vs
    `C09.delete`, all inputs, new buffer AND returned text -/
theorem delete_09 (b : C09.Buf) (count : Int) :
    ((p09 (C09.delete b count).1), (C09.delete b count).2) = C01.deleteI (p09 b) count := by
  by_cases h : b.cur < b.text.length
  · simp only [C09.delete, C01.deleteI, h, if_true, sliceTo_eq, C01.setText, p09, C09.Buf.after, C01.Buf.after,
      C09.Buf.before]
    congr 1
    congr 1
    simp; omega
  · have h' : ¬ (p09 b).cur < (p09 b).text.length := h
    simp [C09.delete, C01.deleteI, h, h']
/-- `C01.delete` is `C01.deleteI` at a non-negative count -/
theorem delete_01I (b : C01.Buf) (n : Nat) : C01.deleteI b (n : Int) = C01.delete b n := by
  simp only [C01.deleteI, C01.delete, sliceTo_eq, C09.sliceToLen]
  have : ¬ (n : Int) < 0 := by omega
  simp only [this, if_false, Int.toNat_natCast, ← List.take_eq_take_min]
theorem setTextRO_false_eq (b : C01.Buf) (t : Text) (h : b.cur ≤ t.length) :
    (C01.setTextRO false b t).1 = ⟨t, b.cur⟩ := by
  have : ¬ b.cur > t.length := by omega
  simp [C01.setTextRO, this]
/-- buffer.py::Buffer.delete — `C01.delete` vs `C15.delete` (count ≥ 0), all inputs -/
theorem delete_15 (cfg : C15.Config) (s : C15.St) (n : Nat) :
    p15 (C15.delete cfg s n) = (C01.delete (p15 s) n).1 := by
  by_cases h : s.cur < s.text.length
  · have h' : (p15 s).cur < (p15 s).text.length := h
    rw [delete_01_eq _ _ h']
    simp only [C15.delete, h, if_true, setText_15]
    have hlen : (p15 s).cur ≤ (s.text.take s.cur ++ s.text.drop (s.cur + ((s.text.drop s.cur).take n).length)).length := by
      simp [p15]; omega
    rw [setTextRO_false_eq _ _ hlen]
    simp [p15, C01.Buf.after]
  · have h' : ¬ (p15 s).cur < (p15 s).text.length := h
    simp [C15.delete, C01.delete, h, h']

/-! ### `Buffer.delete_before_cursor(count)` -/

/-- buffer.py::Buffer.delete_before_cursor — `C01.deleteBefore` vs `C09.deleteBefore`: the same
    definition (new buffer and returned text), all inputs -/
theorem deleteBefore_09 (b : C09.Buf) (n : Nat) :
    ((p09 (C09.deleteBefore b n).1), (C09.deleteBefore b n).2) = C01.deleteBefore (p09 b) n := by
  by_cases h : 0 < b.cur <;> simp [C09.deleteBefore, C01.deleteBefore, p09, h]

/-- buffer.py::Buffer.delete_before_cursor — `C01.deleteBefore` vs `C05.deleteBefore` (writable buffer,
    invariant; C05 does not keep the returned string) -/
theorem deleteBefore_05 (b : C05.Buf) (n : Nat) (hi : b.idx < b.lines.length) (hr : b.readOnly = false)
    (hw : b.cur ≤ b.text.length) :
    p05 (C05.deleteBefore b n).1 = (C01.deleteBefore (p05 b) n).1 ∧ (C05.deleteBefore b n).2 = .ok := by
  by_cases h : 0 < b.cur
  · have h' : 0 < (p05 b).cur := h
    simp only [C05.deleteBefore, C01.deleteBefore, h, h', if_true]
    have hc : ((b.cur : Int) - (((b.text.take b.cur).drop (b.cur - min n b.cur)).length : Nat)) ≤
        (((b.text.take (b.cur - min n b.cur) ++ b.text.drop b.cur).length : Nat) : Int) := by
      simp; omega
    have key := c05_sd_ok b _ _ hi hr hc
    refine ⟨?_, key.2⟩
    rw [key.1]
    simp only [p05]
    congr 1
    simp
  · have h' : ¬ 0 < (p05 b).cur := h
    simp [C05.deleteBefore, C01.deleteBefore, h, h']
/-- the excluded region of `deleteBefore_05`, on a witness -/
theorem deleteBefore_05_outside_disagree :
    (C05.deleteBefore ⟨[['a', 'b']], 0, 5, none, [], [], [], false, none, false, [], none, none⟩ 4).2 = .assertion ∧
    (C01.deleteBefore ⟨['a', 'b'], 5⟩ 4).1 = ⟨['a'], 4⟩ := by decide

/-- buffer.py::Buffer.delete_before_cursor — `C01.deleteBefore` vs `C14.deleteBefore` (invariant: C14
    computes the new cursor as `cur - count`, the code and C01 as `cur - len(deleted)`) -/
theorem deleteBefore_14 (s : C14.St) (n : Nat) (hi : s.idx < s.work.length) (hw : s.cur ≤ s.text.length) :
    p14 (C14.deleteBefore s n) = (C01.deleteBefore (p14 s) n).1 := by
  by_cases h : 0 < s.cur
  · have h' : 0 < (p14 s).cur := h
    rw [C14.deleteBefore, C01.deleteBefore, if_pos h, if_pos h']
    rw [c14_sd _ _ _ hi]
    simp only [p14]
    congr 1
    simp only [List.length_drop, List.length_take]
    omega
  · have h' : ¬ 0 < (p14 s).cur := h
    simp [C14.deleteBefore, C01.deleteBefore, h, h']
/-- outside the invariant `C14.deleteBefore` and `C01.deleteBefore` differ (cursor 5 in a 2-character
    text, count 4: the code removes `text[1:5]` = 1 character and moves the cursor by 1) -/
theorem deleteBefore_14_outside_disagree :
    p14 (C14.deleteBefore { C14.St.fresh [] false false with work := [['a', 'b']], cur := 5 } 4)
      ≠ (C01.deleteBefore ⟨['a', 'b'], 5⟩ 4).1 := by decide

/-- buffer.py::Buffer.delete_before_cursor — `C01.deleteBefore` vs `C15.deleteBefore`, all inputs -/
theorem deleteBefore_15 (cfg : C15.Config) (s : C15.St) (n : Nat) :
    p15 (C15.deleteBefore cfg s n) = (C01.deleteBefore (p15 s) n).1 := by
  by_cases h : 0 < s.cur
  · have h' : 0 < (p15 s).cur := h
    rw [C15.deleteBefore, C01.deleteBefore, if_pos h, if_pos h']
    rw [c15_sd]
    simp only [p15]
  · have h' : ¬ 0 < (p15 s).cur := h
    simp [C15.deleteBefore, C01.deleteBefore, h, h']

/-! ### `Buffer.newline(copy_margin)` -/

theorem lineBefore_14 (s : C14.St) : C14.lineBefore s.text s.cur = C01.lineBefore (p14 s) := rfl
theorem lineAfter_14 (s : C14.St) : C14.lineAfter s.text s.cur = C01.lineAfter (p14 s) := rfl

/-- buffer.py::Buffer.newline — `C01.newline` vs `C14.insertText s (C14.newlineData …)` (the form in
    which C14's key level calls it) -/
theorem newline_14 (isSp : Char → Bool) (s : C14.St) (copy : Bool) (hi : s.idx < s.work.length)
    (hw : s.cur ≤ s.text.length) :
    p14 (C14.insertText s (C14.newlineData isSp s copy)) = C01.newline isSp (p14 s) copy := by
  rw [insertText_14 s _ hi hw]
  cases copy <;>
    simp [C01.newline, C14.newlineData, C14.leadingWs, C01.leadingWs, C14.currentLine, C01.currentLine,
      lineBefore_14, lineAfter_14]

end Ptk.AgreeBuf
